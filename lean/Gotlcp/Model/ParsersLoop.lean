/-
C09 (b), (c) — the receive loops of the stream stack (tlcp/conn.go), as step functions over an
explicit connection state, defined by WELL-FOUNDED recursion:

  `fill`            Conn.readFromUntil + atLeastReader + bytes.Buffer.ReadFrom   (on the bytes still on the wire)
  `step`            one pass through Conn.readRecordOrCCS (no recursion)
  `readRecord`      readRecordOrCCS + retryReadRecord                           (on the retry budget)
  `readUntil`       the two `for c.hand.Len() < … { c.readRecord() }` loops      (on the remaining input)
  `readHandshake`   Conn.readHandshake
  `readApp`         the `for c.input.Len() == 0 { c.readRecord() }` loop of Conn.Read  (on the remaining input)

Each recursive call is guarded by `if h : measure decreases then recurse else stuck`; Lean's
termination checker accepts the definitions because of the guard, and `Props.C09.C09_progress`
proves that the `stuck` branch is unreachable: every iteration consumes at least one record
header of input or returns, and `retryCount` never passes `maxUselessRecords`.

The transport is a finite byte string `wire` (everything the peer will ever send, then EOF)
cut into reads by an arbitrary segmentation `seg` (size of the next read as a function of the
number of bytes still on the wire, clamped to `1 … remaining`).  Record decryption and message
unmarshalling are inputs (`Lib`).  Core Lean only.
-/
import Gotlcp.Model.Parsers

set_option linter.unusedVariables false

namespace Gotlcp.Model.ParsersLoop
open Gotlcp.Model.Parsers

/-- constants of tlcp/common.go and the repair state of the source -/
structure Limits where
  hdr : Nat            -- recordHeaderLen
  maxCiphertext : Nat
  maxPlaintext : Nat
  maxHandshake : Nat
  maxUseless : Nat     -- maxUselessRecords
  /-- readRecordOrCCS refuses handshake records once the handshake is complete (F8 repaired) -/
  refusePostHs : Bool
  deriving Repr, DecidableEq

/-- inputs: transport segmentation, record decryption, message unmarshalling -/
structure Lib where
  /-- size of the next transport read when `m` bytes are still on the wire -/
  seg : Nat → Nat
  /-- `halfConn.decrypt` of the `seq`-th record under active protection: `none` = bad_record_mac -/
  dec : Nat → Bytes → Option Bytes
  /-- `m.unmarshal(data)` -/
  unmarshalOk : Bytes → Bool

structure St where
  wire : Bytes        -- not yet read from the transport
  raw : Bytes         -- c.rawInput
  hand : Bytes        -- c.hand
  retry : Nat         -- c.retryCount
  input : Nat         -- c.input.Len()
  haveVers : Bool
  vers : Nat
  complete : Bool     -- handshakeComplete()
  prot : Bool         -- c.in.cipher != nil
  nextCipher : Bool   -- c.in.nextCipher != nil
  seq : Nat           -- records decrypted under the current cipher state (hc.seq)
  inErr : Bool        -- c.in.err != nil
  deriving Repr, DecidableEq

/-- a fresh connection that will receive `wire` -/
def St.init (wire : Bytes) : St :=
  { wire := wire, raw := [], hand := [], retry := 0, input := 0, haveVers := false, vers := 0,
    complete := false, prot := false, nextCipher := false, seq := 0, inErr := false }

/-- bytes the endpoint has not consumed yet -/
def St.total (s : St) : Nat := s.wire.length + s.raw.length

/-- size of the next read: `seg`, clamped to `1 … remaining` -/
def readSize (lib : Lib) (wire : Bytes) : Nat :=
  let k := lib.seg wire.length
  if k = 0 then 1 else if k > wire.length then wire.length else k

/-- `readFromUntil(c.conn, n)`: reads until `rawInput` holds `n` bytes; `false` = the transport
ended first (EOF / unexpected EOF) -/
def fill (lib : Lib) (wire raw : Bytes) (n : Nat) : Bytes × Bytes × Bool :=
  if raw.length ≥ n then (wire, raw, true)
  else if wire.length = 0 then (wire, raw, false)
  else
    let k := readSize lib wire
    if hk : (wire.drop k).length < wire.length then fill lib (wire.drop k) (raw ++ wire.take k) n
    else (wire, raw, false)
termination_by wire.length
decreasing_by
  simp only [List.length_drop] at hk
  simp only [List.length_drop]
  exact hk

def setErr (s : St) : St := { s with inErr := true }

/-- result of one pass through readRecordOrCCS -/
inductive Pass
  | done (r : Outcome Unit)
  | retry            -- the pass ends in `return c.retryReadRecord(…)`
  deriving Repr, DecidableEq

/-- what the first half of readRecordOrCCS produced -/
inductive Fetched
  | fail (p : Pass)
  | got (h : RecHdr) (record : Bytes)
  deriving Repr

/-- first half of `Conn.readRecordOrCCS`: header, checks on the header, payload,
`record := c.rawInput.Next(recordHeaderLen + n)` -/
def fetch (L : Limits) (lib : Lib) (s : St) : St × Fetched :=
  let f1 := fill lib s.wire s.raw L.hdr
  let s := { s with wire := f1.1, raw := f1.2.1 }
  if !f1.2.2 then (setErr s, .fail (.done (.err .short))) else
  match headerT L.hdr s.raw with
  | .panic => (s, .fail (.done .panic))
  | .err e => (setErr s, .fail (.done (.err e)))
  | .ok h =>
  if !s.complete && h.typ == 0x80 then (setErr s, .fail (.done (.err .first))) else
  if s.haveVers && h.vers != s.vers then (setErr s, .fail (.done (.err .version))) else
  if !s.haveVers && ((h.typ != 21 && h.typ != 22) || h.vers ≥ 0x1000) then (setErr s, .fail (.done (.err .first))) else
  if h.n > L.maxCiphertext then (setErr s, .fail (.done (.err .overflow))) else
  let f2 := fill lib s.wire s.raw (L.hdr + h.n)
  let s := { s with wire := f2.1, raw := f2.2.1 }
  if !f2.2.2 then (setErr s, .fail (.done (.err .short))) else
  ({ s with raw := s.raw.drop (L.hdr + h.n) }, .got h (s.raw.take (L.hdr + h.n)))

/-- second half of `Conn.readRecordOrCCS`: what is done with the plaintext `data` of a record
of type `typ` (the buffers of the transport are not touched any more) -/
def dispatch (L : Limits) (s : St) (expectCCS : Bool) (typ : UInt8) (data : Bytes) : St × Pass :=
  if data.length > L.maxPlaintext then (setErr s, .done (.err .overflow)) else
  if !s.prot && typ == 23 then (setErr s, .done (.err .unexpected)) else
  if typ == 21 then
    if data.length ≠ 2 then (setErr s, .done (.err .unexpected)) else
    match idx data 1, idx data 0 with
    | .ok d1, .ok d0 =>
      if d1 == 0 then (setErr s, .done (.err .short))          -- close_notify: io.EOF
      else if d0 == 1 then (s, .retry)                          -- warning: drop and retry
      else (setErr s, .done (.err .unexpected))                 -- fatal / unknown level
    | _, _ => (s, .done .panic)
  else if typ == 20 then
    if data.length ≠ 1 then (setErr s, .done (.err .unexpected)) else
    match idx data 0 with
    | .ok d0 =>
      if d0 != 1 then (setErr s, .done (.err .unexpected))
      else if s.hand.length > 0 then (setErr s, .done (.err .unexpected))
      else if !expectCCS then (setErr s, .done (.err .unexpected))
      else if !s.nextCipher then (setErr s, .done (.err .unexpected))
      else ({ s with prot := true, nextCipher := false, seq := 0 }, .done (.ok ()))
    | _ => (s, .done .panic)
  else if typ == 23 then
    if !s.complete || expectCCS then (setErr { s with retry := if data.length > 0 then 0 else s.retry }, .done (.err .unexpected))
    else if data.length == 0 then (s, .retry)
    else ({ s with retry := 0, input := data.length }, .done (.ok ()))
  else if typ == 22 then
    let s := { s with retry := if data.length > 0 then 0 else s.retry }
    if data.length == 0 || expectCCS then (setErr s, .done (.err .unexpected))
    else if s.complete && L.refusePostHs then (setErr s, .done (.err .unexpected))   -- no_renegotiation
    else ({ s with hand := s.hand ++ data }, .done (.ok ()))
  else (setErr { s with retry := if data.length > 0 then 0 else s.retry }, .done (.err .unexpected))

/-- one pass through `Conn.readRecordOrCCS(expectCCS)` up to (not including) a retry -/
def step (L : Limits) (lib : Lib) (s : St) (expectCCS : Bool) : St × Pass :=
  if s.inErr then (s, .done (.err .unexpected)) else
  if s.input ≠ 0 then (setErr s, .done (.err .unexpected)) else
  match fetch L lib s with
  | (s1, .fail p) => (s1, p)
  | (s1, .got h record) =>
    let plain : Option Bytes := if s1.prot then lib.dec s1.seq record else some (record.drop L.hdr)
    match plain with
    | none => (setErr s1, .done (.err .badmac))
    | some data => dispatch L { s1 with seq := s1.seq + 1 } expectCCS h.typ data

/-- `readRecordOrCCS` with `retryReadRecord`: recursion on the retry budget -/
def readRecord (L : Limits) (lib : Lib) (s : St) (expectCCS : Bool) : St × Outcome Unit :=
  match step L lib s expectCCS with
  | (s1, .done r) => (s1, r)
  | (s1, .retry) =>
    let s2 := { s1 with retry := s1.retry + 1 }
    if s2.retry > L.maxUseless then (setErr s2, .err .unexpected)     -- "too many ignored records"
    else if h : L.maxUseless + 1 - s2.retry < L.maxUseless + 1 - s.retry then readRecord L lib s2 expectCCS
    else (s2, .err .stuck)                                             -- stuck: unreachable (C09_progress)
termination_by L.maxUseless + 1 - s.retry
decreasing_by
  simp only [s2] at h
  omega

/-- `for c.hand.Len() < need { if err := c.readRecord(); err != nil { return err } }`:
recursion on the remaining input -/
def readUntil (L : Limits) (lib : Lib) (s : St) (need : Nat) : St × Outcome Unit :=
  if s.hand.length ≥ need then (s, .ok ()) else
  match readRecord L lib s false with
  | (s1, .ok ()) =>
    if _h : s1.total < s.total then readUntil L lib s1 need
    else (s1, .err .stuck)                                             -- stuck: unreachable (C09_progress)
  | (s1, r) => (s1, r)
termination_by s.total

def knownType (t : UInt8) : Bool :=
  t == 1 || t == 2 || t == 11 || t == 12 || t == 13 || t == 14 || t == 16 || t == 15 || t == 20

/-- the body length announced by the first four bytes of the handshake buffer -/
def announced (hand : Bytes) : Nat :=
  match hand with
  | _ :: b1 :: b2 :: b3 :: _ => be24 b1 b2 b3
  | _ => 0

/-- `Conn.readHandshake` once the 4-byte header is buffered and the announced length is
acceptable: wait for the body, cut the message out, check its type, unmarshal -/
def finishHandshake (L : Limits) (lib : Lib) (s1 : St) : St × Outcome (UInt8 × Nat) :=
  match readUntil L lib s1 (4 + announced s1.hand) with
  | (s2, .err e) => (s2, .err e)
  | (s2, .panic) => (s2, .panic)
  | (s2, .ok ()) =>
  match frameT L.maxHandshake s2.hand with
  | .ok (.msg t data rest) =>
    let s3 := { s2 with hand := rest }
    if !knownType t then (setErr s3, .err .unexpected)
    else if !lib.unmarshalOk data then (setErr s3, .err .unexpected)
    else (s3, .ok (t, data.length))
  | .ok .needMore => (s2, .err .bounds)     -- unreachable: the loop above returned with enough bytes
  | .err e => (setErr s2, .err e)
  | .panic => (s2, .panic)

/-- `Conn.readHandshake`: returns the type and total length of the message -/
def readHandshake (L : Limits) (lib : Lib) (s : St) : St × Outcome (UInt8 × Nat) :=
  match readUntil L lib s 4 with
  | (s1, .err e) => (s1, .err e)
  | (s1, .panic) => (s1, .panic)
  | (s1, .ok ()) =>
  match frameT L.maxHandshake s1.hand with
  | .panic => (s1, .panic)
  | .err e => (setErr s1, .err e)     -- "handshake message of length … exceeds maximum"
  | .ok _ => finishHandshake L lib s1

/-- the tail of `Conn.Read` once application data is available: the application takes all of
it (`c.input.Read(b)` with a large buffer); if the next buffered record is an alert it is read
at once (so that close_notify is reported together with the data) -/
def takeInput (L : Limits) (lib : Lib) (s : St) : St × Outcome Nat :=
  let n := s.input
  let s := { s with input := 0 }
  match s.raw with
  | t :: _ =>
    if n ≠ 0 && t == 21 then
      match readRecord L lib s false with
      | (s1, .ok ()) => (s1, .ok n)
      | (s1, .err e) => (s1, .err e)
      | (s1, .panic) => (s1, .panic)
    else (s, .ok n)
  | [] => (s, .ok n)

/-- the loop of `Conn.Read`: `for c.input.Len() == 0 { c.readRecord() }`: recursion on the
remaining input -/
def readApp (L : Limits) (lib : Lib) (s : St) : St × Outcome Nat :=
  if s.input ≠ 0 then takeInput L lib s else
  match readRecord L lib s false with
  | (s1, .ok ()) =>
    if s1.input ≠ 0 then takeInput L lib s1
    else if _h : s1.total < s.total then readApp L lib s1
    else (s1, .err .stuck)                                             -- stuck: unreachable (C09_progress)
  | (s1, .err e) => (s1, .err e)
  | (s1, .panic) => (s1, .panic)
termination_by s.total

/-- what the handshake / the application may do with the receive side of a connection -/
inductive Op
  | hs         -- c.readHandshake
  | ccs        -- c.readChangeCipherSpec (after establishKeys: a next cipher is prepared)
  | finish     -- the handshake completes (handshakeStatus = 1)
  | read       -- Conn.Read (only does anything once the handshake is complete)
  deriving Repr, DecidableEq

def apply (L : Limits) (lib : Lib) (s : St) : Op → St
  | .hs => (readHandshake L lib s).1
  | .ccs => (readRecord L lib { s with nextCipher := true } true).1
  | .finish => { s with complete := true }
  | .read => if s.complete then (readApp L lib s).1 else s

def run (L : Limits) (lib : Lib) (s : St) : List Op → St
  | [] => s
  | op :: ops => run L lib (apply L lib s op) ops

end Gotlcp.Model.ParsersLoop

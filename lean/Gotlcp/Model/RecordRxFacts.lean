/-
The parameters of the receiving-side stream model as regenerated from the Go source.
-/
import Gotlcp.Model.RecordRxStream
import Gotlcp.Model.RecordRxHandshake
import Gotlcp.Model.RecordDuplex
import Gotlcp.Generated.Facts

namespace Gotlcp.Model.RecordRx

def factsRx : Params where
  recordHeaderLen := Facts.tlcp.recordHeaderLen
  maxPlaintext := Facts.tlcp.maxPlaintext
  maxCiphertext := Facts.tlcp.maxCiphertext
  maxUselessRecords := Facts.tlcp.maxUselessRecords
  version := Facts.tlcp.VersionTLCP
  typeAlert := Facts.tlcp.recordTypeAlert
  typeAppData := Facts.tlcp.recordTypeApplicationData
  typeHandshake := Facts.tlcp.recordTypeHandshake
  typeCCS := Facts.tlcp.recordTypeChangeCipherSpec
  alertCloseNotify := Facts.tlcp.alertCloseNotify
  levelWarning := Facts.tlcp.alertLevelWarning
  levelError := Facts.tlcp.alertLevelError
  eofShortOnlyWhenShort := Facts.tlcp.rxAtLeastShortOnlyWhenShort

def factsHs : HsParams where
  typeFinished := Facts.tlcp.typeFinished
  maxHandshake := Facts.tlcp.maxHandshake

/-- which deadline setters the library calls on its own (for `CloseWrite` / `closeNotify`) -/
def factsDuplex : RecordDuplex.Params where
  deadlineCalls := Facts.tlcp.rxDeadlineCalls

end Gotlcp.Model.RecordRx

/-
Binds the parameters of `Gotlcp.Model.ClientAuthn` to the facts regenerated from the Go
source (`harness/cmd/extract/facts_clientauthn.go`).  Shared by the theorems and the oracle.
-/
import Gotlcp.Model.ClientAuthn
import Gotlcp.Generated.Facts

namespace Gotlcp.Model.ClientAuthn

inductive Stack | tlcp | dtlcp
  deriving DecidableEq, Repr

def paramsOf : Stack → Params
  | .tlcp =>
    { skxMandatory := Facts.tlcp.caSkxMandatory, minCerts := Facts.tlcp.caMinCerts,
      verifiedIdx := Facts.tlcp.caVerifiedIdx, fullCallbacks := Facts.tlcp.caFullCallbacks, resumeReverify := Facts.tlcp.caResumeReverifies,
      resumeMinCerts := Facts.tlcp.caResumeMinCerts, resumeIdx := Facts.tlcp.caResumeVerifiedIdx,
      fullSteps := Facts.tlcp.caFullSteps, resumeSteps := Facts.tlcp.caResumeSteps,
      evictWipes := Facts.tlcp.caEvictWipesSecret, evictDrops := Facts.tlcp.caEvictDropsSecret,
      loadClones := Facts.tlcp.caLoadSessionClones, secretGuard := Facts.tlcp.caResumeSecretGuard }
  | .dtlcp =>
    { skxMandatory := Facts.dtlcp.caSkxMandatory, minCerts := Facts.dtlcp.caMinCerts,
      verifiedIdx := Facts.dtlcp.caVerifiedIdx, fullCallbacks := Facts.dtlcp.caFullCallbacks, resumeReverify := Facts.dtlcp.caResumeReverifies,
      resumeMinCerts := Facts.dtlcp.caResumeMinCerts, resumeIdx := Facts.dtlcp.caResumeVerifiedIdx,
      fullSteps := Facts.dtlcp.caFullSteps, resumeSteps := Facts.dtlcp.caResumeSteps,
      evictWipes := Facts.dtlcp.caEvictWipesSecret, evictDrops := Facts.dtlcp.caEvictDropsSecret,
      loadClones := Facts.dtlcp.caLoadSessionClones, secretGuard := Facts.dtlcp.caResumeSecretGuard }

def pmsParamsOf : Stack → PmsParams
  | .tlcp => { len := Facts.tlcp.caPremasterLen, randFrom := Facts.tlcp.caPremasterRandFrom,
               readFull := Facts.tlcp.caPremasterReadFull }
  | .dtlcp => { len := Facts.dtlcp.caPremasterLen, randFrom := Facts.dtlcp.caPremasterRandFrom,
                readFull := Facts.dtlcp.caPremasterReadFull }

end Gotlcp.Model.ClientAuthn

/-
Model of session resumption in `tlcp/handshake_client.go`, `tlcp/handshake_server.go` (the
dtlcp copies have the same structure) over *histories of connections*.

World  = the client's session cache (the C11 model `Gotlcp.Model.LRU`, whose `zeroed` list is
         the set of session objects wiped by an eviction), one cache per server, a heap of
         session objects (caches hold pointers), and the positions reached in the sources of
         session identifiers and of secrets.
Step   = one connection `Conn`: harness actions on the caches before it (evictions by unrelated
         Puts, a forged or stale session under the destination key, loss of the server's
         cache), the two configurations (cipher suites; the server's client-authentication policy
         `Config.ClientAuth`, the certificate the client is configured with), and a
         man-in-the-middle fault.

Mirrored Go functions (branch by branch, including their defects):
  client: makeClientHello (suite offer), loadSession (lookup by DESTINATION only),
          clientHandshake's deferred cleanup (`session != nil && err != nil`),
          processServerHello / serverResumedSession, handshake() (the ORDER of createNewSession
          and readFinished is the parameter `storeAfterFinished`, fed from the extracted call
          order), createNewSession (ONE object under two keys unless `perKeyObject`);
  server: checkForResumption (including its two client-authentication guards), doResumeHandshake
          (processCertsFromClient on the certificates recorded in the session — the only place
          that sets the server's peer identity on this path — then VerifyConnection),
          pickCipherSuite, doFullHandshake (fresh identifier from `Config.rand`; CertificateRequest
          by policy, processCertsFromClient on what the client sent), handshake()
          (createSessionState after the client's Finished was verified, before the server's is
          sent), createSessionState (records `hs.peerCertificates`).

Crypto is an input: a Finished message verifies iff both sides hold the same master secret and
no man in the middle damaged the flight; a full handshake between these honest endpoints
authenticates the server it is run with (C02's subject) and produces a fresh master secret; a
client certificate is an identity (a natural number) that parses, chains to the server's
ClientCAs and proves possession (C07's subject) — what resumption adds is WHICH identity the
server reports, under which policy, and whether its callbacks see it.
Identifiers come from `src : Nat → Nat` (the trusted random source `Config.rand`); secrets
and randoms are the successive naturals. An identifier is an OPAQUE value (the wire type is
`opaque SessionID<0..32>`): it has no length here, because no step of either endpoint reads
anything but its equality with another identifier (cache key, echo) — on the server this is the
regenerated fact `resOfferedIdReaders` (`C10_facts_opaque_id`). A forged / foreign identifier
(`Pre.forge`) therefore stands for identifiers of every length 1..32; the correspondence offers
all of them.

Core Lean only: linked into the oracle executable.
-/
import Gotlcp.Model.LRU

namespace Gotlcp.Model.Resumption
open Gotlcp.Model

abbrev ObjId := LRU.ObjId

/-- the fields of a `SessionState` that resumption reads -/
structure Session where
  id    : Nat
  vers  : Nat
  suite : Nat
  ms    : Nat
  /-- recorded peer certificates: the identity of the server (client side); `none` = no certificates -/
  peer  : Option Nat
  /-- recorded peer certificates of a SERVER-side record: the identity of the client certificate
  the server received in the original handshake (`hs.peerCertificates`); `none` = no certificates -/
  cpeer : Option Nat := none
deriving Repr, DecidableEq, Inhabited

/-- what differs between trees and is fed from regenerated facts -/
structure Params where
  /-- `Put(k, nil)` on an absent key returns (F17 repaired) -/
  strictDelete : Bool
  /-- createNewSession stores an object of its own under each key (F5 repaired) -/
  perKeyObject : Bool
  /-- the client calls createNewSession after readFinished (F16 repaired) -/
  storeAfterFinished : Bool
  /-- loadSession offers a session only if its recorded certificates verify under the current
  configuration (F13 repaired); in this model every real server identity verifies and a
  session without certificates does not -/
  verifyOnLoad : Bool
  /-- cipherSuitesPreferenceOrder -/
  prefOrder : List Nat
  /-- suites that need a client key pair (the client of this model has none) -/
  ecdhe : List Nat
  version : Nat
  /-- `requiresClientCert`: the ClientAuth policies under which a handshake without a client
  certificate is refused -/
  requires : List Nat := [2, 4, 5]
  /-- the first policy that sends a CertificateRequest (`authPolice >= RequestClientCert`) -/
  requestFrom : Nat := 1
  /-- the first policy that verifies a presented chain (`ClientAuth >= VerifyClientCertIfGiven`) -/
  verifyFrom : Nat := 3
deriving Repr

inductive Pre where
  | junk (k : Nat)     -- k Puts of unrelated fresh sessions under fresh keys
  | forge (certs : Bool)  -- Put(dst, session with an identifier no server issued, of any length 1..32 [+ the server's certificates])
  | stale (d : Nat)    -- Put(dst, copy of what Get(destination d) returns, unless it is wiped)
  | dropServer         -- the server's cache is replaced by an empty one
deriving Repr, DecidableEq

inductive Fault where
  | none
  | serverFin          -- the server's CCS+Finished flight is damaged in transit
  | clientFin          -- the client's CCS+Finished flight is damaged in transit
deriving Repr, DecidableEq

structure Conn where
  pre     : List Pre
  dst     : Nat
  server  : Nat
  csuites : List Nat
  ssuites : List Nat
  fault   : Fault
  /-- the server's `Config.ClientAuth` (position in the ClientAuthType enumeration: 0 NoClientCert,
  1 RequestClientCert, 2 RequireAnyClientCert, 3 VerifyClientCertIfGiven, 4 RequireAndVerifyClientCert,
  5 RequireAndVerifyAnyKeyUsageClientCert) -/
  auth    : Nat := 0
  /-- the (single, authentication) certificate the client is configured with: its identity;
  `none` = `Config.Certificates` is empty. X.509 is an input: every client identity of this
  model chains to the server's ClientCAs and is acceptable to its CertificateRequest. -/
  ccert   : Option Nat := none
deriving Repr

structure World where
  client  : LRU.State
  servers : Nat → LRU.State
  heap    : ObjId → Session
  nObj    : Nat
  nId     : Nat
  nSec    : Nat
  nJunk   : Nat

/-- per connection: what the endpoints report and what is on the wire -/
structure Obs where
  cOk      : Bool
  sOk      : Bool
  cRes     : Bool            -- client's DidResume (meaningful when `cOk`)
  sRes     : Bool            -- server's DidResume (meaningful when `sOk`)
  offered  : Option Nat      -- session id in the ClientHello
  returned : Option Nat      -- session id in the ServerHello (none: no ServerHello was sent)
  suite    : Option Nat      -- negotiated suite (when an endpoint completed)
  peer     : Option Nat      -- server identity seen by the client (when `cOk`)
  ms       : Option Nat      -- master secret in use at the client (when `cOk`)
  rnd      : Nat × Nat       -- client random, server random
  full     : Option Nat      -- what a full handshake of the two configurations negotiates (none: it fails)
  /-- the SERVER's view of its peer (meaningful when `sOk`): identity of `ConnectionState().PeerCertificates`
  (`none` = no certificates), whether `VerifiedChains` is non-empty, and what the server's two
  callbacks were run on (`none` = not called; `some x` = called with peer certificates `x`) -/
  speer    : Option Nat := none
  sver     : Bool := false
  vpc      : Option (Option Nat) := none   -- Config.VerifyPeerCertificate
  vc       : Option (Option Nat) := none   -- Config.VerifyConnection
deriving Repr, DecidableEq

/-- cache keys: the destination address, the hex form of a session identifier, the harness's
unrelated keys. Only their distinctness matters; unary notation keeps injectivity evident. -/
def dstKey (d : Nat) : String := String.ofList ('d' :: List.replicate d '.')
def idKey (i : Nat) : String := String.ofList ('i' :: List.replicate i '.')
def junkKey (n : Nat) : String := String.ofList ('j' :: List.replicate n '.')

def setServer (f : Nat → LRU.State) (i : Nat) (s : LRU.State) : Nat → LRU.State :=
  fun j => if j = i then s else f j

def alloc (w : World) (s : Session) : World × ObjId :=
  ({ w with heap := fun o => if o = w.nObj then s else w.heap o, nObj := w.nObj + 1 }, w.nObj)

def cput (p : Params) (w : World) (k : String) (v : Option ObjId) : World :=
  { w with client := LRU.put p.strictDelete w.client k v }

def sput (p : Params) (w : World) (srv : Nat) (k : String) (v : Option ObjId) : World :=
  { w with servers := setServer w.servers srv (LRU.put p.strictDelete (w.servers srv) k v) }

def init (defaultCap : Nat) (ccap scap : Int) : World :=
  { client := LRU.init defaultCap ccap, servers := fun _ => LRU.init defaultCap scap,
    heap := fun _ => default, nObj := 0, nId := 0, nSec := 0, nJunk := 0 }

/-! ### harness actions before a connection -/

/-- a session made up by the harness: fresh identifier, fresh secret, no certificates -/
def madeUp (p : Params) (src : Nat → Nat) (w : World) (suite : Nat) (peer : Option Nat) : World × Session :=
  ({ w with nId := w.nId + 1, nSec := w.nSec + 1 },
   { id := src w.nId, vers := p.version, suite := suite, ms := w.nSec, peer := peer })

def junkPuts (p : Params) (src : Nat → Nat) (suite : Nat) (w : World) : Nat → World
  | 0 => w
  | k + 1 =>
    let (w1, s) := madeUp p src w suite none
    let (w2, o) := alloc w1 s
    let w3 := cput p { w2 with nJunk := w2.nJunk + 1 } (junkKey w2.nJunk) (some o)
    junkPuts p src suite w3 k

def runPre (p : Params) (src : Nat → Nat) (c : Conn) (w : World) : Pre → World
  | .junk k => junkPuts p src (c.csuites.headD 0) w k
  | .forge certs =>
    let (w1, s) := madeUp p src w (c.csuites.headD 0) (if certs then some c.server else none)
    let (w2, o) := alloc w1 s
    cput p w2 (dstKey c.dst) (some o)
  | .stale d =>
    let (cl, out) := LRU.get w.client (dstKey d)
    let w1 := { w with client := cl }
    match out with
    | .got (some o) true =>
      if w1.client.zeroed.contains o then w1      -- the harness does not copy a wiped session
      else
        let (w2, o') := alloc w1 (w1.heap o)
        cput p w2 (dstKey c.dst) (some o')
    | _ => w1
  | .dropServer =>
    { w with servers := setServer w.servers c.server { cap := (w.servers c.server).cap, q := [], zeroed := [] } }

def runPres (p : Params) (src : Nat → Nat) (c : Conn) (w : World) : List Pre → World
  | [] => w
  | a :: as => runPres p src c (runPre p src c w a) as

/-! ### one connection -/

/-- makeClientHello: the configured suites in preference order; ECDHE suites need a client
authentication AND encryption key pair (the client of this model has at most one certificate) -/
def offer (p : Params) (cs : List Nat) : List Nat :=
  p.prefOrder.filter (fun s => cs.contains s && !p.ecdhe.contains s)

/-- server pickCipherSuite: first suite of the server's preference list that the client offered -/
def pickSuite (p : Params) (ss off : List Nat) : Option Nat :=
  (p.prefOrder.filter (fun s => ss.contains s)).find? (fun s => off.contains s)

/-- createNewSession: `Put(hex(sessionId), cs)`, `Put(dst, cs)` (one object) or, after the F5
repair, `Put(dst, cs.clone())` -/
def createNewSession (p : Params) (w : World) (d : Nat) (s : Session) : World :=
  let (w1, o1) := alloc w s
  let w2 := cput p w1 (idKey s.id) (some o1)
  if p.perKeyObject then
    let (w3, o2) := alloc w2 s
    cput p w3 (dstKey d) (some o2)
  else
    cput p w2 (dstKey d) (some o1)

/-- createSessionState: one `Put(hex(sessionId), cs)` -/
def createSessionState (p : Params) (w : World) (srv : Nat) (s : Session) : World :=
  let (w1, o) := alloc w s
  sput p w1 srv (idKey s.id) (some o)

/-- the deferred cleanup of clientHandshake: only a LOADED session is removed, on any error -/
def cleanup (p : Params) (w : World) (d : Nat) : Option ObjId → World
  | some o => cput p (cput p w (dstKey d) none) (idKey (w.heap o).id) none
  | none => w

/-- loadSession: `Get(dst)`; a nil state counts as a miss; (after the F13 repair) a session
whose recorded certificates do not verify is not used -/
def loadSession (p : Params) (w : World) (d : Nat) : World × Option ObjId :=
  let (cl, out) := LRU.get w.client (dstKey d)
  ({ w with client := cl },
   match out with
   | .got (some o) true => if p.verifyOnLoad && (w.heap o).peer.isNone then none else some o
   | _ => none)

/-! ### client authentication (the part of it that resumption touches) -/

/-- `requiresClientCert(ClientAuth)` -/
def requiresCert (p : Params) (a : Nat) : Bool := p.requires.contains a
/-- a CertificateRequest is sent (`authPolice >= RequestClientCert`) -/
def requestsCert (p : Params) (a : Nat) : Bool := decide (p.requestFrom ≤ a)
/-- a presented chain is verified (`ClientAuth >= VerifyClientCertIfGiven`) -/
def verifiesCert (p : Params) (a : Nat) : Bool := decide (p.verifyFrom ≤ a)

/-- processCertsFromClient: refuses an empty list under a requiring policy (every certificate of
this model parses, verifies and carries a supported key); on success it is the ONLY place that
sets `c.peerCertificates` (:= the list) and `c.verifiedChains`, and it runs
`Config.VerifyPeerCertificate` on the list -/
def certsOk (p : Params) (a : Nat) (certs : Option Nat) : Bool := !(certs.isNone && requiresCert p a)

/-- what the client puts into its Certificate message in a full handshake: its certificate when
the server asked for one -/
def sentCert (p : Params) (c : Conn) : Option Nat := if requestsCert p c.auth then c.ccert else none

/-- the server's view of its peer after processCertsFromClient(certs) and VerifyConnection;
`asked` = processCertsFromClient was run at all -/
def withPeer (p : Params) (a : Nat) (asked : Bool) (certs : Option Nat) (o : Obs) : Obs :=
  { o with speer := certs, sver := verifiesCert p a && certs.isSome,
           vpc := if asked then some certs else none, vc := some certs }

/-- checkForResumption: lookup by the offered identifier, then the two client-authentication
guards (the policy requires a certificate and the session has none; the session has one and the
policy is NoClientCert), then version, then "the client still offers the session's suite", then
"the server still enables it" -/
def checkForResumption (p : Params) (w : World) (c : Conn) (off : List Nat) :
    Option Nat → World × Option ObjId
  | none => (w, none)
  | some x =>
    let (sc, out) := LRU.get (w.servers c.server) (idKey x)
    let w1 := { w with servers := setServer w.servers c.server sc }
    match out with
    | .got (some o) true =>
      let t := w1.heap o
      if !(requiresCert p c.auth && t.cpeer.isNone) && !(t.cpeer.isSome && c.auth == 0) &&
          t.vers == p.version && off.contains t.suite && c.ssuites.contains t.suite then (w1, some o)
      else (w1, none)
    | _ => (w1, none)

/-- a full handshake in which the policy requires a certificate and the client has none to send -/
def certMissing (p : Params) (c : Conn) : Bool := !certsOk p c.auth (sentCert p c)

/-- the outcome of the two configurations WITHOUT any session cache (the control): the suite a
full handshake negotiates, `none` when it fails (no common suite, or a required client certificate
is missing) -/
def fullOutcome (p : Params) (c : Conn) : Option Nat :=
  if certMissing p c then none else pickSuite p c.ssuites (offer p c.csuites)

def failed (offered returned : Option Nat) (rnd : Nat × Nat) (full : Option Nat) : Obs :=
  { cOk := false, sOk := false, cRes := false, sRes := false, offered := offered, returned := returned,
    suite := none, peer := none, ms := none, rnd := rnd, full := full }

/-- the identifier the client puts into its ClientHello -/
def offeredId (w : World) (loaded : Option ObjId) : Option Nat := loaded.map (fun o => (w.heap o).id)

/-- the server found the offered session usable (`so`): doResumeHandshake on the server,
processServerHello / readFinished / sendFinished on the client -/
def resumeBranch (p : Params) (w : World) (c : Conn) (loaded : Option ObjId) (so : ObjId)
    (rnd : Nat × Nat) (full : Option Nat) : World × Obs :=
  let offered := offeredId w loaded
  -- doResumeHandshake: ServerHello echoes the identifier and carries the session's suite
  let t := w.heap so
  if (w.servers c.server).zeroed.contains so then
    -- "invalid master secret in session state" (a wiped object is never reachable: kept as a branch)
    (cleanup p w c.dst loaded, failed offered none rnd full)
  else
  match loaded with
  | none => (w, failed offered offered rnd full)        -- unreachable: the offer comes from `loaded`
  | some lo =>
    let s := w.heap lo
    -- processServerHello: serverResumedSession holds (same identifier); the three checks
    let checks := s.vers == p.version && s.suite == t.suite && !(w.client.zeroed.contains lo)
    -- doResumeHandshake re-processes the certificates recorded in the session under the current policy
    -- (processCertsFromClient; a refusal is an alert instead of the server's Finished);
    -- readFinished at the client: same master secret, flight not damaged
    if !checks || s.ms != t.ms || c.fault == .serverFin || !certsOk p c.auth t.cpeer then
      (cleanup p w c.dst loaded, failed offered offered rnd full)
    else
      -- client's Finished towards the server; the server's peer identity is the session's
      ( w,
        withPeer p c.auth true t.cpeer
        { cOk := true, sOk := c.fault != .clientFin, cRes := true, sRes := true, offered := offered,
          returned := offered, suite := some t.suite, peer := s.peer, ms := some s.ms, rnd := rnd, full := full })

/-- the server runs a full handshake with suite `su` (pickCipherSuite succeeded) -/
def fullBranch (p : Params) (src : Nat → Nat) (w : World) (c : Conn) (loaded : Option ObjId) (su : Nat)
    (rnd : Nat × Nat) (full : Option Nat) : World × Obs :=
  let offered := offeredId w loaded
  -- doFullHandshake: new identifier from Config.rand; new master secret
  let newId := src w.nId
  let msNew := w.nSec
  let w4 := { w with nId := w.nId + 1, nSec := w.nSec + 1 }
  if loaded.isSome && offered == some newId then
    -- the client takes the ServerHello for a resumption, the server runs a full handshake
    (cleanup p w4 c.dst loaded, failed offered (some newId) rnd full)
  else
    let cs : Session := { id := newId, vers := p.version, suite := su, ms := msNew, peer := some c.server }
    -- createSessionState records hs.peerCertificates = what processCertsFromClient accepted
    let ss : Session := { id := newId, vers := p.version, suite := su, ms := msNew, peer := none, cpeer := sentCert p c }
    -- a refused (missing) client certificate stops the server before it reads the client's Finished:
    -- for the caches and the results this is the `.clientFin` outcome
    match (if certMissing p c then Fault.clientFin else c.fault) with
    | .clientFin =>
      -- the server rejects the client's flight; the client learns it while waiting for the server's Finished
      let w5 := if p.storeAfterFinished then w4 else createNewSession p w4 c.dst cs
      (cleanup p w5 c.dst loaded, failed offered (some newId) rnd full)
    | .serverFin =>
      -- the server completes (session stored); the client rejects the damaged flight
      let w5 := createSessionState p w4 c.server ss
      let w6 := if p.storeAfterFinished then w5 else createNewSession p w5 c.dst cs
      ( cleanup p w6 c.dst loaded,
        withPeer p c.auth (requestsCert p c.auth) (sentCert p c)
        { failed offered (some newId) rnd full with sOk := true, suite := some su } )
    | .none =>
      let w5 := createSessionState p w4 c.server ss
      let w6 := createNewSession p w5 c.dst cs
      ( w6,
        withPeer p c.auth (requestsCert p c.auth) (sentCert p c)
        { cOk := true, sOk := true, cRes := false, sRes := false, offered := offered, returned := some newId,
          suite := some su, peer := some c.server, ms := some msNew, rnd := rnd, full := full })

/-- client: loadSession, then the hellos (client random, server random) -/
def afterLoad (p : Params) (w0 : World) (c : Conn) : World :=
  { (loadSession p w0 c.dst).1 with nSec := (loadSession p w0 c.dst).1.nSec + 2 }

/-- what loadSession returned -/
def loadedOf (p : Params) (w0 : World) (c : Conn) : Option ObjId := (loadSession p w0 c.dst).2

/-- server: checkForResumption on the offered identifier -/
def afterCheck (p : Params) (w0 : World) (c : Conn) : World × Option ObjId :=
  checkForResumption p (afterLoad p w0 c) c (offer p c.csuites) (offeredId (afterLoad p w0 c) (loadedOf p w0 c))

def connect (p : Params) (src : Nat → Nat) (w0 : World) (c : Conn) : World × Obs :=
  let full := fullOutcome p c
  let rnd := (w0.nSec, w0.nSec + 1)
  match (afterCheck p w0 c).2 with
  | some so => resumeBranch p (afterCheck p w0 c).1 c (loadedOf p w0 c) so rnd full
  | none =>
    match pickSuite p c.ssuites (offer p c.csuites) with
    | none =>
      -- pickCipherSuite fails: handshake_failure before any ServerHello
      (cleanup p (afterCheck p w0 c).1 c.dst (loadedOf p w0 c),
       failed (offeredId (afterCheck p w0 c).1 (loadedOf p w0 c)) none rnd full)
    | some su => fullBranch p src (afterCheck p w0 c).1 c (loadedOf p w0 c) su rnd full

def step (p : Params) (src : Nat → Nat) (w : World) (c : Conn) : World × Obs :=
  connect p src (runPres p src c w c.pre) c

def run (p : Params) (src : Nat → Nat) (w : World) : List Conn → World × List Obs
  | [] => (w, [])
  | c :: cs =>
    let (w1, o) := step p src w c
    let (w2, os) := run p src w1 cs
    (w2, o :: os)

end Gotlcp.Model.Resumption

/-
The two directions of one TLCP connection side by side (tlcp/conn.go): the receive half of
`Model.RecordRxStream` and what `CloseWrite` / `closeNotify` do to the endpoint.

Why this is part of C06: the stream property is per direction.  A side that has finished writing
shuts its write direction down (`CloseWrite`: the close-notify alert goes out, later `Write`s are
refused) and keeps reading — the request / half-close / response pattern.  Everything the peer
writes afterwards must still be delivered, exactly and in order, followed by end-of-stream.

```
func (c *Conn) closeNotify() error {
	c.out.Lock(); defer c.out.Unlock()
	if !c.closeNotifySent {
		c.SetWriteDeadline(time.Now().Add(time.Second * 5))
		c.closeNotifyErr = c.sendAlertLocked(alertCloseNotify)
		c.closeNotifySent = true
		c.SetWriteDeadline(time.Now())          // any subsequent write fails
	}
	return c.closeNotifyErr
}
```
Which deadline setters `closeNotify` calls is a regenerated fact (`Facts.tlcp.rxDeadlineCalls`, every
call of a `Set*Deadline` method in the package): a setter that also moves the READ deadline
(`SetDeadline`, `SetReadDeadline`) leaves the transport's read deadline in the past, and a net.Conn
whose read deadline has passed answers every `Read` with a timeout — `Raw.expired`.

Core Lean only (linked into `oracle_c06`).
-/
import Gotlcp.Model.RecordRxStream

namespace Gotlcp.Model.RecordDuplex
open Gotlcp.Model.RecordRx

/-- what of the source the model depends on -/
structure Params where
  /-- every call of a deadline setter in the package, as `"<function>:<setter>"` -/
  deadlineCalls : List String
  deriving Repr

/-- `closeNotify` calls a setter that moves the transport's read deadline -/
def Params.closeNotifyMovesReadDeadline (C : Params) : Bool :=
  C.deadlineCalls.any fun s =>
    s == "Conn.closeNotify:SetDeadline" || s == "Conn.closeNotify:SetReadDeadline"

/-- one side of a connection after the handshake -/
structure Endpoint where
  /-- the receive half (`c.in`, `c.rawInput`, `c.input`) and the transport it reads -/
  rx : Rx
  /-- `c.closeNotifySent` -/
  closeNotifySent : Bool := false
  /-- the transport's write deadline lies in the past -/
  writeExpired : Bool := false
  deriving Repr, DecidableEq

/-- `CloseWrite()` on a completed connection = `closeNotify()`.  Returns whether a close-notify
record goes onto the wire (the first time only).  The receive half is touched in one way only: a
setter that moves the read deadline leaves it expired. -/
def closeWrite (C : Params) (ep : Endpoint) : Bool × Endpoint :=
  if ep.closeNotifySent then (false, ep)
  else
    (true, { ep with
      closeNotifySent := true
      writeExpired := true
      rx := if C.closeNotifyMovesReadDeadline then { ep.rx with io := { ep.rx.io with expired := true } } else ep.rx })

/-- `Read` on the endpoint -/
def read (P : RecordRx.Params) (dec : Dec) (ep : Endpoint) (n : Nat) : Bytes × Option RxErr × Endpoint :=
  let r := connRead P dec ep.rx n
  (r.1, r.2.1, { ep with rx := r.2.2 })

/-- what the application of a half-closing side does: `Read`s with the given buffer sizes, and at
some point between them `CloseWrite` -/
inductive Op where
  | read (n : Nat)
  | closeWrite
  deriving Repr, DecidableEq

/-- run the operations; the result of every `Read`, in order -/
def run (P : RecordRx.Params) (C : Params) (dec : Dec) (ep : Endpoint) : List Op → List (Bytes × Option RxErr) × Endpoint
  | [] => ([], ep)
  | .read n :: ops =>
    let r := read P dec ep n
    let rest := run P C dec r.2.2 ops
    ((r.1, r.2.1) :: rest.1, rest.2)
  | .closeWrite :: ops => run P C dec (closeWrite C ep).2 ops

/-- the buffer sizes of the `Read`s of a history -/
def readSizes : List Op → List Nat
  | [] => []
  | .read n :: ops => n :: readSizes ops
  | .closeWrite :: ops => readSizes ops

end Gotlcp.Model.RecordDuplex

/-
C07 — the model's tables instantiated from the regenerated source facts
(`Gotlcp.Facts.{tlcp,dtlcp}.sa*`, written by harness/cmd/extract/facts_serverauthn.go).
Core Lean only (used by the theorems and by the oracle).
-/
import Gotlcp.Model.ServerAuthn
import Gotlcp.Generated.Facts

namespace Gotlcp.Model.ServerAuthn

def tlcpTables : Option Tables :=
  tablesOf Facts.tlcp.saPolicyOrder Facts.tlcp.saRequires
    Facts.tlcp.saPromoteOp Facts.tlcp.saPromoteExcept Facts.tlcp.saPromoteTo
    Facts.tlcp.saCertReqOp Facts.tlcp.saCertReqRhs Facts.tlcp.saCertMsgOp Facts.tlcp.saCertMsgRhs
    Facts.tlcp.saPcVerifyOp Facts.tlcp.saPcVerifyRhs Facts.tlcp.saPcAnyUsagePolicy
    Facts.tlcp.saPcKeyUsages Facts.tlcp.saPcEcdheMin Facts.tlcp.saCvOp Facts.tlcp.saCvRhs
    Facts.tlcp.saResumeNeedCertGuard Facts.tlcp.saResumeNoPolicyGuard Facts.tlcp.saResumeReverifies
    Facts.tlcp.saVhsAssertReturns Facts.tlcp.saStoreAt

def dtlcpTables : Option Tables :=
  tablesOf Facts.dtlcp.saPolicyOrder Facts.dtlcp.saRequires
    Facts.dtlcp.saPromoteOp Facts.dtlcp.saPromoteExcept Facts.dtlcp.saPromoteTo
    Facts.dtlcp.saCertReqOp Facts.dtlcp.saCertReqRhs Facts.dtlcp.saCertMsgOp Facts.dtlcp.saCertMsgRhs
    Facts.dtlcp.saPcVerifyOp Facts.dtlcp.saPcVerifyRhs Facts.dtlcp.saPcAnyUsagePolicy
    Facts.dtlcp.saPcKeyUsages Facts.dtlcp.saPcEcdheMin Facts.dtlcp.saCvOp Facts.dtlcp.saCvRhs
    Facts.dtlcp.saResumeNeedCertGuard Facts.dtlcp.saResumeNoPolicyGuard Facts.dtlcp.saResumeReverifies
    Facts.dtlcp.saVhsAssertReturns Facts.dtlcp.saStoreAt

/-- the facts about the *shape* of the code that the model relies on but does not take as
parameters (a change makes `C07_facts` fail): which expressions are compared, which key and
which transcript verify the CertificateVerify, the order of the steps of
`processCertsFromClient`, which certificates are verified and that the error of EACH `Verify`
is inspected (and returned) before anything else happens to it, that an error of
`verifyHandshakeSignature` ends `doFullHandshake`, that all four suites sign with ECC_SM3, the
shape of that case of `verifyHandshakeSignature` (assert `*ecdsa.PublicKey`, verify with
`sm2.VerifyASN1WithSM2` over the same `tbs`/`sig`, error when it fails, nil otherwise), what the
session records; that `createSessionState` is called from exactly one place, an unconditional
statement of the full-handshake branch of `handshake()` reached only when `pickCipherSuite`,
`doFullHandshake`, `establishKeys` and `readFinished` each returned nil, and that it is the only
server-side writer of a `SessionCache` (nothing removes or replaces an entry). -/
def shapeOK (order : List String) (policyInit certReqSubject certMsgSubject : String)
    (promoteSuites : List String) (cvSubject cvSigned cvPub cvPubGuard : String)
    (cvMandatory cvHashedAfter : Bool) (pcSteps : List String)
    (requireCond verifyPolicyExpr verifyLenCond anyUsageOp : String) (usagesAny verified0 : List String)
    (setsChains : Bool) (keyKinds : List String) (sessionRecords : String)
    (inspected : List String) (cvErrReturns : Bool) (sigTypeFrom sigType : String) (sigSuites : List String)
    (vhsKeyType vhsVerifyCond : String) (vhsFailReturns : Bool) (vhsShape : List String) (vhsFinal : String)
    (storeSites storeGuards putSites : List String) (putNil : Nat) : Bool :=
  order.length == 6 &&
  policyInit == "c.config.ClientAuth" && certReqSubject == "authPolice" && certMsgSubject == "authPolice" &&
  promoteSuites == ["ECDHE_SM4_CBC_SM3", "ECDHE_SM4_GCM_SM3"] &&
  cvSubject == "len(c.peerCertificates)" && cvSigned == "hs.finishedHash.Sum()" &&
  cvPub == "c.peerCertificates[0].PublicKey" && cvPubGuard == "len(clientCertMsg.certificates) != 0" &&
  cvMandatory && cvHashedAfter &&
  pcSteps == ["parse", "require", "ecdheMin", "verify", "setPeer:certs", "keyType", "callback"] &&
  requireCond == "len(certs) == 0 && requiresClientCert(c.config.ClientAuth)" &&
  verifyPolicyExpr == "c.config.ClientAuth" && verifyLenCond == "len(certs) > 0" && anyUsageOp == "==" &&
  usagesAny == ["ExtKeyUsageAny"] && verified0.take 1 == ["certs[0]"] && verified0.length == 2 &&
  setsChains && keyKinds == ["*ecdsa.PublicKey", "*rsa.PublicKey"] && sessionRecords == "hs.peerCertificates" &&
  inspected == ["certs[0]:checked", "certs[1]:checked"] && cvErrReturns &&
  sigTypeFrom == "typeAndHashFrom(hs.suite.id)" && sigType == "ECC_SM3" &&
  sigSuites == ["ECC_SM4_CBC_SM3", "ECC_SM4_GCM_SM3", "ECDHE_SM4_CBC_SM3", "ECDHE_SM4_GCM_SM3"] &&
  vhsKeyType == "*ecdsa.PublicKey" && vhsVerifyCond == "!sm2.VerifyASN1WithSM2(pubKey, nil, tbs, sig)" &&
  vhsFailReturns && vhsShape == ["assert", "assert-failed", "verify"] && vhsFinal == "nil" &&
  storeSites == ["serverHandshakeState.handshake"] &&
  storeGuards == ["pickCipherSuite:checked", "doFullHandshake:checked", "establishKeys:checked", "readFinished:checked"] &&
  putSites == ["serverHandshakeState.createSessionState"] && putNil == 0

def tlcpShapeOK : Bool :=
  shapeOK Facts.tlcp.saPolicyOrder Facts.tlcp.saPolicyInit Facts.tlcp.saCertReqSubject Facts.tlcp.saCertMsgSubject
    Facts.tlcp.saPromoteSuites Facts.tlcp.saCvSubject Facts.tlcp.saCvSigned Facts.tlcp.saCvPub
    Facts.tlcp.saCvPubGuard Facts.tlcp.saCvMandatory Facts.tlcp.saCvHashedAfterVerify Facts.tlcp.saPcSteps
    Facts.tlcp.saPcRequireCond Facts.tlcp.saPcVerifyPolicyExpr Facts.tlcp.saPcVerifyLenCond
    Facts.tlcp.saPcAnyUsageOp Facts.tlcp.saPcKeyUsagesAny Facts.tlcp.saPcVerified
    Facts.tlcp.saPcSetsVerifiedChains Facts.tlcp.saPcKeyKinds Facts.tlcp.saSessionRecords
    Facts.tlcp.saPcVerifyInspected Facts.tlcp.saCvErrReturns Facts.tlcp.saCvSigTypeFrom Facts.tlcp.saSigTypeSm2
    Facts.tlcp.saSigTypeSm2Suites Facts.tlcp.saVhsKeyType Facts.tlcp.saVhsVerifyCond Facts.tlcp.saVhsVerifyFailReturns
    Facts.tlcp.saVhsShape Facts.tlcp.saVhsFinalReturn
    Facts.tlcp.saStoreSites Facts.tlcp.saStoreGuards Facts.tlcp.saServerPutSites Facts.tlcp.saServerPutNil

def dtlcpShapeOK : Bool :=
  shapeOK Facts.dtlcp.saPolicyOrder Facts.dtlcp.saPolicyInit Facts.dtlcp.saCertReqSubject Facts.dtlcp.saCertMsgSubject
    Facts.dtlcp.saPromoteSuites Facts.dtlcp.saCvSubject Facts.dtlcp.saCvSigned Facts.dtlcp.saCvPub
    Facts.dtlcp.saCvPubGuard Facts.dtlcp.saCvMandatory Facts.dtlcp.saCvHashedAfterVerify Facts.dtlcp.saPcSteps
    Facts.dtlcp.saPcRequireCond Facts.dtlcp.saPcVerifyPolicyExpr Facts.dtlcp.saPcVerifyLenCond
    Facts.dtlcp.saPcAnyUsageOp Facts.dtlcp.saPcKeyUsagesAny Facts.dtlcp.saPcVerified
    Facts.dtlcp.saPcSetsVerifiedChains Facts.dtlcp.saPcKeyKinds Facts.dtlcp.saSessionRecords
    Facts.dtlcp.saPcVerifyInspected Facts.dtlcp.saCvErrReturns Facts.dtlcp.saCvSigTypeFrom Facts.dtlcp.saSigTypeSm2
    Facts.dtlcp.saSigTypeSm2Suites Facts.dtlcp.saVhsKeyType Facts.dtlcp.saVhsVerifyCond Facts.dtlcp.saVhsVerifyFailReturns
    Facts.dtlcp.saVhsShape Facts.dtlcp.saVhsFinalReturn
    Facts.dtlcp.saStoreSites Facts.dtlcp.saStoreGuards Facts.dtlcp.saServerPutSites Facts.dtlcp.saServerPutNil

/-- who writes the authentication state a connection reports (`c.peerCertificates`,
`c.verifiedChains`): on the server side `processCertsFromClient` only (the other writers are the
client's `verifyServerCertificate` / `processServerHello`), and `processCertsFromClient` is called
from `doFullHandshake` (the client's Certificate message) and `doResumeHandshake` (the session's
certificates, after `checkForResumption` returned true) only.  This is what `second` relies on:
`checkForResumption` — and anything it calls — leaves the connection untouched, so a declined
resumption is followed by a full handshake on a fresh connection. -/
def authStateOK (writers pcCallers : List String) : Bool :=
  writers == ["Conn.processCertsFromClient:peerCertificates", "Conn.processCertsFromClient:verifiedChains",
              "Conn.verifyServerCertificate:peerCertificates", "Conn.verifyServerCertificate:verifiedChains",
              "clientHandshakeState.processServerHello:peerCertificates"] &&
  pcCallers == ["serverHandshakeState.doFullHandshake", "serverHandshakeState.doResumeHandshake"]

def tlcpAuthStateOK : Bool := authStateOK Facts.tlcp.saAuthStateWriters Facts.tlcp.saPcCallers
def dtlcpAuthStateOK : Bool := authStateOK Facts.dtlcp.saAuthStateWriters Facts.dtlcp.saPcCallers

end Gotlcp.Model.ServerAuthn

/-
C09 — the parameters of `Gotlcp.Model.Parsers` filled from the facts the extractor re-reads
from the Go AST on every run (`Generated/Facts.lean`).  Core Lean only (linked into the oracle).
-/
import Gotlcp.Model.Parsers
import Gotlcp.Model.ParsersLoop
import Gotlcp.Model.ParsersLoopD
import Gotlcp.Generated.Facts

namespace Gotlcp.Model.Parsers

/-- guards of /repo/tlcp/key_agreement.go as they are in the working tree -/
def guardsT : KxGuards :=
  { eccCkxMinLen := Facts.tlcp.kxEccCkxMinLen, eccCkxCipherMin := Facts.tlcp.kxEccCkxCipherMin,
    eccSkxMaxShort := Facts.tlcp.kxEccSkxMaxShort, dheSkxMinLen := Facts.tlcp.kxDheSkxMinLen,
    dheSkxSigHdrMin := Facts.tlcp.kxDheSkxSigHdrMin, eccGckxChecked := Facts.tlcp.kxEccGckxChecked,
    dheGckxNilCheck := Facts.tlcp.kxDheGckxNilCheck, dheGckxPeerMin := Facts.tlcp.kxDheGckxPeerMin,
    dhePubShapes := Facts.tlcp.kxDhePubShapes }

/-- guards of /repo/dtlcp/key_agreement.go -/
def guardsD : KxGuards :=
  { eccCkxMinLen := Facts.dtlcp.kxEccCkxMinLen, eccCkxCipherMin := Facts.dtlcp.kxEccCkxCipherMin,
    eccSkxMaxShort := Facts.dtlcp.kxEccSkxMaxShort, dheSkxMinLen := Facts.dtlcp.kxDheSkxMinLen,
    dheSkxSigHdrMin := Facts.dtlcp.kxDheSkxSigHdrMin, eccGckxChecked := Facts.dtlcp.kxEccGckxChecked,
    dheGckxNilCheck := Facts.dtlcp.kxDheGckxNilCheck, dheGckxPeerMin := Facts.dtlcp.kxDheGckxPeerMin,
    dhePubShapes := Facts.dtlcp.kxDhePubShapes }

/-- `true` = dtlcp -/
def guardsOf (dtls : Bool) : KxGuards := if dtls then guardsD else guardsT

/-- limits of the stream stack as they are in the working tree -/
def limitsT : ParsersLoop.Limits :=
  { hdr := Facts.tlcp.recordHeaderLen, maxCiphertext := Facts.tlcp.maxCiphertext,
    maxPlaintext := Facts.tlcp.maxPlaintext, maxHandshake := Facts.tlcp.maxHandshake,
    maxUseless := Facts.tlcp.maxUselessRecords, refusePostHs := Facts.tlcp.hsPostHandshakeRefused }

/-- limits of the datagram stack as they are in the working tree -/
def limitsD : ParsersLoopD.LimitsD :=
  { hdr := Facts.dtlcp.recordHeaderLen, hsHdr := Facts.dtlcp.dtlcpHeaderLen, maxCiphertext := Facts.dtlcp.maxCiphertext,
    maxPlaintext := Facts.dtlcp.maxPlaintext, maxHandshake := Facts.dtlcp.maxHandshake,
    maxUseless := Facts.dtlcp.maxUselessRecords, maxFragments := Facts.dtlcp.maxHandshakeFragments,
    refusePostHs := Facts.dtlcp.hsPostHandshakeRefused, deliveredGuard := Facts.dtlcp.recDeliveredGuard }

end Gotlcp.Model.Parsers

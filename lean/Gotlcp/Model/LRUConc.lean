/-
Concurrent use of the session cache, at the granularity the source fixes: every method body
is `c.Lock(); defer c.Unlock(); …` (regenerated facts `lruPutLocked` / `lruGetLocked`), so a
call is two atomic actions — acquire the mutex, then run the whole body and release.

Threads are numbered; `progs t` is what thread `t` still has to call. A schedule is a list of
thread numbers: at each tick the chosen thread acts if it can (acquire when the mutex is
free, finish its call when it holds the mutex) and is otherwise blocked (nothing happens).
Every interleaving of any number of goroutines is such a schedule.

Core Lean only.
-/
import Gotlcp.Model.LRU

namespace Gotlcp.Model.LRUConc
open Gotlcp.Model.LRU

structure Conc where
  cache  : State
  holder : Option Nat                -- thread holding the mutex (its call is head of `progs`)
  progs  : Nat → List Op             -- remaining calls per thread
  outs   : Nat → List Out            -- results each thread has received so far (oldest first)
  done   : List (Nat × Op)           -- completed calls in order of lock acquisition

def upd {α} (f : Nat → α) (t : Nat) (v : α) : Nat → α := fun x => if x = t then v else f x

def tick (b : Bool) (c : Conc) (t : Nat) : Conc :=
  match c.holder with
  | none =>
    match c.progs t with
    | [] => c                                   -- thread finished: nothing to do
    | _ :: _ => { c with holder := some t }     -- Lock() succeeds
  | some h =>
    if h = t then
      match c.progs t with
      | [] => { c with holder := none }         -- unreachable (holder always has a pending call)
      | op :: rest =>
        let r := step b c.cache op              -- whole body under the mutex, then Unlock()
        { cache := r.1, holder := none, progs := upd c.progs t rest,
          outs := upd c.outs t (c.outs t ++ [r.2]), done := c.done ++ [(t, op)] }
    else c                                      -- blocked in Lock()

def exec (b : Bool) (c : Conc) : List Nat → Conc
  | [] => c
  | t :: ts => exec b (tick b c t) ts

def start (s : State) (progs : Nat → List Op) : Conc :=
  { cache := s, holder := none, progs := progs, outs := fun _ => [], done := [] }

/-- results of the sequential run of `ops` that belong to thread `t` -/
def outsOf (t : Nat) : List (Nat × Op) → List Out → List Out
  | (t', _) :: ds, o :: os => if t' = t then o :: outsOf t ds os else outsOf t ds os
  | _, _ => []

def opsOf (t : Nat) (ds : List (Nat × Op)) : List Op := (ds.filter (·.1 = t)).map (·.2)

end Gotlcp.Model.LRUConc

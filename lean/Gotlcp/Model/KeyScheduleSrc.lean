/-
The `Src` records of `Model.KeySchedule` filled from the regenerated facts of each stack.
Core Lean only (linked into the oracle).
-/
import Gotlcp.Model.KeySchedule
import Gotlcp.Generated.Facts

namespace Gotlcp.Model.KeySchedule

def bytesOf (l : List Nat) : Bytes := l.map UInt8.ofNat

def srcTlcp : Src where
  labelMaster := bytesOf Facts.tlcp.masterSecretLabel
  labelKeyExpansion := bytesOf Facts.tlcp.keyExpansionLabel
  labelClientFinished := bytesOf Facts.tlcp.clientFinishedLabel
  labelServerFinished := bytesOf Facts.tlcp.serverFinishedLabel
  masterLen := Facts.tlcp.masterSecretLength
  verifyLen := Facts.tlcp.finishedVerifyLength
  masterSeed := Facts.tlcp.masterSeedOrder
  keySeed := Facts.tlcp.keySeedOrder
  sliceOrder := Facts.tlcp.sliceOrder
  clientInCBC := Facts.tlcp.establishClientInCBC
  clientOutCBC := Facts.tlcp.establishClientOutCBC
  clientInAEAD := Facts.tlcp.establishClientInAEAD
  clientOutAEAD := Facts.tlcp.establishClientOutAEAD
  serverInCBC := Facts.tlcp.establishServerInCBC
  serverOutCBC := Facts.tlcp.establishServerOutCBC
  serverInAEAD := Facts.tlcp.establishServerInAEAD
  serverOutAEAD := Facts.tlcp.establishServerOutAEAD
  aeadNonceLen := Facts.tlcp.aeadNonceLength
  noncePrefixLen := Facts.tlcp.noncePrefixLength
  recordHeaderLen := Facts.tlcp.recordHeaderLen
  maxPlaintext := Facts.tlcp.maxPlaintext
  recordTypeCCS := Facts.tlcp.recordTypeChangeCipherSpec
  alertBadRecordMAC := Facts.tlcp.alertBadRecordMAC
  alertInternalError := Facts.tlcp.alertInternalError
  -- `encrypt` advances out.seq; nothing after it (in particular not the error branch of the
  -- transport write) assigns to the sequence state
  seqConsumedOnWriteError := Facts.tlcp.writeRecordPerRecord == ["encrypt", "write"]

def srcDtlcp : Src where
  labelMaster := bytesOf Facts.dtlcp.masterSecretLabel
  labelKeyExpansion := bytesOf Facts.dtlcp.keyExpansionLabel
  labelClientFinished := bytesOf Facts.dtlcp.clientFinishedLabel
  labelServerFinished := bytesOf Facts.dtlcp.serverFinishedLabel
  masterLen := Facts.dtlcp.masterSecretLength
  verifyLen := Facts.dtlcp.finishedVerifyLength
  masterSeed := Facts.dtlcp.masterSeedOrder
  keySeed := Facts.dtlcp.keySeedOrder
  sliceOrder := Facts.dtlcp.sliceOrder
  clientInCBC := Facts.dtlcp.establishClientInCBC
  clientOutCBC := Facts.dtlcp.establishClientOutCBC
  clientInAEAD := Facts.dtlcp.establishClientInAEAD
  clientOutAEAD := Facts.dtlcp.establishClientOutAEAD
  serverInCBC := Facts.dtlcp.establishServerInCBC
  serverOutCBC := Facts.dtlcp.establishServerOutCBC
  serverInAEAD := Facts.dtlcp.establishServerInAEAD
  serverOutAEAD := Facts.dtlcp.establishServerOutAEAD
  aeadNonceLen := Facts.dtlcp.aeadNonceLength
  noncePrefixLen := Facts.dtlcp.noncePrefixLength
  recordHeaderLen := Facts.dtlcp.recordHeaderLen
  maxPlaintext := Facts.dtlcp.maxPlaintext
  recordTypeCCS := Facts.dtlcp.recordTypeChangeCipherSpec
  alertBadRecordMAC := Facts.dtlcp.alertBadRecordMAC
  alertInternalError := Facts.dtlcp.alertInternalError
  -- `c.writeSeq++` stands between `encrypt` and the transport write
  seqConsumedOnWriteError := Facts.dtlcp.writeRecordPerRecord == ["c.setWriteSeq()", "encrypt", "c.writeSeq++", "write"]

def srcOf : Stack → Src
  | .tlcp => srcTlcp
  | .dtlcp => srcDtlcp

/-- (id, keyLen, macLen, ivLen, isAEAD) of a suite id, from the extracted `cipherSuites` map -/
def suiteRow (st : Stack) (id : Nat) : Option (Nat × Nat × Nat × Bool) :=
  let tbl := match st with | .tlcp => Facts.tlcp.suiteTable | .dtlcp => Facts.dtlcp.suiteTable
  (tbl.find? (fun r => r.1 == id)).map (fun r => (r.2.1, r.2.2.1, r.2.2.2.1, r.2.2.2.2.2.1))

end Gotlcp.Model.KeySchedule

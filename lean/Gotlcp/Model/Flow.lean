/-
Model of the message-order acceptor of a TLCP / DTLCP endpoint (property C08), GENERATED from
the control skeletons that `harness/cmd/extract/facts_flow.go` re-extracts from the Go source
on every run (`Facts.<stack>.flows`, `Facts.<stack>.recordTable`, …).

Three layers:

1. `compile` turns the raw skeleton (strings) into a typed program: per function a list of
   guarded ops (`read`, `must T`, `opt T`, `ccs`, `call f`, marks, jumps).  A guard is the
   conjunction of the enclosing Go conditions and is re-evaluated at every op of the block, so
   the state an atom reads must not be changed inside the block it guards (it is not: `got` is
   set by the assertion before the block, the cookie verdict when a ClientHello is read).  Only string
   *equality* is used, so the kernel can evaluate it.  A guard atom or an op that the
   interpreter would need but does not know makes `compile` return `none` — nothing is guessed.
2. an interpreter of that program over a small control state (call stack, the message read
   last, which optional messages were seen, …): `advance` runs until the code would block in
   `readHandshake` / `readChangeCipherSpec`; `deliver` hands it the next record according to
   the decision table of `readRecordOrCCS`.
3. `Auto`: the resulting automaton over `Kind`, wrapped with the counter of ignorable records
   exactly as `retryReadRecord` does (`retryCount++; if retryCount > max → fatal`; reset by a
   non-empty record that is neither alert nor ChangeCipherSpec).

Hand-written (not extracted) semantics, each named where it is used: what `establishKeys`,
`processCertsFromClient` and the SM2-ECDHE `generateClientKeyExchange` do to the control state.
Core Lean only.
-/
import Gotlcp.Base.FlowKind

namespace Gotlcp.Model.Flow
open Gotlcp.Flow

/-! ## generic acceptor with the ignorable-record counter -/

inductive Outcome (Q : Type) where
  | retry (q : Q)                 -- record dropped on the floor (counts as useless)
  | goOn (q : Q) (reset : Bool)   -- accepted; `reset` = the retry counter restarts
  | fail
  deriving Repr

structure Auto (Q : Type) where
  next : Q → Kind → Outcome Q
  accepting : Q → Bool

inductive St (Q : Type) where
  | run (q : Q) (n : Nat)
  | dead
  deriving Repr, DecidableEq

/-- one record; the counter logic is `retryReadRecord`'s -/
def Auto.feed (A : Auto Q) (max : Nat) : St Q → Kind → St Q
  | .dead, _ => .dead
  | .run q n, k =>
    match A.next q k with
    | .retry q' => if n + 1 > max then .dead else .run q' (n + 1)
    | .goOn q' r => .run q' (if r then 0 else n)
    | .fail => .dead

def Auto.runFrom (A : Auto Q) (max : Nat) (s : St Q) (w : List Kind) : St Q :=
  w.foldl (A.feed max) s

def Auto.acceptingSt (A : Auto Q) : St Q → Bool
  | .run q _ => A.accepting q
  | .dead => false

def Auto.accepts (A : Auto Q) (max : Nat) (q0 : Q) (w : List Kind) : Bool :=
  A.acceptingSt (A.runFrom max (.run q0 0) w)

/-! ## typed program -/

/-- Go message struct types -/
inductive HsType
  | clientHello | serverHello | helloVerifyRequest | certificate | serverKeyExchange
  | certificateRequest | serverHelloDone | clientKeyExchange | certificateVerify | finished
  deriving DecidableEq, Repr

def goTypes : List (String × HsType) :=
  [("clientHelloMsg", .clientHello), ("serverHelloMsg", .serverHello),
   ("helloVerifyRequestMsg", .helloVerifyRequest), ("certificateMsg", .certificate),
   ("serverKeyExchangeMsg", .serverKeyExchange), ("certificateRequestMsg", .certificateRequest),
   ("serverHelloDoneMsg", .serverHelloDone), ("clientKeyExchangeMsg", .clientKeyExchange),
   ("certificateVerifyMsg", .certificateVerify), ("finishedMsg", .finished)]

def HsType.ofGo (s : String) : Option HsType := (goTypes.find? (fun p => p.1 == s)).map (·.2)

/-- the Go type `readHandshake` returns for a message kind (none: not a handshake message) -/
def hsTypeOf : Kind → Option HsType
  | .clientHello => some .clientHello | .serverHello => some .serverHello
  | .helloVerifyRequest => some .helloVerifyRequest
  | .certificate => some .certificate | .certificateEmpty => some .certificate
  | .serverKeyExchange => some .serverKeyExchange | .certificateRequest => some .certificateRequest
  | .serverHelloDone => some .serverHelloDone | .clientKeyExchange => some .clientKeyExchange
  | .certificateVerify => some .certificateVerify | .finished => some .finished
  | _ => none

/-- variables of the DTLCP cookie loops -/
inductive Var | serverHello | helloCookie
  deriving DecidableEq, Repr

inductive Atom
  | resume (b : Bool)            -- isResume / hs.checkForResumption(), and their else branches
  | got (t : HsType)             -- inside `if ok {…}` of an optional / skipped message
  | certRequested                -- authPolice >= RequestClientCert
  | peerCerts                    -- len(c.peerCertificates) > 0
  | tt                           -- true in the word model (loop bodies, `err == nil`)
  | ff                           -- false in the word model (timeouts, cancelled context)
  | caseOf (t : HsType)          -- type-switch clause
  | caseOther (ts : List HsType) -- default clause of a type switch with clauses `ts`
  | isSet (v : Var) (b : Bool)   -- serverHello != nil, len(hello.cookie) > 0
  | cookieBad                    -- DTLCP server: ClientHello without a valid cookie
  deriving DecidableEq, Repr

inductive Mark
  | establishKeys | processCertsFromClient | generateClientKeyExchange
  | set (v : Var)
  | hvrSent                      -- DTLCP server: a HelloVerifyRequest was written
  deriving DecidableEq, Repr

inductive Op
  | nop
  | read                                  -- msg, err := c.readHandshake(..)
  | must (t : HsType) (nonEmpty : Bool)   -- mandatory assertion
  | opt (t : HsType)                      -- optional assertion (records whether it matched)
  | ccs                                   -- c.readChangeCipherSpec()
  | call (f : Nat)
  | mark (m : Mark)
  | complete
  | jump (pc : Nat)
  | ret
  | fail
  deriving DecidableEq, Repr

structure GOp where
  guard : List Atom
  op : Op
  deriving DecidableEq, Repr

abbrev RawGuard := List (String × String)
abbrev RawOp := RawGuard × String × String × String
abbrev RawFlows := List (String × List RawOp)

/-! ### compile: guards -/

def resumeConds : List String := ["isResume", "hs.checkForResumption()"]
def trueConds : List String := ["err == nil"]
def falseConds : List String := ["ok && netErr.Timeout()"]
def cookieBadCond : String :=
  "len(clientHello.cookie) == 0 || !verifyCookie(secret, c.remoteAddr.String(), params, clientHello.cookie)"

/-- one guard atom; `cases` = the clauses of the enclosing type switch seen so far -/
def compileAtom (cases : List HsType) (a : String × String) : Option (List Atom) :=
  let (kind, text) := a
  if kind == "if" then
    if resumeConds.contains text then some [.resume true]
    else if text == "authPolice >= RequestClientCert" then some [.certRequested]
    else if text == "len(c.peerCertificates) > 0" then some [.peerCerts]
    else if trueConds.contains text then some [.tt]
    else if falseConds.contains text then some [.ff]
    else if text == "serverHello != nil" then some [.isSet .serverHello true]
    else if text == "len(hello.cookie) > 0" then some [.isSet .helloCookie true]
    else if text == cookieBadCond then some [.cookieBad]
    else none
  else if kind == "else" then
    if resumeConds.contains text then some [.resume false] else none
  else if kind == "opt" || kind == "skip" then (HsType.ofGo text).map (fun t => [.got t])
  else if kind == "loop" then (if text == "" then some [.tt] else none)
  else if kind == "select" then (if text == "<-ctx.Done()" then some [.ff] else none)
  else if kind == "case" then
    if text == "default" then some [.caseOther cases] else (HsType.ofGo text).map (fun t => [.caseOf t])
  else none

def compileGuard (cases : List HsType) : RawGuard → Option (List Atom)
  | [] => some []
  | a :: rest =>
    match compileAtom cases a, compileGuard cases rest with
    | some x, some y => some (x ++ y)
    | _, _ => none

/-! ### compile: ops

Pass 1 translates every op except jumps (loop markers and break/continue become `Pre`
entries that pass 2 resolves to absolute targets). -/

inductive Pre
  | op (g : GOp)
  | loopBegin (label : String)
  | loopEnd
  | switchBegin
  | switchEnd
  | brk (g : List Atom) (label : String)
  | cont (g : List Atom) (label : String)
  deriving Repr

def findIdx (names : List String) (s : String) : Option Nat :=
  let rec go : List String → Nat → Option Nat
    | [], _ => none
    | n :: ns, i => if n == s then some i else go ns (i + 1)
  go names 0

/-- calls that change the control state (hand-modelled semantics in `applyMark`) -/
def markOfCall (s : String) : Option Mark :=
  if s == "hs.establishKeys" then some .establishKeys
  else if s == "c.processCertsFromClient" then some .processCertsFromClient
  else if s == "keyAgreement.generateClientKeyExchange" then some .generateClientKeyExchange
  else none

def varOf (s : String) : Option Var :=
  if s == "serverHello" then some .serverHello
  else if s == "hello.cookie" then some .helloCookie
  else none

/-- translate one raw op. `none` = the op matters for the flow but is not understood. -/
def compileOp (names : List String) (cases : List HsType) (r : RawOp) : Option Pre :=
  let (g, op, arg, extra) := r
  let guarded (o : Op) : Option Pre := (compileGuard cases g).map (fun a => .op ⟨a, o⟩)
  if op == "read" then guarded .read
  else if op == "readvia" then (findIdx names extra).bind (fun i => guarded (.call i))
  else if op == "must" then
    match HsType.ofGo arg with
    | none => none
    | some t =>
      if extra == "" then guarded (.must t false)
      else if extra == "len(certMsg.certificates) == 0" then guarded (.must t true)
      else none
  else if op == "opt" || op == "skip" then (HsType.ofGo arg).bind (fun t => guarded (.opt t))
  else if op == "ccs" then guarded .ccs
  else if op == "call" then
    if extra != "" then (findIdx names extra).bind (fun i => guarded (.call i))
    else match markOfCall arg with
      | some m => guarded (.mark m)
      | none => some (.op ⟨[], .nop⟩)        -- a call that neither reads nor changes the control state
  else if op == "set" then (varOf arg).bind (fun v => guarded (.mark (.set v)))
  else if op == "complete" then guarded .complete
  else if op == "return" then
    if arg == "err" then
      -- an error return whose condition is a check on message *content* is assumed not to fire
      -- (the scripted peer's content is honest); with a flow guard it is a real failure
      match compileGuard cases g with
      | some a => some (.op ⟨a, .fail⟩)
      | none => some (.op ⟨[], .nop⟩)
    else guarded .ret
  else if op == "loop" then
    if arg == "begin" then some (.loopBegin extra) else if arg == "end" then some .loopEnd else none
  else if op == "switch" then
    if arg == "begin" then some .switchBegin else if arg == "end" then some .switchEnd else none
  else if op == "case" || op == "default" then some (.op ⟨[], .nop⟩)
  else if op == "break" then (compileGuard cases g).map (fun a => .brk a arg)
  else if op == "continue" then (compileGuard cases g).map (fun a => .cont a arg)
  else if op == "write" && arg == "hvr" then guarded (.mark .hvrSent)
  else if op == "write" || op == "transcript" then some (.op ⟨[], .nop⟩)
  else none

/-- pass 1 over a function body, tracking the clauses of the current type switch -/
def compilePre (names : List String) : List HsType → List RawOp → Option (List Pre)
  | _, [] => some []
  | cases, r :: rest =>
    let (_, op, arg, _) := r
    let cases' :=
      if op == "switch" && arg == "begin" then []
      else if op == "case" then (match HsType.ofGo arg with | some t => cases ++ [t] | none => cases)
      else cases
    if op == "case" && (HsType.ofGo arg).isNone then none else
    match compileOp names cases' r, compilePre names cases' rest with
    | some p, some ps => some (p :: ps)
    | _, _ => none

/-- index of the `loopEnd` / `switchEnd` matching the construct opened just before `l` -/
def matchEnd : List Pre → Nat → Nat → Option Nat
  | [], _, _ => none
  | p :: ps, depth, i =>
    match p with
    | .loopBegin _ | .switchBegin => matchEnd ps (depth + 1) (i + 1)
    | .loopEnd | .switchEnd => if depth = 0 then some i else matchEnd ps (depth - 1) (i + 1)
    | _ => matchEnd ps depth (i + 1)

/-- enclosing breakable constructs: (is loop, label, index of begin, index of end) -/
abbrev Frames := List (Bool × String × Nat × Nat)

def breakTarget (label : String) : Frames → Option Nat
  | [] => none
  | (_, l, _, e) :: fs => if label == "" || (l == label) then some (e + 1) else breakTarget label fs

def contTarget (label : String) : Frames → Option Nat
  | [] => none
  | (isLoop, l, b, _) :: fs =>
    if isLoop && (label == "" || l == label) then some (b + 1) else contTarget label fs

/-- pass 2: resolve jumps. `i` = index of the head of the list, `fr` = open constructs. -/
def resolve : List Pre → Nat → Frames → Option (List GOp)
  | [], _, _ => some []
  | p :: ps, i, fr =>
    match p with
    | .op g => (resolve ps (i + 1) fr).map (g :: ·)
    | .loopBegin l =>
      match matchEnd ps 0 (i + 1) with
      | none => none
      | some e => (resolve ps (i + 1) ((true, l, i, e) :: fr)).map (⟨[], .nop⟩ :: ·)
    | .switchBegin =>
      match matchEnd ps 0 (i + 1) with
      | none => none
      | some e => (resolve ps (i + 1) ((false, "", i, e) :: fr)).map (⟨[], .nop⟩ :: ·)
    | .loopEnd =>
      match fr with
      | (true, _, b, _) :: fr' => (resolve ps (i + 1) fr').map (⟨[], .jump (b + 1)⟩ :: ·)
      | _ => none
    | .switchEnd =>
      match fr with
      | (false, _, _, _) :: fr' => (resolve ps (i + 1) fr').map (⟨[], .nop⟩ :: ·)
      | _ => none
    | .brk g l =>
      match breakTarget l fr with
      | none => none
      | some t => (resolve ps (i + 1) fr).map (⟨g, .jump t⟩ :: ·)
    | .cont g l =>
      match contTarget l fr with
      | none => none
      | some t => (resolve ps (i + 1) fr).map (⟨g, .jump t⟩ :: ·)

def compileFn (names : List String) (body : List RawOp) : Option (List GOp) :=
  if body.isEmpty then none else
  (compilePre names [] body).bind (fun pre => resolve pre 0 [])

def compileAll (names : List String) : List (String × List RawOp) → Option (List (List GOp))
  | [] => some []
  | (_, body) :: rest =>
    match compileFn names body, compileAll names rest with
    | some f, some fs => some (f :: fs)
    | _, _ => none

/-! ### record layer: the decision table of readRecordOrCCS -/

inductive RecType | alert | ccs | appData | handshake | other
  deriving DecidableEq, Repr

inductive Cond
  | always | alertLenBad | closeNotify | levelWarning | levelError | levelOther
  | ccsBodyBad | handPending | notExpect | notExpectAndHandPending | handBufPending
  | notCompleteOrExpect | dataEmpty | dataEmptyOrExpect
  | complete                    -- handshakeComplete (false during a handshake)
  | completeAndDwell            -- DTLCP: post-handshake retransmission window (false during a handshake)
  | irrelevant                  -- bookkeeping that does not decide the record's fate
  deriving DecidableEq, Repr

inductive Action | fail | retry | eof | remote | change | input | hand | defer | skip
  deriving DecidableEq, Repr

def recTypes : List (String × RecType) :=
  [("recordTypeAlert", .alert), ("recordTypeChangeCipherSpec", .ccs),
   ("recordTypeApplicationData", .appData), ("recordTypeHandshake", .handshake), ("default", .other)]

def conds : List (String × Cond) :=
  [("", .always), ("len(data) != 2", .alertLenBad), ("alert(data[1]) == alertCloseNotify", .closeNotify),
   ("data[0] == alertLevelWarning", .levelWarning), ("data[0] == alertLevelError", .levelError),
   ("data[0] default", .levelOther), ("len(data) != 1 || data[0] != 1", .ccsBodyBad),
   ("c.hand.Len() > 0", .handPending), ("!expectChangeCipherSpec", .notExpect),
   ("!expectChangeCipherSpec && c.handBuf.Len() > 0", .notExpectAndHandPending),
   ("c.handBuf.Len() > 0", .handBufPending),
   ("!handshakeComplete || expectChangeCipherSpec", .notCompleteOrExpect),
   ("len(data) == 0", .dataEmpty), ("len(data) == 0 || expectChangeCipherSpec", .dataEmptyOrExpect),
   ("handshakeComplete", .complete),
   ("handshakeComplete && !c.dwellDeadline.IsZero()", .completeAndDwell),
   ("handshakeComplete && !c.dwellDeadline.IsZero() && time.Now().Before(c.dwellDeadline)", .completeAndDwell),
   ("!c.dwellDeadline.IsZero()", .irrelevant), ("c.config != nil && c.config.ReplayWindow > 0", .irrelevant),
   ("len(c.rawInputBuf) > 0", .irrelevant)]

def actions : List (String × Action) :=
  [("fail", .fail), ("retry", .retry), ("eof", .eof), ("remote", .remote), ("change", .change), ("input", .input),
   ("hand", .hand), ("defer", .defer), ("retransmit", .skip), ("continue", .skip), ("other", .skip),
   ("return", .skip), ("expect=false", .skip)]

abbrev Row := RecType × Cond × Action

def lookup {α : Type} (t : List (String × α)) (s : String) : Option α := (t.find? (fun p => p.1 == s)).map (·.2)

def compileRow (r : String × String × String × String) : Option Row :=
  match lookup recTypes r.1, lookup conds r.2.1, lookup actions r.2.2.1 with
  | some t, some c, some a => some (t, c, a)
  | _, _, _ => none

def compileTable : List (String × String × String × String) → Option (List Row)
  | [] => some []
  | r :: rs =>
    match compileRow r, compileTable rs with
    | some x, some xs => some (x :: xs)
    | _, _ => none

/-- what a record of kind `k` looks like to readRecordOrCCS -/
structure Rec where
  typ : RecType
  empty : Bool
  warning : Bool
  /-- unread handshake bytes are pending in c.hand / c.handBuf when the record arrives -/
  pending : Bool := false

def recOf : Kind → Rec
  | .ccs => ⟨.ccs, false, false, false⟩
  | .warningAlert => ⟨.alert, false, true, false⟩
  | .appData => ⟨.appData, false, false, false⟩
  | .emptyRecord => ⟨.handshake, true, false, false⟩
  | _ => ⟨.handshake, false, false, false⟩

/-- truth of a condition for a well-formed record during a handshake (`handshakeComplete =
false`); `r.pending` says whether whole unread handshake messages are still buffered (only
possible when several messages were coalesced into one record) -/
def evalCond (r : Rec) (expect : Bool) : Cond → Bool
  | .always => true
  | .alertLenBad => false
  | .closeNotify => false
  | .levelWarning => r.warning
  | .levelError => !r.warning
  | .levelOther => false
  | .ccsBodyBad => false
  | .handPending => r.pending
  | .handBufPending => r.pending
  | .notExpect => !expect
  | .notExpectAndHandPending => !expect && r.pending
  | .notCompleteOrExpect => true
  | .dataEmpty => r.empty
  | .dataEmptyOrExpect => r.empty || expect
  | .complete => false
  | .completeAndDwell => false
  | .irrelevant => false

/-- first row of the record's type whose condition holds and whose action decides something -/
def classify (table : List Row) (r : Rec) (expect : Bool) : Action :=
  match table.find? (fun row => row.1 == r.typ && row.2.2 != .skip && evalCond r expect row.2.1) with
  | some row => row.2.2
  | none => .fail

/-! ### the interpreter -/

/-- configuration of one handshake: what is decided before / outside the message flow -/
structure Cfg where
  /-- the handshake resumes a session (client: offered and echoed; server: offered and cached) -/
  resume : Bool
  /-- server: a CertificateRequest is sent (`authPolice >= RequestClientCert` after the ECDHE promotion) -/
  certRequested : Bool
  /-- server: an empty Certificate message satisfies the policy (`!requiresClientCert` and not ECDHE) -/
  emptyOK : Bool
  /-- the suite is SM2-ECDHE -/
  ecdhe : Bool
  deriving DecidableEq, Repr

structure Prog where
  fns : List (List GOp)
  root : Nat
  table : List Row
  /-- `Facts.*.ecdheClientCkxNeedsSkx` -/
  ecdheNeedsSkx : Bool
  /-- the retry counter is reset by a non-empty record that is neither alert nor CCS -/
  resetOnAdvance : Bool

/-- control state -/
structure Ctl where
  stack : List (Nat × Nat)        -- (function, pc), innermost first
  cur : Option Kind               -- the message `msg` holds
  pending : List Kind             -- whole messages still unread in c.hand (coalesced record)
  got : List HsType               -- asserted message types that matched (mandatory or optional)
  peerCerts : Bool                -- len(c.peerCertificates) > 0
  keys : Bool                     -- establishKeys ran: the next cipher state is prepared
  sets : List Var
  cookieSent : Bool               -- DTLCP server: a HelloVerifyRequest went out
  helloCookie : Bool              -- DTLCP server: the ClientHello in hand carries the cookie sent before
  completed : Bool
  deriving DecidableEq, Repr

def Ctl.init (root : Nat) : Ctl :=
  { stack := [(root, 0)], cur := none, pending := [], got := [], peerCerts := false, keys := false, sets := [],
    cookieSent := false, helloCookie := false, completed := false }

def curType (q : Ctl) : Option HsType := q.cur.bind hsTypeOf

def evalAtom (cfg : Cfg) (q : Ctl) : Atom → Bool
  | .resume b => cfg.resume == b
  | .got t => q.got.contains t
  | .certRequested => cfg.certRequested
  | .peerCerts => q.peerCerts
  | .tt => true
  | .ff => false
  | .caseOf t => curType q == some t
  | .caseOther ts => match curType q with | some t => !ts.contains t | none => true
  | .isSet v b => q.sets.contains v == b
  | .cookieBad => !q.helloCookie

def setGot (l : List HsType) (t : HsType) (b : Bool) : List HsType :=
  if b then (if l.contains t then l else t :: l) else l.erase t

inductive Step
  | next (q : Ctl)      -- continue executing
  | wait                -- blocked in readHandshake / readChangeCipherSpec
  | failed
  | finished            -- the root function returned

/-- hand-written semantics of the marks -/
def applyMark (cfg : Cfg) (P : Prog) (q : Ctl) : Mark → Option Ctl
  | .establishKeys => some { q with keys := true }
  | .processCertsFromClient =>
    -- an empty list is refused when the policy requires a certificate (or the suite is ECDHE);
    -- c.peerCertificates = the parsed list
    if q.cur == some .certificateEmpty && !cfg.emptyOK then none
    else some { q with peerCerts := q.cur == some .certificate }
  | .generateClientKeyExchange =>
    -- SM2-ECDHE: needs the server's ephemeral key (from ServerKeyExchange) and the client's own
    -- encryption key pair, which is only looked up when a CertificateRequest was processed
    if cfg.ecdhe && ((P.ecdheNeedsSkx && !q.got.contains .serverKeyExchange) || !q.got.contains .certificateRequest)
    then none else some q
  | .set v => some { q with sets := if q.sets.contains v then q.sets else v :: q.sets }
  | .hvrSent =>
    -- the scripted client echoes the latest cookie: every ClientHello after a HelloVerifyRequest is valid
    some { q with cookieSent := true }

def withPc (q : Ctl) (f pc : Nat) (rest : List (Nat × Nat)) : Ctl := { q with stack := (f, pc) :: rest }

/-- one op of the program -/
def step (cfg : Cfg) (P : Prog) (q : Ctl) : Step :=
  match q.stack with
  | [] => .finished
  | (f, pc) :: rest =>
    match (P.fns.getD f [])[pc]? with
    | none => .next { q with stack := rest }          -- end of the function body: return
    | some g =>
      if !(g.guard.all (evalAtom cfg q)) then .next (withPc q f (pc + 1) rest) else
      match g.op with
      | .nop => .next (withPc q f (pc + 1) rest)
      | .read =>
        match q.pending with
        | [] => .wait
        | k :: more =>
          -- readHandshake finds the next message already buffered
          .next { withPc q f (pc + 1) rest with
                  cur := some k, pending := more,
                  helloCookie := if k == .clientHello then q.cookieSent else q.helloCookie }
      | .ccs => .wait
      | .must t ne =>
        match q.cur with
        | none => .failed
        | some k => if hsTypeOf k == some t && !(ne && k == .certificateEmpty)
                    then .next { withPc q f (pc + 1) rest with got := setGot q.got t true } else .failed
      | .opt t => .next { withPc q f (pc + 1) rest with got := setGot q.got t (curType q == some t) }
      | .call g' => .next { q with stack := (g', 0) :: (f, pc + 1) :: rest }
      | .mark m =>
        match applyMark cfg P q m with
        | none => .failed
        | some q' => .next (withPc q' f (pc + 1) rest)
      | .complete => .next { withPc q f (pc + 1) rest with completed := true }
      | .jump t => .next (withPc q f t rest)
      | .ret => .next { q with stack := rest }
      | .fail => .failed

inductive Halt
  | waiting (q : Ctl)
  | done (q : Ctl)
  | failed
  deriving DecidableEq, Repr

/-- run until the code blocks, fails or returns (fuel bounds the number of ops executed between
two reads; running out of fuel counts as failure and is excluded by `C08_facts`-style checks) -/
def advance (cfg : Cfg) (P : Prog) : Nat → Ctl → Halt
  | 0, _ => .failed
  | fuel + 1, q =>
    match step cfg P q with
    | .next q' => advance cfg P fuel q'
    | .wait => .waiting q
    | .failed => .failed
    | .finished => if q.completed then .done q else .failed

def fuel : Nat := 200

/-- is the op the control state is blocked at a readChangeCipherSpec? -/
def expectsCCS (P : Prog) (q : Ctl) : Bool :=
  match q.stack with
  | (f, pc) :: _ => (match (P.fns.getD f [])[pc]? with | some g => g.op == .ccs | none => false)
  | [] => false

def bumpPc (q : Ctl) : Ctl :=
  match q.stack with
  | (f, pc) :: rest => { q with stack := (f, pc + 1) :: rest }
  | [] => q

/-- does this record restart the useless-record counter? (`typ != alert && typ != ccs && len(data) > 0`) -/
def resets (P : Prog) (k : Kind) : Bool :=
  let r := recOf k
  P.resetOnAdvance && r.typ != .alert && r.typ != .ccs && !r.empty

/-- control states of the automaton: `none` = the handshake function has returned successfully -/
abbrev Q := Option Ctl

def ofHalt (k : Kind) (P : Prog) : Halt → Outcome Q
  | .waiting q => .goOn (some q) (resets P k)
  | .done _ => .goOn none (resets P k)
  | .failed => .fail

/-- next record `k` while blocked at a read / readChangeCipherSpec -/
def next (cfg : Cfg) (P : Prog) : Q → Kind → Outcome Q
  | none, _ => .fail            -- the handshake is over: nothing more is consumed by it
  | some q, k =>
    let expect := expectsCCS P q
    match classify P.table { recOf k with pending := !q.pending.isEmpty } expect with
    | .retry => .retry (some q)
    | .hand =>
      -- bytes go to c.hand; only a blocked readHandshake picks the message up
      if expect || !k.isHandshake then .fail
      else ofHalt k P (advance cfg P fuel
        { bumpPc q with cur := some k,
                        -- the scripted client echoes the latest cookie it was given
                        helloCookie := if k == .clientHello then q.cookieSent else q.helloCookie })
    | .change =>
      -- c.in.changeCipherSpec(): alertInternalError when no cipher was prepared
      if !expect || !q.keys then .fail
      else ofHalt k P (advance cfg P fuel (bumpPc q))
    | _ => .fail

/-- a handshake record that carries several whole messages back to back (outside the alphabet
of the language theorems; used by the oracle for the coalescing probes) -/
def nextRec (cfg : Cfg) (P : Prog) : Q → List Kind → Outcome Q
  | q, [k] => next cfg P q k
  | none, _ => .fail
  | some _, [] => .fail
  | some q, k :: more =>
    let expect := expectsCCS P q
    if !(k :: more).all Kind.isHandshake then .fail else
    match classify P.table { recOf k with pending := !q.pending.isEmpty } expect with
    | .hand =>
      if expect then .fail
      else if !q.pending.isEmpty then .goOn (some { q with pending := q.pending ++ (k :: more) }) (resets P k)
      else ofHalt k P (advance cfg P fuel
        { bumpPc q with cur := some k, pending := more,
                        helloCookie := if k == .clientHello then q.cookieSent else q.helloCookie })
    | _ => .fail

def auto (cfg : Cfg) (P : Prog) : Auto Q := { next := next cfg P, accepting := fun q => q.isNone }

/-- the state in which the endpoint first blocks (after sending its own first flight) -/
def start (cfg : Cfg) (P : Prog) : Option Q :=
  match advance cfg P fuel (Ctl.init P.root) with
  | .waiting q => some (some q)
  | .done _ => some none
  | .failed => none

/-! ### putting it together -/

structure Skeleton where
  flows : RawFlows
  table : List (String × String × String × String)
  pre : List (String × String)
  retryIncrementsFirst : Bool
  retryLimitCond : String
  ecdheNeedsSkx : Bool
  maxUseless : Nat

def resetCond : String := "typ != recordTypeAlert && typ != recordTypeChangeCipherSpec && len(data) > 0"

/-- the program of one side (`root` = "client:Conn.clientHandshake" / "server:Conn.serverHandshake") -/
def ofSkeleton (s : Skeleton) (root : String) : Option Prog :=
  let names := s.flows.map (·.1)
  match compileAll names s.flows, compileTable s.table, findIdx names root with
  | some fns, some table, some r =>
    -- the counter conditions must be the ones the wrapper `Auto.feed` implements
    if s.retryIncrementsFirst && s.retryLimitCond == "c.retryCount > maxUselessRecords" then
      some { fns := fns, root := r, table := table, ecdheNeedsSkx := s.ecdheNeedsSkx,
             resetOnAdvance := s.pre.any (fun p => p.1 == resetCond && p.2 == "resetRetry") }
    else none
  | _, _, _ => none

def Prog.empty : Prog := { fns := [], root := 0, table := [], ecdheNeedsSkx := false, resetOnAdvance := false }

/-- the compiled program, or the empty program (which accepts nothing) when the skeleton is not understood -/
def progOf (s : Skeleton) (root : String) : Prog := (ofSkeleton s root).getD Prog.empty

def compiles (s : Skeleton) (root : String) : Bool := (ofSkeleton s root).isSome

/-- acceptance of a word by the endpoint described by `s` -/
def accepts (s : Skeleton) (root : String) (cfg : Cfg) (w : List Kind) : Bool :=
  match start cfg (progOf s root) with
  | none => false
  | some q0 => (auto cfg (progOf s root)).accepts s.maxUseless q0 w

/-- observation the driver makes after sending the whole word -/
inductive Obs
  | completed (at_ : Nat) | failed (at_ : Nat) | pending
  deriving DecidableEq, Repr

/-- one record = one or more message kinds -/
def feedRec (cfg : Cfg) (P : Prog) (max : Nat) : St Q → List Kind → St Q
  | .dead, _ => .dead
  | .run q n, r =>
    match nextRec cfg P q r with
    | .retry q' => if n + 1 > max then .dead else .run q' (n + 1)
    | .goOn q' rs => .run q' (if rs then 0 else n)
    | .fail => .dead

def observeFrom (cfg : Cfg) (P : Prog) (max : Nat) : St Q → List (List Kind) → Nat → Obs
  | .dead, _, i => .failed (i - 1)
  | .run q _, [], i => if q.isNone then .completed (i - 1) else .pending
  | .run q n, r :: rs, i =>
    if q.isNone then .completed (i - 1) else
    observeFrom cfg P max (feedRec cfg P max (.run q n) r) rs (i + 1)

/-- what the driver observes for a sequence of records (each a list of coalesced message kinds) -/
def observe (s : Skeleton) (root : String) (cfg : Cfg) (w : List (List Kind)) : Option Obs :=
  match ofSkeleton s root with
  | none => none
  | some P =>
    match start cfg P with
    | none => none
    | some q0 => some (observeFrom cfg P s.maxUseless (.run q0 0) w 0)

end Gotlcp.Model.Flow

/-
The constants of the codec models, filled from the regenerated facts (one record per stack).
Used by the oracle and by the property theorems, so that both speak about the tree as it is.
-/
import Gotlcp.Model.CodecDtlcp
import Gotlcp.Model.CodecEmitted
import Gotlcp.Model.CodecMake
import Gotlcp.Generated.Facts

namespace Gotlcp.Model.Codec
open Gotlcp

def codesT : Codes where
  tClientHello := Facts.tlcp.typeClientHello
  tServerHello := Facts.tlcp.typeServerHello
  tHelloVerifyRequest := 0
  tCertificate := Facts.tlcp.typeCertificate
  tServerKeyExchange := Facts.tlcp.typeServerKeyExchange
  tCertificateRequest := Facts.tlcp.typeCertificateRequest
  tServerHelloDone := Facts.tlcp.typeServerHelloDone
  tCertificateVerify := Facts.tlcp.typeCertificateVerify
  tClientKeyExchange := Facts.tlcp.typeClientKeyExchange
  tFinished := Facts.tlcp.typeFinished
  extServerName := Facts.tlcp.extensionServerName
  extTrustedCAKeys := Facts.tlcp.extensionTrustedCAKeys
  extStatusRequest := Facts.tlcp.extensionStatusRequest
  extSupportedCurves := Facts.tlcp.extensionSupportedCurves
  extSignatureAlgorithms := Facts.tlcp.extensionSignatureAlgorithms
  extALPN := Facts.tlcp.extensionALPN
  extClientID := Facts.tlcp.extensionClientID
  taPreAgreed := Facts.tlcp.IdentifierTypePreAgreed
  taX509Name := Facts.tlcp.IdentifierTypeX509Name
  taKeyHash := Facts.tlcp.IdentifierTypeKeySM3Hash
  taCertHash := Facts.tlcp.IdentifierTypeCertSM3Hash
  randomLen := Facts.tlcp.codecRandomLens.headD 0
  hashLen := Facts.tlcp.codecHashLen
  hl := Facts.tlcp.codecSkips.headD 0
  maxHandshake := Facts.tlcp.maxHandshake
  curvesMode := Facts.tlcp.codecCurvesMakeMode
  sigAlgsMode := Facts.tlcp.codecSigAlgsMakeMode
  complete := Facts.tlcp.codecCompleteChecked

def codesD : Codes where
  tClientHello := Facts.dtlcp.typeClientHello
  tServerHello := Facts.dtlcp.typeServerHello
  tHelloVerifyRequest := Facts.dtlcp.typeHelloVerifyRequest
  tCertificate := Facts.dtlcp.typeCertificate
  tServerKeyExchange := Facts.dtlcp.typeServerKeyExchange
  tCertificateRequest := Facts.dtlcp.typeCertificateRequest
  tServerHelloDone := Facts.dtlcp.typeServerHelloDone
  tCertificateVerify := Facts.dtlcp.typeCertificateVerify
  tClientKeyExchange := Facts.dtlcp.typeClientKeyExchange
  tFinished := Facts.dtlcp.typeFinished
  extServerName := Facts.dtlcp.extensionServerName
  extTrustedCAKeys := Facts.dtlcp.extensionTrustedCAKeys
  extStatusRequest := Facts.dtlcp.extensionStatusRequest
  extSupportedCurves := Facts.dtlcp.extensionSupportedCurves
  extSignatureAlgorithms := Facts.dtlcp.extensionSignatureAlgorithms
  extALPN := Facts.dtlcp.extensionALPN
  extClientID := Facts.dtlcp.extensionClientID
  taPreAgreed := Facts.dtlcp.IdentifierTypePreAgreed
  taX509Name := Facts.dtlcp.IdentifierTypeX509Name
  taKeyHash := Facts.dtlcp.IdentifierTypeKeySM3Hash
  taCertHash := Facts.dtlcp.IdentifierTypeCertSM3Hash
  randomLen := Facts.dtlcp.codecRandomLens.headD 0
  hashLen := Facts.dtlcp.codecHashLen
  hl := Facts.dtlcp.dtlcpHeaderLen
  maxHandshake := Facts.dtlcp.maxHandshake
  curvesMode := Facts.dtlcp.codecCurvesMakeMode
  sigAlgsMode := Facts.dtlcp.codecSigAlgsMakeMode
  complete := Facts.dtlcp.codecCompleteChecked

end Gotlcp.Model.Codec

namespace Gotlcp.Model.Emitted
open Gotlcp

def paramsT : EmitParams where
  vers := Facts.tlcp.VersionTLCP
  randLen := Facts.tlcp.emitRandLen
  sidLen := Facts.tlcp.emitSessionIdLen
  suites := Facts.tlcp.preferenceOrder
  compressionNone := Facts.tlcp.emit_compressionNone
  sigSM2 := Facts.tlcp.emit_SM2WithSM3
  certTypes := Facts.tlcp.emitCertTypes
  finishedLen := Facts.tlcp.finishedVerifyLength

def paramsD : EmitParams where
  vers := Facts.dtlcp.VersionTLCP
  randLen := Facts.dtlcp.emitRandLen
  sidLen := Facts.dtlcp.emitSessionIdLen
  suites := Facts.dtlcp.preferenceOrder
  compressionNone := Facts.dtlcp.emit_compressionNone
  sigSM2 := Facts.dtlcp.emit_SM2WithSM3
  certTypes := Facts.dtlcp.emitCertTypes
  finishedLen := Facts.dtlcp.finishedVerifyLength

end Gotlcp.Model.Emitted

namespace Gotlcp.Model.Make
open Gotlcp

/-- `defaultCipherSuites = cipherSuitesPreferenceOrder[:len(order) - len(disabledCipherSuites)]` -/
def makeT : MakeParams where
  ecdhe := [Facts.tlcp.ECDHE_SM4_GCM_SM3, Facts.tlcp.ECDHE_SM4_CBC_SM3]
  sigSuites := [Facts.tlcp.ECDHE_SM4_GCM_SM3, Facts.tlcp.ECDHE_SM4_CBC_SM3, Facts.tlcp.ECC_SM4_CBC_SM3, Facts.tlcp.ECC_SM4_GCM_SM3]
  defaultSuites := Facts.tlcp.preferenceOrder.take (Facts.tlcp.preferenceOrder.length - Facts.tlcp.disabledSuites.length)
  curveSM2 := Facts.tlcp.emit_CurveSM2
  taHashLen := Facts.tlcp.emitTAHashLenChecked
  taHashTypes := [Facts.tlcp.IdentifierTypeKeySM3Hash, Facts.tlcp.IdentifierTypeCertSM3Hash]

def makeD : MakeParams where
  ecdhe := [Facts.dtlcp.ECDHE_SM4_GCM_SM3, Facts.dtlcp.ECDHE_SM4_CBC_SM3]
  sigSuites := [Facts.dtlcp.ECDHE_SM4_GCM_SM3, Facts.dtlcp.ECDHE_SM4_CBC_SM3, Facts.dtlcp.ECC_SM4_CBC_SM3, Facts.dtlcp.ECC_SM4_GCM_SM3]
  defaultSuites := Facts.dtlcp.preferenceOrder.take (Facts.dtlcp.preferenceOrder.length - Facts.dtlcp.disabledSuites.length)
  curveSM2 := Facts.dtlcp.emit_CurveSM2
  taHashLen := Facts.dtlcp.emitTAHashLenChecked
  taHashTypes := [Facts.dtlcp.IdentifierTypeKeySM3Hash, Facts.dtlcp.IdentifierTypeCertSM3Hash]

end Gotlcp.Model.Make

/-
Model of the protocol adapter (package `pa`): `ProtocolDetectConn.ReadFirstHeader`,
`ProtocolDetectConn.Read`, `ProtocolSwitchServerConn.detect` and the retry behaviour of
`ProtocolSwitchServerConn.Read/Write` (which call `detect` again while `wrapped == nil`).

The transport below the adapter is a script of events: a `data c` event is what one
underlying `Read` can return at most (a smaller buffer takes a prefix and leaves the rest
pending), `timeout` is one `Read` that returns `(0, timeout error)` (a read deadline), the
end of the script is end-of-stream (every further `Read` returns `io.EOF`).  Every
segmentation of a byte stream is some list of `data` events.

Core Lean only (linked into `oracle_c20`).
-/
import Gotlcp.Base.Hex

namespace Gotlcp.Model.PA

inductive Ev where
  | data (c : Bytes)
  | timeout
  deriving Repr, DecidableEq

inductive IOErr where
  | eof | unexpectedEOF | timeout
  deriving Repr, DecidableEq

/-- all bytes the client sent, in order -/
def pending : List Ev → Bytes
  | [] => []
  | .data c :: r => c ++ pending r
  | .timeout :: r => pending r

/-- one `Read(p)` of the transport with `len(p) = n` -/
def tRead : List Ev → Nat → Bytes × Option IOErr × List Ev
  | evs, 0 => ([], none, evs)
  | [], _ + 1 => ([], some .eof, [])
  | .timeout :: r, _ + 1 => ([], some .timeout, r)
  | .data c :: r, n + 1 =>
    if c.length ≤ n + 1 then (c, none, r)
    else (c.take (n + 1), none, .data (c.drop (n + 1)) :: r)

/-- the read loop of `io.ReadFull` / `io.ReadAtLeast` asking for `n` more bytes:
`for got < n && err == nil { nn, err = r.Read(buf[got:]); got += nn }`, unrolled over the script.
Returns the bytes obtained, the error of the last `Read` and the remaining script. -/
def readFull : List Ev → Nat → Bytes × Option IOErr × List Ev
  | evs, 0 => ([], none, evs)
  | [], _ + 1 => ([], some .eof, [])
  | .timeout :: r, _ + 1 => ([], some .timeout, r)
  | .data c :: r, n + 1 =>
    if c.length ≤ n + 1 then
      let res := readFull r (n + 1 - c.length)
      (c ++ res.1, res.2.1, res.2.2)
    else (c.take (n + 1), none, .data (c.drop (n + 1)) :: r)

/-- the error `io.ReadFull` reports: nil when the buffer was filled, `ErrUnexpectedEOF` when
the stream ended after some but not all bytes, otherwise the reader's error -/
def readFullErr (got need : Nat) (e : Option IOErr) : Option IOErr :=
  if need ≤ got then none
  else if 0 < got ∧ e = some .eof then some .unexpectedEOF
  else e

/-- what of the source the model depends on (regenerated facts) -/
structure Params where
  headerLen : Nat
  majorIndex : Nat
  minorIndex : Nat
  /-- `ReadFirstHeader` keeps a partially read header across calls (repair F21) -/
  resumable : Bool
  /-- rows `(case value, nil-checked cfg, constructor)`; 1 = tlcp, 2 = tls -/
  table : List (Nat × Nat × Nat)
  defaultUnsupported : Bool
  /-- `conn()` runs `detect` at every `Read`/`Write` made while no stack is installed and keeps
  nothing of a failed detection besides the partly read header (facts
  `connDetectsWheneverUnwrapped`, `failureKeptFields`, `wrappedOnlyFromDispatch`).  `false`: the
  outcome of the FIRST detection is final (a `sync.Once`, a stored error). -/
  retriesDetect : Bool := true
  deriving Repr

/-- `ProtocolDetectConn` -/
structure PD where
  evs : List Ev
  /-- `c.recordHeader` (`[]` is nil) -/
  hdr : Bytes := []
  /-- fill mark of the header buffer (only used by the resumable variant) -/
  filled : Nat := 0
  major : UInt8 := 0
  minor : UInt8 := 0
  deriving Repr, DecidableEq

inductive RFH where
  | ok | err (e : IOErr) | panic
  deriving Repr, DecidableEq

/-- `buf[f:f+len b] = b` -/
def splice (buf : Bytes) (f : Nat) (b : Bytes) : Bytes :=
  buf.take f ++ b ++ buf.drop (f + b.length)

/-- the buffer and fill mark `io.ReadFull` starts from: a fresh zeroed buffer in the original
code (`c.recordHeader = make([]byte, 5)` on every call); the kept partial header when the
repaired code is retried (`if c.recordHeader == nil || c.headerRead > len(c.recordHeader)`) -/
def hdrStart (P : Params) (s : PD) : Bytes × Nat :=
  if !P.resumable || s.hdr.isEmpty || decide (s.hdr.length < s.filled) then (List.replicate P.headerLen (0 : UInt8), 0)
  else (s.hdr, s.filled)

/-- `ProtocolDetectConn.ReadFirstHeader`.  Note that `major`/`minor` are assigned from the
buffer even when `io.ReadFull` failed (they are then zero or partial), as in the code. -/
def readFirstHeader (P : Params) (s : PD) : RFH × PD :=
  let st := hdrStart P s
  let need := st.1.length - st.2
  let res := readFull s.evs need
  let buf := splice st.1 st.2 res.1
  let err := readFullErr res.1.length need res.2.1
  let s1 : PD := { s with evs := res.2.2, hdr := buf, filled := st.2 + res.1.length }
  match buf[P.majorIndex]?, buf[P.minorIndex]? with
  | some mj, some mn =>
    let s2 : PD := { s1 with major := mj, minor := mn }
    match err with
    | none => (.ok, s2)
    | some e => (.err e, s2)
  | _, _ => (.panic, s1)

/-- `ProtocolDetectConn.Read(b)` with `len(b) = n`, branch by branch -/
def pdRead (s : PD) (n : Nat) : Bytes × Option IOErr × PD :=
  if s.hdr.length = 0 then
    let r := tRead s.evs n
    (r.1, r.2.1, { s with evs := r.2.2 })
  else if s.hdr.length ≤ n then
    -- n = copy(b, c.recordHeader); c.recordHeader = nil
    if s.hdr.length < n then
      let r := tRead s.evs (n - s.hdr.length)
      (s.hdr ++ r.1, r.2.1, { s with hdr := [], evs := r.2.2 })
    else (s.hdr, none, { s with hdr := [] })
  else
    -- p := c.recordHeader[:len(b)]; c.recordHeader = c.recordHeader[len(b):]
    (s.hdr.take n, none, { s with hdr := s.hdr.drop n })

/-- a sequence of reads with the given buffer sizes -/
def reads (s : PD) : List Nat → List (Bytes × Option IOErr) × PD
  | [] => ([], s)
  | n :: ns =>
    let r := pdRead s n
    let rest := reads r.2.2 ns
    ((r.1, r.2.1) :: rest.1, rest.2)

def delivered (outs : List (Bytes × Option IOErr)) : Bytes := (outs.map (·.1)).flatten

/-- which configurations the listener holds -/
structure Cfg where
  tlcp : Bool
  tls : Bool
  deriving Repr, DecidableEq

inductive Route where
  | tlcp | tls | unsupported | config | io (e : IOErr) | panic
  deriving Repr, DecidableEq

def Route.served : Route → Bool
  | .tlcp | .tls => true
  | _ => false

def cfgNil (cfg : Cfg) (code : Nat) : Bool :=
  (code == 1 && !cfg.tlcp) || (code == 2 && !cfg.tls)

def ctorRoute (code : Nat) : Route :=
  if code == 1 then .tlcp else if code == 2 then .tls else .panic

/-- the `switch c.p.major` of `detect` over the extracted table -/
def route (P : Params) (cfg : Cfg) (major : UInt8) : Route :=
  match P.table.find? (fun r => r.1 == major.toNat) with
  | some (_, guard, ctor) => if cfgNil cfg guard then .config else ctorRoute ctor
  | none => if P.defaultUnsupported then .unsupported else .panic

/-- `ProtocolSwitchServerConn` -/
structure SC where
  p : PD
  wrapped : Option Route := none
  deriving Repr, DecidableEq

/-- `detect`: returns what the caller of `Read`/`Write` observes — the stack now serving the
connection, or the error -/
def detect (P : Params) (cfg : Cfg) (c : SC) : Route × SC :=
  match c.wrapped with
  | some w => (w, c)
  | none =>
    match readFirstHeader P c.p with
    | (.err e, p1) => (.io e, { c with p := p1 })
    | (.panic, p1) => (.panic, { c with p := p1 })
    | (.ok, p1) =>
      let r := route P cfg p1.major
      if r.served then (r, { p := p1, wrapped := some r }) else (r, { c with p := p1 })

/-- the caller calls `Read`/`Write` up to `k` times, going on after errors (each call re-enters
`detect` while no stack is installed); stops at the first success or panic -/
def attempts (P : Params) (cfg : Cfg) : Nat → SC → List Route × SC
  | 0, c => ([], c)
  | k + 1, c =>
    let r := detect P cfg c
    if r.1.served || r.1 == .panic then ([r.1], r.2)
    else
      let rest := attempts P cfg k r.2
      (r.1 :: rest.1, rest.2)

/-! ### the public object

What a server application holds is the `ProtocolSwitchServerConn` returned by `Accept`; it
calls `Read` / `Write` on it, which go through `conn()`.  `kept` is whatever `conn()` keeps of an
earlier detection besides `wrapped` — nothing in the code as it is (`retriesDetect`), the first
outcome when the detection is wrapped into a once-only idiom. -/

structure Pub where
  c : SC
  kept : Option Route := none
  deriving Repr, DecidableEq

/-- one `Read` / `Write` on the public object: the stack that serves the call, or the error the
caller gets -/
def call (P : Params) (cfg : Cfg) (u : Pub) : Route × Pub :=
  if P.retriesDetect then
    let r := detect P cfg u.c
    (r.1, { u with c := r.2 })
  else
    match u.kept with
    | some r => (r, u)
    | none =>
      let r := detect P cfg u.c
      (r.1, { c := r.2, kept := some r.1 })

/-- `k` calls in a row, whatever they answer (the application goes on after a deadline expiry,
and may go on using a served connection) -/
def calls (P : Params) (cfg : Cfg) : Nat → Pub → List Route × Pub
  | 0, u => ([], u)
  | k + 1, u =>
    let r := call P cfg u
    let rest := calls P cfg k r.2
    (r.1 :: rest.1, rest.2)

/-- number of reads of the script that time out -/
def nTimeouts : List Ev → Nat
  | [] => 0
  | .timeout :: r => nTimeouts r + 1
  | .data _ :: r => nTimeouts r

def Route.isIO : Route → Bool
  | .io _ => true
  | _ => false

end Gotlcp.Model.PA

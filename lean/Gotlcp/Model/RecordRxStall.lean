/-
Read time-outs on the receiving side of the TLCP record layer (tlcp/conn.go `readFromUntil`,
`readRecordOrCCS`, `Conn.Read`): a transport that *stalls* — it has handed over some chunks, more
will come later, and meanwhile the reader's read deadline fires.

`Model.RecordRx.fill` already says what `readFromUntil` leaves behind when a transport `Read`
fails with nothing more to give (its `[]` case): `bytes.Buffer.ReadFrom` has appended every chunk it
received to `c.rawInput` before the failing `Read`, so everything that arrived is kept.  What is
different on a stalled transport is the *error*: not the end of the stream but a time-out, a
temporary `net.Error`, which `readRecordOrCCS` hands to the caller without latching it in
`c.in.err` — the caller may extend the deadline and read again.  `nextFrameS` is `nextFrame` on such
a transport (the stream has not ended: `eofWithLast = false`; the deadline had not passed before the
call: `expired = false`; so `readFromUntil` can only fail by running out of chunks, and that failure
is the time-out).  `readOneS` … `connReadS` are `readOne` … `connRead` over `nextFrameS`, statement
for statement.

`Stalled` is a receive half together with what arrives after each extension of the deadline.

Core Lean only (linked into `oracle_c06`).
-/
import Gotlcp.Model.RecordRxStream

namespace Gotlcp.Model.RecordRx

/-- `nextFrame` on a transport that has not ended: running out of chunks is the reader's time-out -/
def nextFrameS (P : Params) (r : Raw) : FrameRes × Raw :=
  match nextFrame P r with
  | (.err .eof, r') => (.err .timeout, r')
  | (.err .unexpectedEOF, r') => (.err .timeout, r')
  | x => x

/-- the part of `readOne` after a record has been framed (same statements as in `readOne`) -/
def afterFrame (P : Params) (dec : Dec) (s : Rx) (typ : UInt8) (body : Bytes) (io' : Raw) : Step × Rx :=
  match dec s.seq typ body with
  | none => (.err .badRecordMAC, { s with io := io' })
  | some data =>
    let s1 : Rx := { s with io := io', seq := s.seq + 1 }
    if P.maxPlaintext < data.length then (.err .recordOverflow, s1)
    else
      let s2 : Rx := if typ.toNat ≠ P.typeAlert ∧ typ.toNat ≠ P.typeCCS ∧ data.length > 0
        then { s1 with retry := 0 } else s1
      if typ.toNat = P.typeAlert then
        if data.length ≠ 2 then (.err .unexpectedMessage, s2)
        else if (data.getD 1 0).toNat = P.alertCloseNotify then (.err .eof, s2)
        else if (data.getD 0 0).toNat = P.levelWarning then (.retry, s2)
        else if (data.getD 0 0).toNat = P.levelError then (.err (.remoteAlert (data.getD 1 0).toNat), s2)
        else (.err .unexpectedMessage, s2)
      else if typ.toNat = P.typeCCS then (.err .unexpectedMessage, s2)
      else if typ.toNat = P.typeAppData then
        if data.length = 0 then (.retry, s2) else (.ok, { s2 with input := data })
      else if typ.toNat = P.typeHandshake then
        if data.length = 0 then (.err .unexpectedMessage, s2) else (.err .noRenegotiation, s2)
      else (.err .unexpectedMessage, s2)

/-- `readOne` is framing followed by `afterFrame` -/
theorem readOne_afterFrame (P : Params) (dec : Dec) (s : Rx) :
    readOne P dec s = match nextFrame P s.io with
      | (.err e, io') => (.err e, { s with io := io' })
      | (.frame typ body, io') => afterFrame P dec s typ body io' := by
  unfold readOne afterFrame
  rfl

def readOneS (P : Params) (dec : Dec) (s : Rx) : Step × Rx :=
  match nextFrameS P s.io with
  | (.err e, io') => (.err e, { s with io := io' })
  | (.frame typ body, io') => afterFrame P dec s typ body io'

def readRecordS (P : Params) (dec : Dec) : Nat → Rx → Option RxErr × Rx
  | 0, s => (some .internal, s)
  | fuel + 1, s =>
    match s.err with
    | some e => (some e, s)
    | none =>
      if s.input.length ≠ 0 then (some .internal, { s with err := some .internal })
      else
        match readOneS P dec s with
        | (.ok, s1) => (none, s1)
        -- a time-out is a temporary net.Error: not latched
        | (.err e, s1) => (some e, if e = .timeout then s1 else { s1 with err := some e })
        | (.retry, s1) =>
          let s2 := { s1 with retry := s1.retry + 1 }
          if P.maxUselessRecords < s2.retry then (some .tooManyIgnored, { s2 with err := some .tooManyIgnored })
          else readRecordS P dec fuel s2

def fillInputS (P : Params) (dec : Dec) : Nat → Rx → Option RxErr × Rx
  | 0, s => (some .internal, s)
  | fuel + 1, s =>
    if s.input.length ≠ 0 then (none, s)
    else
      match readRecordS P dec (recFuel P) s with
      | (some e, s1) => (some e, s1)
      | (none, s1) => fillInputS P dec fuel s1

def drainInputS (P : Params) (dec : Dec) (s1 : Rx) (n : Nat) : Bytes × Option RxErr × Rx :=
  let out := s1.input.take n
  let s2 := { s1 with input := s1.input.drop n }
  if out.length ≠ 0 ∧ s2.input.length = 0 ∧ s2.io.raw.length > 0 ∧
      (s2.io.raw.getD 0 0).toNat = P.typeAlert then
    match readRecordS P dec (recFuel P) s2 with
    | (some e, s3) => (out, some e, s3)
    | (none, s3) => (out, none, s3)
  else (out, none, s2)

/-- `Conn.Read(b)`, `len(b) = n`, while the transport stalls behind `s.io.chunks` -/
def connReadS (P : Params) (dec : Dec) (s : Rx) (n : Nat) : Bytes × Option RxErr × Rx :=
  if n = 0 then ([], none, s)
  else
    match fillInputS P dec (loopFuel s) s with
    | (some e, s1) => ([], some e, s1)
    | (none, s1) => drainInputS P dec s1 n

/-- a receive half whose transport stalls: `rx.io.chunks` is what arrives before the next stall,
`later` what arrives after each extension of the reader's deadline (the transport ends after the
last of them; `eofWithLast`: it reports its end together with its very last chunk) -/
structure Stalled where
  rx : Rx
  later : List (List Bytes) := []
  eofWithLast : Bool := false
  deriving Repr, DecidableEq

/-- the transport delivers `segs`, stalling between them -/
def Stalled.start (segs : List (List Bytes)) (eof : Bool) : Stalled :=
  match segs with
  | [] => { rx := { io := { raw := [], chunks := [], eofWithLast := eof } } }
  | [a] => { rx := { io := { raw := [], chunks := a, eofWithLast := eof } } }
  | a :: rest => { rx := { io := { raw := [], chunks := a } }, later := rest, eofWithLast := eof }

/-- one `Conn.Read` -/
def Stalled.read (P : Params) (dec : Dec) (t : Stalled) (n : Nat) : Bytes × Option RxErr × Stalled :=
  if t.later.isEmpty then
    let r := connRead P dec t.rx n
    (r.1, r.2.1, { t with rx := r.2.2 })
  else
    let r := connReadS P dec t.rx n
    (r.1, r.2.1, { t with rx := r.2.2 })

/-- the reader extends its read deadline (`SetReadDeadline` with a time in the future): the bytes
behind the stall arrive.  Nothing else changes: in particular `rawInput` keeps what it holds. -/
def Stalled.extend (t : Stalled) : Stalled :=
  match t.later with
  | [] => t
  | [a] => { t with rx := { t.rx with io := { t.rx.io with chunks := t.rx.io.chunks ++ a, eofWithLast := t.eofWithLast } }, later := [] }
  | a :: rest => { t with rx := { t.rx with io := { t.rx.io with chunks := t.rx.io.chunks ++ a } }, later := rest }

/-- everything still to come, in order -/
def Stalled.all (t : Stalled) : Bytes := t.rx.io.all ++ (t.later.map List.flatten).flatten

/-- the variant of `readFromUntil` that commits the bytes only when the whole request could be
satisfied (reading into spare capacity and appending afterwards): on failure the chunks it took
from the transport are gone.  Used only as a witness of what the theorems exclude. -/
def fillDropping (n : Nat) (raw : Bytes) (cs : List Bytes) : Bytes × List Bytes × Bool :=
  let r := fill true false false n raw cs
  if r.2.2 then r else (raw, r.2.1, false)

end Gotlcp.Model.RecordRx

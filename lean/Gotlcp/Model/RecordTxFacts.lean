/-
The parameters of the record-layer stream models as regenerated from the Go source
(`Gotlcp.Facts.tlcp.*`).  The oracle and the C06 theorems use these definitions.
-/
import Gotlcp.Model.RecordTx
import Gotlcp.Generated.Facts

namespace Gotlcp.Model.RecordTx

/-- a column of the CBC row(s) of the extracted suite table (0 when there is none) -/
def cbcColumn (f : Nat × Nat × Nat × Nat × Nat × Bool × String → Nat) : Nat :=
  match Facts.tlcp.suiteTable.find? (fun r => !r.2.2.2.2.2.1) with
  | some r => f r
  | none => 0

def factsTx : Params where
  tcpMSSEstimate := Facts.tlcp.tcpMSSEstimate
  recordHeaderLen := Facts.tlcp.recordHeaderLen
  maxPlaintext := Facts.tlcp.maxPlaintext
  maxCiphertext := Facts.tlcp.maxCiphertext
  boostThreshold := Facts.tlcp.recordSizeBoostThreshold
  -- not a named constant of the source: the literal of the tree, tied by `Tie.RecordSize.Tlcp`
  -- (translation of `maxPayloadSizeForWrite`), not by the text-matching fact `mpsPktGuard`
  pktGuard := treePktGuard
  aeadExplicit := Facts.tlcp.aeadNonceLength - Facts.tlcp.noncePrefixLength
  -- the GCM tag length is a property of crypto/cipher, not of this repository; the
  -- correspondence check compares it with the real `encrypt` on every run
  aeadOverhead := 16
  -- SM4 block size = IV length of the CBC suites; MAC length of the CBC suites
  blockSize := cbcColumn (fun r => r.2.2.2.1)
  macSize := cbcColumn (fun r => r.2.2.1)

end Gotlcp.Model.RecordTx

/-
The parameters of the `pa` model for this tree.  Both the oracle and the C20 theorems use this one
definition.

* `headerLen`, `majorIndex`, `minorIndex`, `resumable` — what `ProtocolDetectConn.ReadFirstHeader` does — are
  LITERALS justified by the translation tie: `Gotlcp.Tie.PA.tie_readFirstHeader` proves that the function
  translated from pa/conn.go on every run (`Gotlcp.Src.pa`) computes `Model.PA.readFirstHeader` with exactly
  these values (`Tie.PA.TreeP factsP`, `C20_src_refines_model` in `Props/C20.lean`); a change of the Go text that
  changes any of them breaks that proof.  The regular-expression facts `Facts.pa.headerLen` … are still emitted
  as information but no longer feed the model (DESIGN.md 13.3), so a rename-only edit of `ReadFirstHeader`
  cannot break the check.
* the dispatch table of `detect` and what the public object keeps of a detection stay regenerated facts
  (`detect`, `conn()` are not translated).
* `factsAcceptPeeks` — whether `listener.Accept` itself reads from the accepted connection before returning it —
  is read off the regenerated program of `Accept` (`Facts.pa.acceptProg`, same event alphabet as `swProgs`).
-/
import Gotlcp.Model.PA
import Gotlcp.Model.PAListen
import Gotlcp.Generated.Facts

namespace Gotlcp.Model.PA

def factsP : Params where
  headerLen := 5
  majorIndex := 1
  minorIndex := 2
  resumable := true
  table := Facts.pa.dispatch.map (fun r => (r.1, r.2.1, r.2.2.1))
  defaultUnsupported := Facts.pa.dispatchDefaultUnsupported
  retriesDetect := Facts.pa.connDetectsWheneverUnwrapped && Facts.pa.failureKeptFields.isEmpty &&
    Facts.pa.wrappedOnlyFromDispatch && Facts.pa.callsViaConn == ["Read", "Write"]

/-- does `listener.Accept` park on the accepted peer (header peek inside `Accept`)? -/
def factsAcceptPeeks : Bool := acceptPeeksOf Facts.pa.acceptProg

end Gotlcp.Model.PA

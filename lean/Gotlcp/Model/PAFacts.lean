/-
The parameters of the `pa` model as regenerated from the Go source (`Gotlcp.Facts.pa.*`).
Both the oracle and the C20 theorems use this one definition.
-/
import Gotlcp.Model.PA
import Gotlcp.Generated.Facts

namespace Gotlcp.Model.PA

def factsP : Params where
  headerLen := Facts.pa.headerLen
  majorIndex := Facts.pa.majorIndex
  minorIndex := Facts.pa.minorIndex
  resumable := Facts.pa.headerResumable
  table := Facts.pa.dispatch.map (fun r => (r.1, r.2.1, r.2.2.1))
  defaultUnsupported := Facts.pa.dispatchDefaultUnsupported
  retriesDetect := Facts.pa.connDetectsWheneverUnwrapped && Facts.pa.failureKeptFields.isEmpty &&
    Facts.pa.wrappedOnlyFromDispatch && Facts.pa.callsViaConn == ["Read", "Write"]

end Gotlcp.Model.PA

/-
Model of `tlcp/session.go` (`lruSessionCache`) — identical text in `dtlcp/session.go`.

The Go object is a `container/list` (front = most recently used) plus a map from key to
list element.  The map is exactly the key index of the list, so the model keeps only the
list.  Values are *pointers* to `SessionState`; the model keeps an object identifier and a
separate set `zeroed` of objects whose master secret has been wiped by an eviction
(`setZero(oldCs.masterSecret); oldCs.masterSecret = nil`).  That is the only write the
cache ever performs through a value pointer, so the "heap" is just that set.

Core Lean only: this file is linked into the oracle executable.
-/
namespace Gotlcp.Model.LRU

abbrev Key := String
abbrev ObjId := Nat

/-- `lruSessionCacheEntry`; `val = none` is a nil `*SessionState`. -/
structure Entry where
  key : Key
  val : Option ObjId
deriving Repr, DecidableEq, Inhabited

structure State where
  cap    : Nat
  q      : List Entry        -- front first
  zeroed : List ObjId        -- objects whose masterSecret was wiped
deriving Repr, DecidableEq

/-- `NewLRUSessionCache`: capacity < 1 ⇒ `defaultCap` (64 in the source, regenerated fact). -/
def init (defaultCap : Nat) (capacity : Int) : State :=
  { cap := if capacity < 1 then defaultCap else capacity.toNat, q := [], zeroed := [] }

inductive Op where
  | put (k : Key) (v : Option ObjId)
  | get (k : Key)
deriving Repr, DecidableEq

/-- what a call returns: `Put` returns nothing, `Get` returns `(state, ok)`. -/
inductive Out where
  | unit
  | got (v : Option ObjId) (ok : Bool)
deriving Repr, DecidableEq

def hasKey (q : List Entry) (k : Key) : Bool := q.any (·.key == k)

def findVal (q : List Entry) (k : Key) : Option (Option ObjId) :=
  (q.find? (·.key == k)).map (·.val)

def remove (q : List Entry) (k : Key) : List Entry := q.filter (·.key != k)

/-- `Put`, branch by branch as in the source.

With `strictDelete = false` the model is the code *before* the repair of F17
(`Put(k, nil)` for an absent key falls through to the insertion path). With
`strictDelete = true` it returns at once. Which one the tree has is the regenerated
fact `Facts.lruPutNilAbsentReturns`. -/
def put (strictDelete : Bool) (s : State) (k : Key) (v : Option ObjId) : State :=
  if hasKey s.q k then
    match v with
    | none   => { s with q := remove s.q k }
    | some _ => { s with q := ⟨k, v⟩ :: remove s.q k }
  else if strictDelete && v.isNone then
    s
  else if s.q.length < s.cap then
    { s with q := ⟨k, v⟩ :: s.q }
  else
    match s.q.getLast? with
    | none => { s with q := [⟨k, v⟩] }   -- unreachable for cap ≥ 1 (Go would panic on nil Back())
    | some back =>
      let z := match back.val with
               | some o => o :: s.zeroed
               | none   => s.zeroed
      { s with q := ⟨k, v⟩ :: s.q.dropLast, zeroed := z }

def get (s : State) (k : Key) : State × Out :=
  if k == "" then
    match s.q.head? with
    | none   => (s, .got none false)
    | some e => (s, .got e.val true)
  else
    match findVal s.q k with
    | some v => ({ s with q := ⟨k, v⟩ :: remove s.q k }, .got v true)
    | none   => (s, .got none false)

def step (strictDelete : Bool) (s : State) : Op → State × Out
  | .put k v => (put strictDelete s k v, .unit)
  | .get k   => get s k

def run (strictDelete : Bool) (s : State) : List Op → State × List Out
  | [] => (s, [])
  | op :: ops =>
    let (s1, o) := step strictDelete s op
    let (s2, os) := run strictDelete s1 ops
    (s2, o :: os)

def keys (s : State) : List Key := s.q.map (·.key)

/-- objects reachable through the cache -/
def live (s : State) : List ObjId := s.q.filterMap (·.val)

end Gotlcp.Model.LRU

/-
A concrete instance of the primitive laws of `Gotlcp.Model.Transcript.Prims`, in the manner of
a term algebra: hash and PRF outputs are injective serialisations of their inputs, so the
symbolic laws hold by construction.  Its existence shows the laws are jointly satisfiable; the
oracle of C03 runs the model over it.  Core Lean only.
-/
import Gotlcp.Model.Transcript

namespace Gotlcp.Model.Transcript

/-- `1^n 0 rest` determines `n` and `rest` -/
theorem unary_inj : ∀ (a b : Nat) (x y : Bytes),
    List.replicate a (1 : UInt8) ++ (0 :: x) = List.replicate b (1 : UInt8) ++ (0 :: y) → a = b ∧ x = y
  | 0, 0, x, y, h => by simpa using h
  | 0, b + 1, x, y, h => by simp [List.replicate_succ] at h
  | a + 1, 0, x, y, h => by simp [List.replicate_succ] at h
  | a + 1, b + 1, x, y, h => by
    simp only [List.replicate_succ, List.cons_append, List.cons.injEq, true_and] at h
    obtain ⟨h1, h2⟩ := unary_inj a b x y h
    exact ⟨by omega, h2⟩

def symPrf (s : Nat) (l : Bool) (d : Bytes) : Bytes :=
  List.replicate s (1 : UInt8) ++ (0 :: (if l then (1 : UInt8) else 2) :: d)

def symWrap (k n t : Nat) (p : Bytes) : Bytes := UInt8.ofNat k :: UInt8.ofNat n :: UInt8.ofNat t :: p

def symUnwrap (k n t : Nat) : Bytes → Option Bytes
  | a :: b :: c :: p => if a = UInt8.ofNat k ∧ b = UInt8.ofNat n ∧ c = UInt8.ofNat t then some p else none
  | _ => none

/-- the instance: digests are the hashed byte strings themselves, secrets are numbers -/
def symPrims : Prims where
  Digest := Bytes
  Secret := Nat
  Key := Nat
  hash := id
  prf := symPrf
  kdf := fun s side => 2 * s + (if side then 1 else 0)
  wrap := symWrap
  unwrap := symUnwrap
  hash_inj := fun _ _ h => h
  prf_inj := by
    intro k k' l l' d d' h
    unfold symPrf at h
    obtain ⟨h1, h2⟩ := unary_inj _ _ _ _ h
    simp only [List.cons.injEq] at h2
    refine ⟨h1, ?_, h2.2⟩
    cases l <;> cases l' <;> simp_all
  unwrap_wrap := by
    intro k n t p
    simp [symWrap, symUnwrap]

end Gotlcp.Model.Transcript

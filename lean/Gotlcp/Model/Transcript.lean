/-
Symbolic (Dolev–Yao style) model of the TLCP / DTLCP handshake as two transcript-accumulating
state machines, for property C03 ("tampering never yields two completed endpoints that
differ").

What is mirrored from the Go code (`tlcp/handshake_client.go`, `tlcp/handshake_server.go`,
`tlcp/conn.go`, and the dtlcp equivalents):

  * which handshake messages each side writes to / reads into `finishedHash` and in which
    order.  The client writes ClientHello and reads ServerHello with `transcript = nil` and
    adds both afterwards with `transcriptMsg`; every message of `doFullHandshake` is written /
    read with the hash; a Finished is *read* with `nil`, compared with the value computed from
    the hash as it stood BEFORE the message, and added only afterwards; the server reads
    ClientHello with `nil` and adds it in `doFullHandshake` / `doResumeHandshake`; the server
    reads CertificateVerify with `nil` and adds it after the signature check.  Whether the code
    still does each of these things is a regenerated fact (`TFlags`, from
    `Facts.*.tr*`); the machines below branch on the flags, the theorems need them `sound`.
  * `Finished = PRF(master, label, H(transcript))`, client label for the client's message,
    server label for the server's; full handshake: client Finished first; resumed: server first.
  * `readRecordOrCCS`: record version checked only once `haveVers` is set (the first record in
    each direction is only required to be < 0x1000 and of type alert / handshake), warning
    alerts dropped (at most `maxUselessRecords` in a row), ChangeCipherSpec accepted only when
    expected and with no pending handshake bytes, handshake records refused while a
    ChangeCipherSpec is expected, application data refused during the handshake.
  * `readHandshake`: 4-byte header framing over the concatenation of handshake record payloads.
  * WHICH BYTES of a received message are hashed: `readHandshake(hash)` hashes the bytes it
    decoded; a message read with `nil` and added later goes through `transcriptMsg`, i.e.
    `marshal()`, which returns the received bytes only when the decoder kept them (`raw`) —
    flag `decodedKeepRaw`; otherwise the hash covers `World.reenc`, a re-encoding of the parsed
    fields that forgets whatever the decoder skipped (`asMarshalled`).
  * WHAT switches the read cipher state: only a ChangeCipherSpec record (flag `ccsOnlyByRecord`,
    from the places where the source calls `c.in.changeCipherSpec()` / clears
    `expectChangeCipherSpec`); otherwise — defect branch — a handshake record that arrives while
    the ChangeCipherSpec is expected switches it by itself (`HS.skipCCS`, `Conn.implicitSwitch`).
  * WHEN `handshake()` marks the connection complete: as its last step, behind the flush of the
    last flight (flag `doneMarkedLast`); the transport may refuse writes (`Conn.wbroken`, set by
    the attacker's `cut`), `handshake()` then returns that error; `Conn.panics` is the consistency
    check at the end of `handshakeContext` (error on a connection marked complete, or the reverse).

What is abstract: the *content* of honest messages (`World.say`: any function of the
endpoint's history), the master secret each side derives (`World.master`), every decision the
code takes from configuration or message content (`World.choice`: resume?, send
CertificateRequest?, reject this message?), and the primitives (`Prims`: hash, PRF, record
protection) of which only the symbolic laws listed as fields are used.

The attacker is an arbitrary strategy: a function from the honest outputs so far (and its own
past deliveries) to the next record delivered to either endpoint, and to which transports are
closed by now (`Attacker.cut`).

Core Lean only (linked into `oracle_c03`).
-/
import Gotlcp.Base.Hex

namespace Gotlcp.Model.Transcript

/-! ### bytes and framing -/

def be24 (n : Nat) : Bytes := [UInt8.ofNat (n / 65536), UInt8.ofNat (n / 256), UInt8.ofNat n]

def nat24 (a b c : UInt8) : Nat := a.toNat * 65536 + b.toNat * 256 + c.toNat

/-- a framed handshake message: type, 3-byte length, body -/
abbrev Msg := Bytes

def frame (t : Nat) (body : Bytes) : Msg := UInt8.ofNat t :: (be24 body.length ++ body)

/-- message type = first byte (256 for the empty string, which is never a message) -/
def mtype : Msg → Nat
  | [] => 256
  | b :: _ => b.toNat

/-- body of a framed message -/
def mbody (m : Msg) : Bytes := m.drop 4

/-- `m` is `type ‖ len24 ‖ body` with `len24 = |body|` -/
def WellFramed (m : Msg) : Prop :=
  ∃ t : UInt8, ∃ body : Bytes, body.length < 16777216 ∧ m = t :: (be24 body.length ++ body)

/-- split the first framed message off a byte string (what `readHandshake` does with `c.hand`) -/
def splitMsg (hand : Bytes) : Option (Msg × Bytes) :=
  match hand with
  | t :: a :: b :: c :: rest =>
    let n := nat24 a b c
    if rest.length < n then none else some (t :: a :: b :: c :: rest.take n, rest.drop n)
  | _ => none

/-! ### primitives: a hypothesis structure, never axioms -/

structure Prims where
  Digest : Type
  Secret : Type
  Key : Type
  /-- SM3 over the concatenated transcript -/
  hash : Bytes → Digest
  /-- `PRF(master, label, digest)[:12]`; label `true` = "client finished" -/
  prf : Secret → Bool → Digest → Bytes
  /-- write key of the client (`true`) / server (`false`) derived from the master secret -/
  kdf : Secret → Bool → Key
  /-- record protection: key, sequence number, record type, plaintext ↦ wire payload -/
  wrap : Key → Nat → Nat → Bytes → Bytes
  unwrap : Key → Nat → Nat → Bytes → Option Bytes
  /-- collision resistance, idealised -/
  hash_inj : ∀ a b, hash a = hash b → a = b
  /-- PRF outputs are symbolic terms: equal outputs have equal inputs -/
  prf_inj : ∀ k k' l l' d d', prf k l d = prf k' l' d' → k = k' ∧ l = l' ∧ d = d'
  unwrap_wrap : ∀ k n t p, unwrap k n t (wrap k n t p) = some p

/-! ### message type codes, record types, limits (filled from `Gotlcp.Facts` by the users) -/

structure Codes where
  tCH : Nat
  tSH : Nat
  tHVR : Nat
  tCert : Nat
  tSKX : Nat
  tCR : Nat
  tSHD : Nat
  tCV : Nat
  tCKX : Nat
  tFin : Nat
  rtCCS : Nat
  rtAlert : Nat
  rtHS : Nat
  rtApp : Nat
  vers : Nat
  maxUseless : Nat
  maxHandshake : Nat
  maxCiphertext : Nat
  aWarning : Nat
  aFatal : Nat
  aCloseNotify : Nat
  aUnexpected : Nat
  aBadMac : Nat
  aOverflow : Nat
  aDecode : Nat
  aProtoVers : Nat
  aInternal : Nat
  aHandshakeFailure : Nat
deriving Repr, DecidableEq

/-- the nine handshake type codes are pairwise different and fit in a byte -/
def Codes.ok (k : Codes) : Bool :=
  k.tCH != k.tSH &&
  (k.tCH != k.tCert &&
  (k.tCH != k.tSKX &&
  (k.tCH != k.tCR &&
  (k.tCH != k.tSHD &&
  (k.tCH != k.tCV &&
  (k.tCH != k.tCKX &&
  (k.tCH != k.tFin &&
  (k.tSH != k.tCert &&
  (k.tSH != k.tSKX &&
  (k.tSH != k.tCR &&
  (k.tSH != k.tSHD &&
  (k.tSH != k.tCV &&
  (k.tSH != k.tCKX &&
  (k.tSH != k.tFin &&
  (k.tCert != k.tSKX &&
  (k.tCert != k.tCR &&
  (k.tCert != k.tSHD &&
  (k.tCert != k.tCV &&
  (k.tCert != k.tCKX &&
  (k.tCert != k.tFin &&
  (k.tSKX != k.tCR &&
  (k.tSKX != k.tSHD &&
  (k.tSKX != k.tCV &&
  (k.tSKX != k.tCKX &&
  (k.tSKX != k.tFin &&
  (k.tCR != k.tSHD &&
  (k.tCR != k.tCV &&
  (k.tCR != k.tCKX &&
  (k.tCR != k.tFin &&
  (k.tSHD != k.tCV &&
  (k.tSHD != k.tCKX &&
  (k.tSHD != k.tFin &&
  (k.tCV != k.tCKX &&
  (k.tCV != k.tFin &&
  (k.tCKX != k.tFin &&
  (decide (k.tCH < 256) &&
  (decide (k.tSH < 256) &&
  (decide (k.tCert < 256) &&
  (decide (k.tSKX < 256) &&
  (decide (k.tCR < 256) &&
  (decide (k.tSHD < 256) &&
  (decide (k.tCV < 256) &&
  (decide (k.tCKX < 256) &&
  (decide (k.tFin < 256)))))))))))))))))))))))))))))))))))))))))))))

/-! ### which transcript operations the source performs (regenerated facts) -/

structure TFlags where
  /-- client `handshake()`: `transcriptMsg(hs.hello, …)` present, first -/
  cHelloAdded : Bool
  /-- client `handshake()`: `transcriptMsg(hs.serverHello, …)` present, second -/
  cServerHelloAdded : Bool
  /-- client `doFullHandshake`: every `readHandshake` passes `&hs.finishedHash` -/
  cReadsHashed : Bool
  /-- client `doFullHandshake` and `sendFinished`: every `writeHandshakeRecord` passes it -/
  cWritesHashed : Bool
  /-- client `readFinished`: `readHandshake(nil)` … -/
  cFinReadNil : Bool
  /-- … and `transcriptMsg(serverFinished, …)` after the comparison -/
  cFinAddedAfter : Bool
  /-- server `doFullHandshake` / `doResumeHandshake`: `transcriptMsg(hs.clientHello, …)` before
  the first write -/
  sHelloAdded : Bool
  sWritesHashed : Bool
  /-- server `doFullHandshake`: Certificate and ClientKeyExchange are read with the hash -/
  sReadsHashed : Bool
  sCVReadNil : Bool
  sCVAddedAfter : Bool
  sFinReadNil : Bool
  sFinAddedAfter : Bool
  /-- `readRecordOrCCS`: a ChangeCipherSpec is refused while `c.hand.Len() > 0` -/
  ccsNeedsEmptyHand : Bool
  /-- … and when `expectChangeCipherSpec` is false -/
  ccsNeedsExpect : Bool
  /-- handshake records are refused while a ChangeCipherSpec is expected -/
  hsRefusedWhenCCSExpected : Bool
  /-- both `readFinished` compare the whole verify_data (length and content) -/
  finFullCompare : Bool
  /-- the record version is compared only under `c.haveVers` -/
  versCheckedOnlyWhenHave : Bool
  /-- a message that was RECEIVED and is added to the hash later by `transcriptMsg` enters it
  with the bytes that were received: `transcriptMsg` hashes `marshal()`, and for every message
  type handed to it `unmarshal` keeps its input in `raw` and `marshal` returns `raw` when set
  (and nothing resets `raw` of a decoded message).  When `false` the hash covers a re-encoding
  of the parsed fields (`World.reenc`). -/
  decodedKeepRaw : Bool
  /-- server `doFullHandshake` reads the client's Certificate / ClientKeyExchange with `nil`
  and adds them with `transcriptMsg` (datagram stack) instead of reading them with the hash -/
  sReadsViaMarshal : Bool
  /-- the read side changes its cipher state (and stops expecting a ChangeCipherSpec) only when a
  ChangeCipherSpec RECORD was received: every `c.in.changeCipherSpec()` of the package sits in
  the `case recordTypeChangeCipherSpec` of `readRecordOrCCS` (datagram stack: or consumes the
  `deferredCCS` note that case left), `expectChangeCipherSpec` is cleared only there.  When
  `false` the model takes the defect branch `HS.skipCCS`: a handshake record that arrives while
  the ChangeCipherSpec is expected (datagram stack: a record of the next epoch) switches the read
  cipher by itself and is accepted — without any ChangeCipherSpec having been accepted. -/
  ccsOnlyByRecord : Bool
  /-- `handshake()` of both roles marks the connection complete (`handshakeStatus` / `hsState`)
  exactly once, as a top-level statement behind every step that can fail (in particular behind
  the write and the flush of the last flight), followed only by `return nil`.  When `false` the
  model marks completion as soon as the handshake layer is through, BEFORE the last flight is
  written (`Conn.sync`). -/
  doneMarkedLast : Bool
deriving Repr, DecidableEq

/-- the transcript operations the theorems need -/
def TFlags.sound (f : TFlags) : Bool :=
  f.cHelloAdded && f.cServerHelloAdded && f.cReadsHashed && f.cWritesHashed && f.cFinReadNil &&
  f.cFinAddedAfter && f.sHelloAdded && f.sWritesHashed && f.sReadsHashed && f.sCVReadNil &&
  f.sCVAddedAfter && f.sFinReadNil && f.sFinAddedAfter && f.finFullCompare && f.decodedKeepRaw &&
  f.ccsOnlyByRecord

/-- the record-layer guards of the stream stack -/
def TFlags.recordStrict (f : TFlags) : Bool :=
  f.ccsNeedsEmptyHand && f.ccsNeedsExpect && f.hsRefusedWhenCCSExpected && f.versCheckedOnlyWhenHave

/-! ### the handshake layer: one state machine per role over messages and CCS signals -/

inductive Role where
  | client
  | server
deriving DecidableEq, Repr

def Role.isClient : Role → Bool
  | .client => true
  | .server => false

/-- chronological history of an endpoint: handshake messages it sent / accepted and the
ChangeCipherSpec signals it sent / accepted (`sent = true`: written by this endpoint) -/
inductive Entry where
  | msg (sent : Bool) (m : Msg)
  | ccs (sent : Bool)
deriving DecidableEq, Repr

/-- decisions the code takes from configuration, caches or message content -/
inductive Query where
  /-- is the message just appended to the history acceptable (parses, certificate verifies, …)? -/
  | accept
  /-- client: `serverResumedSession()`; server: `checkForResumption()` -/
  | resume
  | sendSKX
  | sendCertReq
  /-- client: has a certificate to prove (sends CertificateVerify) -/
  | sendCertVerify
  /-- server: `len(c.peerCertificates) > 0` -/
  | expectCertVerify
deriving DecidableEq, Repr

/-- the honest parties' degrees of freedom: any functions of the endpoint's own history -/
structure World (P : Prims) where
  /-- body of the next message of type `t` -/
  say : Role → Nat → List Entry → Bytes
  master : Role → List Entry → P.Secret
  choice : Role → Query → List Entry → Bool
  /-- what `marshal()` of a DECODED message produces when the decoder did not keep the received
  bytes: a re-encoding of the parsed fields (any function of the message; it forgets whatever
  the decoder skipped) -/
  reenc : Role → Msg → Msg

inductive Ctl where
  | cSH                    -- client waits for ServerHello
  | cCert                  -- … Certificate
  | cSKX                   -- … ServerKeyExchange | CertificateRequest | ServerHelloDone
  | cCR                    -- … CertificateRequest | ServerHelloDone
  | cSHD                   -- … ServerHelloDone (a certificate was requested)
  | cCCS (resumed : Bool)
  | cFin (resumed : Bool)
  | sCH
  | sCert
  | sCKX (requested : Bool)
  | sCV
  | sCCS (resumed : Bool)
  | sFin (resumed : Bool)
  | done
  | failed (alert : Nat)
deriving DecidableEq, Repr

structure HS (P : Prims) where
  role : Role
  ctl : Ctl
  log : List Entry
  /-- content of `finishedHash` as a message list (it hashes the concatenation) -/
  transcript : List Msg
  ms : Option P.Secret

def hashT (P : Prims) (t : List Msg) : P.Digest := P.hash t.flatten

section machine
variable {P : Prims} (k : Codes) (f : TFlags) (W : World P)

/-- what `transcriptMsg(m)` writes into the hash for a message `m` that was decoded from the
wire: `m.marshal()` — the received bytes when `raw` was kept, else the re-encoding -/
def asMarshalled (r : Role) (m : Msg) : Msg := if f.decodedKeepRaw then m else W.reenc r m

/-- `writeHandshakeRecord(msg, transcript)` -/
def HS.emit (h : HS P) (t : Nat) (hashed : Bool) : HS P :=
  let m := frame t (W.say h.role t h.log)
  { h with log := h.log ++ [.msg true m],
           transcript := if hashed then h.transcript ++ [m] else h.transcript }

/-- `readHandshake(transcript)` returned `m` -/
def HS.take (h : HS P) (m : Msg) (hashed : Bool) : HS P :=
  { h with log := h.log ++ [.msg false m],
           transcript := if hashed then h.transcript ++ [m] else h.transcript }

def HS.fail (h : HS P) (a : Nat) : HS P := { h with ctl := .failed a }

/-- `sendFinished`: ChangeCipherSpec, then Finished computed over the transcript so far and
written with the hash -/
def HS.sendFinished (h : HS P) (ms : P.Secret) (hashed : Bool) : HS P :=
  let vd := P.prf ms h.role.isClient (hashT P h.transcript)
  let m := frame k.tFin vd
  { h with log := h.log ++ [.ccs true, .msg true m],
           transcript := if hashed then h.transcript ++ [m] else h.transcript }

/-- the comparison of `readFinished`; with `finFullCompare = false` only a prefix is compared -/
def finMatches (full : Bool) (got expected : Bytes) : Bool :=
  if full then got == expected else got.take 1 == expected.take 1

/-- `readFinished` after the ChangeCipherSpec: the message was read with `nil` (or with the
hash, if the flag says so), is compared against the hash BEFORE it, and added afterwards -/
def HS.recvFinished (h : HS P) (ms : P.Secret) (m : Msg) (readNil addedAfter : Bool) : Option (HS P) :=
  let before := if readNil then h.transcript else h.transcript ++ [m]
  let expected := P.prf ms (!h.role.isClient) (hashT P before)
  if finMatches f.finFullCompare (mbody m) expected then
    some { h with log := h.log ++ [.msg false m],
                  transcript := if addedAfter then before ++ [asMarshalled f W h.role m] else before }
  else none

/-- the server's reads of the client's Certificate / ClientKeyExchange: `readHandshake(hash)`
(the received bytes are hashed) or `readHandshake(nil)` followed by `transcriptMsg` -/
def HS.takeS (h : HS P) (m : Msg) : HS P :=
  if f.sReadsViaMarshal then
    let h1 := HS.take h m false
    { h1 with transcript := if f.sReadsHashed then h1.transcript ++ [asMarshalled f W h.role m] else h1.transcript }
  else HS.take h m f.sReadsHashed

def HS.init (role : Role) : HS P :=
  match role with
  | .client =>
    -- `writeHandshakeRecord(hello, nil)`
    HS.emit W { role := .client, ctl := .cSH, log := [], transcript := [], ms := none } k.tCH false
  | .server => { role := .server, ctl := .sCH, log := [], transcript := [], ms := none }

/-- the client's second flight, after ServerHelloDone -/
def HS.clientFlight (h : HS P) (requested : Bool) : HS P :=
  let h := if requested then HS.emit W h k.tCert f.cWritesHashed else h
  let h := HS.emit W h k.tCKX f.cWritesHashed
  let h := if requested && W.choice .client .sendCertVerify h.log then HS.emit W h k.tCV f.cWritesHashed else h
  let ms := W.master .client h.log
  let h := HS.sendFinished k h ms f.cWritesHashed
  { h with ms := some ms, ctl := .cCCS false }

/-- the server's first flight of a full handshake -/
def HS.serverFlight (h : HS P) : HS P :=
  let h := HS.emit W h k.tSH f.sWritesHashed
  let h := HS.emit W h k.tCert f.sWritesHashed
  let h := if W.choice .server .sendSKX h.log then HS.emit W h k.tSKX f.sWritesHashed else h
  let req := W.choice .server .sendCertReq h.log
  let h := if req then HS.emit W h k.tCR f.sWritesHashed else h
  let h := HS.emit W h k.tSHD f.sWritesHashed
  { h with ctl := if req then .sCert else .sCKX false }

/-- a complete handshake message `m` was read -/
def HS.onMsg (h : HS P) (m : Msg) : HS P :=
  let t := mtype m
  let acceptable := W.choice h.role .accept (h.log ++ [.msg false m])
  match h.ctl with
  | .cSH =>
    if t = k.tSH ∧ acceptable then
      -- read with nil; `handshake()` then creates the hash and adds both hellos
      let h1 := HS.take h m false
      let hello := match h.log with
        | .msg true c :: _ => [c]
        | _ => []
      let h1 := { h1 with transcript := (if f.cHelloAdded then hello else []) ++
        (if f.cServerHelloAdded then [asMarshalled f W .client m] else []) }
      if W.choice .client .resume h1.log then
        { h1 with ms := some (W.master .client h1.log), ctl := .cCCS true }
      else { h1 with ctl := .cCert }
    else HS.fail h k.aUnexpected
  | .cCert =>
    if t = k.tCert ∧ acceptable then { HS.take h m f.cReadsHashed with ctl := .cSKX }
    else HS.fail h k.aUnexpected
  | .cSKX =>
    if ¬ acceptable then HS.fail h k.aUnexpected
    else if t = k.tSKX then { HS.take h m f.cReadsHashed with ctl := .cCR }
    else if t = k.tCR then { HS.take h m f.cReadsHashed with ctl := .cSHD }
    else if t = k.tSHD then HS.clientFlight k f W (HS.take h m f.cReadsHashed) false
    else HS.fail h k.aUnexpected
  | .cCR =>
    if ¬ acceptable then HS.fail h k.aUnexpected
    else if t = k.tCR then { HS.take h m f.cReadsHashed with ctl := .cSHD }
    else if t = k.tSHD then HS.clientFlight k f W (HS.take h m f.cReadsHashed) false
    else HS.fail h k.aUnexpected
  | .cSHD =>
    if t = k.tSHD ∧ acceptable then HS.clientFlight k f W (HS.take h m f.cReadsHashed) true
    else HS.fail h k.aUnexpected
  | .cFin resumed =>
    match h.ms with
    | none => HS.fail h k.aInternal
    | some ms =>
      if t = k.tFin then
        match HS.recvFinished f W h ms m f.cFinReadNil f.cFinAddedAfter with
        | none => HS.fail h k.aHandshakeFailure
        | some h1 =>
          if resumed then { HS.sendFinished k h1 ms f.cWritesHashed with ctl := .done }
          else { h1 with ctl := .done }
      else HS.fail h k.aUnexpected
  | .sCH =>
    if t = k.tCH ∧ acceptable then
      let h1 := HS.take h m false
      let h1 := { h1 with transcript := if f.sHelloAdded then [asMarshalled f W .server m] else [] }
      if W.choice .server .resume h1.log then
        let h2 := HS.emit W h1 k.tSH f.sWritesHashed
        let ms := W.master .server h2.log
        { HS.sendFinished k h2 ms f.sWritesHashed with ms := some ms, ctl := .sCCS true }
      else HS.serverFlight k f W h1
    else HS.fail h k.aUnexpected
  | .sCert =>
    if t = k.tCert ∧ acceptable then { HS.takeS f W h m with ctl := .sCKX true }
    else HS.fail h k.aUnexpected
  | .sCKX requested =>
    if t = k.tCKX ∧ acceptable then
      let h1 := HS.takeS f W h m
      let h1 := { h1 with ms := some (W.master .server h1.log) }
      if requested && W.choice .server .expectCertVerify h1.log then { h1 with ctl := .sCV }
      else { h1 with ctl := .sCCS false }
    else HS.fail h k.aUnexpected
  | .sCV =>
    if t = k.tCV ∧ acceptable then
      -- read with nil, added after the signature check
      let h1 := HS.take h m (!f.sCVReadNil)
      let h1 := { h1 with transcript := if f.sCVAddedAfter then h1.transcript ++ [asMarshalled f W .server m] else h1.transcript }
      { h1 with ctl := .sCCS false }
    else HS.fail h k.aUnexpected
  | .sFin resumed =>
    match h.ms with
    | none => HS.fail h k.aInternal
    | some ms =>
      if t = k.tFin then
        match HS.recvFinished f W h ms m f.sFinReadNil f.sFinAddedAfter with
        | none => HS.fail h k.aHandshakeFailure
        | some h1 =>
          if resumed then { h1 with ctl := .done }
          else { HS.sendFinished k h1 ms f.sWritesHashed with ctl := .done }
      else HS.fail h k.aUnexpected
  | .cCCS _ => HS.fail h k.aUnexpected
  | .sCCS _ => HS.fail h k.aUnexpected
  | .done => h
  | .failed _ => h

/-- does the endpoint currently sit in `readChangeCipherSpec`? -/
def HS.expectCCS (h : HS P) : Bool :=
  match h.ctl with
  | .cCCS _ => true
  | .sCCS _ => true
  | _ => false

/-- a ChangeCipherSpec was accepted by the record layer -/
def HS.onCCS (h : HS P) : HS P :=
  match h.ctl with
  | .cCCS r => { h with log := h.log ++ [.ccs false], ctl := .cFin r }
  | .sCCS r => { h with log := h.log ++ [.ccs false], ctl := .sFin r }
  | .done => h
  | .failed _ => h
  | _ => HS.fail h k.aUnexpected

/-- the implicit cipher switch (defect branch, taken only when `ccsOnlyByRecord = false`): the
endpoint stops waiting for the ChangeCipherSpec and goes on to read the Finished although no
ChangeCipherSpec was accepted — nothing is added to the history.  With the flag as the theorems
need it this is the identity. -/
def HS.skipCCS (h : HS P) : HS P :=
  if f.ccsOnlyByRecord then h else
  match h.ctl with
  | .cCCS r => { h with ctl := .cFin r }
  | .sCCS r => { h with ctl := .sFin r }
  | _ => h

/-- states reachable by feeding any sequence of messages and ChangeCipherSpec signals (and, in
the defect branch, implicit cipher switches) -/
inductive Reach : HS P → Prop where
  | init (r : Role) : Reach (HS.init k W r)
  | msg {h : HS P} (m : Msg) : Reach h → WellFramed m → Reach (HS.onMsg k f W h m)
  | ccs {h : HS P} : Reach h → Reach (HS.onCCS k h)
  | skip {h : HS P} : Reach h → Reach (HS.skipCCS f h)
  | fail {h : HS P} (a : Nat) : Reach h → Reach (HS.fail h a)

end machine

/-! ### what an endpoint accepted and what it sent -/

/-- an item on the wire at the handshake level -/
inductive Item where
  | msg (m : Msg)
  | ccs
deriving DecidableEq, Repr

def acceptedOf : List Entry → List Item
  | [] => []
  | .msg false m :: r => .msg m :: acceptedOf r
  | .ccs false :: r => .ccs :: acceptedOf r
  | _ :: r => acceptedOf r

def sentOf : List Entry → List Item
  | [] => []
  | .msg true m :: r => .msg m :: sentOf r
  | .ccs true :: r => .ccs :: sentOf r
  | _ :: r => sentOf r

/-- all handshake messages of a history, in order, whoever sent them -/
def msgsOf : List Entry → List Msg
  | [] => []
  | .msg _ m :: r => m :: msgsOf r
  | .ccs _ :: r => msgsOf r

/-- verify_data values of the Finished messages an endpoint sent / accepted -/
def finSent (k : Codes) : List Entry → List Bytes
  | [] => []
  | .msg true m :: r => if mtype m = k.tFin then mbody m :: finSent k r else finSent k r
  | _ :: r => finSent k r

def finAccepted (k : Codes) : List Entry → List Bytes
  | [] => []
  | .msg false m :: r => if mtype m = k.tFin then mbody m :: finAccepted k r else finAccepted k r
  | _ :: r => finAccepted k r

/-! ### the record layer and a whole connection -/

structure Record where
  typ : Nat
  vers : Nat
  payload : Bytes
deriving DecidableEq, Repr

inductive Status where
  | running
  | done
  /-- failed: the alert this endpoint sent (if any) and how it learnt of the failure -/
  | failed (cls : String)
deriving DecidableEq, Repr

structure Conn (P : Prims) where
  hs : HS P
  hand : Bytes
  haveVers : Bool
  inOn : Bool
  inSeq : Nat
  outOn : Bool
  outSeq : Nat
  retry : Nat
  /-- number of history entries already written to the wire -/
  flushed : Nat
  out : List Record
  status : Status
  /-- the transport refuses writes (it was closed by the network): `write` / `flush` return its error -/
  wbroken : Bool
  /-- `handshakeStatus == 1` / `hsState == stateFinished`: what `handshakeComplete()` reports -/
  marked : Bool

section conn
variable {P : Prims} (k : Codes) (f : TFlags) (W : World P)

/-- turn the not-yet-written part of the history into records -/
def Conn.flushEntries (c : Conn P) : List Entry → Conn P
  | [] => c
  | .msg true m :: r =>
    let payload := match c.outOn, c.hs.ms with
      | true, some ms => P.wrap (P.kdf ms c.hs.role.isClient) c.outSeq k.rtHS m
      | _, _ => m
    Conn.flushEntries { c with out := c.out ++ [⟨k.rtHS, k.vers, payload⟩],
                               outSeq := if c.outOn then c.outSeq + 1 else c.outSeq,
                               flushed := c.flushed + 1 } r
  | .ccs true :: r =>
    Conn.flushEntries { c with out := c.out ++ [⟨k.rtCCS, k.vers, [1]⟩], outOn := true, outSeq := 0,
                               flushed := c.flushed + 1 } r
  | _ :: r => Conn.flushEntries { c with flushed := c.flushed + 1 } r

def alertRecord (c : Conn P) (level desc : Nat) : Record :=
  let body : Bytes := [UInt8.ofNat level, UInt8.ofNat desc]
  match c.outOn, c.hs.ms with
  | true, some ms => ⟨k.rtAlert, k.vers, P.wrap (P.kdf ms c.hs.role.isClient) c.outSeq k.rtAlert body⟩
  | _, _ => ⟨k.rtAlert, k.vers, body⟩

/-- local failure with alert `a` (sent to the peer, unless the transport refuses writes) -/
def Conn.failLocal (c : Conn P) (a : Nat) : Conn P :=
  { c with out := if c.wbroken then c.out else c.out ++ [alertRecord k c k.aFatal a], status := .failed s!"local:{a}" }

/-- is there something this endpoint has to write among these history entries? -/
def hasSent : List Entry → Bool
  | [] => false
  | .msg true _ :: _ => true
  | .ccs true :: _ => true
  | _ :: r => hasSent r

/-- after the handshake layer moved: write what it sent, update the status.  `handshake()` marks
the connection complete as its last step, behind the flush of the last flight
(`doneMarkedLast`); in the defect branch the mark is set as soon as the handshake layer is
through.  When the transport refuses the write, `handshake()` returns that error and nothing
reaches the wire. -/
def Conn.sync (c : Conn P) : Conn P :=
  let c := if !f.doneMarkedLast && decide (c.hs.ctl = .done) then { c with marked := true } else c
  if c.wbroken && hasSent (c.hs.log.drop c.flushed) then { c with status := .failed "closed" } else
  let c := Conn.flushEntries k c (c.hs.log.drop c.flushed)
  let hv := c.haveVers || (match c.hs.role with
    | .client => c.hs.log.length ≥ 2
    | .server => c.hs.log.length ≥ 1)
  let c := { c with haveVers := hv }
  match c.hs.ctl with
  | .done => { c with status := .done, marked := true }
  | .failed a => if c.status = .running then Conn.failLocal k c a else c
  | _ => c

/-- the consistency check at the end of `handshakeContext`: it panics when `handshake()` returned
an error on a connection that is marked complete, or returned nil on one that is not -/
def Conn.panics (c : Conn P) : Bool :=
  match c.status with
  | .failed _ => c.marked
  | .done => !c.marked
  | .running => false

def Conn.init (role : Role) : Conn P :=
  Conn.sync k f { hs := HS.init k W role, hand := [], haveVers := false, inOn := false, inSeq := 0,
                  outOn := false, outSeq := 0, retry := 0, flushed := 0, out := [], status := .running,
                  wbroken := false, marked := false }

/-- `readHandshake` as long as complete messages are buffered -/
def Conn.pump (c : Conn P) : Nat → Conn P
  | 0 => c
  | fuel + 1 =>
    match c.hs.ctl with
    | .done => c
    | .failed _ => c
    | _ =>
      match c.hand with
      | _ :: a :: b :: d :: _ =>
        if nat24 a b d > k.maxHandshake then { c with hs := HS.fail c.hs k.aInternal }
        else match splitMsg c.hand with
          | none => c
          | some (m, rest) => Conn.pump { c with hs := HS.onMsg k f W c.hs m, hand := rest } fuel
      | _ => c

/-- an alert record (after decryption) -/
def Conn.onAlert (c : Conn P) (data : Bytes) : Conn P :=
  match data with
  | [lvl, desc] =>
    if desc.toNat = k.aCloseNotify then { c with status := .failed "eof" }
    else if lvl.toNat = k.aWarning then
      -- dropped on the floor, at most `maxUselessRecords` in a row
      if c.retry + 1 > k.maxUseless then Conn.failLocal k c k.aUnexpected
      else { c with retry := c.retry + 1 }
    else if lvl.toNat = k.aFatal then { c with status := .failed s!"remote:{desc.toNat}" }
    else Conn.failLocal k c k.aUnexpected
  | _ => Conn.failLocal k c k.aUnexpected

/-- a ChangeCipherSpec record -/
def Conn.onCCSRecord (c : Conn P) (data : Bytes) : Conn P :=
  if data ≠ [1] then Conn.failLocal k c k.aDecode
  else if f.ccsNeedsEmptyHand ∧ c.hand ≠ [] then Conn.failLocal k c k.aUnexpected
  else if f.ccsNeedsExpect ∧ ¬ c.hs.expectCCS then Conn.failLocal k c k.aUnexpected
  else Conn.sync k f { c with hs := HS.onCCS k c.hs, inOn := true, inSeq := 0 }

/-- a handshake record -/
def Conn.onHandshakeRecord (c : Conn P) (data : Bytes) : Conn P :=
  if data = [] ∨ (f.hsRefusedWhenCCSExpected ∧ c.hs.expectCCS) then Conn.failLocal k c k.aUnexpected
  else
    let c := { c with hand := c.hand ++ data, retry := 0 }
    Conn.sync k f (Conn.pump k f W c (c.hand.length + 1))

/-- the `switch typ` of `readRecordOrCCS`, during a handshake -/
def Conn.dispatch (c : Conn P) (typ : Nat) (data : Bytes) : Conn P :=
  if ¬ c.inOn ∧ typ = k.rtApp then Conn.failLocal k c k.aUnexpected
  else if typ = k.rtAlert then Conn.onAlert k c data
  else if typ = k.rtCCS then Conn.onCCSRecord k f c data
  else if typ = k.rtApp then Conn.failLocal k c k.aUnexpected
  else if typ = k.rtHS then Conn.onHandshakeRecord k f W c data
  else Conn.failLocal k c k.aUnexpected

/-- record protection on the read side -/
def Conn.openRecord (c : Conn P) (r : Record) : Option (Bytes × Nat) :=
  match c.inOn, c.hs.ms with
  | true, some ms =>
    (P.unwrap (P.kdf ms (!c.hs.role.isClient)) c.inSeq r.typ r.payload).map (fun p => (p, c.inSeq + 1))
  | _, _ => some (r.payload, c.inSeq)

/-- the header checks of `readRecordOrCCS`: `none` = passes -/
def Conn.headerCheck (c : Conn P) (r : Record) : Option (Conn P) :=
  if (if f.versCheckedOnlyWhenHave then c.haveVers else true) ∧ r.vers ≠ k.vers then
    some (Conn.failLocal k c k.aProtoVers)
  else if ¬ c.haveVers ∧ ((r.typ ≠ k.rtAlert ∧ r.typ ≠ k.rtHS) ∨ r.vers ≥ 4096) then
    some { c with status := .failed "local:header" }
  else if r.payload.length > k.maxCiphertext then some (Conn.failLocal k c k.aOverflow)
  else none

/-- defect branch (`ccsOnlyByRecord = false`): a handshake record that arrives while the
ChangeCipherSpec is expected and the handshake buffer is empty switches the read cipher state by
itself — before the record is decrypted — and the endpoint no longer expects a ChangeCipherSpec -/
def Conn.implicitSwitch (c : Conn P) (r : Record) : Conn P :=
  if ¬ f.ccsOnlyByRecord ∧ c.hs.expectCCS ∧ r.typ = k.rtHS ∧ c.hand = [] then
    { c with hs := HS.skipCCS f c.hs, inOn := true, inSeq := 0 }
  else c

/-- one record arrives (`readRecordOrCCS`) -/
def Conn.deliver (c : Conn P) (r : Record) : Conn P :=
  if c.status ≠ .running then c else
  match Conn.headerCheck k f c r with
  | some c' => c'
  | none =>
    let c := Conn.implicitSwitch k f c r
    match Conn.openRecord c r with
    | none => Conn.failLocal k c k.aBadMac
    | some (data, seq) => Conn.dispatch k f W { c with inSeq := seq } r.typ data

/-! ### the attacker and the global run -/

/-- an arbitrary strategy: from the honest outputs so far (who wrote which record, in order)
and the attacker's own past deliveries to the next delivery (`true` = to the client), or stop -/
structure Attacker where
  next : List (Role × Record) → List (Role × Record) → Option (Role × Record)
  /-- closing a transport: from the same knowledge, is the transport of this endpoint closed now
  (its writes fail from here on; what was delivered before stays readable)?  Default: never. -/
  cut : List (Role × Record) → List (Role × Record) → Role → Bool := fun _ _ _ => false

structure Global (P : Prims) where
  c : Conn P
  s : Conn P
  /-- honest outputs in chronological order -/
  outs : List (Role × Record)
  delivered : List (Role × Record)

def Global.init : Global P :=
  let c := Conn.init k f W .client
  let s := Conn.init k f W .server
  { c := c, s := s, outs := c.out.map (fun r => (Role.client, r)) ++ s.out.map (fun r => (Role.server, r)),
    delivered := [] }

/-- one move of the attacker -/
def Global.step (att : Attacker) (g : Global P) : Option (Global P) :=
  let g := { g with c := { g.c with wbroken := g.c.wbroken || att.cut g.outs g.delivered .client },
                    s := { g.s with wbroken := g.s.wbroken || att.cut g.outs g.delivered .server } }
  match att.next g.outs g.delivered with
  | none => none
  | some (.client, r) =>
    let c' := Conn.deliver k f W g.c r
    some { g with c := c', outs := g.outs ++ (c'.out.drop g.c.out.length).map (fun x => (Role.client, x)),
                  delivered := g.delivered ++ [(Role.client, r)] }
  | some (.server, r) =>
    let s' := Conn.deliver k f W g.s r
    some { g with s := s', outs := g.outs ++ (s'.out.drop g.s.out.length).map (fun x => (Role.server, x)),
                  delivered := g.delivered ++ [(Role.server, r)] }

/-- the run after at most `n` moves -/
def Global.run (att : Attacker) : Nat → Global P → Global P
  | 0, g => g
  | n + 1, g =>
    match Global.step k f W att g with
    | none => g
    | some g' => Global.run att n g'

end conn

end Gotlcp.Model.Transcript

/-
C09 (b), (c) — the receive loops of the datagram stack (dtlcp/conn.go, dtlcp/handshake_server.go),
as step functions over an explicit connection state, defined by WELL-FOUNDED recursion on the
input that is still to come (`StD.mu`: the datagrams waiting in the socket plus the rest of the
current datagram) and, for the fragment loop, on the `fragmentReads` budget:

  `iter`            one iteration of the `for { … }` of Conn.readRecordOrCCS (readDatagram included)
  `readRecord`      readRecordOrCCS + retryReadRecord
  `readUntil`       the `for c.handBuf.Len() < … { c.readRecord() }` loops
  `fragLoop`        the `for { fragmentReads++ … }` of Conn.readHandshake (reassembly buffers as sizes)
  `cookieLoop`      the HelloVerifyRequest loop of serverHandshake with readNextClientHello

As in the stream model every recursive call is guarded by `if h : measure decreases then … else
stuck`, and `Props.C09.C09_progress_dtlcp` proves the guards never fail: every iteration
consumes at least one record header of the current datagram or one whole datagram, or returns.

The socket is a finite list of datagrams; when it is exhausted `readDatagram` fails with a
timeout (the real connection would wait for the retransmission timer).  Record decryption, the
replay window, message decoding, cookie verification, the 2*MSL dwell clock and the 30 s
staleness clock of reassembly buffers are inputs (`LibD`).  A reassembly buffer is represented
by what determines its size and completeness: message_seq, announced length, covered bytes.
Core Lean only.
-/
import Gotlcp.Model.Parsers

set_option linter.unusedVariables false

namespace Gotlcp.Model.ParsersLoopD
open Gotlcp.Model.Parsers

structure LimitsD where
  hdr : Nat            -- recordHeaderLen (13)
  hsHdr : Nat          -- dtlcpHeaderLen (12)
  maxCiphertext : Nat
  maxPlaintext : Nat
  maxHandshake : Nat
  maxUseless : Nat     -- maxUselessRecords
  maxFragments : Nat   -- maxHandshakeFragments
  /-- handshake records are dropped once the handshake is complete (F42 repaired) -/
  refusePostHs : Bool
  /-- readRecordOrCCS returns, instead of reading another datagram, once it has delivered
  handshake data or the ChangeCipherSpec (repaired: a single call no longer spans datagrams) -/
  deliveredGuard : Bool
  deriving Repr, DecidableEq

structure LibD where
  /-- `halfConn.decrypt` under active protection: `none` = bad_record_mac -/
  dec : Bytes → Option Bytes
  /-- `replayWindow.check(seq)` given the sequence numbers accepted so far in the epoch (newest first) -/
  replayOk : List Nat → Nat → Bool
  unmarshalOk : Bytes → Bool
  /-- the 2*MSL dwell period is running (`time.Now().Before(c.dwellDeadline)` with a flight to resend) -/
  dwell : Bool
  /-- `cleanupStaleFragments` finds the buffer of this message_seq older than 30 s -/
  stale : Nat → Bool
  /-- `verifyCookie` on the `k`-th ClientHello read by the cookie loop -/
  cookieOk : Nat → Bool

/-- a reassembly buffer, by what determines its size and completeness: `data` has
`n = max total 1` bytes, the bitmap one bit per byte; `marks` are the accepted
`(offset, length)` ranges -/
structure PBuf where
  seq : Nat
  total : Nat
  n : Nat
  marks : List (Nat × Nat)
  deriving Repr, DecidableEq

def PBuf.new (seq total : Nat) : PBuf :=
  { seq := seq, total := total, n := if total < 1 then 1 else total, marks := [] }

/-- bytes held by a buffer: `len(fb.data) + len(fb.received)` -/
def PBuf.bytes (b : PBuf) : Nat := b.n + (b.n + 7) / 8

/-- `addFragment(off, len, …)`: marks `[off, off+len)`; out of range is ignored -/
def PBuf.add (b : PBuf) (off len : Nat) : PBuf :=
  if off + len > b.n then b else { b with marks := (off, len) :: b.marks }

/-- one sweep: how far the prefix `[0, cur)` extends using each range once -/
def sweep (marks : List (Nat × Nat)) (cur : Nat) : Nat :=
  marks.foldl (fun c m => if m.1 ≤ c ∧ c < m.1 + m.2 then m.1 + m.2 else c) cur

def sweeps (marks : List (Nat × Nat)) : Nat → Nat → Nat
  | 0, cur => cur
  | k + 1, cur => sweeps marks k (sweep marks cur)

/-- `complete()`: every byte `0 … n-1` lies in some accepted range -/
def PBuf.complete (b : PBuf) : Bool := sweeps b.marks (b.marks.length + 1) 0 ≥ b.n

structure StD where
  dgrams : List Bytes     -- datagrams waiting in the socket
  raw : Bytes             -- c.rawInputBuf
  hand : Bytes            -- c.handBuf
  pending : List PBuf     -- c.pendingFragments
  retry : Nat             -- c.retryCount
  readBuf : Nat           -- len(c.readBuf)
  haveVers : Bool
  vers : Nat
  complete : Bool
  prot : Bool
  nextCipher : Bool
  readEpoch : Nat
  seen : List Nat         -- sequence numbers accepted in the current epoch (what the replay window has seen)
  deferredCCS : Bool
  inErr : Bool
  deriving Repr, DecidableEq

def StD.init (dgrams : List Bytes) : StD :=
  { dgrams := dgrams, raw := [], hand := [], pending := [], retry := 0, readBuf := 0, haveVers := false, vers := 0,
    complete := false, prot := false, nextCipher := false, readEpoch := 0, seen := [], deferredCCS := false, inErr := false }

/-- input not consumed yet: every waiting datagram counts its bytes plus one -/
def muD : List Bytes → Nat
  | [] => 0
  | d :: ds => d.length + 1 + muD ds

def StD.mu (s : StD) : Nat := muD s.dgrams + s.raw.length

def setErr (s : StD) : StD := { s with inErr := true }

/-- how one iteration of the loop of readRecordOrCCS ends -/
inductive PassD
  | done (r : Outcome Unit)    -- return
  | again (expectCCS : Bool) (delivered : Bool)   -- continue
  | retry                      -- return c.retryReadRecord(…)
  deriving Repr, DecidableEq

/-- what is done with the plaintext of a record that passed the epoch / replay checks;
the record has already been cut off `rawInputBuf` -/
def dispatch (L : LimitsD) (lib : LibD) (s : StD) (expectCCS dlv : Bool) (typ : UInt8) (data : Bytes) : StD × PassD :=
  if typ == 21 then
    if data.length ≠ 2 then (setErr s, .done (.err .unexpected)) else
    match idx data 1, idx data 0 with
    | .ok d1, .ok d0 =>
      if d1 == 0 then (setErr s, .done (.err .short))
      else if d0 == 1 then
        (if dlv && L.deliveredGuard then ({ s with raw := [] }, .done (.ok ())) else ({ s with raw := [] }, .retry))
      else (setErr s, .done (.err .unexpected))
    | _, _ => (s, .done .panic)
  else if typ == 20 then
    if data.length ≠ 1 then (setErr s, .done (.err .unexpected)) else
    match idx data 0 with
    | .ok d0 =>
      if d0 != 1 then (setErr s, .done (.err .unexpected))
      else if s.complete && lib.dwell then (s, .again expectCCS dlv)
      else if !expectCCS && s.hand.length > 0 then ({ s with deferredCCS := true }, .done (.ok ()))
      else if !expectCCS then (setErr s, .done (.err .unexpected))
      else if !s.nextCipher then (setErr s, .done (.err .unexpected))
      else
        let s := { s with prot := true, nextCipher := false, readEpoch := s.readEpoch + 1, seen := [] }
        if s.raw.length > 0 then (s, .again false true) else (s, .done (.ok ()))
    | _ => (s, .done .panic)
  else if typ == 23 then
    if !s.complete || expectCCS then (setErr s, .done (.err .unexpected))
    else if data.length == 0 then (s, .again expectCCS dlv)
    else ({ s with readBuf := data.length }, .done (.ok ()))
  else if typ == 22 then
    if s.complete && lib.dwell then (s, .again expectCCS dlv)
    else if data.length == 0 || expectCCS then (setErr s, .done (.err .unexpected))
    else if s.complete && L.refusePostHs then (s, .again expectCCS dlv)
    else
      let s := { s with hand := s.hand ++ data }
      if s.raw.length > 0 then (s, .again expectCCS true) else (s, .done (.ok ()))
  else (setErr s, .done (.err .unexpected))

/-- first half of an iteration -/
inductive Prep
  | result (p : PassD)                       -- the iteration ends here
  | record (typ : UInt8) (data : Bytes)      -- a record passed all checks; it is cut off rawInputBuf
  deriving Repr

/-- top of the loop of `Conn.readRecordOrCCS`: `c.readBuf = nil`, the early return once something
was delivered, and `readDatagram` when the rest of the current datagram cannot hold a record
header.  `some p`: the iteration ends with `p`. -/
def fetchD (L : LimitsD) (s : StD) (dlv : Bool) : StD × Option PassD :=
  let s := { s with readBuf := 0 }
  if s.raw.length < L.hdr && dlv && L.deliveredGuard then ({ s with raw := [] }, some (.done (.ok ()))) else
  if s.raw.length < L.hdr then
    match s.dgrams with
    | [] => (s, some (.done (.err .timeout)))        -- timeout: not a permanent error
    | d :: ds => ({ s with dgrams := ds, raw := d.take (L.maxCiphertext + L.hdr) }, none)
  else (s, none)

/-- `if epoch > c.readEpoch { c.readEpoch = epoch; c.replayWindow = newReplayWindow(…) }` -/
def epochFor (readEpoch epoch : Nat) : Nat := if epoch > readEpoch then epoch else readEpoch
def seenFor (readEpoch : Nat) (seen : List Nat) (epoch : Nat) : List Nat := if epoch > readEpoch then [] else seen

/-- header checks, decryption, epoch and replay checks on the current datagram remainder -/
def checkD (L : LimitsD) (lib : LibD) (s : StD) (expectCCS dlv : Bool) : StD × Prep :=
  if s.raw.length < L.hdr then
    if s.complete then ({ s with raw := [] }, .result (.again expectCCS dlv)) else (setErr s, .result (.done (.err .short)))
  else
  match splitD L.hdr L.maxCiphertext s.haveVers s.vers s.raw (s.hand.length == 0) with
  | .panic => (s, .result (.done .panic))
  | .err e =>
    -- a first-record failure is always fatal; the others are dropped once the handshake is complete
    if s.complete && e != .first then ({ s with raw := [] }, .result (.again expectCCS dlv)) else (setErr s, .result (.done (.err e)))
  | .ok sp =>
  let plain : Option Bytes := if s.prot then lib.dec sp.record else some (sp.record.drop L.hdr)
  match plain with
  | none =>
    if s.complete then ({ s with raw := sp.rest }, .result (.again expectCCS dlv)) else (setErr s, .result (.done (.err .badmac)))
  | some data =>
  if sp.epoch < s.readEpoch then ({ s with raw := sp.rest }, .result (.again expectCCS dlv)) else
  -- a newer epoch starts a fresh replay window
  let s := { s with seen := seenFor s.readEpoch s.seen sp.epoch, readEpoch := epochFor s.readEpoch sp.epoch }
  if !lib.replayOk s.seen sp.seq then ({ s with raw := sp.rest }, .result (.again expectCCS dlv)) else
  let s := { s with seen := sp.seq :: s.seen }
  if data.length > L.maxPlaintext then (setErr s, .result (.done (.err .overflow))) else
  if !s.prot && sp.typ == 23 then (setErr s, .result (.done (.err .unexpected))) else
  ({ s with retry := if sp.typ != 21 && sp.typ != 20 && data.length > 0 then 0 else s.retry, raw := sp.rest }, .record sp.typ data)

/-- first half of one iteration -/
def prep (L : LimitsD) (lib : LibD) (s : StD) (expectCCS dlv : Bool) : StD × Prep :=
  match fetchD L s dlv with
  | (s1, some p) => (s1, .result p)
  | (s1, none) => checkD L lib s1 expectCCS dlv

/-- one iteration of the loop of `Conn.readRecordOrCCS` -/
def iter (L : LimitsD) (lib : LibD) (s : StD) (expectCCS dlv : Bool) : StD × PassD :=
  match prep L lib s expectCCS dlv with
  | (s1, .result p) => (s1, p)
  | (s1, .record typ data) => dispatch L lib s1 expectCCS dlv typ data

/-- `readRecordOrCCS` + `retryReadRecord`: recursion on the input still to come; `dlv` is the
`delivered` flag of the running call (a retry starts a new call) -/
def readLoop (L : LimitsD) (lib : LibD) (s : StD) (expectCCS dlv : Bool) : StD × Outcome Unit :=
  match iter L lib s expectCCS dlv with
  | (s1, .done r) => (s1, r)
  | (s1, .again e d) =>
    if h : s1.mu < s.mu then readLoop L lib s1 e d else (s1, .err .stuck)
  | (s1, .retry) =>
    let s2 := { s1 with retry := s1.retry + 1 }
    if s2.retry > L.maxUseless then (setErr s2, .err .unexpected)
    else if h : s2.mu < s.mu then readLoop L lib s2 expectCCS false else (s2, .err .stuck)
termination_by s.mu

def readRecord (L : LimitsD) (lib : LibD) (s : StD) (expectCCS : Bool) : StD × Outcome Unit :=
  if s.inErr then (s, .err .unexpected) else
  if s.readBuf ≠ 0 then (setErr s, .err .unexpected) else
  readLoop L lib s expectCCS false

/-- `for c.handBuf.Len() < need { c.readRecord() }` -/
def readUntil (L : LimitsD) (lib : LibD) (s : StD) (need : Nat) : StD × Outcome Unit :=
  if s.hand.length ≥ need then (s, .ok ()) else
  match readRecord L lib s false with
  | (s1, .ok ()) =>
    if h : s1.mu < s.mu then readUntil L lib s1 need else (s1, .err .stuck)
  | (s1, r) => (s1, r)
termination_by s.mu

def knownTypeD (t : UInt8) : Bool :=
  t == 1 || t == 3 || t == 2 || t == 11 || t == 12 || t == 13 || t == 14 || t == 16 || t == 15 || t == 20

def lookup (p : List PBuf) (seq : Nat) : Option PBuf := p.find? (fun b => b.seq == seq)
def erase (p : List PBuf) (seq : Nat) : List PBuf := p.filter (fun b => b.seq != seq)

/-- `fragment_length` as announced by bytes 9..11 of the buffered handshake header -/
def fragLenOf (hand : Bytes) : Nat :=
  match hand with
  | _ :: _ :: _ :: _ :: _ :: _ :: _ :: _ :: _ :: b9 :: b10 :: b11 :: _ => be24 b9 b10 b11
  | _ => 0

/-- how one iteration of the loop of readHandshake ends -/
inductive FragPass
  | done (r : Outcome (UInt8 × Nat))   -- return
  | more                               -- `continue`: the message is not complete yet
  deriving Repr

/-- one iteration of the `for { fragmentReads++ … }` loop of `Conn.readHandshake` (after the
`fragmentReads` test) -/
def fragStep (L : LimitsD) (lib : LibD) (s : StD) : StD × FragPass :=
  match readUntil L lib s L.hsHdr with
  | (s1, .err e) => (s1, .done (.err e))
  | (s1, .panic) => (s1, .done .panic)
  | (s1, .ok ()) =>
  match frameD L.maxHandshake L.hsHdr s1.hand with
  | .panic => (s1, .done .panic)
  | .err e => (setErr s1, .done (.err e))
  | .ok _ =>
  match readUntil L lib s1 (L.hsHdr + fragLenOf s1.hand) with
  | (s2, .err e) => (s2, .done (.err e))
  | (s2, .panic) => (s2, .done .panic)
  | (s2, .ok ()) =>
  match frameD L.maxHandshake L.hsHdr s2.hand with
  | .panic => (s2, .done .panic)
  | .err e => (setErr s2, .done (.err e))
  | .ok .needMore => (s2, .done (.err .bounds))
  | .ok (.frag f) =>
    let s3 := { s2 with hand := f.rest }
    let finish (s : StD) (len : Nat) : StD × FragPass :=
      if !knownTypeD f.typ then (setErr s, .done (.err .unexpected))
      else if !lib.unmarshalOk f.body then (setErr s, .done (.err .unexpected))
      else (s, .done (.ok (f.typ, len)))
    if f.fragLen < f.bodyLen || f.fragOff > 0 then
      -- cleanupStaleFragments
      let p := s3.pending.filter (fun b => !lib.stale b.seq)
      match lookup p f.msgSeq with
      | some fb =>
        if fb.total ≠ f.bodyLen then (setErr { s3 with pending := p }, .done (.err .bounds)) else
        let fb := fb.add f.fragOff f.fragLen
        if !fb.complete then ({ s3 with pending := fb :: erase p f.msgSeq }, .more)
        else finish { s3 with pending := erase p f.msgSeq } (L.hsHdr + f.bodyLen)
      | none =>
        let fb := (PBuf.new f.msgSeq f.bodyLen).add f.fragOff f.fragLen
        if !fb.complete then ({ s3 with pending := fb :: p }, .more)
        else finish { s3 with pending := p } (L.hsHdr + f.bodyLen)
    else finish s3 (L.hsHdr + f.fragLen)

/-- the `for { fragmentReads++ … }` loop of `Conn.readHandshake`; `reads0` = fragmentReads so
far: recursion on the fragment budget -/
def fragLoop (L : LimitsD) (lib : LibD) (s : StD) (reads0 : Nat) : StD × Outcome (UInt8 × Nat) :=
  let reads := reads0 + 1
  if reads > L.maxFragments then (setErr s, .err .unexpected) else
  match fragStep L lib s with
  | (s1, .done r) => (s1, r)
  | (s1, .more) =>
    if h : L.maxFragments + 1 - reads < L.maxFragments + 1 - reads0 then fragLoop L lib s1 reads
    else (s1, .err .stuck)
termination_by L.maxFragments + 1 - reads0

/-- `Conn.readHandshake` -/
def readHandshake (L : LimitsD) (lib : LibD) (s : StD) : StD × Outcome (UInt8 × Nat) :=
  fragLoop L lib s 0

/-- the cookie loop of `serverHandshake` after the first ClientHello was read: as long as the
ClientHello carries no valid cookie, answer with HelloVerifyRequest, forget what is buffered
and read the next handshake message (`readNextClientHello`; a socket timeout ends the model's
input).  Returns whether a ClientHello with a valid cookie arrived. -/
def cookieLoop (L : LimitsD) (lib : LibD) (s : StD) (k : Nat) : StD × Outcome Unit :=
  if lib.cookieOk k then (s, .ok ()) else
  let s0 := { s with hand := [], raw := [] }
  match readHandshake L lib s0 with
  | (s1, .ok (t, n)) =>
    if t != 1 then (s1, .err .unexpected)
    else if h : s1.mu < s.mu then cookieLoop L lib s1 (k + 1) else (s1, .err .stuck)
  | (s1, .err e) => (s1, .err e)
  | (s1, .panic) => (s1, .panic)
termination_by s.mu

/-- what the handshake / the application may do with the receive side of a datagram connection -/
inductive OpD
  | hs         -- c.readHandshake
  | finish     -- the handshake completes: `clearPendingFragments`, state `stateFinished`
  | read       -- one c.readRecord of Conn.Read (only once the handshake is complete; the
               -- application has taken the data of the previous one)
  deriving Repr, DecidableEq

def applyD (L : LimitsD) (lib : LibD) (s : StD) : OpD → StD
  | .hs => (readHandshake L lib s).1
  | .finish => { s with complete := true, pending := [] }
  | .read => if s.complete then (readRecord L lib { s with readBuf := 0 } false).1 else s

def runD (L : LimitsD) (lib : LibD) (s : StD) : List OpD → StD
  | [] => s
  | op :: ops => runD L lib (applyD L lib s op) ops

end Gotlcp.Model.ParsersLoopD

/-
C09 (a) — every place where tlcp / dtlcp index peer-controlled bytes by hand, with CHECKED
indexing: each Go index expression `b[i]` and slice expression `b[i:j]` is written with an
accessor that returns the outcome `panic` exactly when the Go runtime would panic.

Mirrored Go code (identical text in /repo/tlcp and /repo/dtlcp unless noted):

  key_agreement.go   eccKeyAgreement.processClientKeyExchange      `eccPckx`
                     eccKeyAgreement.processServerKeyExchange      `eccPskx`
                     eccKeyAgreement.generateClientKeyExchange     `eccGckx`
                     getECDHEPublicKey                             `dhePub`
                     sm2ECDHEKeyAgreement.processClientKeyExchange `dhePckx`
                     sm2ECDHEKeyAgreement.processServerKeyExchange `dhePskx`
                     sm2ECDHEKeyAgreement.generateClientKeyExchange `dheGckx`
  conn.go            extractPadding                                `extractPadding`
                     halfConn.decrypt (tlcp / dtlcp differ)        `decrypt`
                     Conn.readHandshake, framing part (tlcp)       `frameT`
                     Conn.readHandshake, framing part (dtlcp)      `frameD`
                     Conn.readRecordOrCCS, header slicing (dtlcp)  `splitD`
                     Conn.readRecordOrCCS, header part (tlcp)      `headerT`

Conventions
* A slice expression `b[i:j]` of Go panics when `j > cap(b)`; the model uses `len(b)`, which is
  never larger, so "the model does not panic" implies "Go does not panic".
* The length guards that protect an index are PARAMETERS (`KxGuards`), filled from facts the
  extractor re-reads from the Go AST on every run (`Facts.*.kx*`): the same definition covers
  the code before and after the repairs F2 / F3 / F4, a reverted repair moves a fact.
* Results of library calls (SM2 decrypt / verify / point decoding / key agreement, AEAD open,
  CBC decryption, MAC comparison) are inputs (`KxLib`, `DecLib`); theorems quantify over them.

Core Lean only.
-/
import Gotlcp.Base.Hex

namespace Gotlcp.Model.Parsers

/-- which error a function returned (finer than the property needs; reported as a note) -/
inductive Why
  | ckx | skx | certs | fmt | nodec | sigkey | verify | enckey | noke | lib
  | badmac | overflow | short | version | first | unexpected | toolong | bounds
  | stuck   -- a loop of the model made no progress (proved unreachable)
  | timeout -- the socket had nothing more (not a permanent error)
  deriving DecidableEq, Repr, Inhabited

def Why.name : Why → String
  | .ckx => "ckx" | .skx => "skx" | .certs => "certs" | .fmt => "fmt" | .nodec => "nodec"
  | .sigkey => "sigkey" | .verify => "verify" | .enckey => "enckey" | .noke => "noke" | .lib => "lib"
  | .badmac => "badmac" | .overflow => "overflow" | .short => "short" | .version => "version"
  | .first => "first" | .unexpected => "unexpected" | .toolong => "toolong" | .bounds => "bounds"
  | .stuck => "stuck" | .timeout => "timeout"

/-- outcome of a modelled Go function: value, returned error, or run-time panic -/
inductive Outcome (α : Type)
  | ok (a : α)
  | err (e : Why)
  | panic
  deriving Repr, DecidableEq

namespace Outcome

def bind {α β : Type} (x : Outcome α) (f : α → Outcome β) : Outcome β :=
  match x with
  | ok a => f a
  | err e => err e
  | panic => panic

instance : Monad Outcome where
  pure := ok
  bind := bind

def cls {α : Type} : Outcome α → String
  | ok _ => "ok"
  | err _ => "err"
  | panic => "panic"

def isPanic {α : Type} : Outcome α → Bool
  | panic => true
  | _ => false

end Outcome

open Outcome

/-! ### checked accessors -/

/-- Go `b[i]` -/
def idx (b : Bytes) (i : Nat) : Outcome UInt8 :=
  if h : i < b.length then .ok b[i] else .panic

/-- Go `b[i]` with a signed index expression (a negative index panics) -/
def idxInt (b : Bytes) (i : Int) : Outcome UInt8 :=
  if i < 0 then .panic else idx b i.toNat

/-- Go `b[i:]` -/
def sliceFrom (b : Bytes) (i : Nat) : Outcome Bytes :=
  if i ≤ b.length then .ok (b.drop i) else .panic

/-- Go `b[:j]` (bound: `len`, see the header) -/
def sliceTo (b : Bytes) (j : Nat) : Outcome Bytes :=
  if j ≤ b.length then .ok (b.take j) else .panic

/-- Go `b[i:j]` -/
def slice (b : Bytes) (i j : Nat) : Outcome Bytes :=
  if i ≤ j ∧ j ≤ b.length then .ok ((b.take j).drop i) else .panic

/-- Go `b[i] = v` (only the bounds check matters here) -/
def setIdx (b : Bytes) (i : Nat) (v : UInt8) : Outcome Bytes :=
  if i < b.length then .ok (b.set i v) else .panic

/-- Go `xs[i]` on a list of certificates -/
def idxAny {α : Type} (xs : List α) (i : Nat) : Outcome α :=
  if h : i < xs.length then .ok xs[i] else .panic

/-- `int(a)<<8 | int(b)` -/
def be16 (a b : UInt8) : Nat := a.toNat * 256 + b.toNat
/-- `int(a)<<16 | int(b)<<8 | int(c)` -/
def be24 (a b c : UInt8) : Nat := a.toNat * 65536 + b.toNat * 256 + c.toNat

/-! ### key agreement -/

/-- type of the public key of a certificate, as far as the Go type assertions see it:
`sm2` and `p256` keys are `*ecdsa.PublicKey`, the others are not -/
inductive KeyKind
  | sm2 | p256 | rsa | ed
  deriving DecidableEq, Repr, Inhabited

def KeyKind.isEcdsa : KeyKind → Bool
  | .sm2 => true | .p256 => true | _ => false

/-- the guards of key_agreement.go that protect an index / dereference / assertion, as read
from the source (`0` / `false` = the guard is absent) -/
structure KxGuards where
  /-- ECC processClientKeyExchange: `len(ckx.ciphertext) < K` (written `== 0` for K = 1) -/
  eccCkxMinLen : Nat
  /-- ECC processClientKeyExchange: `len(cipher) < K ||` in front of `cipher[0] != 0x30` -/
  eccCkxCipherMin : Nat
  /-- ECC processServerKeyExchange: `len(skx.key) <= K` -/
  eccSkxMaxShort : Nat
  /-- ECDHE processServerKeyExchange: `len(skx.key) < K` -/
  dheSkxMinLen : Nat
  /-- ECDHE processServerKeyExchange: `len(signedParams) < K` -/
  dheSkxSigHdrMin : Nat
  /-- ECC generateClientKeyExchange: `pub, ok := ….(*ecdsa.PublicKey)` with `if !ok {return}` -/
  eccGckxChecked : Bool
  /-- ECDHE generateClientKeyExchange: `if hs.encCert == nil {return}` -/
  dheGckxNilCheck : Bool
  /-- ECDHE generateClientKeyExchange: `len(hs.peerCertificates) < K` -/
  dheGckxPeerMin : Nat
  /-- getECDHEPublicKey: the accepted `(len(ciphertext), pubLenStart, has 2-byte length prefix)` -/
  dhePubShapes : List (Nat × Nat × Bool)
  deriving Repr, DecidableEq

/-- the code as it was before the repairs F2, F3, F4 -/
def KxGuards.unrepaired : KxGuards :=
  { eccCkxMinLen := 1, eccCkxCipherMin := 0, eccSkxMaxShort := 2, dheSkxMinLen := 4, dheSkxSigHdrMin := 0,
    eccGckxChecked := false, dheGckxNilCheck := false, dheGckxPeerMin := 0,
    dhePubShapes := [(69, 3, false), (71, 5, true)] }

/-- the repaired code -/
def KxGuards.repaired : KxGuards :=
  { eccCkxMinLen := 2, eccCkxCipherMin := 3, eccSkxMaxShort := 2, dheSkxMinLen := 4, dheSkxSigHdrMin := 2,
    eccGckxChecked := true, dheGckxNilCheck := true, dheGckxPeerMin := 2,
    dhePubShapes := [(69, 3, false), (71, 5, true)] }

/-- answers of the library calls a key-agreement function may make -/
structure KxLib where
  /-- `decrypter.Decrypt(…)`: `none` = error, `some n` = a plaintext of `n` bytes -/
  decrypt : Bytes → Option Nat
  /-- `sm2.VerifyASN1WithSM2` -/
  verify : Bool
  /-- every other call (`ecdh.P256().NewPublicKey`, `sm2.PublicKeyToECDH`, `sm2.Encrypt`,
  `GenerateKey`, `GenerateAgreementDataAndKey`, `ECDH()`, `io.ReadFull(rand)`) succeeds -/
  libOk : Bool

/-- `eccKeyAgreement.processClientKeyExchange` up to the decrypter call: the bytes handed to
`Decrypt`. `haveCerts` = not (`sigCert == nil && encCert == nil`). -/
def eccPckxParse (g : KxGuards) (haveCerts : Bool) (ct : Bytes) : Outcome Bytes := do
  if !haveCerts then .err .certs else
  if ct.length < g.eccCkxMinLen then .err .ckx else
  let b0 ← idx ct 0
  let b1 ← idx ct 1
  let size := be16 b0 b1
  if 2 + size ≠ ct.length then .err .ckx else
  let cipher ← sliceFrom ct 2
  if cipher.length < g.eccCkxCipherMin then .err .fmt else
  let c0 ← idx cipher 0
  if c0 ≠ 0x30 then .err .fmt else
  let c2 ← idx cipher 2
  let length := 3 + c2.toNat
  if cipher.length ≥ length then sliceTo cipher length else pure cipher

/-- `eccKeyAgreement.processClientKeyExchange`; `isDecrypter` = the private key of the
encryption certificate implements `crypto.Decrypter` -/
def eccPckx (g : KxGuards) (haveCerts isDecrypter : Bool) (lib : KxLib) (ct : Bytes) : Outcome Unit := do
  let cipher ← eccPckxParse g haveCerts ct
  if !isDecrypter then .err .nodec else
  match lib.decrypt cipher with
  | none => .err .lib
  | some n => if n ≠ 48 then .err .ckx else pure ()

/-- `eccKeyAgreement.processServerKeyExchange`; `peer` = key kinds of `hs.peerCertificates` -/
def eccPskx (g : KxGuards) (lib : KxLib) (peer : List KeyKind) (key : Bytes) : Outcome Unit := do
  if peer.length < 2 then .err .certs else
  let sigCert ← idxAny peer 0
  let _encCert ← idxAny peer 1
  if key.length ≤ g.eccSkxMaxShort then .err .skx else
  let k0 ← idx key 0
  let k1 ← idx key 1
  let sigLen := be16 k0 k1
  if sigLen + 2 ≠ key.length then .err .skx else
  let _sig ← sliceFrom key 2
  if !sigCert.isEcdsa then .err .sigkey else
  if !lib.verify then .err .verify else pure ()

/-- `eccKeyAgreement.generateClientKeyExchange` -/
def eccGckx (g : KxGuards) (lib : KxLib) (peer : List KeyKind) : Outcome Unit := do
  if peer.length < 2 then .err .certs else
  let encCert ← idxAny peer 1
  -- preMasterSecret[0], [1], [2:] on make([]byte, 48): constant indices, in range
  if !lib.libOk then .err .lib else   -- io.ReadFull(config.rand(), …)
  if !encCert.isEcdsa then (if g.eccGckxChecked then .err .enckey else .panic) else
  -- sm2.Encrypt; ckx.ciphertext[0], [1], [2:] on make([]byte, len(encrypted)+2): in range
  pure ()

/-- `getECDHEPublicKey` -/
def dhePub (g : KxGuards) (lib : KxLib) (ct : Bytes) : Outcome Unit := do
  match g.dhePubShapes.find? (fun s => s.1 == ct.length) with
  | none => .err .ckx
  | some (_, pubLenStart, vector) =>
    let chk : Outcome Unit :=
      if vector then do
        let b0 ← idx ct 0
        let b1 ← idx ct 1
        if 2 + be16 b0 b1 ≠ ct.length then .err .ckx else pure ()
      else pure ()
    chk
    let pl ← idx ct pubLenStart
    let point ← sliceFrom ct (pubLenStart + 1)
    if pl.toNat ≠ point.length then .err .ckx else
    if !lib.libOk then .err .lib else pure ()

/-- `sm2ECDHEKeyAgreement.processClientKeyExchange`; `peer` = the client's certificates -/
def dhePckx (g : KxGuards) (lib : KxLib) (peer : List KeyKind) (ct : Bytes) : Outcome Unit := do
  if peer.length < 2 then .err .certs else
  let enc ← idxAny peer 1
  if !enc.isEcdsa then .err .enckey else
  if !lib.libOk then .err .lib else   -- sm2.PublicKeyToECDH
  dhePub g lib ct
  -- ka.ke.GenerateKey: covered by libOk

/-- `sm2ECDHEKeyAgreement.processServerKeyExchange` up to `ka.peerTmpKey = tmpPubKey`:
returns the signing certificate's key kind and `publicLen` -/
def dhePskxHead (g : KxGuards) (lib : KxLib) (peer : List KeyKind) (key : Bytes) : Outcome (KeyKind × Nat) := do
  if peer.length < 2 then .err .certs else
  let sigCert ← idxAny peer 0
  if key.length < g.dheSkxMinLen then .err .skx else
  let pl ← idx key 3
  let publicLen := pl.toNat
  if publicLen + 4 > key.length then .err .skx else
  let params ← sliceTo key (4 + publicLen)
  let _point ← sliceFrom params 4
  if !lib.libOk then .err .lib else   -- ecdh.P256().NewPublicKey
  pure (sigCert, publicLen)

/-- … and from there to the end -/
def dhePskxTail (g : KxGuards) (lib : KxLib) (sigCert : KeyKind) (publicLen : Nat) (key : Bytes) : Outcome Unit := do
  let signedParams ← sliceFrom key (4 + publicLen)
  if signedParams.length < g.dheSkxSigHdrMin then .err .skx else
  let s0 ← idx signedParams 0
  let s1 ← idx signedParams 1
  let sigLen := be16 s0 s1
  if sigLen + 2 > signedParams.length then .err .skx else
  let _sig ← sliceFrom signedParams 2
  if !sigCert.isEcdsa then .err .sigkey else
  if !lib.verify then .err .verify else pure ()

/-- `sm2ECDHEKeyAgreement.processServerKeyExchange`; the Boolean says whether `ka.peerTmpKey`
was set (it is set before the signature is looked at) -/
def dhePskx (g : KxGuards) (lib : KxLib) (peer : List KeyKind) (key : Bytes) : Outcome Unit × Bool :=
  match dhePskxHead g lib peer key with
  | .ok (sigCert, publicLen) => (dhePskxTail g lib sigCert publicLen key, true)
  | .err e => (.err e, false)
  | .panic => (.panic, false)

/-- the private key of the client's encryption certificate, as the type switch of
`generateClientKeyExchange` sees it -/
inductive EncPriv
  | nilCert      -- hs.encCert == nil
  | sm2          -- *sm2.PrivateKey or an SM2KeyAgreement implementation
  | other        -- anything else (RSA, ECDSA P-256, Ed25519, nil key)
  deriving DecidableEq, Repr, Inhabited

/-- `sm2ECDHEKeyAgreement.generateClientKeyExchange`; `tmpSet` = `ka.peerTmpKey != nil` -/
def dheGckx (g : KxGuards) (lib : KxLib) (tmpSet : Bool) (enc : EncPriv) (peer : List KeyKind) : Outcome Unit := do
  if !tmpSet then .err .skx else
  if peer.length < g.dheGckxPeerMin then .err .certs else
  if enc == .nilCert && g.dheGckxNilCheck then .err .noke else
  if enc == .nilCert then .panic else          -- hs.encCert.PrivateKey on a nil pointer
  if enc == .other then .err .noke else
  if !lib.libOk then .err .lib else            -- prvKey.ECDH()
  let encCert ← idxAny peer 1
  if !encCert.isEcdsa then .err .enckey else
  if !lib.libOk then .err .lib else            -- PublicKeyToECDH, GenerateAgreementDataAndKey
  -- ckx.ciphertext[0], [1], [2:], params[0..3], params[4:] on make([]byte, 2+paramLen) /
  -- make([]byte, paramLen) with paramLen = 4 + len(ecdhePublic): constant indices, in range
  pure ()

/-! ### record protection -/

/-- `extractPadding`: returns `(toRemove, good)`. The loop reads `payload[len(payload)-1-i]`
for `i < min(256, len(payload))` with a checked index; `good` is the meaning of the
constant-time mask arithmetic: the last `paddingLen+1` bytes exist and all equal `paddingLen`. -/
def extractPadding (payload : Bytes) : Outcome (Nat × Bool) := do
  if payload.length < 1 then pure (0, false) else
  let pl ← idx payload (payload.length - 1)
  let toCheck := if 256 > payload.length then payload.length else 256
  let rec loop (i : Nat) (fuel : Nat) (good : Bool) : Outcome Bool :=
    match fuel with
    | 0 => pure good
    | fuel + 1 => do
      let b ← idxInt payload ((payload.length : Int) - 1 - (i : Int))
      let good := if i ≤ pl.toNat then good && (b == pl) else good
      loop (i + 1) fuel good
  let good ← loop 0 toCheck (decide (pl.toNat + 1 ≤ payload.length))
  pure ((if good then pl.toNat else 0) + 1, good)

/-- the protection installed on a direction -/
inductive CipherKind
  | none
  | aead (explicitNonceLen overhead : Nat)
  | cbc (blockSize macSize : Nat)
  deriving DecidableEq, Repr, Inhabited

/-- answers of the cryptographic calls of `decrypt` -/
structure DecLib where
  /-- `c.Open`: `none` = authentication failure, `some n` = plaintext of `n` bytes -/
  aeadOpen : Bytes → Option Nat
  /-- `c.CryptBlocks(payload, payload)`: any bytes of the same length -/
  cbcDecrypt : Bytes → Bytes
  cbcLen : ∀ b, (cbcDecrypt b).length = b.length
  /-- `subtle.ConstantTimeCompare(localMAC, remoteMAC) == 1` -/
  macOk : Bool

def roundUp (a b : Nat) : Nat := a + (b - a % b) % b

/-- `halfConn.decrypt`. `dtls` selects the dtlcp text (no write to `record[3..4]`, explicit
sequence number, reads `record[1]`, `record[2]`); `hdr` is `recordHeaderLen`; `seq` the
64-bit counter of tlcp (`incSeq` panics on wrap-around). Returns the plaintext length. -/
def decrypt (dtls : Bool) (hdr : Nat) (k : CipherKind) (lib : DecLib) (seq : Nat) (record : Bytes) :
    Outcome Nat := do
  let _typ ← idx record 0
  let payload ← sliceFrom record hdr
  let fin (n : Nat) : Outcome Nat :=
    if dtls then pure n else if seq + 1 ≥ 2 ^ 64 then .panic else pure n
  match k with
  | .none => fin payload.length
  | .aead en ov =>
    if payload.length < en then .err .badmac else
    let _nonce ← sliceTo payload en
    let payload ← sliceFrom payload en
    let _ad ← (if dtls then do let _ ← idx record 0; let _ ← idx record 1; let _ ← idx record 2; pure ([] : Bytes)
               else sliceTo record 3)
    let _n := payload.length - ov   -- may be negative in Go: only converted to bytes
    let _dst ← sliceTo payload 0
    match lib.aeadOpen payload with
    | none => .err .badmac
    | some n => fin n
  | .cbc bs ms =>
    if bs = 0 then .panic else     -- integer divide by zero in roundUp / `%`
    let en := bs
    let minPayload := en + roundUp (ms + 1) bs
    if payload.length % bs ≠ 0 ∨ payload.length < minPayload then .err .badmac else
    let _iv ← sliceTo payload en
    let payload ← sliceFrom payload en
    let payload := lib.cbcDecrypt payload
    let (paddingLen, paddingGood) ← extractPadding payload
    if payload.length < ms then .err .badmac else
    -- n := len(payload) - macSize - paddingLen; if n < 0 { n = 0 }
    let n := payload.length - ms - paddingLen
    let record ← (if dtls then do let _ ← idx record 0; let _ ← idx record 1; let _ ← idx record 2; pure record
                  else do let r ← setIdx record 3 0; setIdx r 4 0)
    let _remoteMAC ← slice payload n (n + ms)
    let _h ← (if dtls then pure ([] : Bytes) else sliceTo record hdr)
    let _p ← sliceTo payload n
    let _x ← sliceFrom payload (n + ms)
    if !(lib.macOk && paddingGood) then .err .badmac else
    let _plain ← sliceTo payload n
    fin n

/-! ### handshake framing -/

/-- result of looking at the handshake buffer -/
inductive Frame
  | needMore                               -- the loop calls readRecord
  | msg (typ : UInt8) (data rest : Bytes)  -- `c.hand.Next(4+n)`; `rest` stays buffered
  deriving Repr

/-- tlcp `Conn.readHandshake`: the part between the two `for c.hand.Len() < …` loops -/
def frameT (maxHandshake : Nat) (hand : Bytes) : Outcome Frame := do
  if hand.length < 4 then pure .needMore else
  let d1 ← idx hand 1
  let d2 ← idx hand 2
  let d3 ← idx hand 3
  let n := be24 d1 d2 d3
  if n > maxHandshake then .err .toolong else
  if hand.length < 4 + n then pure .needMore else
  let data ← sliceTo hand (4 + n)
  let rest ← sliceFrom hand (4 + n)
  let t ← idx data 0
  pure (.msg t data rest)

/-- a dtlcp fragment taken off the handshake buffer -/
structure FragD where
  typ : UInt8
  msgSeq : Nat
  bodyLen : Nat
  fragOff : Nat
  fragLen : Nat
  body : Bytes
  rest : Bytes
  deriving Repr

inductive FrameD
  | needMore
  | frag (f : FragD)
  deriving Repr

/-- dtlcp `Conn.readHandshake`: header decoding, bounds checks, `c.handBuf.Next`, and the
indices used afterwards (`data[0..5]`, `data[dtlcpHeaderLen:]`) -/
def frameD (maxHandshake hdrLen : Nat) (hand : Bytes) : Outcome FrameD := do
  if hand.length < hdrLen then pure .needMore else
  let d1 ← idx hand 1;  let d2 ← idx hand 2;  let d3 ← idx hand 3
  let d6 ← idx hand 6;  let d7 ← idx hand 7;  let d8 ← idx hand 8
  let d9 ← idx hand 9;  let d10 ← idx hand 10; let d11 ← idx hand 11
  let bodyLen := be24 d1 d2 d3
  let fragOff := be24 d6 d7 d8
  let fragLen := be24 d9 d10 d11
  if bodyLen > maxHandshake then .err .toolong else
  if fragOff + fragLen > bodyLen then .err .bounds else
  if hand.length < hdrLen + fragLen then pure .needMore else
  let data ← sliceTo hand (hdrLen + fragLen)
  let rest ← sliceFrom hand (hdrLen + fragLen)
  let t ← idx data 0
  let s4 ← idx data 4
  let s5 ← idx data 5
  let body ← sliceFrom data hdrLen
  pure (.frag { typ := t, msgSeq := be16 s4 s5, bodyLen := bodyLen, fragOff := fragOff, fragLen := fragLen,
                body := body, rest := rest })

/-! ### record headers -/

structure RecHdr where
  typ : UInt8
  vers : Nat
  n : Nat
  deriving Repr

/-- tlcp `readRecordOrCCS`: `hdr := c.rawInput.Bytes()[:recordHeaderLen]`, `hdr[0..4]`
(called once `rawInput` holds at least `hdrLen` bytes — the guard is `readFromUntil`) -/
def headerT (hdrLen : Nat) (raw : Bytes) : Outcome RecHdr := do
  let hdr ← sliceTo raw hdrLen
  let t ← idx hdr 0
  let v1 ← idx hdr 1; let v2 ← idx hdr 2
  let n1 ← idx hdr 3; let n2 ← idx hdr 4
  pure { typ := t, vers := be16 v1 v2, n := be16 n1 n2 }

structure SplitD where
  typ : UInt8
  vers : Nat
  epoch : Nat
  seq : Nat
  record : Bytes
  rest : Bytes
  deriving Repr

/-- dtlcp `readRecordOrCCS`: the header slicing of one record out of the datagram buffer
(`haveVers`/`vers` as in the connection; `firstRecord` = `c.handBuf.Len() == 0`: only the very
first record must be an alert or a handshake record). -/
def splitD (hdrLen maxCiphertext : Nat) (haveVers : Bool) (vers : Nat) (buf : Bytes) (firstRecord : Bool := true) :
    Outcome SplitD := do
  if buf.length < hdrLen then .err .short else
  let hdr ← sliceTo buf hdrLen
  let t ← idx hdr 0
  let v1 ← idx hdr 1; let v2 ← idx hdr 2
  let e1 ← idx hdr 3; let e2 ← idx hdr 4
  let s0 ← idx hdr 5; let s1 ← idx hdr 6; let s2 ← idx hdr 7
  let s3 ← idx hdr 8; let s4 ← idx hdr 9; let s5 ← idx hdr 10
  let n1 ← idx hdr 11; let n2 ← idx hdr 12
  let v := be16 v1 v2
  let n := be16 n1 n2
  if haveVers && v != vers then .err .version else
  if !haveVers && ((firstRecord && t != 21 && t != 22) || v ≥ 0x1000) then .err .first else
  if n > maxCiphertext then .err .overflow else
  if hdrLen + n > buf.length then .err .bounds else
  let record ← sliceTo buf (hdrLen + n)
  let rest ← sliceFrom buf (hdrLen + n)
  pure { typ := t, vers := v, epoch := be16 e1 e2,
         seq := ((((s0.toNat * 256 + s1.toNat) * 256 + s2.toNat) * 256 + s3.toNat) * 256 + s4.toNat) * 256 + s5.toNat,
         record := record, rest := rest }

end Gotlcp.Model.Parsers

/-
Model of the client's server-authentication logic (property C02), both stacks:

  tlcp/handshake_client.go  clientHandshake / loadSession / handshake / processServerHello /
                            doFullHandshake / verifyServerCertificate / readFinished
  tlcp/key_agreement.go     eccKeyAgreement / sm2ECDHEKeyAgreement .processServerKeyExchange,
                            .generateClientKeyExchange
  (dtlcp copies: same control flow, retransmission loops around it)

The model is a function of the *verdicts* the code obtains.  X.509 path validation, SM2
and the PRF are inputs:

* `CertView.chainOK` is the answer of `certs[i].Verify(opts)` with the options the code
  builds (`Roots = RootCAs`, `CurrentTime = Config.time()`, `DNSName = ServerName`,
  remaining certificates as intermediates) — that conjunction is smx509's and is trusted;
* the ServerKeyExchange signature is checked by an abstract `verify : K → Tbs R P → S → Bool`
  on the to-be-signed value the *client* assembles from its own ClientHello random, the
  ServerHello random it received and the parameters it holds (ECC: the encryption
  certificate it received; ECDHE: the ServerECDHParams of the message);
* `finishedOK` is the verdict of `readFinished` (ChangeCipherSpec arrives, the Finished
  record decrypts under the keys derived from the client's master secret, `verify_data`
  equals the client's own `serverSum`).  On the resumption branch the verdict is derived:
  the PRF is modelled symbolically by *which* secret (`Secret`) each side computes with — the
  session's, or one of the public values a cache eviction can leave in a `SessionState`.

* the two optional user callbacks of `Config` (`VerifyPeerCertificate`, `VerifyConnection`) are
  further verdict inputs (`Callbacks`): not installed, or installed and returning nil / an error.
  What they compute is user code and not modelled; WHERE they are consulted and what their
  answer can change (nothing but add a refusal) is.

What is *not* abstracted: which checks are made, in which order, under which guard, with which
inputs, which are skipped by `InsecureSkipVerify`, which message is optional, which callback is
consulted where, and when completion is recorded.  Where the code before and after a repair differs the model takes a
parameter that is fed from a regenerated fact (`Params`).

Core Lean only (linked into `oracle_c02`).
-/
namespace Gotlcp.Model.ClientAuthn

inductive Kex | ecc | ecdhe
  deriving DecidableEq, Repr

/-- dynamic Go type of `cert.PublicKey` as the code's type switches / assertions see it -/
inductive KeyKind
  | ecdsa   -- *ecdsa.PublicKey (SM2 and every other named curve)
  | rsa     -- *rsa.PublicKey
  | other   -- anything else (ed25519, …)
  deriving DecidableEq, Repr

/-- what the code obtains about one certificate of the server's Certificate message -/
structure CertView (K P : Type) where
  key     : K        -- the public key the certificate binds
  kind    : KeyKind
  chainOK : Bool     -- verdict of `cert.Verify(opts)` under the configuration in use
  der     : P        -- the certificate as sent (`cert.Raw`)

/-- the value a ServerKeyExchange signature is computed over -/
structure Tbs (R P : Type) where
  clientRandom : R
  serverRandom : R
  params       : P
  deriving DecidableEq, Repr

structure Skx (P S : Type) where
  /-- passes the length / framing checks of `processServerKeyExchange` (ECDHE: and the point parses) -/
  wellFormed : Bool
  /-- ECDHE: the `ServerECDHParams` bytes carried in the message (unused for ECC) -/
  ecdhParams : P
  sig        : S

/-- The optional user callbacks of `Config` as the handshake sees them: `none` = the field is
nil; `some b` = a callback is installed and, on this connection, returns nil (`b = true`) or an
error (`b = false`).  A callback is arbitrary user code: its verdict is an input like the
verdicts of X.509 and SM2, and says nothing about the peer. -/
structure Callbacks where
  /-- `Config.VerifyPeerCertificate(rawCerts, verifiedChains)` -/
  vpc : Option Bool := none
  /-- `Config.VerifyConnection(ConnectionState)` -/
  vc  : Option Bool := none
  deriving DecidableEq, Repr

/-- everything a full handshake shows the client, after ServerHello -/
structure FullView (K R P S : Type) where
  kex           : Kex
  clientRandom  : R                      -- hs.hello.random
  serverRandom  : R                      -- hs.serverHello.random
  certMsg       : Bool                   -- the first message of the flight is a Certificate message
  certs         : List (CertView K P)    -- its entries
  parseOK       : Bool                   -- every entry parses
  skx           : Option (Skx P S)       -- ServerKeyExchange, when the next message is one
  certReq       : Bool                   -- CertificateRequest present
  clientEncCert : Bool                   -- the client has an encryption key pair to answer with (ECDHE)
  helloDone     : Bool                   -- the flight ends with ServerHelloDone
  ckxOK         : Bool                   -- the public-key operation of generateClientKeyExchange succeeds
  finishedOK    : Bool
  cb            : Callbacks := {}        -- verdicts of the user callbacks on this connection

/-- shape of the source that differs before / after the repairs (fed from `Gotlcp.Facts`) -/
structure Params where
  skxMandatory    : Bool         -- F1: `skx, ok := msg.(*serverKeyExchangeMsg); if !ok { return }`
  minCerts        : Nat          -- `len(certs) < minCerts` is refused
  verifiedIdx     : List Nat     -- indices i with an enforced `certs[i].Verify(opts)`
  /-- callbacks `verifyServerCertificate` consults after its built-in checks, in order, each as
  `if c.config.N != nil { if err := c.config.N(…); err != nil { alert; return err } }` -/
  fullCallbacks   : List String
  resumeReverify  : Bool         -- F13: recorded certificates are re-verified before a session is offered
  resumeMinCerts  : Nat
  resumeIdx       : List Nat
  fullSteps       : List String  -- error-checked calls of the full branch of handshake(), in order
  resumeSteps     : List String  -- … of the resumption branch (a callback block appears under the callback's name)
  /-- `lruSessionCache.Put`, eviction path: `setZero(old.masterSecret)` … -/
  evictWipes      : Bool
  /-- … followed by `old.masterSecret = nil` -/
  evictDrops      : Bool
  /-- `loadSession` continues with a private deep copy (`session = session.clone()`) -/
  loadClones      : Bool
  /-- `processServerHello` refuses a session with `len(masterSecret) == 0` -/
  secretGuard     : Bool

inductive Outcome
  | completed
  | failed (stage : String) (alert : String)
  deriving DecidableEq, Repr

def Outcome.isCompleted : Outcome → Bool
  | .completed => true
  | .failed _ _ => false

abbrev Step := Except (String × String) Unit

def failWith (stage alert : String) : Step := .error (stage, alert)

variable {K R P S : Type}

/-- `certs[i].Verify(opts)` for the listed indices, in order (a missing index cannot occur
after the length check; it is treated as Go would: index out of range ⇒ failure) -/
def chainsOK (idx : List Nat) (certs : List (CertView K P)) : Bool :=
  idx.all fun i => match certs[i]? with
    | some c => c.chainOK
    | none => false

/-- `if c.config.N != nil { if err := c.config.N(…); err != nil { alert; return err } }`: the
only thing an installed callback can do is refuse -/
def callback (verdict : Option Bool) (stage : String) : Step :=
  match verdict with
  | some false => failWith stage "bad_certificate"
  | _ => .ok ()

/-- one callback block, by the name of the `Config` field -/
def runCallback (cb : Callbacks) (name : String) : Step :=
  if name == "VerifyPeerCertificate" then callback cb.vpc "verify-peer-certificate"
  else if name == "VerifyConnection" then callback cb.vc "verify-connection"
  else .ok ()

/-- the first error of a sequence of checks (the checks are pure: none consumes another's result) -/
def firstError : List Step → Step
  | [] => .ok ()
  | .ok () :: rest => firstError rest
  | .error e :: _ => .error e

/-- `Conn.verifyServerCertificate`: the built-in checks, then the user callbacks -/
def verifyServerCertificate (p : Params) (skip : Bool) (v : FullView K R P S) : Step :=
  if !v.parseOK then failWith "certificate-parse" "bad_certificate"
  else if v.certs.length < p.minCerts then failWith "certificate-count" "bad_certificate"
  else if !skip && !chainsOK p.verifiedIdx v.certs then failWith "certificate-chain" "bad_certificate"
  else match v.certs[0]? with
    | none => failWith "certificate-count" "panic"
    | some c0 =>
      if c0.kind == .other then failWith "certificate-keytype" "unsupported_certificate"
      else firstError (p.fullCallbacks.map (runCallback v.cb))

/-- the to-be-signed value the client assembles -/
def clientTbs (v : FullView K R P S) (skx : Skx P S) (encDer : P) : Tbs R P :=
  { clientRandom := v.clientRandom, serverRandom := v.serverRandom,
    params := match v.kex with
      | .ecc => encDer
      | .ecdhe => skx.ecdhParams }

/-- `processServerKeyExchange` of both key agreements; every error is answered with
`unexpected_message` by `doFullHandshake` -/
def processServerKeyExchange (verify : K → Tbs R P → S → Bool) (v : FullView K R P S) (skx : Skx P S) : Step :=
  match v.certs with
  | c0 :: c1 :: _ =>
    if !skx.wellFormed then failWith "skx-format" "unexpected_message"
    else if c0.kind != .ecdsa then failWith "skx-keytype" "unexpected_message"
    else if !verify c0.key (clientTbs v skx c1.der) skx.sig then failWith "skx-signature" "unexpected_message"
    else .ok ()
  | _ => failWith "skx-certs" "unexpected_message"

/-- `generateClientKeyExchange`: ECC encrypts the pre-master secret to `certs[1]`'s key; ECDHE
needs the server's ephemeral key (so a ServerKeyExchange must have been processed), the
client's own encryption key pair and `certs[1]`'s key. A foreign key type panics in the ECC
path today (finding F4 of C09) — for this property a panic is a failure like any other. -/
def generateClientKeyExchange (v : FullView K R P S) : Step :=
  match v.certs with
  | _ :: c1 :: _ =>
    match v.kex with
    | .ecc =>
      if c1.kind != .ecdsa then failWith "ckx-keytype" "panic"
      else if !v.ckxOK then failWith "ckx" "internal_error"
      else .ok ()
    | .ecdhe =>
      if v.skx.isNone then failWith "ckx-no-server-params" "internal_error"
      else if !v.certReq then failWith "ckx-no-client-key" "panic"
      else if c1.kind != .ecdsa then failWith "ckx-keytype" "internal_error"
      else if !v.ckxOK then failWith "ckx" "internal_error"
      else .ok ()
  | _ => failWith "ckx-certs" "internal_error"

def check (bad : Bool) (stage alert : String) : Step :=
  if bad then failWith stage alert else .ok ()

/-- `clientHandshakeState.doFullHandshake`, statement by statement -/
def doFullHandshake (p : Params) (verify : K → Tbs R P → S → Bool) (skip : Bool) (v : FullView K R P S) : Step :=
  firstError [
    -- certMsg, ok := msg.(*certificateMsg); if !ok || len(certMsg.certificates) == 0
    check (!v.certMsg || v.certs.isEmpty) "certificate-missing" "unexpected_message",
    -- c.verifyServerCertificate(certMsg.certificates)
    verifyServerCertificate p skip v,
    -- skx, ok := msg.(*serverKeyExchangeMsg)
    (match v.skx with
      | some skx => processServerKeyExchange verify v skx
      | none => check p.skxMandatory "skx-missing" "unexpected_message"),
    -- certReq, ok := msg.(*certificateRequestMsg): ECDHE needs the client's encryption key pair
    check (v.certReq && v.kex == .ecdhe && !v.clientEncCert) "client-enc-cert" "internal_error",
    -- shd, ok := msg.(*serverHelloDoneMsg)
    check (!v.helloDone) "hello-done" "unexpected_message",
    -- keyAgreement.generateClientKeyExchange(hs)
    generateClientKeyExchange v ]

/-- one error-checked call of `handshake()`; calls the model does not interpret cannot fail
through anything the peer controls (key derivation, local writes, cache insertion) -/
def runStep (doFull : Step) (finishedOK : Bool) (cb : Callbacks) (name : String) : Step :=
  if name == "doFullHandshake" then doFull
  else if name == "readFinished" then
    (if finishedOK then .ok () else failWith "finished" "handshake_failure")
  else runCallback cb name   -- a callback block of handshake() itself; any other call: `.ok ()`

def runSteps (doFull : Step) (finishedOK : Bool) (cb : Callbacks) (steps : List String) : Step :=
  firstError (steps.map (runStep doFull finishedOK cb))

/-- state of the connection when `handshake()` returns -/
structure Result where
  outcome         : Outcome
  /-- `handshakeStatus` (tlcp) / `hsState == stateFinished` (dtlcp) -/
  handshakeStatus : Nat
  deriving DecidableEq, Repr

def finish (r : Step) : Result :=
  match r with
  | .ok () => { outcome := .completed, handshakeStatus := 1 }   -- the store after the branches
  | .error (st, al) => { outcome := .failed st al, handshakeStatus := 0 }

/-- `handshake()` when the server did not resume -/
def fullHandshake (p : Params) (verify : K → Tbs R P → S → Bool) (skip : Bool) (v : FullView K R P S) : Result :=
  finish (runSteps (doFullHandshake p verify skip v) v.finishedOK v.cb p.fullSteps)

/-! ### resumption -/

/-- The master secret a party computes its Finished value and record keys with.  Only the
first is a secret: a wiped buffer and a dropped buffer hold values everybody knows. -/
inductive Secret
  | session   -- the one agreed by the handshake that created the session (and recorded its certificates)
  | zeros     -- all-zero bytes of the usual length: what `setZero` leaves behind
  | empty     -- no bytes at all: a `nil` / zero-length slice
  | other     -- anything else, e.g. the guess of a peer that does not know the session's secret
  deriving DecidableEq, Repr

/-- The PRF is HMAC-based (`pHash`): a key shorter than the hash block is padded with zero
bytes, so an empty master secret and an all-zero one are the same key — they yield the same
record keys and the same Finished values. -/
def Secret.prfKey : Secret → Secret
  | .empty => .zeros
  | k => k

/-- what the client holds about a cached session and what the resumed flow shows -/
structure SessView where
  /-- certificates recorded in the session -/
  nCerts     : Nat
  /-- verdict of `Verify` on recorded certificate 0 / 1 under the configuration NOW in use -/
  chainSig   : Bool
  chainEnc   : Bool
  /-- the server answered with the offered session id -/
  serverResumes : Bool
  versOK     : Bool
  suiteOK    : Bool
  /-- the cache evicted the entry (other connections stored their sessions) after
  `SessionCache.Get` handed it to `loadSession` and before `loadSession` took its copy -/
  evictedInWindow  : Bool
  /-- … after `loadSession` returned and before `processServerHello` copies the secret -/
  evictedAfterLoad : Bool
  /-- the secret the peer's ChangeCipherSpec / Finished were computed with (`none`: the peer
  sent no Finished, or a damaged one) -/
  peerFin    : Option Secret
  /-- verdicts of the user callbacks on this (resumed) connection -/
  cb         : Callbacks := {}
  deriving DecidableEq, Repr

def sessChains (idx : List Nat) (s : SessView) : Bool :=
  idx.all fun i => if i == 0 then s.chainSig else if i == 1 then s.chainEnc else false

/-- `loadSession`: is the cached session offered in ClientHello? -/
def offers (p : Params) (skip : Bool) (s : SessView) : Bool :=
  !p.resumeReverify || skip || (decide (p.resumeMinCerts ≤ s.nCerts) && sessChains p.resumeIdx s)

/-- what the eviction path of `lruSessionCache.Put` leaves in `masterSecret` of the evicted
`SessionState` (the object a concurrent `loadSession` may still point to) -/
def evictedSecret (p : Params) : Secret :=
  if p.evictDrops then .empty else if p.evictWipes then .zeros else .session

/-- is the `SessionState` the handshake reads its secret from the one the cache evicted?  Inside
the window of `loadSession` always; afterwards only when `loadSession` did not take a copy. -/
def readsEvicted (p : Params) (s : SessView) : Bool :=
  s.evictedInWindow || (!p.loadClones && s.evictedAfterLoad)

/-- `hs.session.masterSecret` as `processServerHello` finds it -/
def heldSecret (p : Params) (s : SessView) : Secret :=
  if readsEvicted p s then evictedSecret p else .session

/-- `processServerHello` after `serverResumedSession()` -/
def processResumed (p : Params) (s : SessView) : Step :=
  if !s.versOK then failWith "resume-version" "handshake_failure"
  else if !s.suiteOK then failWith "resume-suite" "handshake_failure"
  else if p.secretGuard && heldSecret p s == .empty then failWith "resume-master" "internal_error"
  else .ok ()

/-- `readFinished` on the resumption branch: the peer's records open and its `verify_data`
match exactly when the peer computed them with (the same PRF key as) the secret the client holds -/
def resumeFinishedOK (p : Params) (s : SessView) : Bool :=
  s.peerFin.map Secret.prfKey == some (heldSecret p s).prfKey

/-- `handshake()` on the resumption branch -/
def resumedHandshake (p : Params) (s : SessView) : Result :=
  finish (firstError [processResumed p s, runSteps (.ok ()) (resumeFinishedOK p s) s.cb p.resumeSteps])

/-- one client connection: an optional cached session and the full-handshake view used when
the session is not offered or the server does not resume it -/
structure ConnView (K R P S : Type) where
  session : Option SessView
  full    : FullView K R P S

structure ConnResult where
  result  : Result
  resumed : Bool
  deriving DecidableEq, Repr

/-- does this connection take the resumption branch? -/
def takesResume (p : Params) (skip : Bool) (s : SessView) : Bool :=
  offers p skip s && s.serverResumes

/-- `clientHandshake` after ServerHello -/
def connect (p : Params) (verify : K → Tbs R P → S → Bool) (skip : Bool) (c : ConnView K R P S) : ConnResult :=
  match c.session with
  | some s =>
    if takesResume p skip s then { result := resumedHandshake p s, resumed := true }
    else { result := fullHandshake p verify skip c.full, resumed := false }
  | none => { result := fullHandshake p verify skip c.full, resumed := false }

/-- `ConnectionState().DidResume`: `handshake()` stores `isResume` as soon as
`processServerHello` has accepted the resumption — before Finished is read, so the flag may
be set on a connection that then fails (the property does not constrain it there) -/
def didResume (p : Params) (skip : Bool) (c : ConnView K R P S) : Bool :=
  match c.session with
  | some s => takesResume p skip s && (match processResumed p s with | .ok () => true | .error _ => false)
  | none => false

/-! ### The pre-master secret of the ECC suites and the client's entropy source

`eccKeyAgreement.generateClientKeyExchange` builds `X := make([]byte, len)`, writes the version
into `X[0..1]` and fills the tail `X[randFrom:]` from `Config.Rand`, an `io.Reader` the
application may supply.  A call to `Read` may legally deliver fewer bytes than asked for — one
byte, half, none at all — with a nil error; only `io.ReadFull` keeps calling until the tail is
full.  The secrecy of the master secret against a peer that does not hold the encryption private
key rests on ALL of those bytes coming from the reader: a peer that has to guess one byte
succeeds by trial against the client's Finished. -/

/-- An `io.Reader` seen from its caller: the bytes it is going to hand out, in order, and for each
successive call of `Read` how many bytes at most that call delivers (0 = a zero-length read).  When
the schedule or the bytes run out the reader reports an error. -/
structure Reader where
  stream : List Nat
  sched  : List Nat
  deriving DecidableEq, Repr

/-- one `Read(p)` with `len(p) = want`: what was delivered and the reader afterwards
(`none` = error) -/
def Reader.read (r : Reader) (want : Nat) : Option (List Nat × Reader) :=
  match r.sched with
  | [] => none
  | k :: rest =>
    let n := min k want
    if r.stream.length < n then none
    else some (r.stream.take n, { stream := r.stream.drop n, sched := rest })

/-- `io.ReadFull(r, p)`: `Read` is called until `want` bytes were delivered (not at all when
`want = 0`); an error of the reader is an error.  Returns the bytes, the rest of the stream and of
the schedule. -/
def readFull : (sched stream : List Nat) → (want : Nat) → Option (List Nat × List Nat × List Nat)
  | sched, stream, 0 => some ([], stream, sched)
  | [], _, _ + 1 => none
  | k :: rest, stream, want + 1 =>
    let n := min k (want + 1)
    if stream.length < n then none
    else match readFull rest (stream.drop n) (want + 1 - n) with
      | none => none
      | some (bs, s', sc') => some (stream.take n ++ bs, s', sc')

/-- shape of the source (fed from `Gotlcp.Facts`) -/
structure PmsParams where
  len      : Nat   -- `make([]byte, len)`
  randFrom : Nat   -- the tail `X[randFrom:]` is filled from `config.rand()` …
  readFull : Bool  -- … with `io.ReadFull` (otherwise: ONE call of `Read`, its count ignored)
  deriving DecidableEq, Repr

/-- the random tail of the pre-master secret and how many of its bytes were drawn from the reader -/
def pmsTail (p : PmsParams) (r : Reader) : Option (List Nat × Nat) :=
  let want := p.len - p.randFrom
  if p.readFull then
    (readFull r.sched r.stream want).map fun (bs, _, _) => (bs, bs.length)
  else
    (r.read want).map fun (bs, _) => (bs ++ List.replicate (want - bs.length) 0, bs.length)

/-- the pre-master secret the client encrypts: version ‖ tail (`none`: the client fails) -/
def preMaster (p : PmsParams) (vers : Nat) (r : Reader) : Option (List Nat) :=
  (pmsTail p r).map fun (t, _) => ([vers / 256, vers % 256] ++ List.replicate (p.randFrom - 2) 0).take p.randFrom ++ t

/-- how many bytes of the tail come from the reader -/
def pmsDrawn (p : PmsParams) (r : Reader) : Option Nat := (pmsTail p r).map (·.2)

end Gotlcp.Model.ClientAuthn

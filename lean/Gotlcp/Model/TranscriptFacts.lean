/-
The parameters of the C03 model (`Codes`, `TFlags`) as read from the regenerated source facts
`Gotlcp.Facts.{tlcp,dtlcp}` — message type codes, limits, alert numbers, and which transcript
operations the handshake functions perform (`tr*` facts: ordered call lists extracted from the
Go AST by `harness/cmd/extract/facts_transcript.go`).  Core Lean only.
-/
import Gotlcp.Model.Transcript
import Gotlcp.Generated.Facts

namespace Gotlcp.Model.Transcript

/-- what the extractor found for one stack -/
structure TrFacts where
  clientHSAdds : List String
  clientFullReads : List Bool
  clientFullWrites : List Bool
  clientSendFinishedWrites : List Bool
  clientReadFinishedReads : List Bool
  clientReadFinishedAdds : List String
  clientReadFinishedSumFirst : Bool
  serverReadHelloReads : List Bool
  serverFullAdds : List String
  serverFullReads : List Bool
  serverFullWrites : List Bool
  serverResumeAdds : List String
  serverResumeWrites : List Bool
  serverSendFinishedWrites : List Bool
  serverReadFinishedReads : List Bool
  serverReadFinishedAdds : List String
  serverReadFinishedSumFirst : Bool
  ccsGuards : List String
  handshakeGuards : List String
  /-- the guards of these two cases whose body ends the connection with a fatal alert, as
  `"<condition> => <alert>"` (a guard that is present but drops / retries is not listed) -/
  ccsFatal : List String
  handshakeFatal : List String
  versionCheck : String
  clientCompare : String
  serverCompare : String
  /-- message types with `marshal` and `unmarshal`; those that keep the decoded bytes in `raw`
  and return them from `marshal`; the types handed to `transcriptMsg`; assignments to a `raw`
  field (and `setMessageSeq` calls, which drop it) outside the codec methods -/
  codecTypes : List String
  rawKept : List String
  addedTypes : List String
  rawResets : List String
  /-- every `c.in.changeCipherSpec()` of the package, every assignment to `expectChangeCipherSpec`,
  every `deferredCCS = true`, as `function:context` (context = the enclosing `case` of a switch,
  else the enclosing `if`); every statement that marks the handshake complete, as
  `function:last` (top-level statement of the function, only assignments / plain calls and the
  final `return nil` behind it) or `function:early` -/
  inCipherSwitches : List String
  expectCcsAssigns : List String
  deferredCcsSets : List String
  doneMarks : List String

def tlcpTr : TrFacts :=
  { clientHSAdds := Facts.tlcp.trClientHSAdds, clientFullReads := Facts.tlcp.trClientFullReads,
    clientFullWrites := Facts.tlcp.trClientFullWrites,
    clientSendFinishedWrites := Facts.tlcp.trClientSendFinishedWrites,
    clientReadFinishedReads := Facts.tlcp.trClientReadFinishedReads,
    clientReadFinishedAdds := Facts.tlcp.trClientReadFinishedAdds,
    clientReadFinishedSumFirst := Facts.tlcp.trClientReadFinishedSumBeforeAdd,
    serverReadHelloReads := Facts.tlcp.trServerReadHelloReads,
    serverFullAdds := Facts.tlcp.trServerFullAdds, serverFullReads := Facts.tlcp.trServerFullReads,
    serverFullWrites := Facts.tlcp.trServerFullWrites, serverResumeAdds := Facts.tlcp.trServerResumeAdds,
    serverResumeWrites := Facts.tlcp.trServerResumeWrites,
    serverSendFinishedWrites := Facts.tlcp.trServerSendFinishedWrites,
    serverReadFinishedReads := Facts.tlcp.trServerReadFinishedReads,
    serverReadFinishedAdds := Facts.tlcp.trServerReadFinishedAdds,
    serverReadFinishedSumFirst := Facts.tlcp.trServerReadFinishedSumBeforeAdd,
    ccsGuards := Facts.tlcp.trCcsGuards, handshakeGuards := Facts.tlcp.trHandshakeGuards,
    ccsFatal := Facts.tlcp.trCcsFatalGuards, handshakeFatal := Facts.tlcp.trHandshakeFatalGuards,
    versionCheck := Facts.tlcp.trVersionCheck, clientCompare := Facts.tlcp.trClientFinishedCompare,
    serverCompare := Facts.tlcp.trServerFinishedCompare,
    codecTypes := Facts.tlcp.trMsgCodecTypes, rawKept := Facts.tlcp.trRawKeptTypes,
    addedTypes := Facts.tlcp.trAddedTypes, rawResets := Facts.tlcp.trRawResets,
    inCipherSwitches := Facts.tlcp.trInCipherSwitches, expectCcsAssigns := Facts.tlcp.trExpectCcsAssigns,
    deferredCcsSets := Facts.tlcp.trDeferredCcsSets, doneMarks := Facts.tlcp.trDoneMarks }

def dtlcpTr : TrFacts :=
  { clientHSAdds := Facts.dtlcp.trClientHSAdds, clientFullReads := Facts.dtlcp.trClientFullReads,
    clientFullWrites := Facts.dtlcp.trClientFullWrites,
    clientSendFinishedWrites := Facts.dtlcp.trClientSendFinishedWrites,
    clientReadFinishedReads := Facts.dtlcp.trClientReadFinishedReads,
    clientReadFinishedAdds := Facts.dtlcp.trClientReadFinishedAdds,
    clientReadFinishedSumFirst := Facts.dtlcp.trClientReadFinishedSumBeforeAdd,
    serverReadHelloReads := Facts.dtlcp.trServerReadHelloReads,
    serverFullAdds := Facts.dtlcp.trServerFullAdds, serverFullReads := Facts.dtlcp.trServerFullReads,
    serverFullWrites := Facts.dtlcp.trServerFullWrites, serverResumeAdds := Facts.dtlcp.trServerResumeAdds,
    serverResumeWrites := Facts.dtlcp.trServerResumeWrites,
    serverSendFinishedWrites := Facts.dtlcp.trServerSendFinishedWrites,
    serverReadFinishedReads := Facts.dtlcp.trServerReadFinishedReads,
    serverReadFinishedAdds := Facts.dtlcp.trServerReadFinishedAdds,
    serverReadFinishedSumFirst := Facts.dtlcp.trServerReadFinishedSumBeforeAdd,
    ccsGuards := Facts.dtlcp.trCcsGuards, handshakeGuards := Facts.dtlcp.trHandshakeGuards,
    ccsFatal := Facts.dtlcp.trCcsFatalGuards, handshakeFatal := Facts.dtlcp.trHandshakeFatalGuards,
    versionCheck := Facts.dtlcp.trVersionCheck, clientCompare := Facts.dtlcp.trClientFinishedCompare,
    serverCompare := Facts.dtlcp.trServerFinishedCompare,
    codecTypes := Facts.dtlcp.trMsgCodecTypes, rawKept := Facts.dtlcp.trRawKeptTypes,
    addedTypes := Facts.dtlcp.trAddedTypes, rawResets := Facts.dtlcp.trRawResets,
    inCipherSwitches := Facts.dtlcp.trInCipherSwitches, expectCcsAssigns := Facts.dtlcp.trExpectCcsAssigns,
    deferredCcsSets := Facts.dtlcp.trDeferredCcsSets, doneMarks := Facts.dtlcp.trDoneMarks }

/-- the documented text of the Finished comparison (length and content, constant time) -/
def fullCompare (who : String) : String :=
  "len(verify) != len(" ++ who ++ ".verifyData) || subtle.ConstantTimeCompare(verify, " ++ who ++ ".verifyData) != 1"

/-- the places where the source drops the cached encoding of a message it is about to SEND
(datagram stack: the client's own hello is re-encoded with the cookie, and `setMessageSeq`
stamps every outgoing message).  No received message is among them. -/
def ownMessageResets : List String :=
  ["Conn.clientHandshake:initialHello.raw", "Conn.clientHandshake:hello.setMessageSeq",
   "Conn.clientHandshake:hello.raw", "Conn.serverHandshake:hvr.setMessageSeq",
   "clientHandshakeState.doFullHandshake:certMsg.setMessageSeq",
   "clientHandshakeState.doFullHandshake:ckx.setMessageSeq",
   "clientHandshakeState.doFullHandshake:certVerify.setMessageSeq",
   "clientHandshakeState.sendFinished:finished.setMessageSeq",
   "serverHandshakeState.doFullHandshake:hs.hello.setMessageSeq",
   "serverHandshakeState.doFullHandshake:certMsg.setMessageSeq",
   "serverHandshakeState.doFullHandshake:skx.setMessageSeq",
   "serverHandshakeState.doFullHandshake:certReq.setMessageSeq",
   "serverHandshakeState.doFullHandshake:helloDone.setMessageSeq",
   "serverHandshakeState.doResumeHandshake:hs.hello.setMessageSeq",
   "serverHandshakeState.sendFinished:finished.setMessageSeq"]

/-- the only places where the read side may change its cipher state: the ChangeCipherSpec case of
`readRecordOrCCS`, and (datagram stack) `readChangeCipherSpec` consuming the note `deferredCCS`
that this same case left when the record arrived before the handshake layer asked for it -/
def ccsCase : String := "Conn.readRecordOrCCS:case recordTypeChangeCipherSpec"

def cipherSwitchSites : List String := ["Conn.readChangeCipherSpec:if c.in.deferredCCS", ccsCase]

/-- the flags of the model, from the call lists.  The server reads the client's flight either
with the hash (tlcp: `R:hash`) or with `nil` followed by `transcriptMsg` (dtlcp). -/
def flagsOf (t : TrFacts) : TFlags :=
  { cHelloAdded := t.clientHSAdds.head? == some "hs.hello",
    cServerHelloAdded := t.clientHSAdds == ["hs.hello", "hs.serverHello"],
    cReadsHashed := t.clientFullReads.all id && !t.clientFullReads.isEmpty,
    cWritesHashed := t.clientFullWrites.all id && t.clientSendFinishedWrites == [true],
    cFinReadNil := t.clientReadFinishedReads == [false],
    cFinAddedAfter := t.clientReadFinishedAdds == ["serverFinished"] && t.clientReadFinishedSumFirst,
    sHelloAdded := t.serverReadHelloReads.all (!·) && t.serverFullAdds.head? == some "hs.clientHello" &&
      t.serverResumeAdds == ["hs.clientHello"],
    sWritesHashed := t.serverFullWrites.all id && t.serverResumeWrites.all id && t.serverSendFinishedWrites == [true],
    sReadsHashed := (t.serverFullReads == [true, true, false] && t.serverFullAdds == ["hs.clientHello", "certVerify"]) ||
      (t.serverFullReads == [] && t.serverFullAdds == ["hs.clientHello", "clientCertMsg", "ckx", "certVerify"]),
    sCVReadNil := t.serverFullReads.getLast? != some true,
    sCVAddedAfter := t.serverFullAdds.getLast? == some "certVerify",
    sFinReadNil := t.serverReadFinishedReads == [false],
    sFinAddedAfter := t.serverReadFinishedAdds == ["clientFinished"] && t.serverReadFinishedSumFirst,
    -- the guard is there AND its body is the fatal alert (a guard that drops the record and reads on
    -- is a different machine: the model refuses)
    ccsNeedsEmptyHand := t.ccsGuards.contains "c.hand.Len() > 0" &&
      t.ccsFatal.contains "c.hand.Len() > 0 => alertUnexpectedMessage",
    ccsNeedsExpect := t.ccsGuards.contains "!expectChangeCipherSpec" &&
      t.ccsFatal.contains "!expectChangeCipherSpec => alertUnexpectedMessage",
    hsRefusedWhenCCSExpected := t.handshakeGuards.contains "len(data) == 0 || expectChangeCipherSpec" &&
      t.handshakeFatal.contains "len(data) == 0 || expectChangeCipherSpec => alertUnexpectedMessage",
    finFullCompare := t.clientCompare == fullCompare "serverFinished" && t.serverCompare == fullCompare "clientFinished",
    versCheckedOnlyWhenHave := t.versionCheck == "c.haveVers && vers != c.vers",
    decodedKeepRaw := !t.addedTypes.isEmpty && t.addedTypes.all (fun ty => t.rawKept.contains ty && t.codecTypes.contains ty) &&
      t.rawResets.all (ownMessageResets.contains ·),
    sReadsViaMarshal := t.serverFullReads == [],
    ccsOnlyByRecord := t.inCipherSwitches.contains ccsCase && t.inCipherSwitches.all (cipherSwitchSites.contains ·) &&
      t.expectCcsAssigns.all (· == ccsCase) && t.deferredCcsSets.all (· == ccsCase),
    doneMarkedLast := t.doneMarks == ["clientHandshakeState.handshake:last", "serverHandshakeState.handshake:last"] }

def tlcpFlags : TFlags := flagsOf tlcpTr
def dtlcpFlags : TFlags := flagsOf dtlcpTr

def tlcpCodes : Codes :=
  { tCH := Facts.tlcp.typeClientHello, tSH := Facts.tlcp.typeServerHello, tHVR := Facts.dtlcp.typeHelloVerifyRequest,
    tCert := Facts.tlcp.typeCertificate, tSKX := Facts.tlcp.typeServerKeyExchange,
    tCR := Facts.tlcp.typeCertificateRequest, tSHD := Facts.tlcp.typeServerHelloDone,
    tCV := Facts.tlcp.typeCertificateVerify, tCKX := Facts.tlcp.typeClientKeyExchange,
    tFin := Facts.tlcp.typeFinished,
    rtCCS := Facts.tlcp.recordTypeChangeCipherSpec, rtAlert := Facts.tlcp.recordTypeAlert,
    rtHS := Facts.tlcp.recordTypeHandshake, rtApp := Facts.tlcp.recordTypeApplicationData,
    vers := Facts.tlcp.VersionTLCP, maxUseless := Facts.tlcp.maxUselessRecords,
    maxHandshake := Facts.tlcp.maxHandshake, maxCiphertext := Facts.tlcp.maxCiphertext,
    aWarning := Facts.tlcp.alertLevelWarning, aFatal := Facts.tlcp.alertLevelError,
    aCloseNotify := Facts.tlcp.alertCloseNotify, aUnexpected := Facts.tlcp.alertUnexpectedMessage,
    aBadMac := Facts.tlcp.alertBadRecordMAC, aOverflow := Facts.tlcp.alertRecordOverflow,
    aDecode := Facts.tlcp.alertDecodeError, aProtoVers := Facts.tlcp.alertProtocolVersion,
    aInternal := Facts.tlcp.alertInternalError, aHandshakeFailure := Facts.tlcp.trAlertHandshakeFailure }

def dtlcpCodes : Codes :=
  { tCH := Facts.dtlcp.typeClientHello, tSH := Facts.dtlcp.typeServerHello, tHVR := Facts.dtlcp.typeHelloVerifyRequest,
    tCert := Facts.dtlcp.typeCertificate, tSKX := Facts.dtlcp.typeServerKeyExchange,
    tCR := Facts.dtlcp.typeCertificateRequest, tSHD := Facts.dtlcp.typeServerHelloDone,
    tCV := Facts.dtlcp.typeCertificateVerify, tCKX := Facts.dtlcp.typeClientKeyExchange,
    tFin := Facts.dtlcp.typeFinished,
    rtCCS := Facts.dtlcp.recordTypeChangeCipherSpec, rtAlert := Facts.dtlcp.recordTypeAlert,
    rtHS := Facts.dtlcp.recordTypeHandshake, rtApp := Facts.dtlcp.recordTypeApplicationData,
    vers := Facts.dtlcp.VersionTLCP, maxUseless := Facts.dtlcp.maxUselessRecords,
    maxHandshake := Facts.dtlcp.maxHandshake, maxCiphertext := Facts.dtlcp.maxCiphertext,
    aWarning := Facts.dtlcp.alertLevelWarning, aFatal := Facts.dtlcp.alertLevelError,
    aCloseNotify := Facts.dtlcp.alertCloseNotify, aUnexpected := Facts.dtlcp.alertUnexpectedMessage,
    aBadMac := Facts.dtlcp.alertBadRecordMAC, aOverflow := Facts.dtlcp.alertRecordOverflow,
    aDecode := Facts.dtlcp.alertDecodeError, aProtoVers := Facts.dtlcp.alertProtocolVersion,
    aInternal := Facts.dtlcp.alertInternalError, aHandshakeFailure := Facts.dtlcp.trAlertHandshakeFailure }

end Gotlcp.Model.Transcript

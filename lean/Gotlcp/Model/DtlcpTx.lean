/-
Model of the DTLCP transmit path sizes (core Lean only, executable).

Mirrors dtlcp/conn.go:
  * `halfConn.explicitNonceLen`
  * `Conn.maxPayloadSizeForWrite`  (PMTU default, minus record header, minus explicit nonce,
                                    minus tag / MAC [/ CBC padding when the tree budgets it],
                                    clamped to [1, maxPlaintext])
  * `halfConn.encrypt`             length of the produced record
  * `Conn.writeRecordLocked`       splitting loop (one record per `write`)
  * `Conn.write` / `Conn.flush`    datagram boundaries (direct: one record = one datagram;
                                    buffering: the whole flight = one datagram)
  * `Conn.Write` / `Conn.WriteTo`  application data entry points
-/
import Gotlcp.Base.Hex

namespace Gotlcp.Model.DtlcpTx

/-- what `hc.cipher` is, as far as sizes are concerned -/
inductive Cipher where
  /-- `hc.cipher == nil` (epoch 0) -/
  | none
  /-- `aead`: `explicitNonceLen()`, `Overhead()` -/
  | aead (explicitNonce overhead : Nat)
  /-- `cbcMode`: `BlockSize()` (also the explicit IV length), `hc.mac.Size()` -/
  | cbc (blockSize macSize : Nat)
deriving Repr, DecidableEq

/-- `halfConn.explicitNonceLen` -/
def explicitNonceLen : Cipher → Nat
  | .none => 0
  | .aead e _ => e
  | .cbc bs _ => bs

/-- constants of the package, fed from the regenerated facts by the callers -/
structure Consts where
  defaultPmtu : Nat
  recordHeaderLen : Nat
  maxPlaintext : Nat
  /-- the tree budgets CBC padding in `maxPayloadSizeForWrite` (repair of F9):
      `maxPayload = (maxPayload &^ (blockSize-1)) - 1 - mac.Size()` instead of `- mac.Size()` -/
  cbcBudgetsPadding : Bool
deriving Repr

/-- the value of `maxPayload` before the two clamps (an `Int`: it can be negative) -/
def rawBudget (k : Consts) (pmtu : Int) (c : Cipher) : Int :=
  let pmtu : Int := if pmtu ≤ 0 then k.defaultPmtu else pmtu
  let base : Int := pmtu - k.recordHeaderLen - explicitNonceLen c
  match c with
  | .none => base
  | .aead _ ov => base - ov
  | .cbc bs mac =>
    if k.cbcBudgetsPadding then
      -- Go: `(maxPayload & ^(blockSize - 1)) - 1 - mac` on a two's complement int; for a power
      -- of two block size this is rounding down (towards −∞) to a multiple of the block size
      (base / bs) * bs - 1 - mac
    else base - mac

/-- `Conn.maxPayloadSizeForWrite` -/
def maxPayloadSizeForWrite (k : Consts) (pmtu : Int) (c : Cipher) : Nat :=
  let m := rawBudget k pmtu c
  let m : Int := if m > k.maxPlaintext then k.maxPlaintext else m
  let m : Int := if m < 1 then 1 else m
  m.toNat

/-- length of the record `encrypt` returns for a payload of `n` bytes (header included) -/
def recordLen (k : Consts) (c : Cipher) (n : Nat) : Nat :=
  match c with
  | .none => k.recordHeaderLen + n
  | .aead e ov => k.recordHeaderLen + e + n + ov
  | .cbc bs mac =>
    let plaintextLen := n + mac
    let paddingLen := bs - plaintextLen % bs
    k.recordHeaderLen + bs + plaintextLen + paddingLen

/-- `writeRecordLocked`: the payload pieces, one record each (`for len(data) > 0`).
`fuel` bounds the loop for Lean (`data.length` suffices because `maxPayload ≥ 1`). -/
def splitLoop (maxPayload : Nat) : (fuel : Nat) → Bytes → List Bytes
  | 0, _ => []
  | fuel + 1, data =>
    if data.length > 0 then
      let m := if data.length > maxPayload then maxPayload else data.length
      data.take m :: splitLoop maxPayload fuel (data.drop m)
    else []

def writeRecordPieces (k : Consts) (pmtu : Int) (c : Cipher) (data : Bytes) : List Bytes :=
  splitLoop (maxPayloadSizeForWrite k pmtu c) data.length data

/-- sizes of the datagrams handed to the `PacketConn` for one `writeRecordLocked` call when
not buffering: `write` = one `WriteTo` per record -/
def datagramsDirect (k : Consts) (pmtu : Int) (c : Cipher) (data : Bytes) : List Nat :=
  (writeRecordPieces k pmtu c data).map fun p => recordLen k c p.length

/-- `flush`: everything buffered since `buffering = true` leaves as ONE `WriteTo`
(no datagram when nothing was buffered) -/
def flushDatagrams (buffered : List Nat) : List Nat :=
  if buffered.sum = 0 then [] else [buffered.sum]

/-- `Conn.WriteTo` / `Conn.Write` on an established connection: both end in
`writeRecordLocked(recordTypeApplicationData, b)`; neither refuses a payload above
`maxPayload` (it is split) and an empty payload sends nothing -/
def writeTo (k : Consts) (pmtu : Int) (c : Cipher) (b : Bytes) : List Nat :=
  datagramsDirect k pmtu c b

/-- a handshake flight: the records are buffered (`buffering = true`) and `flush` hands
their concatenation to the `PacketConn` as one datagram -/
def flightDatagrams (k : Consts) (pmtu : Int) (c : Cipher) (msgs : List Bytes) : List Nat :=
  flushDatagrams ((msgs.map fun d => (datagramsDirect k pmtu c d).sum))

end Gotlcp.Model.DtlcpTx

/-
Model of the DTLCP transmit path sizes (core Lean only, executable).

Mirrors dtlcp/conn.go:
  * `halfConn.explicitNonceLen`
  * `Conn.maxPayloadSizeForWrite`  (PMTU default, minus record header, minus explicit nonce,
                                    minus tag / MAC [/ CBC padding when the tree budgets it],
                                    clamped to [1, maxPlaintext])
  * `halfConn.encrypt`             length of the produced record
  * `Conn.writeRecordLocked`       splitting loop (one record per `write`)
  * `Conn.write` / `Conn.flush`    datagram boundaries (direct: one record = one datagram;
                                    buffering: the whole flight = one datagram)
  * `Conn.Write` / `Conn.WriteTo`  application data entry points
-/
import Gotlcp.Base.Hex
import Gotlcp.Model.Replay

namespace Gotlcp.Model.DtlcpTx

/-- what `hc.cipher` is, as far as sizes are concerned -/
inductive Cipher where
  /-- `hc.cipher == nil` (epoch 0) -/
  | none
  /-- `aead`: `explicitNonceLen()`, `Overhead()` -/
  | aead (explicitNonce overhead : Nat)
  /-- `cbcMode`: `BlockSize()` (also the explicit IV length), `hc.mac.Size()` -/
  | cbc (blockSize macSize : Nat)
deriving Repr, DecidableEq

/-- `halfConn.explicitNonceLen` -/
def explicitNonceLen : Cipher → Nat
  | .none => 0
  | .aead e _ => e
  | .cbc bs _ => bs

/-- constants of the package, fed from the regenerated facts by the callers -/
structure Consts where
  defaultPmtu : Nat
  recordHeaderLen : Nat
  maxPlaintext : Nat
  /-- the tree budgets CBC padding in `maxPayloadSizeForWrite` (repair of F9):
      `maxPayload = (maxPayload &^ (blockSize-1)) - 1 - mac.Size()` instead of `- mac.Size()` -/
  cbcBudgetsPadding : Bool
deriving Repr

/-- The constants of the code in the tree: `maxPayloadSizeForWrite` falls back to a path MTU of 1400
when `Config.PMTU ≤ 0`, and its CBC arm budgets the padding (repair of F9).  They are NOT read from
text-matching facts: `Gotlcp.Tie.RecordSize.Dtlcp` proves, for all inputs, that the functions
TRANSLATED from dtlcp/conn.go on every run (`halfConn.explicitNonceLen`,
`Conn.maxPayloadSizeForWrite`) compute exactly the model instantiated with these values, so a
semantic change of those functions breaks that proof while a renaming or an equivalent
re-arrangement does not.  `recordHeaderLen` and `maxPlaintext` are the package constants of those
names (evaluated by the extractor, not matched as text). -/
def treeConsts (recordHeaderLen maxPlaintext : Nat) : Consts :=
  { defaultPmtu := 1400, recordHeaderLen := recordHeaderLen, maxPlaintext := maxPlaintext,
    cbcBudgetsPadding := true }

/-- the value of `maxPayload` before the two clamps (an `Int`: it can be negative) -/
def rawBudget (k : Consts) (pmtu : Int) (c : Cipher) : Int :=
  let pmtu : Int := if pmtu ≤ 0 then k.defaultPmtu else pmtu
  let base : Int := pmtu - k.recordHeaderLen - explicitNonceLen c
  match c with
  | .none => base
  | .aead _ ov => base - ov
  | .cbc bs mac =>
    if k.cbcBudgetsPadding then
      -- Go: `(maxPayload & ^(blockSize - 1)) - 1 - mac` on a two's complement int; for a power
      -- of two block size this is rounding down (towards −∞) to a multiple of the block size
      (base / bs) * bs - 1 - mac
    else base - mac

/-- `Conn.maxPayloadSizeForWrite` -/
def maxPayloadSizeForWrite (k : Consts) (pmtu : Int) (c : Cipher) : Nat :=
  let m := rawBudget k pmtu c
  let m : Int := if m > k.maxPlaintext then k.maxPlaintext else m
  let m : Int := if m < 1 then 1 else m
  m.toNat

/-- length of the record `encrypt` returns for a payload of `n` bytes (header included) -/
def recordLen (k : Consts) (c : Cipher) (n : Nat) : Nat :=
  match c with
  | .none => k.recordHeaderLen + n
  | .aead e ov => k.recordHeaderLen + e + n + ov
  | .cbc bs mac =>
    let plaintextLen := n + mac
    let paddingLen := bs - plaintextLen % bs
    k.recordHeaderLen + bs + plaintextLen + paddingLen

/-- `writeRecordLocked`: the payload pieces, one record each (`for len(data) > 0`).
`fuel` bounds the loop for Lean (`data.length` suffices because `maxPayload ≥ 1`). -/
def splitLoop (maxPayload : Nat) : (fuel : Nat) → Bytes → List Bytes
  | 0, _ => []
  | fuel + 1, data =>
    if data.length > 0 then
      let m := if data.length > maxPayload then maxPayload else data.length
      data.take m :: splitLoop maxPayload fuel (data.drop m)
    else []

def writeRecordPieces (k : Consts) (pmtu : Int) (c : Cipher) (data : Bytes) : List Bytes :=
  splitLoop (maxPayloadSizeForWrite k pmtu c) data.length data

/-- sizes of the datagrams handed to the `PacketConn` for one `writeRecordLocked` call when
not buffering: `write` = one `WriteTo` per record -/
def datagramsDirect (k : Consts) (pmtu : Int) (c : Cipher) (data : Bytes) : List Nat :=
  (writeRecordPieces k pmtu c data).map fun p => recordLen k c p.length

/-- `flush`: everything buffered since `buffering = true` leaves as ONE `WriteTo`
(no datagram when nothing was buffered) -/
def flushDatagrams (buffered : List Nat) : List Nat :=
  if buffered.sum = 0 then [] else [buffered.sum]

/-- `Conn.WriteTo` / `Conn.Write` on an established connection: both end in
`writeRecordLocked(recordTypeApplicationData, b)`; neither refuses a payload above
`maxPayload` (it is split) and an empty payload sends nothing -/
def writeTo (k : Consts) (pmtu : Int) (c : Cipher) (b : Bytes) : List Nat :=
  datagramsDirect k pmtu c b

/-- a handshake flight: the records are buffered (`buffering = true`) and `flush` hands
their concatenation to the `PacketConn` as one datagram -/
def flightDatagrams (k : Consts) (pmtu : Int) (c : Cipher) (msgs : List Bytes) : List Nat :=
  flushDatagrams ((msgs.map fun d => (datagramsDirect k pmtu c d).sum))

/-! ### bytes on the wire and the post-handshake receive step

Record protection is a parameter (`Protect`): what `halfConn.encrypt` appends after the
13-byte header and what `halfConn.decrypt` recovers.  Its round-trip law is a hypothesis of
the theorems (`Props.C15.Laws`; `C04_record_roundtrip` is the instance), not part of the model.
The replay window is the model of `dtlcp/replay.go` (`Gotlcp.Model.Replay`). -/

/-- what identifies a record to `encrypt` / `decrypt` besides the payload: type, version,
epoch, 48-bit sequence number (MAC header / additional data; the length field is rewritten
after encryption and is not authenticated) -/
structure RecId where
  typ : Nat
  vers : Nat
  epoch : Nat
  seq : Nat
deriving Repr, DecidableEq

structure Protect where
  /-- bytes `encrypt` puts after the record header (explicit nonce / IV, ciphertext, tag / MAC + padding) -/
  protect : RecId → Bytes → Bytes
  /-- `decrypt`: `none` = bad_record_mac -/
  unprotect : RecId → Bytes → Option Bytes

/-- big-endian `k` bytes -/
def beBytes : (k : Nat) → Nat → Bytes
  | 0, _ => []
  | k + 1, x => UInt8.ofNat (x / 256 ^ k) :: beBytes k x

def beNat (b : Bytes) : Nat := b.foldl (fun acc x => acc * 256 + x.toNat) 0

/-- the 13-byte DTLCP record header as `writeRecordLocked` fills it -/
def recordHeader (id : RecId) (len : Nat) : Bytes :=
  UInt8.ofNat id.typ :: (beBytes 2 id.vers ++ beBytes 2 id.epoch ++ beBytes 6 id.seq ++ beBytes 2 len)

/-- one datagram = one record: header (length = what `encrypt` produced) + protected body -/
def datagram (P : Protect) (id : RecId) (payload : Bytes) : Bytes :=
  recordHeader id (P.protect id payload).length ++ P.protect id payload

/-- `writeRecordLocked` on the wire: one datagram per piece, `c.writeSeq++` after each -/
def txDatagrams (P : Protect) (typ vers epoch : Nat) : (seq : Nat) → List Bytes → List Bytes
  | _, [] => []
  | seq, p :: ps => datagram P ⟨typ, vers, epoch, seq⟩ p :: txDatagrams P typ vers epoch (seq + 1) ps

/-- `Conn.WriteTo` / `Conn.Write` as bytes handed to the `PacketConn` -/
def writeToWire (k : Consts) (P : Protect) (pmtu : Int) (c : Cipher) (vers epoch seq : Nat) (b : Bytes) : List Bytes :=
  txDatagrams P 23 vers epoch seq (writeRecordPieces k pmtu c b)

structure RxState where
  readEpoch : Nat
  win : Replay.Window
deriving Repr

inductive RxOut where
  /-- plaintext handed up (`ReadFrom`: `copy(p, plaintext)`; `Read`: becomes `c.readBuf`) -/
  | data (b : Bytes)
  /-- the datagram was dropped, the loop reads on -/
  | skipped
  /-- close_notify -/
  | eof
deriving Repr, DecidableEq

inductive RxPath where
  /-- `Conn.ReadFrom` -/
  | readFrom
  /-- `Conn.Read` → `readRecordOrCCS` (an empty application record is skipped: `len(data) == 0`) -/
  | read
deriving Repr, DecidableEq

/-- One datagram through the post-handshake receive loop (`ReadFrom`, or `readRecordOrCCS`
for an application-data record): length tests, header parse, `decrypt`, epoch test, replay
window, record type.  `rp`/`cfgWin` are the replay parameters of this tree and
`Config.ReplayWindow`. -/
def rxStep (P : Protect) (hdrLen : Nat) (rp : Replay.Params) (cfgWin : Int) (path : RxPath)
    (st : RxState) (d : Bytes) : RxState × RxOut :=
  if d.length < hdrLen then (st, .skipped)
  else
    let typ := (d.getD 0 0).toNat
    let vers := beNat ((d.drop 1).take 2)
    let epoch := beNat ((d.drop 3).take 2)
    let seq := beNat ((d.drop 5).take 6)
    let recLen := beNat ((d.drop 11).take 2)
    if hdrLen + recLen > d.length then (st, .skipped)
    else
      match P.unprotect ⟨typ, vers, epoch, seq⟩ ((d.drop hdrLen).take recLen) with
      | none => (st, .skipped)
      | some plaintext =>
        if epoch < st.readEpoch then (st, .skipped)
        else
          let st1 : RxState :=
            if epoch > st.readEpoch then { readEpoch := epoch, win := Replay.newFromConfig rp cfgWin } else st
          let (w, ok) := Replay.check rp st1.win seq
          let st2 : RxState := { st1 with win := w }
          if !ok then (st2, .skipped)
          else if typ == 23 then
            if path == RxPath.read && plaintext.isEmpty then (st2, .skipped) else (st2, .data plaintext)
          else if typ == 21 && plaintext.length == 2 && (plaintext.getD 1 0) == 0 then (st2, .eof)
          else (st2, .skipped)

/-- a lossless, in-order delivery: every datagram goes through `rxStep`; the outputs -/
def rxRun (P : Protect) (hdrLen : Nat) (rp : Replay.Params) (cfgWin : Int) (path : RxPath)
    (st : RxState) : List Bytes → RxState × List RxOut
  | [] => (st, [])
  | d :: ds =>
    let (st1, o) := rxStep P hdrLen rp cfgWin path st d
    let (st2, os) := rxRun P hdrLen rp cfgWin path st1 ds
    (st2, o :: os)

/-- the bytes the application receives from a list of outputs -/
def received : List RxOut → Bytes
  | [] => []
  | .data b :: os => b ++ received os
  | _ :: os => received os

/-! ### which configuration `maxPayloadSizeForWrite` reads

`pmtu := c.config.PMTU` — `c.config` is whatever `*Config` the application handed to
`Client` / `Server` (dtlcp.go: `config: config`), or, on a server whose configuration has
`GetConfigForClient`, the non-nil `*Config` that callback returned (`selectConfigForClient`:
`c.config = configForClient`).  The application may have obtained that `*Config` from the one
it configured through any number of `Config.Clone()` calls.  Nothing else in the package writes
`c.config` (except the nil case of `clientHandshake`) or a `PMTU` field. -/

/-- source shapes on the way from the configured `*Config` to `c.config.PMTU`, fed from the
regenerated facts by the callers -/
structure CfgConsts where
  /-- the literal returned by `Config.Clone` has `PMTU: <receiver>.PMTU`; when the key is
      missing the clone carries Go's zero value -/
  cloneCopiesPmtu : Bool
  /-- `selectConfigForClient` assigns the non-nil result of `GetConfigForClient` to `c.config` -/
  forClientInstalled : Bool
deriving Repr, DecidableEq

/-- how the application derived a `*Config` from the one it configured -/
inductive Via where
  /-- the configured object itself -/
  | direct
  /-- `.Clone()` of a configuration obtained by `v` -/
  | clone (v : Via)
deriving Repr, DecidableEq

/-- the `PMTU` field of the derived `*Config` -/
def viaPmtu (k : CfgConsts) : Via → Int → Int
  | .direct, pmtu => pmtu
  | .clone v, pmtu => if k.cloneCopiesPmtu then viaPmtu k v pmtu else 0

/-- `Clone` applied `n` times -/
def Via.clones : Nat → Via
  | 0 => .direct
  | n + 1 => .clone (Via.clones n)

/-- how a derived `*Config` reaches the connection -/
inductive Reach where
  /-- `Client(pconn, addr, cfg)` / `Server(pconn, addr, cfg)` -/
  | ctor (v : Via)
  /-- `Server(pconn, addr, listener)` where `listener.PMTU = listenerPmtu` and
      `listener.GetConfigForClient` returns the derived `*Config` -/
  | forClient (listenerPmtu : Int) (v : Via)
deriving Repr, DecidableEq

/-- the value `maxPayloadSizeForWrite` reads from `c.config.PMTU` once the handshake has
selected the configuration, when the application configured `pmtu` -/
def pmtuRead (k : CfgConsts) : Reach → Int → Int
  | .ctor v, pmtu => viaPmtu k v pmtu
  | .forClient lp v, pmtu => if k.forClientInstalled then viaPmtu k v pmtu else lp

end Gotlcp.Model.DtlcpTx

/-
Executable model of the key schedule and record protection code of gotlcp, mirroring the Go
functions statement by statement (both stacks share the code up to the record header form):

  prf.go            pHash, prf12, masterFromPreMasterSecret, keysFromMasterSecret,
                    finishedHash.clientSum / serverSum
  handshake_*.go    establishKeys (which slices feed c.in / c.out)
  cipher_suites.go  tls10MAC, prefixNonceAEAD.Seal/Open
  conn.go           halfConn.encrypt / decrypt / incSeq / changeCipherSpec,
                    Conn.writeRecordLocked, (dtlcp) Conn.setWriteSeq

What the source *says* (labels, seed orders, the order the key block is cut in, which slice is
installed where) enters through `Src`, a record filled from the regenerated `Gotlcp.Facts`
(see `Model/KeyScheduleSrc.lean`); the primitives are a parameter (`Crypto.Prims`).
Go slices that are written through become returned values; panics are outcomes.
Core Lean only.
-/
import Gotlcp.Crypto.Prims

namespace Gotlcp.Model.KeySchedule
open Gotlcp.Crypto

inductive Outcome (α : Type) where
  | ok : α → Outcome α
  | alert : Nat → Outcome α
  | panic : Outcome α
  deriving DecidableEq, Repr

/-- facts about one stack's source, regenerated on every run -/
structure Src where
  labelMaster : Bytes
  labelKeyExpansion : Bytes
  labelClientFinished : Bytes
  labelServerFinished : Bytes
  masterLen : Nat
  verifyLen : Nat
  /-- order in which the randoms are appended to the seed -/
  masterSeed : List String
  keySeed : List String
  /-- (slice, length name) in cutting order -/
  sliceOrder : List (String × String)
  /-- [key, iv, mac key] names feeding c.in / c.out, per role, for the CBC branch; [key, iv] for AEAD -/
  clientInCBC : List String
  clientOutCBC : List String
  clientInAEAD : List String
  clientOutAEAD : List String
  serverInCBC : List String
  serverOutCBC : List String
  serverInAEAD : List String
  serverOutAEAD : List String
  aeadNonceLen : Nat
  noncePrefixLen : Nat
  recordHeaderLen : Nat
  maxPlaintext : Nat
  recordTypeCCS : Nat
  alertBadRecordMAC : Nat
  alertInternalError : Nat
  /-- `writeRecordLocked`: when `c.write` (the hand-over of a sealed record to the transport) fails,
  the function returns with the sequence number of that record CONSUMED — tlcp: `encrypt` has
  advanced `out.seq` and the error branch does not touch it; dtlcp: `c.writeSeq++` stands before the
  write.  `false`: the next record is sealed under the same number (from `writeRecordPerRecord`). -/
  seqConsumedOnWriteError : Bool := true

/-! ### prf.go -/

/-- the loop of `pHash`: `out` is `result[:min(j, n)]`, `a` the running A(i).
`copy(result[j:], b)` writes `min(len b, n - j)` bytes at offset j. -/
def pHashLoop (hm : Bytes → Bytes → Bytes) (secret seed : Bytes) (n : Nat) : Nat → Bytes → Nat → Bytes → Bytes
  | 0, out, _, _ => out
  | fuel+1, out, j, a =>
    if j < n then
      let b := hm secret (a ++ seed)
      pHashLoop hm secret seed n fuel (out ++ b.take (n - j)) (j + b.length) (hm secret a)
    else out

/-- `pHash(result, secret, seed, hash)` with `len(result) = n`; returns the filled `result`.
(The loop runs at most `n` times whenever the MAC returns at least one byte.) -/
def pHash (hm : Bytes → Bytes → Bytes) (secret seed : Bytes) (n : Nat) : Bytes :=
  pHashLoop hm secret seed n (n + 1) [] 0 (hm secret seed)

/-- `prf12(hash)(result, secret, label, seed)` -/
def prf12 (hm : Bytes → Bytes → Bytes) (secret label seed : Bytes) (n : Nat) : Bytes :=
  pHash hm secret (label ++ seed) n

/-- a seed built by appending the named randoms in source order -/
def buildSeed (order : List String) (clientRandom serverRandom : Bytes) : Bytes :=
  order.foldl (fun acc nm =>
    acc ++ (if nm == "clientRandom" then clientRandom else if nm == "serverRandom" then serverRandom else [])) []

def masterFromPreMasterSecret (P : Prims) (S : Src) (pre clientRandom serverRandom : Bytes) : Bytes :=
  prf12 P.hmac pre S.labelMaster (buildSeed S.masterSeed clientRandom serverRandom) S.masterLen

def lenOf (macLen keyLen ivLen : Nat) (nm : String) : Nat :=
  if nm == "macLen" then macLen else if nm == "keyLen" then keyLen else if nm == "ivLen" then ivLen else 0

/-- `X = keyMaterial[:L]; keyMaterial = keyMaterial[L:]` repeated in source order -/
def cutSlices (macLen keyLen ivLen : Nat) : List (String × String) → Bytes → List (String × Bytes)
  | [], _ => []
  | (nm, ln) :: rest, km =>
    (nm, km.take (lenOf macLen keyLen ivLen ln)) :: cutSlices macLen keyLen ivLen rest (km.drop (lenOf macLen keyLen ivLen ln))

def lookup (sl : List (String × Bytes)) (nm : String) : Bytes :=
  match sl.find? (fun p => p.1 == nm) with
  | some p => p.2
  | none => []

/-- `keysFromMasterSecret`: the named slices of the key material -/
def keysFromMasterSecret (P : Prims) (S : Src) (master clientRandom serverRandom : Bytes) (macLen keyLen ivLen : Nat) :
    List (String × Bytes) :=
  let n := 2 * macLen + 2 * keyLen + 2 * ivLen
  let km := prf12 P.hmac master S.labelKeyExpansion (buildSeed S.keySeed clientRandom serverRandom) n
  cutSlices macLen keyLen ivLen S.sliceOrder km

/-- `finishedHash.clientSum` / `serverSum` over the transcript written so far -/
def clientSum (P : Prims) (S : Src) (master transcript : Bytes) : Bytes :=
  prf12 P.hmac master S.labelClientFinished (P.hash transcript) S.verifyLen
def serverSum (P : Prims) (S : Src) (master transcript : Bytes) : Bytes :=
  prf12 P.hmac master S.labelServerFinished (P.hash transcript) S.verifyLen

/-! ### establishKeys -/

/-- key material of one `halfConn` cipher state -/
structure DirKeys where
  mac : Bytes
  key : Bytes
  iv : Bytes
  deriving DecidableEq, Repr

def pick (sl : List (String × Bytes)) (names : List String) : DirKeys :=
  ⟨lookup sl (names.getD 2 ""), lookup sl (names.getD 0 ""), lookup sl (names.getD 1 "")⟩

structure Installed where
  «in» : DirKeys
  out : DirKeys
  deriving DecidableEq, Repr

/-- what `establishKeys` passes to `c.in.prepareCipherSpec` / `c.out.prepareCipherSpec` -/
def establishKeys (S : Src) (isClient isAEAD : Bool) (sl : List (String × Bytes)) : Installed :=
  match isClient, isAEAD with
  | true, false => ⟨pick sl S.clientInCBC, pick sl S.clientOutCBC⟩
  | true, true => ⟨pick sl S.clientInAEAD, pick sl S.clientOutAEAD⟩
  | false, false => ⟨pick sl S.serverInCBC, pick sl S.serverOutCBC⟩
  | false, true => ⟨pick sl S.serverInAEAD, pick sl S.serverOutAEAD⟩

/-! ### halfConn -/

inductive Cipher where
  /-- `cbcMode` + HMAC -/
  | cbc : DirKeys → Cipher
  /-- `prefixNonceAEAD` -/
  | aead : DirKeys → Cipher
  deriving DecidableEq, Repr

structure Half where
  cipher : Option Cipher
  next : Option Cipher
  /-- `hc.seq`, 8 bytes -/
  seq : Bytes
  deriving DecidableEq, Repr

def zeroSeq : Bytes := List.replicate 8 0

def Half.init : Half := ⟨none, none, zeroSeq⟩

/-- `incSeq` on the reversed (least significant byte first) sequence number; `none` = wrapped -/
def incSeqRev : Bytes → Option Bytes
  | [] => none
  | b :: rest => if b + 1 != 0 then some ((b + 1) :: rest) else (incSeqRev rest).map (0 :: ·)

/-- `halfConn.incSeq` (tlcp): `none` is the panic "sequence number wraparound" -/
def incSeq (s : Bytes) : Option Bytes := (incSeqRev s.reverse).map List.reverse

/-- `halfConn.changeCipherSpec` -/
def changeCipherSpec (S : Src) (h : Half) : Outcome Half :=
  match h.next with
  | none => .alert S.alertInternalError
  | some c => .ok ⟨some c, none, zeroSeq⟩

def prepareCipherSpec (h : Half) (c : Cipher) : Half := { h with next := some c }

inductive Stack | tlcp | dtlcp
  deriving DecidableEq, Repr

/-- `byte(n >> 8), byte(n)` -/
def len16 (n : Nat) : Bytes := [UInt8.ofNat (n / 256), UInt8.ofNat n]

/-- `prefixNonceAEAD`: `copy(f.nonce[4:], nonce)` on a 12-byte array whose prefix is the write IV -/
def prefixNonce (S : Src) (fixed nonce : Bytes) : Bytes :=
  fixed.take S.noncePrefixLen ++ nonce.take (S.aeadNonceLen - S.noncePrefixLen)

def explicitNonceLen (S : Src) : Option Cipher → Nat
  | none => 0
  | some (.aead _) => S.aeadNonceLen - S.noncePrefixLen
  | some (.cbc _) => 16

/-- the five bytes type, version, length that enter the MAC after the sequence number -/
def macHeader (S : Src) (st : Stack) (record : Bytes) : Bytes :=
  match st with
  | .tlcp => record.take S.recordHeaderLen
  | .dtlcp => [record.getD 0 0, record.getD 1 0, record.getD 2 0,
               record.getD (S.recordHeaderLen - 2) 0, record.getD (S.recordHeaderLen - 1) 0]

/-- `tls10MAC(h, out, seq, header, data, extra)` (the `extra` write happens after `Sum`) -/
def tls10MAC (P : Prims) (macKey seq header data : Bytes) : Bytes := P.hmac macKey (seq ++ header ++ data)

/-- additional data in `encrypt` -/
def adEncrypt (S : Src) (st : Stack) (seq record payload : Bytes) : Bytes :=
  match st with
  | .tlcp => seq ++ record.take S.recordHeaderLen
  | .dtlcp => seq ++ [record.getD 0 0] ++ [record.getD 1 0, record.getD 2 0] ++ len16 payload.length

/-- overwrite the two length bytes of the header with `n` -/
def setLen (S : Src) (record : Bytes) (n : Nat) : Bytes :=
  record.take (S.recordHeaderLen - 2) ++ len16 n ++ record.drop S.recordHeaderLen

/-- `halfConn.encrypt(record, payload, rand)`: `record` holds the header on entry; returns the
finished record and the new half-connection state. `rand` is the byte stream `io.ReadFull` reads. -/
def encrypt (P : Prims) (S : Src) (st : Stack) (h : Half) (record payload rand : Bytes) : Outcome (Bytes × Half) :=
  match h.cipher with
  | none => .ok (record ++ payload, h)
  | some c =>
    let enl := explicitNonceLen S (some c)
    let explicitNonce : Bytes := match c with
      | .aead _ => h.seq.take enl     -- copy(explicitNonce, hc.seq[:])
      | .cbc _ => rand.take enl       -- io.ReadFull(rand, explicitNonce)
    let record1 := record ++ explicitNonce
    let record2 : Bytes := match c with
      | .aead k =>
        let nonce := if explicitNonce.length == 0 then h.seq else explicitNonce
        let ad := adEncrypt S st h.seq record1 payload
        record1 ++ P.aeadSeal k.key (prefixNonce S k.iv nonce) ad payload
      | .cbc k =>
        let mac := tls10MAC P k.mac h.seq (macHeader S st record1) payload
        let plaintextLen := payload.length + mac.length
        let paddingLen := 16 - plaintextLen % 16
        let dst := payload ++ mac ++ List.replicate paddingLen (UInt8.ofNat (paddingLen - 1))
        record1 ++ CBC.encrypt (P.enc k.key) explicitNonce dst
    let n := record2.length - S.recordHeaderLen
    let record3 := setLen S record2 n
    match st with
    | .dtlcp => .ok (record3, h)                     -- "seq 是显式的，无需递增"
    | .tlcp =>
      match incSeq h.seq with
      | none => .panic
      | some s => .ok (record3, { h with seq := s })

/-- contract of `extractPadding`: (toRemove, good). The bit-level constant-time code is C05's
subject; here only its result matters. -/
def extractPadding (payload : Bytes) : Nat × Bool :=
  match payload.getLast? with
  | none => (0, false)
  | some pl =>
    let p := pl.toNat
    let good := p + 1 ≤ payload.length && (payload.drop (payload.length - (p + 1))).all (· == pl)
    (if good then p + 1 else 1, good)

def roundUp (a b : Nat) : Nat := a + (b - a % b) % b

/-- `halfConn.decrypt(record)`: plaintext and new state, or alert -/
def decrypt (P : Prims) (S : Src) (st : Stack) (h : Half) (record : Bytes) : Outcome (Bytes × Half) :=
  let payload0 := record.drop S.recordHeaderLen
  let enl := explicitNonceLen S h.cipher
  let bump (pt : Bytes) : Outcome (Bytes × Half) :=
    match st with
    | .dtlcp => .ok (pt, h)
    | .tlcp =>
      match incSeq h.seq with
      | none => .panic
      | some s => .ok (pt, { h with seq := s })
  match h.cipher with
  | none => bump payload0
  | some (.aead k) =>
    if payload0.length < enl then .alert S.alertBadRecordMAC else
    let nonce0 := payload0.take enl
    let nonce := if nonce0.length == 0 then h.seq else nonce0
    let payload := payload0.drop enl
    if payload.length < P.tagLen then .alert S.alertBadRecordMAC else   -- Open rejects short input
    let n := payload.length - P.tagLen
    let ad := match st with
      | .tlcp => h.seq ++ record.take 3 ++ len16 n
      | .dtlcp => h.seq ++ [record.getD 0 0] ++ [record.getD 1 0, record.getD 2 0] ++ len16 n
    match P.aeadOpen k.key (prefixNonce S k.iv nonce) ad payload with
    | none => .alert S.alertBadRecordMAC
    | some pt => bump pt
  | some (.cbc k) =>
    let macSize := P.hLen
    let minPayload := enl + roundUp (macSize + 1) 16
    if payload0.length % 16 != 0 || payload0.length < minPayload then .alert S.alertBadRecordMAC else
    let payload := CBC.decrypt (P.dec k.key) (payload0.take enl) (payload0.drop enl)
    let (paddingLen, paddingGood) := extractPadding payload
    if payload.length < macSize then .alert S.alertBadRecordMAC else
    let n := payload.length - macSize - paddingLen      -- Nat subtraction = `if n < 0 { n = 0 }`
    let remoteMAC := (payload.drop n).take macSize
    let hdr : Bytes := match st with
      | .tlcp => (setLen S record n).take S.recordHeaderLen   -- record[3], record[4] = n
      | .dtlcp => [record.getD 0 0, record.getD 1 0, record.getD 2 0] ++ len16 n
    let localMAC := tls10MAC P k.mac h.seq hdr (payload.take n)
    if localMAC == remoteMAC && paddingGood then bump (payload.take n) else .alert S.alertBadRecordMAC

/-! ### Conn read side: from a record on the wire to the record-type switch

`Conn.readRecordOrCCS` of both stacks, on a connection whose handshake is complete (`h.cipher` is the
cipher installed by the peer's ChangeCipherSpec): the only way from the bytes of a record to the
`switch typ` that hands application data to `Read`, acts on alerts, … is through `c.in.decrypt`.

  tlcp   header: version must be c.vers; `c.in.decrypt(record)` (implicit sequence number
         `c.in.seq`); an error is fatal (alert, the connection is dead).
  dtlcp  header: version must be c.vers, else the record is dropped; `c.in.seq` := epoch ‖ seq of
         the header; `c.in.decrypt(record)` — whatever the epoch says, there is one cipher; an error
         drops the record; then `epoch < c.readEpoch` drops it; the replay window (C16's subject) may
         drop it.  `ReadFrom` has its own copy of these steps with the same order.

`rxDeliver` is that path up to the replay window: what reaches the type switch. -/

structure RxState where
  half : Half
  /-- `c.vers` -/
  vers : Nat
  /-- dtlcp `c.readEpoch` -/
  readEpoch : Nat
  deriving DecidableEq, Repr

def rxDeliver (P : Prims) (S : Src) (st : Stack) (c : RxState) (record : Bytes) : Option (Nat × Bytes) :=
  let hl := S.recordHeaderLen
  if record.length < hl then none else
  let typ := (record.getD 0 0).toNat
  let vers := (record.getD 1 0).toNat * 256 + (record.getD 2 0).toNat
  let n := (record.getD (hl - 2) 0).toNat * 256 + (record.getD (hl - 1) 0).toNat
  if vers != c.vers then none else
  if hl + n != record.length then none else
  match st with
  | .tlcp =>
    match decrypt P S st c.half record with
    | .ok (data, _) => some (typ, data)
    | _ => none
  | .dtlcp =>
    let epoch := (record.getD 3 0).toNat * 256 + (record.getD 4 0).toNat
    match decrypt P S st { c.half with seq := (record.drop 3).take 8 } record with
    | .ok (data, _) => if epoch < c.readEpoch then none else some (typ, data)
    | _ => none

/-! ### Conn write side -/

structure WriteSide where
  out : Half
  /-- dtlcp: `c.writeEpoch` (uint16) and `c.writeSeq` (uint64 used as 48 bits) -/
  writeEpoch : Nat
  writeSeq : Nat
  deriving DecidableEq, Repr

def WriteSide.init : WriteSide := ⟨Half.init, 0, 0⟩

/-- dtlcp `Conn.setWriteSeq`: `byte(x >> k)` truncates -/
def setWriteSeq (w : WriteSide) : WriteSide :=
  { w with out := { w.out with seq := be 2 w.writeEpoch ++ be 6 w.writeSeq } }

/-- the header `writeRecordLocked` builds for a chunk of `m` bytes -/
def buildHeader (st : Stack) (w : WriteSide) (typ vers m : Nat) : Bytes :=
  match st with
  | .tlcp => [UInt8.ofNat typ] ++ len16 vers ++ len16 m
  | .dtlcp => [UInt8.ofNat typ] ++ len16 vers ++ be 2 w.writeEpoch ++ be 6 w.writeSeq ++ len16 m

/-- one iteration of the loop of `writeRecordLocked` for a chunk `data[:m]` -/
def writeOne (P : Prims) (S : Src) (st : Stack) (w : WriteSide) (typ vers : Nat) (chunk rand : Bytes) :
    Outcome (Bytes × WriteSide) :=
  let w1 := match st with | .tlcp => w | .dtlcp => setWriteSeq w
  match encrypt P S st w1.out (buildHeader st w1 typ vers chunk.length) chunk rand with
  | .ok (rec, out') =>
    let w2 := { w1 with out := out' }
    .ok (rec, match st with | .tlcp => w2 | .dtlcp => { w2 with writeSeq := (w2.writeSeq + 1) % 2^64 })
  | .alert a => .alert a
  | .panic => .panic

/-- The same iteration when `c.write` returns an error (transport fault: deadline, reset, partial
write): `writeRecordLocked` returns at once. The record was sealed — its bytes may be on the wire in
part or in full — and the connection is left in the state computed here; `sendAlertLocked`
(close_notify from `Close`/`CloseWrite`, alerts of the read path) calls `writeRecordLocked` again on
this state without looking at the sticky write error. -/
def writeOneFailed (P : Prims) (S : Src) (st : Stack) (w : WriteSide) (typ vers : Nat) (chunk rand : Bytes) :
    Outcome (Bytes × WriteSide) :=
  let w1 := match st with | .tlcp => w | .dtlcp => setWriteSeq w
  match encrypt P S st w1.out (buildHeader st w1 typ vers chunk.length) chunk rand with
  | .ok (rec, out') =>
    .ok (rec,
      if S.seqConsumedOnWriteError then
        match st with
        | .tlcp => { w1 with out := out' }
        | .dtlcp => { w1 with out := out', writeSeq := (w1.writeSeq + 1) % 2^64 }
      else
        -- the number is handed back / never advanced
        match st with
        | .tlcp => { w1 with out := { out' with seq := w.out.seq } }
        | .dtlcp => { w1 with out := out' })
  | .alert a => .alert a
  | .panic => .panic

/-- one record with the transport's answer -/
def writeOneT (P : Prims) (S : Src) (st : Stack) (w : WriteSide) (typ vers : Nat) (chunk rand : Bytes) (sent : Bool) :
    Outcome (Bytes × WriteSide) :=
  if sent then writeOne P S st w typ vers chunk rand else writeOneFailed P S st w typ vers chunk rand

/-- the 64-bit number the NEXT record will be sealed under (MAC input / additional data / explicit
GCM nonce): tlcp `out.seq`, dtlcp what `setWriteSeq` will load from writeEpoch / writeSeq -/
def nextSealSeq (st : Stack) (w : WriteSide) : Bytes :=
  match st with
  | .tlcp => w.out.seq
  | .dtlcp => (setWriteSeq w).out.seq

/-- A history of single-record writes (type, content, IV source, did the transport take it): the
records handed to the transport and the number each was sealed under. A failed write of
application data makes later `Write`s fail without sealing (sticky error), but alerts are still
sealed — so any tail of records may follow a failure. Stops at the first alert/panic outcome. -/
def writeHistory (P : Prims) (S : Src) (st : Stack) (vers : Nat) :
    WriteSide → List (Nat × Bytes × Bytes × Bool) → List (Bytes × Bytes)
  | _, [] => []
  | w, (typ, chunk, rand, sent) :: rest =>
    match writeOneT P S st w typ vers chunk rand sent with
    | .ok (rec, w') => (nextSealSeq st w, rec) :: writeHistory P S st vers w' rest
    | _ => []

/-- the loop: chunks of at most `maxPayload` bytes; `rands` supplies one IV source per record -/
def writeChunks (P : Prims) (S : Src) (st : Stack) (typ vers maxPayload : Nat) :
    Nat → WriteSide → Bytes → List Bytes → Bytes → Outcome (Bytes × WriteSide)
  | 0, w, _, _, acc => .ok (acc, w)
  | fuel+1, w, data, rands, acc =>
    if data.length == 0 then .ok (acc, w) else
    let m := if data.length > maxPayload then maxPayload else data.length
    match writeOne P S st w typ vers (data.take m) (rands.headD []) with
    | .ok (rec, w') => writeChunks P S st typ vers maxPayload fuel w' (data.drop m) rands.tail (acc ++ rec)
    | .alert a => .alert a
    | .panic => .panic

/-- `Conn.writeRecordLocked(typ, data)`: the bytes handed to `c.write` and the new state -/
def writeRecordLocked (P : Prims) (S : Src) (st : Stack) (w : WriteSide) (typ vers maxPayload : Nat)
    (data : Bytes) (rands : List Bytes) : Outcome (Bytes × WriteSide) :=
  match writeChunks P S st typ vers (max maxPayload 1) (data.length + 1) w data rands [] with
  | .ok (wire, w') =>
    if typ == S.recordTypeCCS then
      match changeCipherSpec S w'.out with
      | .ok out' =>
        .ok (wire, match st with
          | .tlcp => { w' with out := out' }
          | .dtlcp => { out := out', writeEpoch := (w'.writeEpoch + 1) % 2^16, writeSeq := 0 })
      | .alert a => .alert a
      | .panic => .panic
    else .ok (wire, w')
  | .alert a => .alert a
  | .panic => .panic

end Gotlcp.Model.KeySchedule

/-
Model of the DTLCP handshake at DATAGRAM granularity with virtual time (property C19).

It mirrors, branch by branch and including the defects,
  * dtlcp/retransmit.go            `RetransmitTimer` (Nat nanoseconds/any unit): start, backoff, reset, stop, fired
  * dtlcp/handshake_client.go      cookie loop of `clientHandshake` (the `break` inside `switch`, K2: parameter
                                   `cookieBreakLeaves`), `handshake` (flight 5 leaves as TWO datagrams and only
                                   CCS+Finished is kept, K1/F12), `readFinished`
  * dtlcp/handshake_server.go      `serverHandshake` (cookie exchange), `readNextClientHello`, `doFullHandshake`
                                   + `readNextFlightMsg`, `readFinished`, resumption branch, dwell bookkeeping
  * dtlcp/conn.go                  `readRecordOrCCS` (first-record heuristic, decrypt BEFORE the epoch check,
                                   old-epoch drop, epoch bump on any higher epoch, replay window, deferredCCS,
                                   dwell retransmission, application data only after completion), `readHandshake`
                                   (no message_seq check: messages are consumed in arrival order),
                                   `readChangeCipherSpec`, `flush` = one datagram per flight, alerts
and, for the two-endpoint runs, the deterministic scheduler of harness/cmd/c19/vnet.go (zero-latency FIFO
delivery, due read deadlines in tie order, time advance to the earliest deadline, faults drop/dup/swap by
(direction, index)).

Abstractions: a flight's handshake messages that always travel and are consumed together are one message
(`flight4` = Certificate..ServerHelloDone, `flight5` = [Certificate] ClientKeyExchange [CertificateVerify]);
cryptography is symbolic: a record of epoch ≥ 1 can be read iff the reader has switched its read cipher, a
plaintext record read under an active cipher fails its MAC, a Finished carries the identity (`tag`) of the
ClientHello its sender hashed — the only part of the transcript that retransmission can change (F11).
Core Lean only; everything is structurally recursive (fuel) so that the kernel can evaluate it.
-/
namespace Gotlcp.Model.Flights

/-! ### RetransmitTimer (dtlcp/retransmit.go) -/

structure Timer where
  initial : Nat
  current : Nat
  max : Nat
  /-- expiry of the TimerHandle currently held (`handle != nil`), in virtual time -/
  armed : Option Nat
  deriving Repr, DecidableEq

/-- the two statements of `backoff` as extracted: `current *= mul`, `if current > max { current = max }` -/
structure BackoffLaw where
  mul : Nat
  cap : Bool
  deriving Repr, DecidableEq

def backoffValue (l : BackoffLaw) (cur max : Nat) : Nat :=
  let c := cur * l.mul
  if l.cap && c > max then max else c

namespace Timer
def new (initial max : Nat) : Timer := ⟨initial, initial, max, none⟩
def start (now : Nat) (t : Timer) : Timer := { t with armed := some (now + t.current) }
def backoff (l : BackoffLaw) (now : Nat) (t : Timer) : Timer :=
  start now { t with current := backoffValue l t.current t.max }
def reset (now : Nat) (t : Timer) : Timer := start now { t with current := t.initial }
def stop (t : Timer) : Timer := { t with armed := none }
def fired (now : Nat) (t : Timer) : Bool :=
  match t.armed with
  | some x => x ≤ now
  | none => false
end Timer

/-! ### wire objects -/

inductive Msg where
  | clientHello (seq : Nat) (cookie : Bool)
  | helloVerify
  | serverHello (resume : Bool)
  | flight4
  /-- `sig` = the transcript identity signed by CertificateVerify when the client authenticates -/
  | flight5 (sig : Option Nat)
  | finished (fromClient : Bool) (tag : Nat)
  | garbage
  deriving Repr, DecidableEq

inductive Body where
  | hs (m : Msg)
  | ccs
  | alert
  | app
  deriving Repr, DecidableEq

structure Rec where
  epoch : Nat
  seq : Nat
  body : Body
  deriving Repr, DecidableEq

abbrev Dgram := List Rec

/-! ### parameters (all code-dependent ones come from regenerated facts) -/

structure Params where
  init : Nat
  max : Nat
  /-- the client offers a cached session and the server still holds it -/
  resume : Bool
  /-- the server requests and the client sends a certificate (flight 5 carries CertificateVerify) -/
  auth : Bool
  law : BackoffLaw
  /-- law of the local `timeout` variable of `readNextClientHello` -/
  helloLaw : BackoffLaw
  /-- K2: the `break` after storing the cookie leaves the read loop -/
  cookieBreakLeaves : Bool
  /-- the `break` of the branch "HelloVerifyRequest although a cookie is stored" leaves the read loop -/
  dupHvrBreakLeaves : Bool
  /-- F14: a record that fails to decrypt after the handshake is dropped instead of being fatal -/
  dropBadAfterHandshake : Bool
  /-- F37: the record-type clause of the first-record heuristic applies only while handBuf is empty -/
  firstRecordOnlyEmptyHand : Bool
  /-- application data is refused unless the handshake is complete (decision table of readRecordOrCCS) -/
  appNeedsComplete : Bool
  /-- the resumption branch of the server arms the retransmission timer (it does not today) -/
  serverResumeArmsTimer : Bool
  deriving Repr

/-! ### endpoint state -/

inductive Pc where
  | cHello | cFlight4 | cFinCCS | cFinMsg
  | sHello0 | sHello1 | sFlight5 | sFinCCS | sFinMsg
  | app | stop
  deriving Repr, DecidableEq

structure Ep where
  isClient : Bool
  pc : Pc
  failed : Bool := false
  -- record layer, read side
  haveVers : Bool := false
  inCipher : Bool := false
  nextReady : Bool := false
  deferred : Bool := false
  readEpoch : Nat := 0
  window : List Nat := []
  raw : List Rec := []
  hand : List Msg := []
  /-- a readRecordOrCCS call is suspended in readDatagram; `x` is its local expectChangeCipherSpec -/
  inRead : Bool := false
  x : Bool := false
  -- write side
  wEpoch : Nat := 0
  wSeq : Nat := 0
  msgSeq : Nat := 0
  -- time
  timer : Timer
  deadline : Option Nat := none
  helloWait : Nat := 0
  timeouts : Nat := 0
  -- handshake
  cookie : Bool := false
  helloSeq : Nat := 0
  /-- identity of the ClientHello this end hashed into its transcript -/
  tag : Nat := 0
  flight : Dgram := []
  dwell : Bool := false
  resumed : Bool := false
  /-- the peer's Finished has been verified -/
  verified : Bool := false
  /-- the transcript identity carried by the peer's Finished that was accepted -/
  peerTag : Option Nat := none
  /-- hsState = stateFinished -/
  complete : Bool := false
  hsAt : Option Nat := none
  /-- application datagrams handed to the application (c.readBuf set) -/
  delivered : Nat := 0
  deriving Repr

structure R where
  e : Ep
  out : List Dgram
  deriving Repr

/-- one record under the current write state -/
def mkRec (e : Ep) (b : Body) : Ep × Rec :=
  ({ e with wSeq := e.wSeq + 1 }, ⟨e.wEpoch, e.wSeq, b⟩)

/-- ChangeCipherSpec record: afterwards writeEpoch++ and writeSeq = 0 -/
def mkCCS (e : Ep) : Ep × Rec :=
  ({ e with wEpoch := e.wEpoch + 1, wSeq := 0 }, ⟨e.wEpoch, e.wSeq, .ccs⟩)

def setDeadline (now : Nat) (e : Ep) : Ep := { e with deadline := some (now + e.timer.current) }

/-- any fatal error: the goroutine returns; with `alert` an alert datagram leaves first -/
def failWith (e : Ep) (alert : Bool) : R :=
  if alert then
    let (e1, r) := mkRec e .alert
    ⟨{ e1 with failed := true, pc := .stop, raw := [], inRead := false }, [[r]]⟩
  else ⟨{ e with failed := true, pc := .stop, raw := [], inRead := false }, []⟩

/-! ### readRecordOrCCS over the records of the current datagram -/

inductive RR where
  | returned   -- the call returned nil
  | needMore   -- rawInputBuf exhausted inside the call: readDatagram blocks
  | failed
  deriving Repr, DecidableEq

structure RRes where
  e : Ep
  rr : RR
  out : List Dgram
  deriving Repr

def isHsOrAlert : Body → Bool
  | .hs _ => true
  | .alert => true
  | _ => false

/-- outcome of the checks every record passes first (first-record heuristic, decryption, epoch, replay) -/
inductive Pre where
  | reject (alert : Bool)   -- fatal
  | skip (e : Ep)           -- silently dropped, go on with the next record
  | pass (e : Ep)
  deriving Repr

def preRec (p : Params) (e : Ep) (r : Rec) : Pre :=
  -- first-record heuristic (no alert)
  if !e.haveVers && !isHsOrAlert r.body && (!p.firstRecordOnlyEmptyHand || e.hand.isEmpty) then .reject false
  -- decrypt + MAC come first: a plaintext record under an active cipher fails
  else if e.inCipher && r.epoch == 0 then
    if p.dropBadAfterHandshake && e.complete then .skip e else .reject true
  -- then the epoch: older is dropped, ANY higher epoch is adopted
  else if r.epoch < e.readEpoch then .skip e
  else if r.epoch > e.readEpoch then
    -- fresh window: the sequence number cannot be a replay
    .pass { e with readEpoch := r.epoch, window := [r.seq] }
  else if e.window.contains r.seq then .skip e
  else .pass { e with window := r.seq :: e.window }

/-- what the `switch typ` of readRecordOrCCS does with a record that passed `preRec` -/
inductive Act where
  | cont (e : Ep) (x : Bool) (out : List Dgram)   -- `continue`
  | ret (e : Ep) (out : List Dgram)               -- `return nil`
  | fail (e : Ep) (alert : Bool) (out : List Dgram)
  deriving Repr

def handleRec (p : Params) (e : Ep) (x : Bool) (out : List Dgram) (r : Rec) (last : Bool) : Act :=
  let readable := e.inCipher || r.epoch == 0
  match r.body with
  | .app =>
    if !e.inCipher then .fail e true out
    else if p.appNeedsComplete && (!e.complete || x) then .fail e true out
    else .ret { e with dwell := false, flight := if e.dwell then [] else e.flight, delivered := e.delivered + 1 } out
  | .alert =>
    -- unreadable alert: `len(data) != 2` → local alert; readable: fatal remote alert
    .fail e (!readable) out
  | .ccs =>
    if e.complete && e.dwell && !e.flight.isEmpty then
      -- dwell period: answer a retransmitted last flight of the peer with ours
      .cont e x (out ++ [e.flight])
    else if !x && !e.hand.isEmpty then .ret { e with deferred := true } out
    else if !x then .fail e true out
    else if !e.nextReady then .fail e true out
    else
      let e := { e with inCipher := true, nextReady := false, readEpoch := e.readEpoch + 1, window := [] }
      if last then .ret e out else .cont e false out
  | .hs m =>
    if e.complete && e.dwell then .cont e x (if e.flight.isEmpty then out else out ++ [e.flight])
    else if x then .fail e true out
    else
      let e := { e with hand := e.hand ++ [if readable then m else .garbage] }
      if last then .ret e out else .cont e x out

/-- `readRecordOrCCS(x)` continued over `recs` (= c.rawInputBuf). -/
def readRecs (p : Params) (now : Nat) (e : Ep) (x : Bool) (out : List Dgram) : List Rec → RRes
  | [] => ⟨{ e with raw := [], x := x, inRead := true }, .needMore, out⟩
  | r :: rest =>
    match preRec p e r with
    | .reject a =>
      let f := failWith e a
      ⟨f.e, .failed, out ++ f.out⟩
    | .skip e1 => readRecs p now e1 x out rest
    | .pass e1 =>
      match handleRec p e1 x out r rest.isEmpty with
      | .cont e2 x2 out2 => readRecs p now e2 x2 out2 rest
      | .ret e2 out2 => ⟨{ e2 with raw := rest, inRead := false }, .returned, out2⟩
      | .fail e2 a out2 =>
        let f := failWith e2 a
        ⟨f.e, .failed, out2 ++ f.out⟩

/-! ### handshake-level steps -/

/-- client: (re)send the ClientHello with the next message_seq, reset the timer, wait -/
def sendHello (now : Nat) (e : Ep) : R :=
  let seq := e.msgSeq
  let (e, r) := mkRec { e with msgSeq := e.msgSeq + 1, helloSeq := seq } (.hs (.clientHello seq e.cookie))
  let e := { e with timer := e.timer.reset now, pc := .cHello }
  ⟨setDeadline now e, [[r]]⟩

/-- the handshake function returned nil; the harness then writes one application datagram and reads -/
def completeHs (now : Nat) (e : Ep) : R :=
  let e := { e with complete := true, hsAt := some now }
  let (e, r) := mkRec e .app
  ⟨{ e with pc := .app }, [[r]]⟩

/-- CCS + Finished under the current write state -/
def mkFinishedFlight (e : Ep) : Ep × Dgram :=
  let (e, c) := mkCCS e
  let (e, f) := mkRec e (.hs (.finished e.isClient e.tag))
  (e, [c, f])

/-- server: loop head of readNextFlightMsg / readFinished (timer check, then the read deadline) -/
def serverLoopHead (p : Params) (now : Nat) (e : Ep) : R :=
  if e.timer.fired now then
    let out := if e.flight.isEmpty then [] else [e.flight]
    let e := { e with timer := e.timer.backoff p.law now }
    ⟨setDeadline now e, out⟩
  else ⟨setDeadline now e, []⟩

/-- server: a ClientHello has been read in the cookie phase -/
def serverOnHello (p : Params) (now : Nat) (e : Ep) (seq : Nat) (cookie : Bool) : R :=
  let e := { e with haveVers := true, deadline := none }
  if !cookie then
    let (e, r) := mkRec { e with msgSeq := e.msgSeq + 1 } (.hs .helloVerify)
    ⟨{ e with pc := .sHello1, helloWait := p.init, deadline := some (now + p.init) }, [[r]]⟩
  else
    let e := { e with tag := seq }
    if p.resume then
      let (e, sh) := mkRec { e with msgSeq := e.msgSeq + 1, resumed := true } (.hs (.serverHello true))
      let e := { e with nextReady := true }
      let (e, fl) := mkFinishedFlight { e with msgSeq := e.msgSeq + 1 }
      let d := sh :: fl
      let e := { e with flight := d, pc := .sFinCCS }
      let e := if p.serverResumeArmsTimer then { e with timer := e.timer.reset now } else e
      let h := serverLoopHead p now e
      ⟨h.e, [d] ++ h.out⟩
    else
      let (e, sh) := mkRec { e with msgSeq := e.msgSeq + 1 } (.hs (.serverHello false))
      let (e, f4) := mkRec { e with msgSeq := e.msgSeq + 1 } (.hs .flight4)
      let d := [sh, f4]
      let e := { e with flight := d, timer := e.timer.reset now, pc := .sFlight5 }
      let h := serverLoopHead p now e
      ⟨h.e, [d] ++ h.out⟩

/-- client, flight 4 read: flight 5 leaves as TWO datagrams, only CCS+Finished is kept (K1/F12) -/
def clientFlight5 (p : Params) (now : Nat) (e : Ep) : R :=
  let (e, f5) := mkRec { e with msgSeq := e.msgSeq + 1 } (.hs (.flight5 (if p.auth then some e.tag else none)))
  let e := { e with nextReady := true }
  let (e, fl) := mkFinishedFlight e
  let e := { e with flight := fl, timer := e.timer.reset now, pc := .cFinCCS }
  ⟨setDeadline now e, [[f5], fl]⟩

/-- client: the server's Finished matched the own transcript -/
def clientAccept (now : Nat) (e : Ep) (t : Nat) : R :=
  let e := { e with verified := true, peerTag := some t, deadline := none, timer := e.timer.stop }
  if e.resumed then
    let (e, fl) := mkFinishedFlight e
    let c := completeHs now e
    ⟨c.e, [fl] ++ c.out⟩
  else completeHs now e

/-- server: the client's Finished matched the own transcript -/
def serverAccept (now : Nat) (e : Ep) (t : Nat) : R :=
  let e := { e with verified := true, peerTag := some t }
  if e.resumed then completeHs now e
  else
    let (e, fl) := mkFinishedFlight { e with msgSeq := e.msgSeq + 1 }
    let e := { e with flight := fl, dwell := true }
    let c := completeHs now e
    ⟨c.e, [fl] ++ c.out⟩

/-- CertificateVerify (when present) signs the client's transcript; the server checks it against its own -/
def sigMismatch : Option Nat → Nat → Bool
  | some t, tag => t != tag
  | none, _ => false

/-- server: the client key exchange group has been read in readNextFlightMsg -/
def serverOnFlight5 (p : Params) (now : Nat) (e : Ep) (sig : Option Nat) : R :=
  let e := { e with deadline := none, timer := e.timer.stop }
  -- CertificateVerify is checked against the server's own transcript
  if sigMismatch sig e.tag then failWith e true
  else serverLoopHead p now { e with nextReady := true, pc := .sFinCCS }

/-- server: a ClientHello has been read in readNextFlightMsg: retransmit the flight, back off -/
def serverOnRetransmittedHello (p : Params) (now : Nat) (e : Ep) : R :=
  let out := if e.flight.isEmpty then [] else [e.flight]
  let e := { e with deadline := none, timer := e.timer.backoff p.law now }
  let h := serverLoopHead p now e
  ⟨h.e, out ++ h.out⟩

/-- client: ServerHello read in the cookie loop -/
def clientOnServerHello (p : Params) (now : Nat) (e : Ep) (r : Bool) : R :=
  let e := { e with timer := e.timer.stop, deadline := none, haveVers := true, tag := e.helloSeq }
  if r && p.resume then
    -- resumption: establishKeys, readFinished (nothing to retransmit), then send CCS+Finished
    ⟨setDeadline now { e with resumed := true, nextReady := true, flight := [], pc := .cFinCCS }, []⟩
  else ⟨{ e with pc := .cFlight4 }, []⟩

/-- client: HelloVerifyRequest read in the cookie loop (the two `break`s of K2) -/
def clientOnHelloVerify (p : Params) (now : Nat) (e : Ep) : R :=
  if e.cookie then
    if p.dupHvrBreakLeaves then sendHello now e else ⟨setDeadline now e, []⟩
  else
    let e := { e with cookie := true, hand := [] }
    if p.cookieBreakLeaves then sendHello now e else ⟨setDeadline now e, []⟩

def onMsgCHello (p : Params) (now : Nat) (e : Ep) : Msg → R
  | .helloVerify => clientOnHelloVerify p now e
  | .serverHello r => clientOnServerHello p now e r
  | _ => failWith e true

def onMsgCFlight4 (p : Params) (now : Nat) (e : Ep) : Msg → R
  | .flight4 => clientFlight5 p now e
  | _ => failWith e true

def onMsgCFinMsg (now : Nat) (e : Ep) : Msg → R
  | .finished false t => if t == e.tag then clientAccept now e t else failWith e true
  | _ => failWith e true

def onMsgSHello (p : Params) (now : Nat) (e : Ep) : Msg → R
  | .clientHello seq cookie => serverOnHello p now e seq cookie
  | _ => failWith { e with deadline := none } true

def onMsgSFlight5 (p : Params) (now : Nat) (e : Ep) : Msg → R
  | .clientHello _ _ => serverOnRetransmittedHello p now e
  | .flight5 sig => serverOnFlight5 p now e sig
  | _ => failWith { e with deadline := none, timer := e.timer.stop } true

def onMsgSFinMsg (now : Nat) (e : Ep) : Msg → R
  | .finished true t => if t == e.tag then serverAccept now e t else failWith e true
  | _ => failWith e true

/-- a handshake message has been taken from handBuf at the current program point -/
def onMsg (p : Params) (now : Nat) (e : Ep) (m : Msg) : R :=
  match e.pc with
  | .cHello => onMsgCHello p now e m
  | .cFlight4 => onMsgCFlight4 p now e m
  | .cFinMsg => onMsgCFinMsg now e m
  | .sHello0 => onMsgSHello p now e m
  | .sHello1 => onMsgSHello p now e m
  | .sFlight5 => onMsgSFlight5 p now e m
  | .sFinMsg => onMsgSFinMsg now e m
  | .cFinCCS => failWith e true
  | .sFinCCS => failWith e true
  | .app => failWith e false
  | .stop => failWith e false

/-- the peer's ChangeCipherSpec has been processed at the current program point -/
def onCCS (e : Ep) : Ep :=
  match e.pc with
  | .cFinCCS => { e with pc := .cFinMsg }
  | .sFinCCS => { e with deadline := none, timer := e.timer.stop, pc := .sFinMsg }
  | _ => e

def onTimeoutAt (p : Params) (now : Nat) (e : Ep) : R :=
  match e.pc with
  | .cHello => sendHello now { e with timer := e.timer.backoff p.law now }
  | .cFinCCS =>
    ⟨setDeadline now { e with timer := e.timer.backoff p.law now, pc := .cFinCCS }, if e.flight.isEmpty then [] else [e.flight]⟩
  | .cFinMsg =>
    ⟨setDeadline now { e with timer := e.timer.backoff p.law now, pc := .cFinCCS }, if e.flight.isEmpty then [] else [e.flight]⟩
  | .sHello1 =>
    ⟨{ e with helloWait := backoffValue p.helloLaw e.helloWait p.max,
              deadline := some (now + backoffValue p.helloLaw e.helloWait p.max) }, []⟩
  | .sFlight5 => serverLoopHead p now e
  | .sFinCCS => serverLoopHead p now e
  | .cFlight4 => ⟨e, []⟩
  | .sHello0 => ⟨e, []⟩
  | .sFinMsg => ⟨e, []⟩
  | .app => ⟨e, []⟩
  | .stop => ⟨e, []⟩

/-- the read deadline expired at the current program point -/
def onTimeout (p : Params) (now : Nat) (e : Ep) : R :=
  onTimeoutAt p now { e with timeouts := e.timeouts + 1, inRead := false }

inductive Want where
  | msg | ccs | appData | nothing
  deriving DecidableEq

def want : Pc → Want
  | .cHello | .cFlight4 | .cFinMsg | .sHello0 | .sHello1 | .sFlight5 | .sFinMsg => .msg
  | .cFinCCS | .sFinCCS => .ccs
  | .app => .appData
  | .stop => .nothing

/-- what the caller of readRecordOrCCS does with its result; `true` = keep going -/
def afterRead (p : Params) (now : Nat) (res : RRes) : R × Bool :=
  match res.rr with
  | .failed => (⟨res.e, res.out⟩, false)
  | .returned =>
    -- at a program point inside readChangeCipherSpec a nil return means the CCS was processed
    (⟨if want res.e.pc == .ccs then onCCS res.e else res.e, res.out⟩, true)
  | .needMore =>
    -- readDatagram: nothing queued (the scheduler delivers one datagram at a time)
    match res.e.deadline with
    | some d =>
      if d ≤ now then (⟨(onTimeout p now res.e).e, res.out ++ (onTimeout p now res.e).out⟩, true)
      else (⟨res.e, res.out⟩, false)
    | none => (⟨res.e, res.out⟩, false)

/-- the local `expectChangeCipherSpec` of the call that starts or continues -/
def callX (e : Ep) : Bool := if e.inRead then e.x else (want e.pc == .ccs)

/-- enter (or continue) a readRecordOrCCS call at the current program point; `true` = keep going -/
def readStep (p : Params) (now : Nat) (e : Ep) (out : List Dgram) : R × Bool :=
  afterRead p now (readRecs p now { e with inRead := true, x := callX e } (callX e) out e.raw)

/-- one iteration of the endpoint's code between two reads; `true` = keep going -/
def stepEp (p : Params) (now : Nat) (e : Ep) (out : List Dgram) : R × Bool :=
  match want e.pc with
  | .nothing => (⟨e, out⟩, false)
  | .msg =>
    if e.inRead then readStep p now e out
    else
      match e.hand with
      | m :: hs =>
        let r := onMsg p now { e with hand := hs } m
        (⟨r.e, out ++ r.out⟩, true)
      | [] => readStep p now e out
  | .ccs =>
    if e.inRead then readStep p now e out
    else if e.deferred then
      -- readChangeCipherSpec with deferredCCS: switch now
      if !e.nextReady then
        let f := failWith e true
        (⟨f.e, out ++ f.out⟩, false)
      else
        (⟨onCCS { e with deferred := false, inCipher := true, nextReady := false,
                         readEpoch := e.readEpoch + 1, window := [] }, out⟩, true)
    else readStep p now e out
  | .appData =>
    if e.inRead then readStep p now e out
    else if e.delivered > 0 then (⟨{ e with pc := .stop }, out⟩, false)
    else readStep p now e out

/-- run the endpoint until it blocks in readDatagram (or returns). -/
def advance (p : Params) (now : Nat) : Nat → Ep → List Dgram → R
  | 0, e, out => ⟨e, out⟩
  | fuel + 1, e, out =>
    let r := stepEp p now e out
    if r.2 then advance p now fuel r.1.e r.1.out else r.1

def endFuel : Nat := 24

/-- a datagram arrives at a blocked endpoint -/
def onDatagram (p : Params) (now : Nat) (e : Ep) (d : Dgram) : R :=
  advance p now endFuel { e with raw := d } []

/-- the scheduler lets a blocked endpoint observe its due deadline -/
def onDeadline (p : Params) (now : Nat) (e : Ep) : R :=
  let t := onTimeout p now e
  advance p now endFuel t.e t.out

def Ep.done (e : Ep) : Bool := e.pc == .stop

def clientInit (p : Params) : R :=
  let e : Ep := { isClient := true, pc := .cHello, timer := Timer.new p.init p.max }
  let r := sendHello 0 e
  advance p 0 endFuel r.e r.out

def serverInit (p : Params) : R :=
  let e : Ep := { isClient := false, pc := .sHello0, timer := Timer.new p.init p.max }
  advance p 0 endFuel e []

/-! ### the network and its scheduler (harness/cmd/c19/vnet.go) -/

inductive FK where
  | drop | dup | swap
  deriving Repr, DecidableEq

structure Fault where
  fromClient : Bool
  idx : Nat
  kind : FK
  deriving Repr, DecidableEq

/-- what a faulted datagram was (keys the known findings) -/
inductive Label where
  | ch0 | ch1 | hvr | f4 | rsf | f5a | fin | alert | app | other
  deriving Repr, DecidableEq

def label : Dgram → Label
  | [] => .other
  | r :: rest =>
    match r.body with
    | .hs (.clientHello _ false) => .ch0
    | .hs (.clientHello _ true) => .ch1
    | .hs .helloVerify => .hvr
    | .hs (.serverHello _) => if rest.any (fun q => q.body == .ccs) then .rsf else .f4
    | .hs (.flight5 _) => .f5a
    | .ccs => .fin
    | .alert => .alert
    | .app => .app
    | _ => .other

structure Hit where
  fromClient : Bool
  kind : FK
  what : Label
  deriving Repr, DecidableEq

structure Net where
  now : Nat := 0
  c : Ep
  s : Ep
  flight : List (Bool × Dgram) := []
  heldC : Option Dgram := none
  heldS : Option Dgram := none
  sentC : Nat := 0
  sentS : Nat := 0
  hits : List Hit := []
  /-- why the run stopped before both returned: 0 running / normal, 1 horizon, 2 idle -/
  stopped : Nat := 0
  deriving Repr

def lookupFault (fs : List Fault) (fromClient : Bool) (idx : Nat) : Option FK :=
  (fs.find? (fun f => f.fromClient == fromClient && f.idx == idx)).map (·.kind)

/-- WriteTo of one datagram by one end -/
def sendOne (fs : List Fault) (n : Net) (fromClient : Bool) (d : Dgram) : Net :=
  let idx := if fromClient then n.sentC else n.sentS
  let prev := if fromClient then n.heldC else n.heldS
  let n := if fromClient then { n with sentC := idx + 1, heldC := none } else { n with sentS := idx + 1, heldS := none }
  let k := if label d == .app then none else lookupFault fs fromClient idx
  let n := match k with
    | none => { n with flight := n.flight ++ [(fromClient, d)] }
    | some .drop => { n with hits := n.hits ++ [Hit.mk fromClient .drop (label d)] }
    | some .dup => { n with flight := n.flight ++ [(fromClient, d), (fromClient, d)], hits := n.hits ++ [Hit.mk fromClient .dup (label d)] }
    | some .swap =>
      let n := { n with hits := n.hits ++ [Hit.mk fromClient .swap (label d)] }
      if fromClient then { n with heldC := some d } else { n with heldS := some d }
  match prev with
  | some h => { n with flight := n.flight ++ [(fromClient, h)] }
  | none => n

def sendAll (fs : List Fault) (n : Net) (fromClient : Bool) : List Dgram → Net
  | [] => n
  | d :: ds => sendAll fs (sendOne fs n fromClient d) fromClient ds

def dueNow (now : Nat) (e : Ep) : Bool :=
  !e.done && (match e.deadline with | some d => d ≤ now | none => false)

def minOpt : Option Nat → Option Nat → Option Nat
  | none, b => b
  | a, none => a
  | some a, some b => some (if a ≤ b then a else b)

/-- one scheduler action; `none` = both endpoints returned or nothing can happen any more -/
def schedStep (p : Params) (fs : List Fault) (tieClient : Bool) (horizon : Nat) (n : Net) : Option Net :=
  if n.c.done && n.s.done then none
  else
    match n.flight with
    | (fromClient, d) :: rest =>
      let n := { n with flight := rest }
      if fromClient then
        if n.s.done then some n
        else
          let r := onDatagram p n.now n.s d
          some (sendAll fs { n with s := r.e } false r.out)
      else
        if n.c.done then some n
        else
          let r := onDatagram p n.now n.c d
          some (sendAll fs { n with c := r.e } true r.out)
    | [] =>
      let wakeC (n : Net) : Net :=
        let r := onDeadline p n.now n.c
        sendAll fs { n with c := r.e } true r.out
      let wakeS (n : Net) : Net :=
        let r := onDeadline p n.now n.s
        sendAll fs { n with s := r.e } false r.out
      let dc := dueNow n.now n.c
      let ds := dueNow n.now n.s
      if dc && (tieClient || !ds) then some (wakeC n)
      else if ds then some (wakeS n)
      else
        let next := minOpt (if n.c.done then none else n.c.deadline) (if n.s.done then none else n.s.deadline)
        match next with
        | none =>
          match n.heldC, n.heldS with
          | none, none => if n.stopped == 0 then some { n with stopped := 2, c := { n.c with pc := .stop }, s := { n.s with pc := .stop } } else none
          | hc, hs =>
            let fl := (match hc with | some d => [(true, d)] | none => []) ++ (match hs with | some d => [(false, d)] | none => [])
            some { n with flight := fl, heldC := none, heldS := none }
        | some t =>
          if t > horizon then some { n with stopped := 1, c := { n.c with pc := .stop }, s := { n.s with pc := .stop } }
          else some { n with now := t }

def runNet (p : Params) (fs : List Fault) (tieClient : Bool) (horizon : Nat) : Nat → Net → Net
  | 0, n => n
  | fuel + 1, n =>
    match schedStep p fs tieClient horizon n with
    | none => n
    | some n' => runNet p fs tieClient horizon fuel n'

def initNet (p : Params) (fs : List Fault) : Net :=
  let c := clientInit p
  let s := serverInit p
  let n : Net := { c := c.e, s := s.e }
  sendAll fs (sendAll fs n true c.out) false s.out

def netFuel : Nat := 400

def run (p : Params) (fs : List Fault) (tieClient : Bool) (horizon : Nat) : Net :=
  runNet p fs tieClient horizon netFuel (initNet p fs)

/-! ### observations -/

inductive Outcome where
  | ok | err | hang
  deriving Repr, DecidableEq

/-- how `Handshake()` ended on an endpoint -/
def outcome (e : Ep) : Outcome :=
  if e.complete then .ok else if e.failed then .err else .hang

/-- both ends completed the handshake and each received the other's application datagram -/
def success (n : Net) : Bool :=
  n.c.complete && n.s.complete && n.c.delivered > 0 && n.s.delivered > 0

/-! ### the fatal fault patterns known today (findings K1, F11, F12, F44, F45), by WHAT was hit -/

/-- single faults -/
def knownFatalHit (resume : Bool) (h : Hit) : Bool :=
  match resume, h.fromClient, h.kind, h.what with
  | false, true, .drop, .f5a => true    -- K1   first datagram of client flight 5 lost
  | false, true, .swap, .f5a => true    -- F12  the two datagrams of client flight 5 swapped
  | false, false, .drop, .f4 => true    -- F11  server flight 4 lost …
  | false, false, .swap, .f4 => true    -- F11  … or delayed past the client's timeout
  | false, false, .drop, .fin => true   -- F44  server flight 6 (last flight) lost
  | false, false, .swap, .fin => true   -- F45  server flight 6 overtaken by application data
  | true, false, .drop, .rsf => true    -- F11  resumed: the server's flight lost → ClientHello retransmitted
  | true, false, .swap, .rsf => true    -- F11
  | true, true, .swap, .ch1 => true     -- F11  resumed: a second ClientHello reaches the server
  | true, true, .drop, .fin => true     -- F44  resumed: client CCS+Finished (last flight) lost
  | true, true, .swap, .fin => true     -- F45  resumed: … overtaken by application data
  | _, _, _, _ => false

def cookiePhase : Label → Bool
  | .ch0 | .ch1 | .hvr => true
  | _ => false

/-- F45/F11, second form: two faults in the cookie phase one of which is a reordering (a stale
ClientHello / HelloVerifyRequest is delivered late) -/
def knownFatalPair (hits : List Hit) : Bool :=
  decide ((hits.filter (fun h => cookiePhase h.what)).length ≥ 2) &&
    hits.any (fun h => h.kind == .swap && cookiePhase h.what)

/-- exactly the union of the known findings -/
def KnownFatal (resume : Bool) (hits : List Hit) : Bool :=
  hits.any (knownFatalHit resume) || knownFatalPair hits

/-! ### arbitrary inputs to ONE endpoint (for the safety theorems: any datagram, any time, any order) -/

inductive Input where
  | dgram (now : Nat) (d : Dgram)
  | deadline (now : Nat)
  deriving Repr

def feed (p : Params) (e : Ep) : Input → Ep
  | .dgram now d => (onDatagram p now e d).e
  | .deadline now => (onDeadline p now e).e

def reach (p : Params) (e : Ep) (ins : List Input) : Ep := ins.foldl (feed p) e

/-! ### fault patterns for the bounded evaluation -/

def allKinds : List FK := [.drop, .dup, .swap]

/-- every single fault on the first `n` datagrams of both directions -/
def singleFaults (n : Nat) : List Fault :=
  [true, false].flatMap fun d => (List.range n).flatMap fun i => allKinds.map fun k => ⟨d, i, k⟩

def pairsOf : List Fault → List (List Fault)
  | [] => []
  | f :: fs => (fs.filter (fun g => !(g.fromClient == f.fromClient && g.idx == f.idx))).map (fun g => [f, g]) ++ pairsOf fs

end Gotlcp.Model.Flights

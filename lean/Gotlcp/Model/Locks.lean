/-
Model of the lock protocol of `tlcp.Conn` / `dtlcp.Conn` (property C13).

Concurrency is modelled as ARBITRARY INTERLEAVING of atomic actions: a machine has a list of
threads (local states) and one shared state; one step = one thread performs its next atomic
action, if that action is enabled (a `Lock()` is enabled only when nobody holds the mutex).
There is no scheduler and no fairness: every theorem quantifies over all reachable states.
The Go memory model is not represented (an atomic action here is sequentially consistent):
data-race freedom of plain field accesses is outside this model (runtime half of C13).

Four machines share the interleaving semantics `Machine / stepAt / Step / Reach`:

* `LockM α`  — threads run straight-line programs over `acq l | rel l | emit x | copy n |
               advance | skip`.  The per-method programs are REGENERATED from the Go AST
               (`Facts.*.lockProgs`, see `ofEvents`); `writerProg`, `readerProg` are the two
               critical sections the theorems about Write / Read talk about.  `expandWrite`
               reads the section of Write after the handshake, extracted WITH its loops
               (`Facts.*.lockWriteSections`), as a program over the records of a payload: what
               is inside a loop happens once per record.  `heldAtIO` reads off which mutexes a
               goroutine parked in a transport read or write holds.
* `HsM`      — `handshakeContext`: fast path on the atomic status, `handshakeMutex`, re-check
               of `handshakeErr` / status under the mutex, `in`, one call of `handshakeFn`.
               `beforeLastClose` / `heldAtReads` read off the extracted programs which mutexes
               Close needs before it closes the transport and which ones a goroutine parked
               in a transport read holds.
* `AcM`      — the `activeCall` interlock between Write-like calls and Close (CAS loops).
Core Lean only (linked into `oracle_c13`).
-/
namespace Gotlcp.Model.Locks

/-! ## Interleaving semantics -/

structure Machine where
  Local : Type
  Shared : Type
  /-- one atomic action of a thread; the first argument is the list of the OTHER threads -/
  step : List Local → Shared → Local → Option (Local × Shared)
  /-- the thread has returned -/
  finished : Local → Bool

structure State (M : Machine) where
  ths : List M.Local
  sh : M.Shared

/-- thread `i` performs its next action (none: no such thread, finished, or blocked) -/
def stepAt (M : Machine) (s : State M) (i : Nat) : Option (State M) :=
  match s.ths[i]? with
  | none => none
  | some th =>
    match M.step (s.ths.take i ++ s.ths.drop (i + 1)) s.sh th with
    | none => none
    | some (th', sh') => some ⟨s.ths.take i ++ th' :: s.ths.drop (i + 1), sh'⟩

inductive Step (M : Machine) : State M → State M → Prop
  | mk {s s' : State M} (i : Nat) : stepAt M s i = some s' → Step M s s'

inductive Reach (M : Machine) : State M → State M → Prop
  | refl (s : State M) : Reach M s s
  | tail {a b c : State M} : Reach M a b → Step M b c → Reach M a c

/-- run a schedule (list of thread indices); indices that cannot step are skipped -/
def run (M : Machine) (s : State M) : List Nat → State M
  | [] => s
  | i :: is => match stepAt M s i with
    | none => run M s is
    | some s' => run M s' is

/-- some thread has not returned and no thread can move -/
def Deadlocked (M : Machine) (s : State M) : Prop :=
  (∃ th ∈ s.ths, M.finished th = false) ∧ ∀ i, stepAt M s i = none

/-! ## Straight-line lock programs -/

inductive Act (α : Type) where
  | acq (l : Nat)
  | rel (l : Nat)
  /-- hand one record to the transport -/
  | emit (x : α)
  /-- copy up to `n` plaintext bytes from the head of the shared input into the local buffer -/
  | copy (n : Nat)
  /-- advance the shared input past what was copied and return it to the caller -/
  | advance
  | skip
  deriving DecidableEq, Repr

structure Thread (α : Type) where
  held : List Nat := []
  prog : List (Act α)
  /-- bytes copied by `copy`, not yet committed by `advance` -/
  loc : List α := []
  /-- the argument of the call (Write's `b`); never changed by a step -/
  pay : List α := []

structure Shared (α : Type) where
  /-- records handed to the transport, in order -/
  stream : List α := []
  /-- plaintext waiting in the connection's input buffer -/
  input : List α := []
  /-- results returned by completed reads, in order of their `advance` -/
  reads : List (List α) := []

def holds {α : Type} (l : Nat) (t : Thread α) : Bool := t.held.contains l

def lockStep {α : Type} (others : List (Thread α)) (sh : Shared α) (th : Thread α) :
    Option (Thread α × Shared α) :=
  match th.prog with
  | [] => none
  | .acq l :: p =>
    -- a Go mutex is not re-entrant: also blocked when the thread itself holds `l`
    if others.all (fun u => !holds l u) && !holds l th then
      some ({ th with held := l :: th.held, prog := p }, sh)
    else none
  | .rel l :: p => some ({ th with held := th.held.erase l, prog := p }, sh)
  | .emit x :: p => some ({ th with prog := p }, { sh with stream := sh.stream ++ [x] })
  | .copy n :: p => some ({ th with prog := p, loc := sh.input.take n }, sh)
  | .advance :: p =>
    some ({ th with prog := p, loc := [] },
          { sh with input := sh.input.drop th.loc.length, reads := sh.reads ++ [th.loc] })
  | .skip :: p => some ({ th with prog := p }, sh)

@[reducible] def LockM (α : Type) : Machine where
  Local := Thread α
  Shared := Shared α
  step := lockStep
  finished := fun t => t.prog.isEmpty

/-- lock-order discipline of a program w.r.t. a rank: every acquisition is above everything
held, every release is of a held mutex, nothing is held at the end -/
def ordered {α : Type} (rank : Nat → Nat) : List Nat → List (Act α) → Bool
  | held, [] => held.isEmpty
  | held, .acq l :: p => held.all (fun h => rank h < rank l) && ordered rank (l :: held) p
  | held, .rel l :: p => held.contains l && ordered rank (held.erase l) p
  | held, _ :: p => ordered rank held p

/-- mutex indices, as fixed by the extractor -/
def lkHandshake : Nat := 0
def lkIn : Nat := 1
def lkOut : Nat := 2

/-- an extracted event list (`Facts.*.lockProgs`) as a program; events other than acquire /
release are irrelevant for the lock order -/
def ofEvents (α : Type) : List (Nat × Nat) → List (Act α)
  | [] => []
  | (0, l) :: r => .acq l :: ofEvents α r
  | (1, l) :: r => .rel l :: ofEvents α r
  | _ :: r => .skip :: ofEvents α r

/-- (held, acquired) pairs of an event list, as the extractor records them -/
def pairsOf : List Nat → List (Nat × Nat) → List (Nat × Nat)
  | _, [] => []
  | held, (0, l) :: r => held.map (fun h => (h, l)) ++ pairsOf (l :: held) r
  | held, (1, l) :: r => pairsOf (held.erase l) r
  | held, _ :: r => pairsOf held r

/-- every transport write (kind 2) happens while `out` is held, or — the `flush` of the failing
handshake and the DTLCP flight writes — while `handshakeMutex` and `in` are.  On a datagram
transport (`datagram = true`) a write under `in` alone is also admitted: the DTLCP read path
re-sends a stored, already encrypted flight as ONE datagram during the dwell period; it touches
no `out` state and a datagram cannot tear another one. -/
def emitsGuarded (datagram : Bool) : List Nat → List (Nat × Nat) → Bool
  | _, [] => true
  | held, (0, l) :: r => emitsGuarded datagram (l :: held) r
  | held, (1, l) :: r => emitsGuarded datagram (held.erase l) r
  | held, (2, _) :: r =>
    (held.contains lkOut || (held.contains lkHandshake && held.contains lkIn) ||
      (datagram && held.contains lkIn)) && emitsGuarded datagram held r
  | held, _ :: r => emitsGuarded datagram held r

/-- every consumption of plaintext input (kind 7) happens while `in` is held -/
def consumesGuarded : List Nat → List (Nat × Nat) → Bool
  | _, [] => true
  | held, (0, l) :: r => consumesGuarded (l :: held) r
  | held, (1, l) :: r => consumesGuarded (held.erase l) r
  | held, (7, _) :: r => held.contains lkIn && consumesGuarded held r
  | held, _ :: r => consumesGuarded held r

/-- events before the LAST transport close (kind 8) of a method — the walk is flow-insensitive,
so an early `return c.conn.Close()` branch shows up first; everything a path can acquire before
it closes the transport is before the last one.  The whole list when there is no close. -/
def beforeLastClose (evs : List (Nat × Nat)) : List (Nat × Nat) :=
  match evs.reverse.dropWhile (fun e => e.1 != 8) with
  | [] => evs
  | _ :: r => r.reverse

/-- mutexes held at some transport read (kind 9): a goroutine can be parked there, holding them,
until the peer sends or the transport is closed -/
def heldAtReads : List Nat → List (Nat × Nat) → List Nat
  | _, [] => []
  | held, (0, l) :: r => heldAtReads (l :: held) r
  | held, (1, l) :: r => heldAtReads (held.erase l) r
  | held, (9, _) :: r => held ++ heldAtReads held r
  | held, _ :: r => heldAtReads held r

def lookupProg (progs : List (String × List (Nat × Nat))) (name : String) : List (Nat × Nat) :=
  match progs.find? (fun p => p.1 == name) with
  | some p => p.2
  | none => []

/-- the part of a method after the handshake call returned: events after the last release of
`handshakeMutex`, restricted to mutex and transport events -/
def tailAfterHandshake (evs : List (Nat × Nat)) : List (Nat × Nat) :=
  let rec go (acc : List (Nat × Nat)) : List (Nat × Nat) → List (Nat × Nat)
    | [] => acc.reverse
    | (1, 0) :: r => go [] r
    | e :: r => go (e :: acc) r
  (go [] evs).filter (fun e => e.1 ≤ 2 || e.1 == 7)

/-- mutexes held at some transport read (kind 9) OR transport write (kind 2): a goroutine can be
parked there, holding them, for as long as the peer neither sends nor reads (a full socket
buffer, a synchronous pipe).  The deadline setters and Close are what the net.Conn contract
offers to get such a goroutine back, so they must not need any of these mutexes. -/
def heldAtIO : List Nat → List (Nat × Nat) → List Nat
  | _, [] => []
  | held, (0, l) :: r => heldAtIO (l :: held) r
  | held, (1, l) :: r => heldAtIO (held.erase l) r
  | held, (2, _) :: r => held ++ heldAtIO held r
  | held, (9, _) :: r => held ++ heldAtIO held r
  | held, _ :: r => heldAtIO held r

/-! ### the application-data section of Write, with its loops

`Facts.*.lockWriteSections` is the part of `Write` / `WriteTo` after the handshake call, walked
with loop markers: `(10,_)` loop begin, `(11,_)` loop end. -/

/-- a section without its loop markers (what the plain walk of `lockProgs` sees) -/
def stripLoops (evs : List (Nat × Nat)) : List (Nat × Nat) := evs.filter (fun e => e.1 < 10)

/-- mutex, transport-write and loop events of a section -/
def sectionEvents (evs : List (Nat × Nat)) : List (Nat × Nat) :=
  evs.filter (fun e => e.1 ≤ 2 || e.1 == 10 || e.1 == 11)

/-- split `body ++ [(11,_)] ++ rest` at the loop end matching an already consumed loop begin
(`depth` = number of inner loops still open) -/
def splitLoop : Nat → List (Nat × Nat) → List (Nat × Nat) × List (Nat × Nat)
  | _, [] => ([], [])
  | d, (10, x) :: r => let (b, t) := splitLoop (d + 1) r; ((10, x) :: b, t)
  | 0, (11, _) :: r => ([], r)
  | d + 1, (11, x) :: r => let (b, t) := splitLoop d r; ((11, x) :: b, t)
  | d, e :: r => let (b, t) := splitLoop d r; (e :: b, t)

/-- one iteration of a loop of the write section for the record `x`: the transport write hands
`x` to the transport; markers of inner loops are dropped (an inner loop is part of the iteration) -/
def iteration {α : Type} (x : α) : List (Nat × Nat) → List (Act α)
  | [] => []
  | (0, l) :: r => .acq l :: iteration x r
  | (1, l) :: r => .rel l :: iteration x r
  | (2, _) :: r => .emit x :: iteration x r
  | (10, _) :: r => iteration x r
  | (11, _) :: r => iteration x r
  | _ :: r => .skip :: iteration x r

/-- expand an extracted application-data section of `Write` for a concrete payload (the list of
its records): a LOOP of the section runs once per record — what is inside the loop (a transport
write, but also any `Lock`/`Unlock`) happens per record, what is outside happens once per call; a
transport write outside every loop hands over all records at once -/
def expandWriteF {α : Type} (payload : List α) : Nat → List (Nat × Nat) → List (Act α)
  | 0, _ => []
  | _ + 1, [] => []
  | f + 1, (0, l) :: r => .acq l :: expandWriteF payload f r
  | f + 1, (1, l) :: r => .rel l :: expandWriteF payload f r
  | f + 1, (2, _) :: r => payload.map .emit ++ expandWriteF payload f r
  | f + 1, (10, _) :: r =>
    payload.flatMap (fun x => iteration x (splitLoop 0 r).1) ++ expandWriteF payload f (splitLoop 0 r).2
  | f + 1, (11, _) :: r => expandWriteF payload f r
  | f + 1, _ :: r => .skip :: expandWriteF payload f r

def expandWrite {α : Type} (payload : List α) (evs : List (Nat × Nat)) : List (Act α) :=
  expandWriteF payload (evs.length + 1) evs

/-- `Conn.Write` after the handshake: `c.out.Lock(); defer c.out.Unlock(); writeRecordLocked`
(one `emit` per record of the payload) -/
def writerProg {α : Type} (payload : List α) : List (Act α) :=
  .acq lkOut :: (payload.map .emit ++ [.rel lkOut])

def mkWriter {α : Type} (payload : List α) : Thread α :=
  { prog := writerProg payload, pay := payload }

/-- `Conn.Read` after the handshake, once per requested size: `c.in.Lock()`, copy `n` bytes,
advance the buffer, unlock.  `locked = false` is the same body without the mutex. -/
def readerProg {α : Type} (locked : Bool) : List Nat → List (Act α)
  | [] => []
  | n :: ns =>
    if locked then .acq lkIn :: .copy n :: .advance :: .rel lkIn :: readerProg locked ns
    else .copy n :: .advance :: readerProg locked ns

def mkReader {α : Type} (locked : Bool) (sizes : List Nat) : Thread α :=
  { prog := readerProg locked sizes }

/-! ## handshakeContext -/

inductive HsPc (ε : Type) where
  | start
  | wantHm
  | gotHm
  | wantIn
  | running
  | relIn (r : Option ε)
  | relHm (r : Option ε)
  | done (r : Option ε)

structure HsShared (ε : Type) where
  hm : Bool := false       -- handshakeMutex taken
  inn : Bool := false      -- in taken
  status : Bool := false   -- atomic handshakeStatus == 1
  err : Option ε := none   -- c.handshakeErr
  runs : Nat := 0          -- number of handshakeFn executions so far

/-- `recheck`: the code re-reads handshakeErr and the status after taking handshakeMutex
(regenerated fact `hsRecheckUnderMutex`).  `outcome k` is what the `k`-th execution of
handshakeFn returns (`none` = success, which also sets the status). -/
def hsStep {ε : Type} (recheck : Bool) (outcome : Nat → Option ε) (_others : List (HsPc ε))
    (sh : HsShared ε) : HsPc ε → Option (HsPc ε × HsShared ε)
  | .start => if sh.status then some (.done none, sh) else some (.wantHm, sh)
  | .wantHm => if sh.hm then none else some (.gotHm, { sh with hm := true })
  | .gotHm =>
    if recheck then
      match sh.err with
      | some e => some (.relHm (some e), sh)
      | none => if sh.status then some (.relHm none, sh) else some (.wantIn, sh)
    else some (.wantIn, sh)
  | .wantIn => if sh.inn then none else some (.running, { sh with inn := true })
  | .running =>
    let r := outcome sh.runs
    some (.relIn r, { sh with runs := sh.runs + 1, err := r, status := sh.status || r.isNone })
  | .relIn r => some (.relHm r, { sh with inn := false })
  | .relHm r => some (.done r, { sh with hm := false })
  | .done _ => none

@[reducible] def HsM (ε : Type) (recheck : Bool) (outcome : Nat → Option ε) : Machine where
  Local := HsPc ε
  Shared := HsShared ε
  step := hsStep recheck outcome
  finished := fun pc => match pc with | .done _ => true | _ => false

/-! ## activeCall interlock -/

inductive AcPc where
  | wLoad                 -- Write-like call: about to load activeCall
  | wCas (x : Int)        -- loaded x (even), about to CAS(x, x+2)
  | wIn                   -- passed the loop, inside the call
  | wOut                  -- returned normally (deferred -2 done)
  | wRefused              -- returned net.ErrClosed from the loop
  | cLoad                 -- Close: about to load
  | cCas (x : Int)        -- loaded x, about to CAS(x, x|1)
  | cWon (x : Int)        -- this Close set the bit (x = value seen)
  | cRefused              -- returned net.ErrClosed
  deriving DecidableEq, Repr

def acStep (_others : List AcPc) (ac : Int) : AcPc → Option (AcPc × Int)
  | .wLoad => if ac % 2 = 1 then some (.wRefused, ac) else some (.wCas ac, ac)
  | .wCas x => if ac = x then some (.wIn, ac + 2) else some (.wLoad, ac)
  | .wIn => some (.wOut, ac - 2)
  | .cLoad => if ac % 2 = 1 then some (.cRefused, ac) else some (.cCas ac, ac)
  | .cCas x => if ac = x then some (.cWon x, ac + 1) else some (.cLoad, ac)
  | _ => none

@[reducible] def AcM : Machine where
  Local := AcPc
  Shared := Int
  step := acStep
  finished := fun pc => match pc with
    | .wOut | .wRefused | .cWon _ | .cRefused => true
    | _ => false

end Gotlcp.Model.Locks

/-
The parameters of the negotiation model as regenerated from the Go source
(`Gotlcp.Facts.{tlcp,dtlcp}.*`).  The oracle and the C01 theorems use these definitions.

Two parameters are NOT text facts: the version table (`treeVersions`) and the loop shape of
`negotiateALPN` (`treeAlpnOuterIsFirstArg`) are literal definitions of `Model/Negotiate.lean` which
`Gotlcp.Tie.Negotiate` proves, for all inputs, about the functions TRANSLATED from both stacks on every
run (`Config.supportedVersions`, `Config.mutualVersion`, `supportedVersionsFromMax`, `negotiateALPN`,
`checkALPN`).  What remains a fact about ALPN is the call site in the untranslated
`processClientHello`: the server's list is passed first (`negAlpnCallServerFirst`).

Likewise the preference order, the (empty) list of disabled suites, "the server's preference list is the outer
loop" and the guards of `checkForResumption` are the literals `treePref`, `treeDisabled`, `treeServerPrefFirst`,
`treeResumePolicyGuards`, `treeResumeSuiteGuards`, proved about the translated `Src.*.sel` functions by
`Gotlcp.Tie.Select` / `Gotlcp.Tie.ResumeDecision` (the text facts `negSelectServerFirst`, `negPrefListFromOrder`,
`negResumePolicyGuards`, `negResumeSuiteGuards` are informational).  The suite table, its two flag constants, the
ECDHE ids and the policy numbering stay go/types-evaluated facts.
-/
import Gotlcp.Model.Negotiate
import Gotlcp.Generated.Facts

namespace Gotlcp.Model.Negotiate

inductive Stack where
  | tlcp | dtlcp
  deriving DecidableEq, Repr

/-- (id, flags) of every row of the `cipherSuites` map -/
def knownOf (t : List (Nat × Nat × Nat × Nat × Nat × Bool × String)) : List (Nat × Nat) :=
  t.map fun r => (r.1, r.2.2.2.2.1)

def tlcpParams : Params :=
  { versions := treeVersions, pref := treePref,
    disabled := treeDisabled, known := knownOf Facts.tlcp.suiteTable,
    flagECDHE := Facts.tlcp.suiteECDHE, flagECSign := Facts.tlcp.suiteECSign,
    ecdheIds := Facts.tlcp.negEcdheIds, authIota := Facts.tlcp.negAuthIota,
    requires := Facts.tlcp.negRequiresClientCert,
    serverPrefFirst := treeServerPrefFirst,
    alpnServerFirst := treeAlpnOuterIsFirstArg && Facts.tlcp.negAlpnCallServerFirst,
    clientEcdheGuard := Facts.tlcp.negHelloEcdheGuard,
    encCertNeedsSig := Facts.tlcp.negEncCertNeedsSigCert,
    resumeHonoursPolicy := treeResumePolicyGuards && Facts.tlcp.negResumeReprocessesCerts,
    resumeSuiteGuards := treeResumeSuiteGuards,
    cloneMissing := Facts.tlcp.cloneMissing }

def dtlcpParams : Params :=
  { versions := treeVersions, pref := treePref,
    disabled := treeDisabled, known := knownOf Facts.dtlcp.suiteTable,
    flagECDHE := Facts.dtlcp.suiteECDHE, flagECSign := Facts.dtlcp.suiteECSign,
    ecdheIds := Facts.dtlcp.negEcdheIds, authIota := Facts.dtlcp.negAuthIota,
    requires := Facts.dtlcp.negRequiresClientCert,
    serverPrefFirst := treeServerPrefFirst,
    alpnServerFirst := treeAlpnOuterIsFirstArg && Facts.dtlcp.negAlpnCallServerFirst,
    clientEcdheGuard := Facts.dtlcp.negHelloEcdheGuard,
    encCertNeedsSig := Facts.dtlcp.negEncCertNeedsSigCert,
    resumeHonoursPolicy := treeResumePolicyGuards && Facts.dtlcp.negResumeReprocessesCerts,
    resumeSuiteGuards := treeResumeSuiteGuards,
    cloneMissing := Facts.dtlcp.cloneMissing }

def factsP : Stack → Params
  | .tlcp => tlcpParams
  | .dtlcp => dtlcpParams

end Gotlcp.Model.Negotiate

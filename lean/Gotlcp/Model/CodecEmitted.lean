/-
What the library's message constructors emit (C14 "every message the library emits decodes"):
per kind a decidable predicate `emitted…` describing the shape produced by makeClientHello,
the server's hello / certificate / certificate-request construction, the key agreements, the
Finished computation and the DTLCP cookie exchange, for a configuration whose variable-size inputs
(ServerName, NextProtos, TrustedCAIndications, certificates, staple) fit their wire vectors.
Sizes and tables that come from constants of the source are fields of `EmitParams`, filled from the
regenerated facts in `CodecParams.lean`.
-/
import Gotlcp.Base.Wire
import Gotlcp.Spec.CodecSpec

namespace Gotlcp.Model.Emitted
open Gotlcp Gotlcp.Wire Gotlcp.Wire.Msg

structure EmitParams where
  /-- `VersionTLCP` -/
  vers : Nat
  /-- `rd := make([]byte, N)` in tlcpRand -/
  randLen : Nat
  /-- `hs.hello.sessionId = make([]byte, N)` in the server's doFullHandshake -/
  sidLen : Nat
  /-- `cipherSuitesPreferenceOrder` -/
  suites : List Nat
  compressionNone : Nat
  /-- `SM2WithSM3` -/
  sigSM2 : Nat
  /-- `certReq.certificateTypes = []byte{…}` -/
  certTypes : List Nat
  /-- `finishedVerifyLength` -/
  finishedLen : Nat
  deriving Repr

/-- constructors set only message_seq; fragment_offset / fragment_length stay 0 -/
def emittedDHdr (h : DHdr) : Bool := h.fragOff == 0 && h.fragLen == 0

/-- makeClientHello (+ session id from the cache, + the cookie of a HelloVerifyRequest in dtlcp) -/
def emittedClientHello (p : EmitParams) (dtlcp : Bool) (m : ClientHello) : Bool :=
  m.vers.toNat == p.vers && m.random.length == p.randLen && decide (m.sessionId.length ≤ p.sidLen) &&
  (if dtlcp then decide (m.cookie.length < 256) else m.cookie.length == 0) &&
  decide (0 < m.suites.length ∧ m.suites.length ≤ p.suites.length) &&
  m.suites.all (fun s => p.suites.contains s.toNat) &&
  m.compression == [u8 p.compressionNone] &&
  Spec.Codec.noTrailingDot m.serverName &&
  m.tas.all Spec.Codec.wfTA &&
  m.ocsp == false &&
  (m.sigAlgs.length == 0 || m.sigAlgs == [W16.ofNat p.sigSM2]) &&
  m.alpn.all (fun a => decide (0 < a.length ∧ a.length < 256)) &&
  m.clientId.length == 0 &&
  decide (Spec.Codec.clientExtLen m < 65536)

/-- the server's hello: fresh or echoed session id, selected suite, optional staple / ALPN / SNI ack -/
def emittedServerHello (p : EmitParams) (m : ServerHello) : Bool :=
  m.vers.toNat == p.vers && m.random.length == p.randLen && decide (m.sessionId.length ≤ p.sidLen) &&
  p.suites.contains m.suite.toNat && m.compression == u8 p.compressionNone &&
  (m.ocsp == decide (0 < m.ocspResponse.length)) && decide (1 + 3 + m.ocspResponse.length < 65536) &&
  decide (m.alpn.length < 256) && decide (Spec.Codec.serverExtLen m < 65536)

/-- certificate chains: at least the signing (and encryption) certificate, each a non-empty DER -/
def emittedCertificate (m : Certificate) : Bool :=
  decide (0 < m.certs.length) && m.certs.all (fun c => decide (0 < c.length)) &&
  decide (3 + Spec.Codec.sumLen m.certs 3 < 16777216)

def emittedCertificateRequest (p : EmitParams) (m : CertificateRequest) : Bool :=
  m.types == p.certTypes.map u8 && m.cas.all (fun c => decide (0 < c.length)) &&
  decide (Spec.Codec.sumLen m.cas 2 < 65536)

/-- key exchange bodies: at least a 2-byte length / curve header -/
def emittedKeyExchange (m : Blob) : Bool := decide (2 ≤ m.data.length ∧ m.data.length < 16777216)

def emittedCertificateVerify (m : Blob) : Bool := decide (0 < m.data.length ∧ m.data.length < 65536)

def emittedFinished (p : EmitParams) (m : Blob) : Bool := m.data.length == p.finishedLen

def emittedHelloVerifyRequest (p : EmitParams) (m : HelloVerifyRequest) : Bool :=
  m.vers.toNat == p.vers && decide (0 < m.cookie.length ∧ m.cookie.length < 256)

end Gotlcp.Model.Emitted

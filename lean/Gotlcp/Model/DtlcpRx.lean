/-
Model of the post-handshake receive paths of `dtlcp/conn.go` at the symbolic-record level:
`Conn.ReadFrom` and `Conn.Read` → `readRecord` → `readRecordOrCCS(false)` with
`handshakeComplete = true`.

A datagram is described by what the receive path can distinguish (`Dgram`).  Record
protection is an *input*: `Rec.auth` is the verdict of `halfConn.decrypt` (true = the MAC /
AEAD tag verified under the receive key for exactly this header — epoch and sequence number
are part of the MAC input / additional data).  What ideal record protection guarantees about
`auth` is a hypothesis of the theorems (`Props.C16.Ideal`), not part of the model.

Order inside both paths (regenerated facts `replayRxReadFromOrder`, `replayRxRecordOrder` =
decrypt, epoch < readEpoch, epoch > readEpoch, window check): a record reaches the epoch comparison and
`replayWindow.check` only after `decrypt` succeeded.

`RxParams` tells which text `readRecordOrCCS` has.  `false` — the code before the repair of
finding F14: a datagram that is too short, has the wrong version or an impossible length
(`dropMalformed`), or fails `decrypt` (`dropForged`) latches a permanent error on the read
half; `true` — after the repair: once the handshake is complete such a record is dropped and
reading continues (what `ReadFrom` always did).  Fed from the facts `replayRxRecordDecryptFail` and
`replayRxRecordMalformedDrops`.

Honest post-handshake traffic modelled: application data records and the close_notify alert.
Each call is modelled with exactly one datagram available and an empty queue behind it (the
driver delivers one datagram, then calls once with an expired read deadline): a datagram
that is dropped therefore ends in `timeout` (nothing handed over).

Core Lean only.
-/
import Gotlcp.Model.Replay

namespace Gotlcp.Model.DtlcpRx
open Gotlcp.Model.Replay

inductive Kind where
  | appData       -- recordTypeApplicationData, non-empty
  | closeNotify   -- recordTypeAlert, close_notify
deriving Repr, DecidableEq

/-- a well-formed record: header fields, the verdict of `decrypt`, and what it carries -/
structure Rec where
  epoch   : Nat
  seq     : Nat
  auth    : Bool
  kind    : Kind
  payload : Nat
deriving Repr, DecidableEq

inductive Dgram where
  | otherAddr            -- not from the peer's address: `readDatagram` reads on
  | short                -- fewer than `recordHeaderLen` bytes
  | badVersion           -- header version differs from the negotiated one (cannot authenticate: the version is MACed)
  | oversize             -- length field above `maxCiphertext`
  | truncated            -- length field points beyond the datagram
  | record (r : Rec)
deriving Repr, DecidableEq

inductive Latched where
  | eof      -- close_notify received (`io.EOF`)
  | fatal    -- any other permanent read error
deriving Repr, DecidableEq

structure State where
  cfg       : Int            -- Config.ReplayWindow
  readEpoch : Nat
  win       : Window
  err       : Option Latched -- `c.in.err` (only `readRecordOrCCS` looks at it)
deriving Repr, DecidableEq

inductive Out where
  | data (payload : Nat)   -- handed to the application
  | timeout                -- nothing handed over (the datagram was dropped)
  | eof
  | error
deriving Repr, DecidableEq

/-- which invalid input `readRecordOrCCS` drops once the handshake is complete -/
structure RxParams where
  dropForged    : Bool
  dropMalformed : Bool
deriving Repr, DecidableEq

inductive Path where
  | readFrom
  | read
deriving Repr, DecidableEq

/-- state right after the handshake: the CCS of the peer created a fresh window for epoch 1
and the peer's Finished (epoch 1, sequence number 0) went through it -/
def afterHandshake (p : Params) (cfg : Int) : State :=
  { cfg := cfg, readEpoch := 1, win := (check p (newFromConfig p cfg) 0).1, err := none }

/-! The handshake, as far as the replay window is concerned.  `Server` / `Client` create the
connection — and its epoch-0 window — from the Config they are given.  On a server whose Config
has `GetConfigForClient`, `selectConfigForClient` replaces `c.config` by the Config the callback
returned, after the cookie-verified ClientHello.  Every epoch change (the peer's ChangeCipherSpec
in `readChangeCipherSpec` / `readRecordOrCCS`, the newer-epoch branches of `readRecordOrCCS` and
`ReadFrom`) reads `c.config.ReplayWindow` *then* and builds a new window from it.  The peer's
Finished (epoch 1, sequence number 0) goes through the new window. -/

/-- `Server(conn, addr, config)` / `Client(…)`: epoch 0, window from the Config given -/
def atCreation (p : Params) (created : Int) : State :=
  { cfg := created, readEpoch := 0, win := newFromConfig p created, err := none }

/-- `selectConfigForClient`: `c.config = configForClient` when the callback returned one -/
def installConfig (st : State) : Option Int → State
  | some c => { st with cfg := c }
  | none => st

/-- the peer's ChangeCipherSpec: `c.readEpoch++`, a new window from `c.config` as it is now -/
def onPeerCCS (p : Params) (st : State) : State :=
  { st with readEpoch := st.readEpoch + 1, win := newFromConfig p st.cfg }

/-- state right after a handshake on a connection created with `Config.ReplayWindow = created`
during which `GetConfigForClient` installed a Config with `ReplayWindow = c` (`installed = some c`)
or no other Config (`none`) -/
def afterHandshakeGov (p : Params) (created : Int) (installed : Option Int) : State :=
  let st := onPeerCCS p (installConfig (atCreation p created) installed)
  { st with win := (check p st.win 0).1 }

/-- the common part after a successful `decrypt`: old epoch ⇒ drop; newer epoch ⇒ switch and
start a new window; then `replayWindow.check` -/
def admitRec (p : Params) (st : State) (r : Rec) : State × Bool :=
  if r.epoch < st.readEpoch then (st, false)
  else
    let st1 : State :=
      if r.epoch > st.readEpoch then { st with readEpoch := r.epoch, win := newFromConfig p st.cfg } else st
    let (w, ok) := check p st1.win r.seq
    ({ st1 with win := w }, ok)

/-- one `ReadFrom` call with datagram `d` available and nothing behind it -/
def readFrom (p : Params) (st : State) : Dgram → State × Out
  | .record r =>
    if !r.auth then (st, .timeout)          -- `if err != nil { continue }`
    else
      let (st1, ok) := admitRec p st r
      if !ok then (st1, .timeout)
      else match r.kind with
        | .appData => (st1, .data r.payload)
        | .closeNotify => (st1, .eof)
  | _ => (st, .timeout)

/-- one `Read` call (non-empty buffer) with datagram `d` available and nothing behind it -/
def read (p : Params) (q : RxParams) (st : State) (d : Dgram) : State × Out :=
  match st.err with
  | some .eof => (st, .eof)
  | some .fatal => (st, .error)
  | none =>
    let invalid (drop : Bool) : State × Out :=
      if drop then (st, .timeout) else ({ st with err := some .fatal }, .error)
    match d with
    | .otherAddr => (st, .timeout)
    | .short => invalid q.dropMalformed
    | .badVersion => invalid q.dropMalformed
    | .oversize => invalid q.dropMalformed
    | .truncated => invalid q.dropMalformed
    | .record r =>
      if !r.auth then invalid q.dropForged
      else
        let (st1, ok) := admitRec p st r
        if !ok then (st1, .timeout)
        else match r.kind with
          | .appData => (st1, .data r.payload)
          | .closeNotify => ({ st1 with err := some .eof }, .eof)

def step (p : Params) (q : RxParams) : Path → State → Dgram → State × Out
  | .readFrom => readFrom p
  | .read => read p q

/-- a delivery history: one call per datagram -/
def run (p : Params) (rd : RxParams) (path : Path) (st : State) : List Dgram → State × List Out
  | [] => (st, [])
  | d :: ds =>
    let (st1, o) := step p rd path st d
    let (st2, os) := run p rd path st1 ds
    (st2, o :: os)

/-- the datagrams that are well-formed records passing `decrypt` -/
def Dgram.authentic : Dgram → Bool
  | .record r => r.auth
  | _ => false

/-- the records a history handed to the application, in order -/
def delivered (p : Params) (rd : RxParams) (path : Path) (st : State) : List Dgram → List Rec
  | [] => []
  | d :: ds =>
    let (st1, o) := step p rd path st d
    match d, o with
    | .record r, .data _ => r :: delivered p rd path st1 ds
    | _, _ => delivered p rd path st1 ds

end Gotlcp.Model.DtlcpRx

/-
C07 — executable model of the server's client authentication, mirroring
`tlcp/handshake_server.go` and `dtlcp/handshake_server.go` (identical logic) branch by branch:

* `doFullHandshake`: the local policy `authPolice` (configured policy, promoted for ECDHE
  suites), CertificateRequest / mandatory client Certificate by comparison on `authPolice`,
  `processCertsFromClient` (which consults the **configured** policy `c.config.ClientAuth`),
  ClientKeyExchange, CertificateVerify demanded iff `len(c.peerCertificates) > 0` and verified
  with the first certificate's key over the transcript so far (`verifyHandshakeSignature`, case
  ECC_SM3: type assertion of the key to `*ecdsa.PublicKey`, then the SM2 verification), then
  `readFinished`;
* `checkForResumption` / `doResumeHandshake`;
* the point at which `createSessionState` (the only writer of the server's session cache) is called
  relative to the checks of the full handshake (`Tables.storeAt`, `Result.stored`), and two-connection
  histories over it (`history`).

Everything that is a table, a comparison operator or a threshold in the source is a field of
`Tables`, filled from the regenerated facts (`tablesOf`, fed with `Gotlcp.Facts.*.sa*`), so a
change of the source moves the model.  x509 path validation and SM2 signature verification are
inputs (`Spec.ServerAuthn.Cert`, `CertVerify`).  Core Lean only.
-/
import Gotlcp.Spec.ServerAuthnSpec

namespace Gotlcp.Model.ServerAuthn
open Gotlcp.Spec.ServerAuthn

/-- comparison operators as they are spelled in the source -/
inductive Cmp where
  | ge | gt | eq | ne | lt | le
  deriving DecidableEq, Repr, Inhabited

def Cmp.ofString (s : String) : Option Cmp :=
  if s == ">=" then some .ge else if s == ">" then some .gt else if s == "==" then some .eq
  else if s == "!=" then some .ne else if s == "<" then some .lt else if s == "<=" then some .le
  else none

def Cmp.eval : Cmp → Nat → Nat → Bool
  | .ge, a, b => decide (a ≥ b)
  | .gt, a, b => decide (a > b)
  | .eq, a, b => a == b
  | .ne, a, b => a != b
  | .lt, a, b => decide (a < b)
  | .le, a, b => decide (a ≤ b)

/-- which extended key usages the chain verification accepts (unless usage is ignored) -/
inductive Usages where
  | clientOnly | clientOrServer
  deriving DecidableEq, Repr, Inhabited

/-- where the source calls `createSessionState` (the only writer of the server's session cache)
in a full handshake -/
inductive StorePoint where
  /-- in `doFullHandshake`, as soon as `hs.masterSecret` is derived from the ClientKeyExchange
  (before the CertificateVerify is read) -/
  | afterKx
  /-- after the CertificateVerify block / after `doFullHandshake` returned nil, before `readFinished` -/
  | afterCertVerify
  /-- in `handshake()`, after `readFinished` returned nil (the source as it stands) -/
  | afterFinished
  deriving DecidableEq, Repr, Inhabited

def StorePoint.ofString (s : String) : Option StorePoint :=
  if s == "afterKx" then some .afterKx else if s == "afterCertVerify" then some .afterCertVerify
  else if s == "afterFinished" then some .afterFinished else none

/-- the source's tables and thresholds -/
structure Tables where
  /-- `ClientAuthType` constants in iota order -/
  order : List Policy
  /-- the policies for which `requiresClientCert` returns true -/
  requires : List Policy
  /-- ECDHE: `if authPolice <promoteCmp> <promoteExcept> { authPolice = <promoteTo> }` -/
  promoteCmp : Cmp
  promoteExcept : Policy
  promoteTo : Policy
  /-- CertificateRequest is sent iff `authPolice <certReqCmp> <certReqRhs>` -/
  certReqCmp : Cmp
  certReqRhs : Policy
  /-- a client Certificate message is mandatory iff `authPolice <certMsgCmp> <certMsgRhs>` -/
  certMsgCmp : Cmp
  certMsgRhs : Policy
  /-- chains are verified iff `c.config.ClientAuth <verifyCmp> <verifyRhs> && len(certs) > 0` -/
  verifyCmp : Cmp
  verifyRhs : Policy
  /-- the policy under which key usage is ignored -/
  anyUsage : Policy
  usages : Usages
  /-- `len(certs) < ecdheMin && isECDHE` is an error -/
  ecdheMin : Nat
  /-- CertificateVerify is demanded iff `len(c.peerCertificates) <cvCmp> <cvRhs>` -/
  cvCmp : Cmp
  cvRhs : Nat
  /-- `checkForResumption` refuses when the policy requires a certificate and the session has none -/
  resumeNeedGuard : Bool
  /-- … and when the session has certificates and the policy is `NoClientCert` -/
  resumeNoPolicyGuard : Bool
  /-- `doResumeHandshake` re-runs `processCertsFromClient` on the recorded certificates -/
  resumeReverify : Bool
  /-- `verifyHandshakeSignature`: a public key that is not of the asserted type
  (`pubkey.(*ecdsa.PublicKey)` fails) makes it return an error -/
  vhsAssertReturns : Bool
  /-- where `createSessionState` is called in a full handshake -/
  storeAt : StorePoint
  deriving DecidableEq, Repr, Inhabited

namespace Tables

/-- the numeric value of a policy constant -/
def ord (t : Tables) (p : Policy) : Nat := t.order.idxOf p

def requiresClientCert (t : Tables) (p : Policy) : Bool := t.requires.contains p

def cmpPol (t : Tables) (c : Cmp) (a b : Policy) : Bool := c.eval (t.ord a) (t.ord b)

end Tables

/-- build the tables from the extracted facts; `none` when a name is not one of the six
policies or an operator is not a comparison -/
def tablesOf (order : List String) (requires : List (String × Bool))
    (promoteOp promoteExcept promoteTo certReqOp certReqRhs certMsgOp certMsgRhs
     verifyOp verifyRhs anyUsage : String) (usages : List String) (ecdheMin : Nat)
    (cvOp : String) (cvRhs : Nat) (g1 g2 rv ar : Bool) (storeAt : String) : Option Tables := do
  let ord ← order.mapM Policy.ofName
  let req ← (requires.filter (·.2)).mapM (fun r => Policy.ofName r.1)
  let pc ← Cmp.ofString promoteOp
  let pe ← Policy.ofName promoteExcept
  let pt ← Policy.ofName promoteTo
  let rc ← Cmp.ofString certReqOp
  let rr ← Policy.ofName certReqRhs
  let mc ← Cmp.ofString certMsgOp
  let mr ← Policy.ofName certMsgRhs
  let vc ← Cmp.ofString verifyOp
  let vr ← Policy.ofName verifyRhs
  let au ← Policy.ofName anyUsage
  let us ← if usages == ["ExtKeyUsageClientAuth"] then some Usages.clientOnly
           else if usages == ["ExtKeyUsageClientAuth", "ExtKeyUsageServerAuth"] then some Usages.clientOrServer
           else none
  let cc ← Cmp.ofString cvOp
  let sp ← StorePoint.ofString storeAt
  pure { order := ord, requires := req, promoteCmp := pc, promoteExcept := pe, promoteTo := pt,
         certReqCmp := rc, certReqRhs := rr, certMsgCmp := mc, certMsgRhs := mr,
         verifyCmp := vc, verifyRhs := vr, anyUsage := au, usages := us, ecdheMin := ecdheMin,
         cvCmp := cc, cvRhs := cvRhs, resumeNeedGuard := g1, resumeNoPolicyGuard := g2,
         resumeReverify := rv, vhsAssertReturns := ar, storeAt := sp }

/-- where a handshake stopped -/
inductive Stage where
  | order      -- a message other than the expected one (unexpected_message)
  | parse      -- a certificate does not parse
  | nocert     -- "client didn't provide a certificate"
  | ecdheCerts -- "client didn't provide both sign/enc certificates for ECDHE suite"
  | chain      -- chain verification failed
  | keyType    -- unsupported public key
  | kx         -- key exchange failed
  | pop        -- "invalid signature by the client certificate"
  | finished   -- ChangeCipherSpec / Finished missing or wrong
  | panic      -- index out of range (unreachable with the extracted thresholds)
  | done
  deriving DecidableEq, Repr, Inhabited

def Stage.name : Stage → String
  | .order => "order" | .parse => "parse" | .nocert => "nocert" | .ecdheCerts => "ecdhe2"
  | .chain => "chain" | .keyType => "keytype" | .kx => "kx" | .pop => "pop"
  | .finished => "finished" | .panic => "panic" | .done => "done"

/-- result of `processCertsFromClient` -/
structure Certs where
  /-- `len(c.peerCertificates)` afterwards -/
  peer : Nat
  /-- `c.verifiedChains` was set (non-empty) -/
  chains : Bool
  /-- the kind of `c.peerCertificates[0].PublicKey` (`none`: no peer certificate) -/
  leaf : Option KeyKind
  deriving DecidableEq, Repr, Inhabited

/-- verdict of `certs[i].Verify(opts)` for the key usages the source passes -/
def chainOK (t : Tables) (p : Policy) (c : Cert) : Bool :=
  if p == t.anyUsage then c.okAnyUsage
  else match t.usages with
    | .clientOnly => c.okClient
    | .clientOrServer => c.okClientOrServer

/-- `(*Conn).processCertsFromClient`; `p` is the **configured** policy `c.config.ClientAuth` -/
def processCerts (t : Tables) (p : Policy) (ecdhe : Bool) (certs : List Cert) (parseOK : Bool) :
    Except Stage Certs :=
  if !parseOK && !certs.isEmpty then .error .parse      -- the parse loop runs once per certificate
  else if certs.length == 0 && t.requiresClientCert p then .error .nocert
  else if decide (certs.length < t.ecdheMin) && ecdhe then .error .ecdheCerts
  else
    let verify := t.cmpPol t.verifyCmp p t.verifyRhs && decide (certs.length > 0)
    -- chain verification: certs[0], and certs[1] for ECDHE
    let v : Except Stage Bool :=
      if verify then
        match certs[0]? with
        | none => .error .panic
        | some c0 =>
          if !chainOK t p c0 then .error .chain
          else if ecdhe then
            match certs[1]? with
            | none => .error .panic
            | some c1 => if !chainOK t p c1 then .error .chain else .ok true
          else .ok true
      else .ok false
    match v with
    | .error s => .error s
    | .ok chains =>
      -- c.peerCertificates = certs; then the key kinds
      if certs.length > 0 then
        match certs[0]? with
        | none => .error .panic
        | some c0 =>
          if !c0.keyOK then .error .keyType
          else if ecdhe then
            match certs[1]? with
            | none => .error .panic
            | some c1 => if !c1.keyOK then .error .keyType else .ok ⟨certs.length, chains, some c0.key⟩
          else .ok ⟨certs.length, chains, some c0.key⟩
      else .ok ⟨certs.length, chains, none⟩

/-- result of a server handshake -/
structure Result where
  completed : Bool
  stage : Stage
  /-- a CertificateRequest was sent -/
  certReq : Bool
  /-- `len(ConnectionState().PeerCertificates)` -/
  peerCerts : Nat
  /-- `len(ConnectionState().VerifiedChains) > 0` -/
  chains : Bool
  /-- `verifyHandshakeSignature` ran on the CertificateVerify and returned nil -/
  popChecked : Bool
  /-- number of certificates `createSessionState` records (`hs.peerCertificates`; 0 when it
  did not run) -/
  recorded : Nat
  /-- `createSessionState` ran: the server's cache now holds a session under the id announced in
  the ServerHello, with the master secret of this handshake and `recorded` certificates -/
  stored : Bool
  deriving DecidableEq, Repr, Inhabited

/-- the local variable `authPolice` of `doFullHandshake` -/
def authPolice (t : Tables) (p : Policy) (ecdhe : Bool) : Policy :=
  if ecdhe then (if t.cmpPol t.promoteCmp p t.promoteExcept then t.promoteTo else p) else p

def certReqSent (t : Tables) (p : Policy) (ecdhe : Bool) : Bool :=
  t.cmpPol t.certReqCmp (authPolice t p ecdhe) t.certReqRhs

def certMsgExpected (t : Tables) (p : Policy) (ecdhe : Bool) : Bool :=
  t.cmpPol t.certMsgCmp (authPolice t p ecdhe) t.certMsgRhs

/-- `verifyHandshakeSignature(ECC_SM3, pub, …)` returns nil — every suite of the stacks maps to the
signature type ECC_SM3 (`typeAndHashFrom`, pinned by `shapeOK`).  `k` is the kind of `pub`
(`c.peerCertificates[0].PublicKey`; `none`: the nil interface).  An elliptic-curve key passes the
type assertion and the verdict is the one of `sm2.VerifyASN1WithSM2` (an input: `v.valid`); any
other key fails the assertion, which is an error iff the source returns one there. -/
def verifySig (t : Tables) (k : Option KeyKind) (v : CertVerify) : Bool :=
  match k with
  | some .sm2 | some .ecOther => v.valid
  | _ => !t.vhsAssertReturns

/-- the part of `doFullHandshake` after the client's Certificate message (if any), followed by
`readFinished` and `createSessionState`; `pc` is what `processCertsFromClient` left in the
connection.  A handshake that stops has stored a session iff the source's `createSessionState`
call (`t.storeAt`) lies before the step it stops at. -/
def afterCerts (t : Tables) (b : Behaviour) (req : Bool) (pc : Certs) (recorded : Nat) : Result :=
  let fail (s : Stage) (pop : Bool) (stored : Bool) : Result :=
    { completed := false, stage := s, certReq := req, peerCerts := pc.peer, chains := pc.chains,
      popChecked := pop, recorded := if stored then recorded else 0, stored := stored }
  -- the session is already in the cache while the CertificateVerify / the Finished is awaited
  let atCV : Bool := t.storeAt == .afterKx
  let atFin : Bool := t.storeAt == .afterKx || t.storeAt == .afterCertVerify
  if !b.kxOK then fail .kx false false
  else if t.cvCmp.eval pc.peer t.cvRhs then
    -- CertificateVerify is mandatory here
    match b.cv with
    | none => fail .order false atCV
    | some v =>
      if !verifySig t pc.leaf v then fail .pop false atCV
      else if !b.finishedOK then fail .finished true atFin
      else { completed := true, stage := .done, certReq := req, peerCerts := pc.peer,
             chains := pc.chains, popChecked := true, recorded := recorded, stored := true }
  else
    match b.cv with
    | some _ => fail .order false atFin        -- a handshake message where ChangeCipherSpec is expected
    | none =>
      if !b.finishedOK then fail .finished false atFin
      else { completed := true, stage := .done, certReq := req, peerCerts := pc.peer,
             chains := pc.chains, popChecked := false, recorded := recorded, stored := true }

/-- `doFullHandshake` + `readFinished` (+ `createSessionState`) under the configured policy `p` -/
def full (t : Tables) (p : Policy) (b : Behaviour) : Result :=
  let req := certReqSent t p b.ecdhe
  let fail (s : Stage) : Result :=
    { completed := false, stage := s, certReq := req, peerCerts := 0, chains := false,
      popChecked := false, recorded := 0, stored := false }
  if certMsgExpected t p b.ecdhe then
    if !b.certMsg then fail .order
    else match processCerts t p b.ecdhe b.certs b.parseOK with
      | .error s => fail s
      | .ok pc => afterCerts t b req pc pc.peer
  else
    if b.certMsg then fail .order
    else afterCerts t b req ⟨0, false, none⟩ 0

def serverCompletes (t : Tables) (p : Policy) (b : Behaviour) : Bool := (full t p b).completed

/-! ### resumption -/

/-- what the second connection of a history brings -/
structure Resume where
  /-- the offered session id is in the cache of the server now answering -/
  cacheHit : Bool
  /-- the remaining checks of `checkForResumption` (version, suite still offered and usable) -/
  mechOK : Bool
  /-- the session's suite is ECDHE -/
  ecdhe : Bool
  /-- the client certificates recorded in the session, judged under the configuration **now**
  in force (client roots, time) -/
  recorded : List Cert
  /-- the client's Finished on the abbreviated handshake is correct -/
  finishedOK : Bool
  deriving DecidableEq, Repr, Inhabited

inductive ROutcome where
  /-- `checkForResumption` returned false: a full handshake follows -/
  | notResumed
  | resumedDone (peerCerts : Nat) (chains : Bool)
  | resumedFailed (s : Stage)
  deriving DecidableEq, Repr, Inhabited

/-- `checkForResumption` -/
def checkForResumption (t : Tables) (p : Policy) (r : Resume) : Bool :=
  if !r.cacheHit then false
  else if t.resumeNeedGuard && t.requiresClientCert p && r.recorded.isEmpty then false
  else if t.resumeNoPolicyGuard && !r.recorded.isEmpty && p == .noClientCert then false
  else r.mechOK

/-- `checkForResumption` + `doResumeHandshake` + `readFinished` under policy `p` -/
def resume (t : Tables) (p : Policy) (r : Resume) : ROutcome :=
  if !checkForResumption t p r then .notResumed
  else
    let pc : Except Stage Certs :=
      if t.resumeReverify then processCerts t p r.ecdhe r.recorded true
      else .ok ⟨r.recorded.length, false, r.recorded.head?.map (·.key)⟩   -- c.peerCertificates = sessionState.peerCertificates
    match pc with
    | .error s => .resumedFailed s
    | .ok c => if r.finishedOK then .resumedDone c.peer c.chains else .resumedFailed .finished

def resumedCompletes (t : Tables) (p : Policy) (r : Resume) : Bool :=
  match resume t p r with
  | .resumedDone _ _ => true
  | _ => false

/-- **A history of two connections**: a full handshake of behaviour `b1` under policy `p1`, then a
connection that offers (`offer`) the session id announced in the first one to a server under `p2`
sharing the cache.  The cache answers iff `createSessionState` ran in the first handshake
(`Result.stored`) — completed or not; `now` are the certificates it recorded, judged under the
configuration of the second server. -/
def history (t : Tables) (p1 p2 : Policy) (b1 : Behaviour) (now : List Cert) (offer mech fin : Bool) : ROutcome :=
  resume t p2 { cacheHit := (full t p1 b1).stored && offer, mechOK := mech, ecdhe := b1.ecdhe,
                recorded := now, finishedOK := fin }

/-! ### what the second connection of a history reports

A server `Conn` starts with empty `peerCertificates` / `verifiedChains`.  In the source these fields
are written by `processCertsFromClient` only, which runs on the client's Certificate message of a
full handshake (`doFullHandshake`) and on the certificates recorded in the session once
`checkForResumption` has returned true (`doResumeHandshake`).  `checkForResumption` itself only
READS the cached session: when it declines — cache miss, the policy gate, or any of its remaining
checks (`Resume.mechOK`: version, suite still offered and usable) — the connection is as fresh as
before and the full handshake that follows on it is `full`, whatever the session contained. -/

/-- whose certificate heads a list the connection reports -/
inductive Owner where
  | nobody
  /-- the client of this connection (what its Certificate message carried) -/
  | thisClient
  /-- the client whose handshake created the session being resumed -/
  | session
  deriving DecidableEq, Repr, Inhabited

/-- `ConnectionState()` of a server connection after `Handshake()` -/
structure Report where
  completed : Bool
  /-- `checkForResumption` returned true (`DidResume` once completed) -/
  resumed : Bool
  /-- `len(PeerCertificates)` -/
  peers : Nat
  /-- `len(VerifiedChains) > 0` -/
  chains : Bool
  peerOwner : Owner
  chainOwner : Owner
  stage : Stage
  /-- a CertificateRequest was sent (`none`: no full-handshake flight) -/
  certReq : Option Bool
  deriving DecidableEq, Repr, Inhabited

def reportFull (r : Result) : Report :=
  { completed := r.completed, resumed := false, peers := r.peerCerts, chains := r.chains,
    peerOwner := if r.peerCerts == 0 then .nobody else .thisClient,
    chainOwner := if r.chains then .thisClient else .nobody,
    stage := r.stage, certReq := some r.certReq }

/-- **The second connection of a history**, whichever way it goes: its ClientHello offers
(`offer`) the session id announced in the first connection (behaviour `b1` under `p1`), the checks of
`checkForResumption` that have nothing to do with client authentication hold or not (`mech`), and
when the resumption is declined the client plays `b2` on the full handshake that follows. -/
def second (t : Tables) (p1 p2 : Policy) (b1 : Behaviour) (now : List Cert) (offer mech : Bool)
    (b2 : Behaviour) : Report :=
  match history t p1 p2 b1 now offer mech b2.finishedOK with
  | .notResumed => reportFull (full t p2 b2)
  | .resumedDone n ch =>
    { completed := true, resumed := true, peers := n, chains := ch,
      peerOwner := if n == 0 then .nobody else .session,
      chainOwner := if ch then .session else .nobody, stage := .done, certReq := none }
  | .resumedFailed s =>
    { completed := false, resumed := true, peers := 0, chains := false, peerOwner := .nobody,
      chainOwner := .nobody, stage := s, certReq := none }

/-- the client behaviour that created a session, as far as the session still shows it: the
recorded certificates (re-judged now); a session only ever records certificates of a completed
handshake, whose CertificateVerify was therefore checked under the first certificate's key
(`C07_session_pop`) -/
def origOf (r : Resume) : Behaviour :=
  { ecdhe := r.ecdhe, certMsg := !r.recorded.isEmpty, certs := r.recorded, parseOK := true,
    kxOK := true, cv := if r.recorded.isEmpty then none else some ⟨true, true⟩, finishedOK := true }

end Gotlcp.Model.ServerAuthn

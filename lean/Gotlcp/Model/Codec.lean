/-
Executable model of tlcp/handshake_messages.go (4-byte header) and of everything the two
stacks share: the bodies of the hello messages and their extension blocks (cryptobyte based in
both stacks), certificate and certificate-request codecs (hand-indexed in both stacks, modelled
once with the header length as a parameter).

Conventions (DESIGN.md section 4):
* a cryptobyte.Builder is `Option Bytes` (`none` = `Bytes()` returns an error);
* a cryptobyte.String parser is `Bytes → Option (α × Bytes)`;
* hand-indexed Go code uses the checked accessors of `Wire` and returns `Outcome`
  (`panic` where the Go runtime would panic);
* `marshal` on a message with a non-nil `raw` returns `raw`; the model covers fresh messages
  (the driver observes the cache separately as `raw=`).

All constants come in through `Codes` (filled from the regenerated facts by the oracle and by the
property theorems), so this file does not depend on `Generated/Facts.lean`.
-/
import Gotlcp.Base.Wire

namespace Gotlcp.Model.Codec
open Gotlcp Gotlcp.Wire Gotlcp.Wire.Msg

structure Codes where
  tClientHello : Nat
  tServerHello : Nat
  tHelloVerifyRequest : Nat
  tCertificate : Nat
  tServerKeyExchange : Nat
  tCertificateRequest : Nat
  tServerHelloDone : Nat
  tCertificateVerify : Nat
  tClientKeyExchange : Nat
  tFinished : Nat
  extServerName : Nat
  extTrustedCAKeys : Nat
  extStatusRequest : Nat
  extSupportedCurves : Nat
  extSignatureAlgorithms : Nat
  extALPN : Nat
  extClientID : Nat
  taPreAgreed : Nat
  taX509Name : Nat
  taKeyHash : Nat
  taCertHash : Nat
  /-- literal of `addBytesWithLength(b, m.random, N)` / `ReadBytes(&m.random, N)` -/
  randomLen : Nat
  /-- literal of `ReadBytes(&ta.Identifier, N)` -/
  hashLen : Nat
  /-- header length: 4 (tlcp) / `dtlcpHeaderLen` -/
  hl : Nat
  maxHandshake : Nat
  /-- clientHello: where `m.supportedCurves = make(…)` / `m.supportedSignatureAlgorithms = make(…)`
  sits in unmarshal: 0 = nowhere (items are appended, also across repeated extensions; tlcp),
  1 = before the item loop (the list of the last such extension), 2 = inside the item loop
  (only the last item survives; dtlcp before repair F28) -/
  curvesMode : Nat
  sigAlgsMode : Nat
  /-- type codes of the messages whose unmarshal starts with the complete-message guard
  (`tlcpIsCompleteMessage`, repair F18b / `dtlcpIsCompleteMessage`, repair F18a) -/
  complete : List Nat
  deriving Repr

def isEmpty (s : Bytes) : Bool := match s with | [] => true | _ => false

/-- `if !xIsCompleteMessage(data, t) { return false }` in front of the rest `k` of an unmarshal
(`on` = this unmarshal has the guard) -/
def guardWith {α : Type} (on : Bool) (chk : Outcome Bool) (k : Outcome α) : Outcome α :=
  if on then
    match chk with
    | .ok true => k
    | .ok false => .reject
    | .reject => .reject
    | .panic => .panic
  else k

/-- `tlcpIsCompleteMessage(data, msgType)` (repair F18b), hand-indexed -/
def tlcpIsCompleteMessage (data : Bytes) (t : Nat) : Outcome Bool :=
  if data.length < 4 then .ok false else do
    let ty ← idx data 0
    if ty ≠ u8 t then .ok false else do
      let l ← idx24 data 1
      .ok (decide (l = data.length - 4))

def guardT {α : Type} (c : Codes) (t : Nat) (data : Bytes) (k : Outcome α) : Outcome α :=
  guardWith (c.complete.contains t) (tlcpIsCompleteMessage data t) k

/-! ## opaque-body messages of tlcp -/

/-- finishedMsg.marshal (cryptobyte) -/
def encFinished (c : Codes) (m : Blob) : Option Bytes :=
  match vec24 m.data with
  | some v => some (u8 c.tFinished :: v)
  | none => none

/-- finishedMsg.unmarshal: `s.Skip(1) && readUint24LengthPrefixed(&s, &m.verifyData) && s.Empty()` -/
def decFinished (data : Bytes) : Outcome Blob :=
  match skip 1 data with
  | none => .reject
  | some s =>
    match readVec24 s with
    | none => .reject
    | some (vd, r) => if isEmpty r then .ok ⟨vd⟩ else .reject

/-- serverHelloDoneMsg.marshal: `x := make([]byte, 4); x[0] = typeServerHelloDone` -/
def encServerHelloDone (c : Codes) : Option Bytes := some [u8 c.tServerHelloDone, 0, 0, 0]

/-- serverHelloDoneMsg.unmarshal: `len(data) == 4` -/
def decServerHelloDone (data : Bytes) : Outcome Unit :=
  if data.length = 4 then .ok () else .reject

/-- certificateVerifyMsg.marshal (cryptobyte) -/
def encCertificateVerify (c : Codes) (m : Blob) : Option Bytes :=
  match vec16 m.data with
  | none => none
  | some s =>
    match vec24 s with
    | none => none
    | some b => some (u8 c.tCertificateVerify :: b)

/-- certificateVerifyMsg.unmarshal: `s.Skip(4)`, `readUint16LengthPrefixed`, `s.Empty()` -/
def decCertificateVerify (data : Bytes) : Outcome Blob :=
  match skip 4 data with
  | none => .reject
  | some s =>
    match readVec16 s with
    | none => .reject
    | some (sig, r) => if isEmpty r then .ok ⟨sig⟩ else .reject

/-- serverKeyExchangeMsg.marshal / clientKeyExchangeMsg.marshal (hand-written, lengths truncate) -/
def encKeyMsg (t : Nat) (m : Blob) : Option Bytes :=
  some (u8 t :: (be24 m.data.length ++ m.data))

/-- serverKeyExchangeMsg.unmarshal: `len(data) < 4`, `m.key = data[4:]` -/
def decServerKeyExchange (data : Bytes) : Outcome Blob :=
  if data.length < 4 then .reject else do
    let k ← sliceFrom data 4
    pure ⟨k⟩

/-- clientKeyExchangeMsg.unmarshal -/
def decClientKeyExchange (data : Bytes) : Outcome Blob :=
  if data.length < 4 then .reject else do
    let l ← idx24 data 1
    if l ≠ data.length - 4 then .reject else do
      let k ← sliceFrom data 4
      pure ⟨k⟩

/-! ## certificate (hand-indexed in both stacks; `hl` = header length) -/

def certItem (c : Bytes) : Bytes := be24 c.length ++ c

/-- everything after the header of certificateMsg.marshal -/
def encCertificateBody (m : Certificate) : Bytes :=
  let inner := concatMap certItem m.certs
  be24 inner.length ++ inner

def encCertificate (c : Codes) (m : Certificate) : Option Bytes :=
  let body := encCertificateBody m
  some (u8 c.tCertificate :: (be24 body.length ++ body))

/-- first loop: `for certsLen > 0 { … numCerts++ }` with uint32 arithmetic on certsLen -/
def certCount : Nat → Bytes → Nat → Nat → Outcome Nat
  | 0, _, _, _ => .reject
  | f + 1, d, certsLen, n =>
    if certsLen = 0 then .ok n
    else if d.length < 4 then .reject
    else do
      let certLen ← idx24 d 0
      if d.length < 3 + certLen then .reject else do
        let d' ← sliceFrom d (3 + certLen)
        certCount f d' ((certsLen + 4294967296 - (3 + certLen)) % 4294967296) (n + 1)

/-- second loop: `for i := 0; i < numCerts; i++ { certLen := …; certificates[i] = d[3:3+certLen]; d = d[3+certLen:] }`
(no length checks in the Go code) -/
def certSplit : Nat → Bytes → Outcome (List Bytes)
  | 0, _ => .ok []
  | n + 1, d => do
    let certLen ← idx24 d 0
    let c ← slice d 3 (3 + certLen)
    let d' ← sliceFrom d (3 + certLen)
    let rest ← certSplit n d'
    pure (c :: rest)

/-- certificateMsg.unmarshal from the length check on (`hl` = 4: `len(data) < 7`, `certsLen+7`) -/
def decCertificateAt (hl : Nat) (data : Bytes) : Outcome Certificate :=
  if data.length < hl + 3 then .reject else do
    let certsLen ← idx24 data hl
    if data.length ≠ certsLen + hl + 3 then .reject else do
      let d ← sliceFrom data (hl + 3)
      let n ← certCount (d.length + 1) d certsLen 0
      let cs ← certSplit n d
      pure ⟨cs⟩

def decCertificate (c : Codes) (data : Bytes) : Outcome Certificate := decCertificateAt c.hl data

/-! ## certificate request (hand-indexed in both stacks) -/

def caItem (c : Bytes) : Bytes := be16 c.length ++ c

def encCertificateRequestBody (m : CertificateRequest) : Bytes :=
  let cas := concatMap caItem m.cas
  u8 m.types.length :: (m.types ++ (be16 cas.length ++ cas))

def encCertificateRequest (c : Codes) (m : CertificateRequest) : Option Bytes :=
  let body := encCertificateRequestBody m
  some (u8 c.tCertificateRequest :: (be24 body.length ++ body))

/-- `for len(cas) > 0 { … }` -/
def casLoop : Nat → Bytes → Outcome (List Bytes)
  | 0, _ => .reject
  | f + 1, cas =>
    if cas.length = 0 then .ok []
    else if cas.length < 2 then .reject
    else do
      let caLen ← idx16 cas 0
      let cas1 ← sliceFrom cas 2
      if cas1.length < caLen then .reject else do
        let ca ← slice cas1 0 caLen
        let cas2 ← sliceFrom cas1 caLen
        let rest ← casLoop f cas2
        pure (ca :: rest)

/-- certificateRequestMsg.unmarshal (`hl` = 4: `len(data) < 5`, `data[4]`, `data[5:]`) -/
def decCertificateRequestAt (hl : Nat) (data : Bytes) : Outcome CertificateRequest :=
  if data.length < hl + 1 then .reject else do
    let length ← idx24 data 1
    if data.length - hl ≠ length then .reject else do
      let numCertTypes ← idx data hl
      let n := numCertTypes.toNat
      let d ← sliceFrom data (hl + 1)
      if n = 0 ∨ d.length ≤ n then .reject else
        let types := d.take n                      -- make + copy
        if types.length ≠ n then .reject else do   -- `copy(...) != numCertTypes`
          let d1 ← sliceFrom d n
          if d1.length < 2 then .reject else do
            let casLength ← idx16 d1 0
            let d2 ← sliceFrom d1 2
            if d2.length < casLength then .reject else do
              let cas := d2.take casLength         -- make + copy
              let d3 ← sliceFrom d2 casLength
              let l ← casLoop (cas.length + 1) cas
              if d3.length = 0 then .ok ⟨types, l⟩ else .reject

def decCertificateRequest (c : Codes) (data : Bytes) : Outcome CertificateRequest :=
  decCertificateRequestAt c.hl data

/-! ## hello extension blocks (cryptobyte; identical text in both stacks) -/

def optBytes (b : Bool) (x : Option Bytes) : Option Bytes := if b then x else some []

/-- `b.AddUint8(x)` followed by a length-prefixed child -/
def prefixed (x : UInt8) (o : Option Bytes) : Option Bytes :=
  match o with
  | some v => some (x :: v)
  | none => none

/-- one trusted authority inside the builder loop -/
def encTA (c : Codes) (ta : TA) : Option Bytes :=
  if ta.ty.toNat = c.taPreAgreed then some [ta.ty]
  else if ta.ty.toNat = c.taKeyHash ∨ ta.ty.toNat = c.taCertHash then some (ta.ty :: ta.id)
  else if ta.ty.toNat = c.taX509Name then prefixed ta.ty (vec16 ta.id)
  else some [ta.ty]

/-- `exts.AddUint16(code); exts.AddUint16LengthPrefixed(body)` -/
def ext (code : Nat) (body : Option Bytes) : Option Bytes :=
  match body with
  | none => none
  | some b =>
    match vec16 b with
    | some v => some (be16 code ++ v)
    | none => none

/-- `AddUint16LengthPrefixed(func { AddUint16LengthPrefixed(inner) })` -/
def vec16x2 (inner : Option Bytes) : Option Bytes :=
  match inner with
  | none => none
  | some b => vec16 b

def alpnItem (p : Bytes) : Option Bytes := vec8 p

def encSNI (c : Codes) (name : Bytes) : Option Bytes :=
  ext c.extServerName (vec16x2 (prefixed 0 (vec16 name)))

def encClientExtensions (c : Codes) (m : ClientHello) : Option Bytes :=
  match optBytes (decide (m.serverName.length > 0)) (encSNI c m.serverName),
        optBytes (decide (m.tas.length > 0)) (ext c.extTrustedCAKeys (vec16x2 (concatMapM (encTA c) m.tas))),
        optBytes m.ocsp (ext c.extStatusRequest (some [1, 0, 0, 0, 0])),
        optBytes (decide (m.curves.length > 0)) (ext c.extSupportedCurves (vec16x2 (some (w16s m.curves)))),
        optBytes (decide (m.sigAlgs.length > 0)) (ext c.extSignatureAlgorithms (vec16x2 (some (w16s m.sigAlgs)))),
        optBytes (decide (m.alpn.length > 0)) (ext c.extALPN (vec16x2 (concatMapM alpnItem m.alpn))),
        optBytes (decide (m.clientId.length > 0)) (ext c.extClientID (vec16x2 (some m.clientId))) with
  | some e1, some e2, some e3, some e4, some e5, some e6, some e7 => some (e1 ++ e2 ++ e3 ++ e4 ++ e5 ++ e6 ++ e7)
  | _, _, _, _, _, _, _ => none

/-- `addBytesWithLength(b, v, n)` -/
def exactly (n : Nat) (v : Bytes) : Option Bytes := if v.length = n then some v else none

/-- `if len(extBytes) > 0 { b.AddUint16LengthPrefixed(extBytes) }` -/
def extBlock (e : Bytes) : Option Bytes := if e.length > 0 then vec16 e else some []

/-- body of clientHelloMsg.marshal (`dtlcp`: with the cookie vector) -/
def encClientHelloBody (c : Codes) (dtlcp : Bool) (m : ClientHello) : Option Bytes :=
  match encClientExtensions c m with
  | none => none
  | some e =>
    match exactly c.randomLen m.random, vec8 m.sessionId, optBytes dtlcp (vec8 m.cookie),
          vec16 (w16s m.suites), vec8 m.compression, extBlock e with
    | some rnd, some sid, some ck, some cs, some cm, some ex =>
      some (m.vers.bytes ++ rnd ++ sid ++ ck ++ cs ++ cm ++ ex)
    | _, _, _, _, _, _ => none

def encClientHello (c : Codes) (m : ClientHello) : Option Bytes :=
  match encClientHelloBody c false m with
  | none => none
  | some body =>
    match vec24 body with
    | some v => some (u8 c.tClientHello :: v)
    | none => none

def lastDot (name : Bytes) : Bool :=
  match name.getLast? with
  | some b => b == 46
  | none => false

/-- body of `for !nameList.Empty()` -/
def sniStep (m : ClientHello) (s : Bytes) : Option (ClientHello × Bytes) :=
  match readU8 s with
  | none => none
  | some (nameType, s1) =>
    match readVec16 s1 with
    | none => none
    | some (name, s2) =>
      if isEmpty name then none
      else if nameType ≠ 0 then some (m, s2)
      else if m.serverName.length ≠ 0 then some (m, s2)
      else if lastDot name then none
      else some ({ m with serverName := name }, s2)

/-- body of `for !taList.Empty()` -/
def taStep (c : Codes) (m : ClientHello) (s : Bytes) : Option (ClientHello × Bytes) :=
  match readU8 s with
  | none => none
  | some (ty, s1) =>
    if ty.toNat = c.taPreAgreed then some ({ m with tas := m.tas ++ [⟨ty, []⟩] }, s1)
    else if ty.toNat = c.taKeyHash ∨ ty.toNat = c.taCertHash then
      match readBytes c.hashLen s1 with
      | none => none
      | some (id, s2) => some ({ m with tas := m.tas ++ [⟨ty, id⟩] }, s2)
    else if ty.toNat = c.taX509Name then
      match readVec16 s1 with
      | none => none
      | some (id, s2) => some ({ m with tas := m.tas ++ [⟨ty, id⟩] }, s2)
    else some (m, s1)

/-- body of `for !protoList.Empty()` -/
def alpnStep (m : ClientHello) (s : Bytes) : Option (ClientHello × Bytes) :=
  match readVec8 s with
  | none => none
  | some (p, s1) => if isEmpty p then none else some ({ m with alpn := m.alpn ++ [p] }, s1)

def listMode (mode : Nat) (old new : List W16) : List W16 :=
  if mode = 0 then old ++ new
  else if mode = 1 then new
  else (match new.getLast? with | some x => [x] | none => old)

/-- the `switch extension { … }` of clientHelloMsg.unmarshal: returns the updated message, or
`none` for `return false`; the flag says whether the case ends in `continue` (default branch),
which skips the `extData.Empty()` check -/
def clientExtCase (c : Codes) (m : ClientHello) (ty : Nat) (data : Bytes) : Option (ClientHello × Bytes × Bool) :=
  if ty = c.extServerName then
    match readVec16 data with
    | none => none
    | some (nameList, d) =>
      if isEmpty nameList then none else
      match foldMany sniStep nameList.length m nameList with
      | none => none
      | some m' => some (m', d, false)
  else if ty = c.extTrustedCAKeys then
    match readVec16 data with
    | none => none
    | some (taList, d) =>
      if isEmpty taList then none else
      match foldMany (taStep c) taList.length m taList with
      | none => none
      | some m' => some (m', d, false)
  else if ty = c.extStatusRequest then
    match readU8 data with
    | none => none
    | some (statusType, d1) =>
      match readVec16 d1 with
      | none => none
      | some (_, d2) =>
        match readVec16 d2 with
        | none => none
        | some (_, d3) => some ({ m with ocsp := statusType == 1 }, d3, false)
  else if ty = c.extSupportedCurves then
    match readVec16 data with
    | none => none
    | some (curves, d) =>
      if isEmpty curves then none else
      match many readW16 curves.length curves with
      | none => none
      | some l => some ({ m with curves := listMode c.curvesMode m.curves l }, d, false)
  else if ty = c.extSignatureAlgorithms then
    match readVec16 data with
    | none => none
    | some (algs, d) =>
      if isEmpty algs then none else
      match many readW16 algs.length algs with
      | none => none
      | some l => some ({ m with sigAlgs := listMode c.sigAlgsMode m.sigAlgs l }, d, false)
  else if ty = c.extALPN then
    match readVec16 data with
    | none => none
    | some (protoList, d) =>
      if isEmpty protoList then none else
      match foldMany alpnStep protoList.length m protoList with
      | none => none
      | some m' => some (m', d, false)
  else if ty = c.extClientID then
    match readVec16 data with
    | none => none
    | some (id, d) => some ({ m with clientId := id }, d, false)
  else some (m, data, true)

/-- body of `for !extensions.Empty()` -/
def clientExtStep (c : Codes) (m : ClientHello) (s : Bytes) : Option (ClientHello × Bytes) :=
  match readU16 s with
  | none => none
  | some (ty, s1) =>
    match readVec16 s1 with
    | none => none
    | some (data, s2) =>
      match clientExtCase c m ty data with
      | none => none
      | some (m', d, cont) => if cont || isEmpty d then some (m', s2) else none

/-- clientHelloMsg.unmarshal after the header (`dtlcp`: with the cookie vector) -/
def decClientHelloBody (c : Codes) (dtlcp : Bool) (s : Bytes) : Option ClientHello :=
  match readW16 s with
  | none => none
  | some (vers, s1) =>
  match readBytes c.randomLen s1 with
  | none => none
  | some (random, s2) =>
  match readVec8 s2 with
  | none => none
  | some (sid, s3) =>
  match (if dtlcp then readVec8 s3 else some ([], s3)) with
  | none => none
  | some (cookie, s4) =>
  match readVec16 s4 with
  | none => none
  | some (csb, s5) =>
  match many readW16 csb.length csb with
  | none => none
  | some suites =>
  match readVec8 s5 with
  | none => none
  | some (cm, s6) =>
    let m0 : ClientHello := ⟨vers, random, sid, cookie, suites, cm, [], [], false, [], [], [], []⟩
    if isEmpty s6 then some m0 else
    match readVec16 s6 with
    | none => none
    | some (exts, s7) =>
      if !isEmpty s7 then none else foldMany (clientExtStep c) exts.length m0 exts

def decClientHello (c : Codes) (data : Bytes) : Outcome ClientHello :=
  match skip 4 data with
  | none => .reject
  | some s => Outcome.ofOption (decClientHelloBody c false s)

/-! ## server hello -/

def encServerExtensions (c : Codes) (m : ServerHello) : Option Bytes :=
  match optBytes (m.ocsp && decide (m.ocspResponse.length > 0))
          (ext c.extStatusRequest (prefixed 1 (vec24 m.ocspResponse))),
        optBytes (decide (m.alpn.length > 0)) (ext c.extALPN (vec16x2 (vec8 m.alpn))),
        optBytes m.sniAck (some (be16 c.extServerName ++ [0, 0])) with
  | some e1, some e2, some e3 => some (e1 ++ e2 ++ e3)
  | _, _, _ => none

def encServerHelloBody (c : Codes) (m : ServerHello) : Option Bytes :=
  match encServerExtensions c m with
  | none => none
  | some e =>
    match exactly c.randomLen m.random, vec8 m.sessionId, extBlock e with
    | some rnd, some sid, some ex => some (m.vers.bytes ++ rnd ++ sid ++ m.suite.bytes ++ [m.compression] ++ ex)
    | _, _, _ => none

def encServerHello (c : Codes) (m : ServerHello) : Option Bytes :=
  match encServerHelloBody c m with
  | none => none
  | some body =>
    match vec24 body with
    | some v => some (u8 c.tServerHello :: v)
    | none => none

def serverExtCase (c : Codes) (m : ServerHello) (ty : Nat) (data : Bytes) : Option (ServerHello × Bytes × Bool) :=
  if ty = c.extStatusRequest then
    match readU8 data with
    | none => none
    | some (statusType, d1) =>
      if statusType ≠ 1 then none else
      match readVec24 d1 with
      | none => none
      | some (resp, d2) => some ({ m with ocsp := true, ocspResponse := resp }, d2, false)
  else if ty = c.extALPN then
    match readVec16 data with
    | none => none
    | some (protoList, d) =>
      if isEmpty protoList then none else
      match readVec8 protoList with
      | none => none
      | some (proto, rest) =>
        if isEmpty proto || !isEmpty rest then none else some ({ m with alpn := proto }, d, false)
  else if ty = c.extServerName then
    if data.length ≠ 0 then none else some ({ m with sniAck := true }, data, false)
  else some (m, data, true)

def serverExtStep (c : Codes) (m : ServerHello) (s : Bytes) : Option (ServerHello × Bytes) :=
  match readU16 s with
  | none => none
  | some (ty, s1) =>
    match readVec16 s1 with
    | none => none
    | some (data, s2) =>
      match serverExtCase c m ty data with
      | none => none
      | some (m', d, cont) => if cont || isEmpty d then some (m', s2) else none

def decServerHelloBody (c : Codes) (s : Bytes) : Option ServerHello :=
  match readW16 s with
  | none => none
  | some (vers, s1) =>
  match readBytes c.randomLen s1 with
  | none => none
  | some (random, s2) =>
  match readVec8 s2 with
  | none => none
  | some (sid, s3) =>
  match readW16 s3 with
  | none => none
  | some (suite, s4) =>
  match readU8 s4 with
  | none => none
  | some (cm, s5) =>
    let m0 : ServerHello := ⟨vers, random, sid, suite, cm, false, [], [], false⟩
    if isEmpty s5 then some m0 else
    match readVec16 s5 with
    | none => none
    | some (exts, s6) =>
      if !isEmpty s6 then none else foldMany (serverExtStep c) exts.length m0 exts

def decServerHello (c : Codes) (data : Bytes) : Outcome ServerHello :=
  match skip 4 data with
  | none => .reject
  | some s => Outcome.ofOption (decServerHelloBody c s)

/-! ## the nine tlcp unmarshals as they are called (guard first, then the bodies above) -/

def unmarshalFinished (c : Codes) (data : Bytes) : Outcome Blob := guardT c c.tFinished data (decFinished data)
def unmarshalServerHelloDone (c : Codes) (data : Bytes) : Outcome Unit := guardT c c.tServerHelloDone data (decServerHelloDone data)
def unmarshalCertificateVerify (c : Codes) (data : Bytes) : Outcome Blob := guardT c c.tCertificateVerify data (decCertificateVerify data)
def unmarshalClientKeyExchange (c : Codes) (data : Bytes) : Outcome Blob := guardT c c.tClientKeyExchange data (decClientKeyExchange data)
def unmarshalServerKeyExchange (c : Codes) (data : Bytes) : Outcome Blob := guardT c c.tServerKeyExchange data (decServerKeyExchange data)
def unmarshalCertificate (c : Codes) (data : Bytes) : Outcome Certificate := guardT c c.tCertificate data (decCertificate c data)
def unmarshalCertificateRequest (c : Codes) (data : Bytes) : Outcome CertificateRequest :=
  guardT c c.tCertificateRequest data (decCertificateRequest c data)
def unmarshalServerHello (c : Codes) (data : Bytes) : Outcome ServerHello := guardT c c.tServerHello data (decServerHello c data)
def unmarshalClientHello (c : Codes) (data : Bytes) : Outcome ClientHello := guardT c c.tClientHello data (decClientHello c data)

end Gotlcp.Model.Codec

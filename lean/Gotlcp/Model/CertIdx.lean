/-
C09 (a) — certificate lists: the index structure of the functions that take the peer's
certificate list apart by hand (`Conn.processCertsFromClient`, `Conn.verifyServerCertificate`,
`Conn.verifySessionCertificates`, both stacks).

The extractor (harness/cmd/extract/facts_certidx.go) transliterates each function, statement by
statement, into a small structured program over ONE tracked slice `certs`: constant and
variable indices `certs[k]`, slice bounds `certs[k:]`, assignments of integer literals to
locals, early returns, loops, `switch` scopes, and conditions over `len(certs)`, over boolean
locals that are assigned once (`isECDHE`) and over everything else (not interpreted: both
branches are possible).  It is emitted as a prefix encoding (list of `(op, a, b)` triples); this
file parses it back (`progOf`) and defines

  `mayPanic p n f0 f1` — SOME path through `p` indexes or slices `certs` out of range when the
  list has `n` entries and the boolean locals 0 and 1 have the values `f0`, `f1` (conditions that
  are not interpreted are taken both ways, loop bodies run any number of times).

`Gotlcp.Lemmas.CertIdx` proves that `mayPanic` does not depend on `n` beyond the largest constant
of the program, so that finitely many evaluations decide it for EVERY length of the list.
Core Lean only.
-/

namespace Gotlcp.Model.CertIdx

/-- a condition; `opq` is not interpreted -/
inductive Cond where
  | lt (k : Nat)          -- len(certs) < k
  | flag (i : Nat)        -- boolean local i
  | opq
  | not (c : Cond)
  | and (a b : Cond)
  | or (a b : Cond)
  deriving Repr, DecidableEq

/-- an index / bound: a literal or an integer local -/
inductive E where
  | k (n : Nat)
  | v (i : Nat)
  deriving Repr, DecidableEq

/-- a block of statements: every statement carries the rest of its block -/
inductive Prog where
  | done                                   -- end of the block: fall through
  | ret                                    -- return
  | brk                                    -- break
  | cont                                   -- continue
  | havoc                                  -- not interpreted by the extractor: may panic
  | idx (e : E) (rest : Prog)              -- certs[e]
  | slice (e : E) (rest : Prog)            -- certs[e:]
  | set (v k : Nat) (rest : Prog)          -- v = k
  | ite (c : Cond) (t e rest : Prog)
  | loop (b rest : Prog)
  | scope (b rest : Prog)                  -- switch: `break` inside ends the scope
  deriving Repr, DecidableEq

abbrev Tok := Nat × Nat × Nat

def parseCond : Nat → List Tok → Option (Cond × List Tok)
  | 0, _ => none
  | _ + 1, [] => none
  | f + 1, (op, a, _) :: r =>
    if op = 20 then some (.lt a, r)
    else if op = 21 then some (.flag a, r)
    else if op = 22 then some (.opq, r)
    else if op = 23 then
      match parseCond f r with
      | some (c, r1) => some (.not c, r1)
      | none => none
    else if op = 24 ∨ op = 25 then
      match parseCond f r with
      | some (x, r1) =>
        match parseCond f r1 with
        | some (y, r2) => some (if op = 24 then .and x y else .or x y, r2)
        | none => none
      | none => none
    else none

/-- a block: statements up to the matching end-of-block token -/
def parseBlock : Nat → List Tok → Option (Prog × List Tok)
  | 0, _ => none
  | _ + 1, [] => none
  | f + 1, (op, a, b) :: r =>
    if op = 0 then some (.done, r)
    else if op = 1 ∨ op = 12 ∨ op = 13 ∨ op = 11 then
      -- what follows in the block is unreachable; it still has to be well formed
      match parseBlock f r with
      | some (_, r1) => some (if op = 1 then .ret else if op = 12 then .brk else if op = 13 then .cont else .havoc, r1)
      | none => none
    else if op = 2 ∨ op = 3 ∨ op = 4 ∨ op = 5 then
      match parseBlock f r with
      | some (rest, r1) =>
        let e : E := if op = 2 ∨ op = 4 then .k a else .v a
        some (if op = 2 ∨ op = 3 then .idx e rest else .slice e rest, r1)
      | none => none
    else if op = 6 then
      match parseBlock f r with
      | some (rest, r1) => some (.set a b rest, r1)
      | none => none
    else if op = 10 then parseBlock f r        -- an index by the key of a range over the same length
    else if op = 8 then
      match parseCond f r with
      | some (c, r1) =>
        match parseBlock f r1 with
        | some (t, r2) =>
          match parseBlock f r2 with
          | some (e, r3) =>
            match parseBlock f r3 with
            | some (rest, r4) => some (.ite c t e rest, r4)
            | none => none
          | none => none
        | none => none
      | none => none
    else if op = 9 ∨ op = 14 then
      match parseBlock f r with
      | some (body, r1) =>
        match parseBlock f r1 with
        | some (rest, r2) => some (if op = 9 then .loop body rest else .scope body rest, r2)
        | none => none
      | none => none
    else none

/-- the program of a token list: one block and nothing after it -/
def progOf (toks : List Tok) : Option Prog :=
  match parseBlock (toks.length + 1) toks with
  | some (p, []) => some p
  | _ => none

/-- values of the integer locals -/
abbrev Vars := List (Nat × Nat)

def getVar (vs : Vars) (v : Nat) : Option Nat :=
  match vs with
  | [] => none
  | (w, x) :: r => if w = v then some x else getVar r v

def val (e : E) (vs : Vars) : Option Nat :=
  match e with
  | .k n => some n
  | .v i => getVar vs i

/-- three-valued evaluation: `none` = either way -/
def evalC (n : Nat) (f0 f1 : Bool) : Cond → Option Bool
  | .lt k => some (decide (n < k))
  | .flag i => if i = 0 then some f0 else if i = 1 then some f1 else none
  | .opq => none
  | .not c => (evalC n f0 f1 c).map (!·)
  | .and a b =>
    match evalC n f0 f1 a, evalC n f0 f1 b with
    | some false, _ => some false
    | _, some false => some false
    | some true, some true => some true
    | _, _ => none
  | .or a b =>
    match evalC n f0 f1 a, evalC n f0 f1 b with
    | some true, _ => some true
    | _, some true => some true
    | some false, some false => some false
    | _, _ => none

/-- the block assigns a local (then a loop around it is not interpreted) -/
def hasSet : Prog → Bool
  | .set _ _ _ => true
  | .idx _ r => hasSet r
  | .slice _ r => hasSet r
  | .ite _ t e r => hasSet t || hasSet e || hasSet r
  | .loop b r => hasSet b || hasSet r
  | .scope b r => hasSet b || hasSet r
  | _ => false

/-- some path through the block panics; `kf`, `kb`, `kc` = what may happen after the block falls
through / breaks / continues with the given values of the locals -/
def mp (n : Nat) (f0 f1 : Bool) : Prog → Vars → (Vars → Bool) → (Vars → Bool) → (Vars → Bool) → Bool
  | .done, vs, kf, _, _ => kf vs
  | .ret, _, _, _, _ => false
  | .brk, vs, _, kb, _ => kb vs
  | .cont, vs, _, _, kc => kc vs
  | .havoc, _, _, _, _ => true
  | .idx e rest, vs, kf, kb, kc =>
    match val e vs with
    | some i => if i < n then mp n f0 f1 rest vs kf kb kc else true
    | none => true
  | .slice e rest, vs, kf, kb, kc =>
    match val e vs with
    | some i => if i ≤ n then mp n f0 f1 rest vs kf kb kc else true
    | none => true
  | .set v k rest, vs, kf, kb, kc => mp n f0 f1 rest ((v, k) :: vs) kf kb kc
  | .ite c t e rest, vs, kf, kb, kc =>
    let k' : Vars → Bool := fun vs' => mp n f0 f1 rest vs' kf kb kc
    match evalC n f0 f1 c with
    | some true => mp n f0 f1 t vs k' kb kc
    | some false => mp n f0 f1 e vs k' kb kc
    | none => mp n f0 f1 t vs k' kb kc || mp n f0 f1 e vs k' kb kc
  | .loop b rest, vs, kf, kb, kc =>
    -- without assignments every iteration starts as the first one; however an iteration ends
    -- (end of body, break, continue), the block after the loop runs with the same locals
    hasSet b || mp n f0 f1 b vs (fun _ => false) (fun _ => false) (fun _ => false) || mp n f0 f1 rest vs kf kb kc
  | .scope b rest, vs, kf, kb, kc =>
    let k' : Vars → Bool := fun vs' => mp n f0 f1 rest vs' kf kb kc
    mp n f0 f1 b vs k' k' kc

/-- some path through the function body indexes the list out of range -/
def mayPanic (p : Prog) (n : Nat) (f0 f1 : Bool) : Bool :=
  mp n f0 f1 p [] (fun _ => false) (fun _ => true) (fun _ => true)   -- a stray break / continue is not Go

/-- the largest length the program can tell from larger ones -/
def cbound : Cond → Nat
  | .lt k => k
  | .not c => cbound c
  | .and a b => max (cbound a) (cbound b)
  | .or a b => max (cbound a) (cbound b)
  | _ => 0

def ebound : E → Nat
  | .k n => n + 1
  | .v _ => 0

def pbound : Prog → Nat
  | .idx e r => max (ebound e) (pbound r)
  | .slice e r => max (ebound e) (pbound r)
  | .set _ k r => max (k + 1) (pbound r)
  | .ite c t e r => max (max (cbound c) (pbound t)) (max (pbound e) (pbound r))
  | .loop b r => max (pbound b) (pbound r)
  | .scope b r => max (pbound b) (pbound r)
  | _ => 0

/-- the finite check: the token list is a program, and no length up to its bound, no value of the
two boolean locals gives a path that panics -/
def safeUpTo (p : Prog) : Bool :=
  (List.range (pbound p + 1)).all fun n =>
    !mayPanic p n false false && !mayPanic p n false true && !mayPanic p n true false && !mayPanic p n true true

def check (toks : List Tok) : Bool :=
  match progOf toks with
  | some p => safeUpTo p
  | none => false

end Gotlcp.Model.CertIdx

/-
Model of DTLCP handshake fragmentation / reassembly (core Lean only, executable).

Mirrors, branch by branch:
  * dtlcp/fragment.go   `fragmentBuffer`: `newFragmentBuffer`, `addFragment`, `complete`,
                        `assembled`
  * dtlcp/conn.go       `writeHandshakeRecord` (sender side splitting, `fragmentize`)
  * dtlcp/conn.go       `readHandshake` (12-byte header, bounds tests, per-`message_seq`
                        buffers, `fragmentReads` cap, rebuilt header)

Integers are `Nat` (the Go code converts the `uint24` fields to `int` before every
comparison, no wrap-around is possible); the received bitmap is a list of `UInt8` and uses
the same shift / mask operations as the Go code because its correctness *is* the bit trick.
-/
import Gotlcp.Base.Hex

namespace Gotlcp.Model.Fragment

/-! ### fragmentBuffer -/

/-- `fragmentBuffer` (the `receivedAt` time stamp is not modelled) -/
structure FragBuf where
  /-- `totalLen`, as announced by the fragment that created the buffer -/
  total : Nat
  /-- `numBytes` = max(totalLen, 1) -/
  n : Nat
  data : Bytes
  received : Bytes
deriving Repr, DecidableEq

/-- `newFragmentBuffer(totalLen)`: `n := int(totalLen); if n < 1 { n = 1 }` -/
def newBuf (total : Nat) : FragBuf :=
  let n := if total < 1 then 1 else total
  { total := total, n := n, data := List.replicate n 0, received := List.replicate ((n + 7) >>> 3) 0 }

/-- `fb.received[i>>3] |= 1 << (i & 7)` -/
def setBit (r : Bytes) (i : Nat) : Bytes :=
  r.set (i >>> 3) (r.getD (i >>> 3) 0 ||| ((1 : UInt8) <<< UInt8.ofNat (i &&& 7)))

/-- `for i := off; i < off+len; i++ { set bit i }` -/
def setBits (r : Bytes) (off : Nat) : Nat → Bytes
  | 0 => r
  | k + 1 => setBits (setBit r off) (off + 1) k

/-- `copy(fb.data[off:off+len], frag)` copies `min(len, len(frag))` bytes -/
def copyInto (data : Bytes) (off len : Nat) (frag : Bytes) : Bytes :=
  let k := min len frag.length
  data.take off ++ frag.take k ++ data.drop (off + k)

/-- `addFragment(offset, length, frag)`; the Boolean is the return value -/
def addFragment (fb : FragBuf) (off len : Nat) (frag : Bytes) : FragBuf × Bool :=
  if off + len > fb.n then (fb, false)
  else ({ fb with data := copyInto fb.data off len frag, received := setBits fb.received off len }, true)

/-- `complete()` : whole bytes must be 0xFF, the tail is tested under `(1<<rem)-1` -/
def complete (fb : FragBuf) : Bool :=
  let full := fb.n >>> 3
  if !((List.range full).all fun i => fb.received.getD i 0 == 0xFF) then false
  else
    let rem := fb.n &&& 7
    if rem > 0 then
      let mask : UInt8 := UInt8.ofNat ((1 <<< rem) - 1)
      (fb.received.getD full 0 &&& mask) == mask
    else true

def assembled (fb : FragBuf) : Bytes := fb.data

/-! `complete` above indexes the bitmap once per byte, as the Go loop does; on a linked list
that is quadratic.  The compiled oracle uses the linear walk below instead — the `csimp`
equation is a kernel-checked proof that both are the same function. -/

def allFF : List UInt8 → Nat → Bool
  | _, 0 => true
  | [], _ + 1 => false
  | b :: t, k + 1 => b == 0xFF && allFF t k

theorem allFF_eq (l : List UInt8) (k : Nat) :
    allFF l k = (List.range k).all (fun i => l.getD i 0 == 0xFF) := by
  induction k generalizing l with
  | zero => simp [allFF]
  | succ k ih =>
    rw [List.range_succ_eq_map, List.all_cons, List.all_map]
    cases l with
    | nil => simp [allFF]
    | cons b t =>
      simp only [allFF, ih t]
      congr 1

def completeFast (fb : FragBuf) : Bool :=
  let full := fb.n >>> 3
  if !(allFF fb.received full) then false
  else
    let rem := fb.n &&& 7
    if rem > 0 then
      let mask : UInt8 := UInt8.ofNat ((1 <<< rem) - 1)
      (fb.received.getD full 0 &&& mask) == mask
    else true

@[csimp] theorem complete_eq_completeFast : @complete = @completeFast := by
  funext fb
  simp only [complete, completeFast, allFF_eq]

/-- a fragment as handed to `addFragment` -/
structure Frag where
  off : Nat
  len : Nat
  body : Bytes
deriving Repr, DecidableEq

/-- feed a list of fragments, collecting the accept bits -/
def run (fb : FragBuf) : List Frag → FragBuf × List Bool
  | [] => (fb, [])
  | f :: fs =>
    let (fb1, ok) := addFragment fb f.off f.len f.body
    let (fb2, oks) := run fb1 fs
    (fb2, ok :: oks)

/-! ### sender: the fragmentation loop of `writeHandshakeRecord` -/

/-- `for offset := 0; offset < bodyLen; { fragEnd := min(offset+maxFragBody, bodyLen) … }`
as (offset, fragment body) pairs.  `fuel` bounds the loop for Lean; `fragmentize` passes
`body.length`, which is enough because every iteration advances by at least one byte when
`maxFragBody > 0` (the Go code returns an error before the loop otherwise). -/
def fragLoop (body : Bytes) (maxFragBody : Nat) : (fuel : Nat) → (offset : Nat) → List Frag
  | 0, _ => []
  | fuel + 1, offset =>
    if offset < body.length then
      let fragEnd := if offset + maxFragBody > body.length then body.length else offset + maxFragBody
      { off := offset, len := fragEnd - offset, body := (body.drop offset).take (fragEnd - offset) }
        :: fragLoop body maxFragBody fuel fragEnd
    else []

def fragmentize (body : Bytes) (maxFragBody : Nat) : List Frag :=
  fragLoop body maxFragBody body.length 0

/-- big-endian bytes -/
def be3 (x : Nat) : Bytes := [UInt8.ofNat (x >>> 16), UInt8.ofNat (x >>> 8), UInt8.ofNat x]
def be2 (x : Nat) : Bytes := [UInt8.ofNat (x >>> 8), UInt8.ofNat x]

/-- the 12-byte DTLCP handshake header -/
def header (typ total seq off len : Nat) : Bytes :=
  UInt8.ofNat typ :: (be3 total ++ be2 seq ++ be3 off ++ be3 len)

inductive TxResult where
  /-- one record carrying the whole message -/
  | single (data : Bytes)
  /-- one record per fragment -/
  | frags (records : List Bytes)
  | errTooShort
  | errPmtuTooSmall
deriving Repr, DecidableEq

/-- `writeHandshakeRecord` after `msg.marshal()`: `data` is the marshalled message,
`maxPayload` the result of `maxPayloadSizeForWrite`. Each record payload is itself split by
`writeRecordLocked` only if it exceeded `maxPayload`, which the arithmetic here excludes. -/
def writeHandshake (data : Bytes) (maxPayload : Nat) : TxResult :=
  if data.length ≤ maxPayload then .single data
  else if data.length ≤ 12 then .errTooShort
  else
    let hdr := data.take 12
    let body := data.drop 12
    if maxPayload ≤ 12 then .errPmtuTooSmall
    else
      let typ := (hdr.getD 0 0).toNat
      let seq := (hdr.getD 4 0).toNat <<< 8 ||| (hdr.getD 5 0).toNat
      .frags ((fragmentize body (maxPayload - 12)).map fun f =>
        header typ body.length seq f.off f.len ++ f.body)

/-- `writeHandshakeRecord` with its transcript argument: `transcript.Write(data)` runs on the
marshalled, unfragmented `data` BEFORE the message is split (proved of the translated source text:
`Tie.TxFragment.src_eq`, `Props.C17.C17_src_tx_is_model`), so the first component is what the sender
hashes, whatever the second component turns out to be. -/
def writeHandshakeT (data : Bytes) (maxPayload : Nat) : Bytes × TxResult :=
  (data, writeHandshake data maxPayload)

/-! ### receiver: the fragment branch of `readHandshake` -/

/-- one handshake (fragment) message as `readHandshake` slices it from `handBuf`:
the 12 header fields and exactly `len` payload bytes -/
structure FragMsg where
  typ : Nat
  total : Nat
  seq : Nat
  off : Nat
  len : Nat
  payload : Bytes
deriving Repr, DecidableEq

abbrev Pending := List (Nat × FragBuf)

def lookup (st : Pending) (seq : Nat) : Option FragBuf :=
  (st.find? fun p => p.1 == seq).map (·.2)

def erase (st : Pending) (seq : Nat) : Pending := st.filter fun p => p.1 != seq

/-- replace (or add) the buffer stored under `seq` -/
def store (st : Pending) (seq : Nat) (fb : FragBuf) : Pending := (seq, fb) :: erase st seq

inductive Fatal where
  /-- `bodyLen > maxHandshake` (internal_error) -/
  | tooLong
  /-- `fragOff+fragLen > bodyLen` (decode_error) -/
  | oob
  /-- announced length differs from the pending buffer of that `message_seq`
      (only when the tree carries the repair, `strictTotal`) -/
  | mismatch
  /-- `fragmentReads > maxHandshakeFragments` -/
  | tooMany
  /-- any other fatal condition of the record layer (empty handshake record, …) -/
  | other
deriving Repr, DecidableEq

/-- the two tests made on the header before the payload is awaited -/
def check (maxHs : Nat) (total off len : Nat) : Option Fatal :=
  if total > maxHs then some .tooLong
  else if off + len > total then some .oob
  else none

inductive Applied where
  | cont
  | deliver (data : Bytes)
  | fatal (f : Fatal)
deriving Repr, DecidableEq

/-- body of the loop after the payload is available.  `strictTotal` = the tree rejects a
fragment whose announced length differs from the buffer already pending for its
`message_seq` (regenerated fact; `false` on the unrepaired tree, where the fragment is fed
to the existing buffer and the rebuilt header is taken from the *last* fragment). -/
def apply (strictTotal : Bool) (st : Pending) (m : FragMsg) : Pending × Applied :=
  if m.len < m.total || m.off > 0 then
    match (match lookup st m.seq with
           | some fb => if strictTotal && fb.total != m.total then none else some fb
           | none => some (newBuf m.total)) with
    | none => (st, .fatal .mismatch)
    | some fb =>
      -- the return value of addFragment is ignored by readHandshake
      let fb' := (addFragment fb m.off m.len m.payload).1
      if !complete fb' then (store st m.seq fb', .cont)
      else (erase st m.seq, .deliver (header m.typ m.total m.seq 0 m.total ++ assembled fb'))
  else (st, .deliver (header m.typ m.total m.seq m.off m.len ++ m.payload))

inductive Result where
  | msg (data : Bytes)
  | fatal (f : Fatal)
  /-- input exhausted (the real call blocks / times out) -/
  | needMore
deriving Repr, DecidableEq

/-- the sender's output as framed messages: the whole message when it fits one record,
otherwise one message per fragment of `fragmentize` (all with the message's type, length and
`message_seq`) — the structured reading of `writeHandshake (header … ++ body) maxPayload` -/
def txMsgs (typ seq : Nat) (body : Bytes) (maxPayload : Nat) : List FragMsg :=
  if 12 + body.length ≤ maxPayload then [⟨typ, body.length, seq, 0, body.length, body⟩]
  else (fragmentize body (maxPayload - 12)).map fun f => ⟨typ, body.length, seq, f.off, f.len, f.body⟩

/-- wire bytes of a framed message -/
def FragMsg.encode (m : FragMsg) : Bytes := header m.typ m.total m.seq m.off m.len ++ m.payload

/-- `readHandshake` over already framed fragment messages. `fuel` = `maxHandshakeFragments`:
the loop body runs at most that many times, the next iteration fails. -/
def recv (strictTotal : Bool) (maxHs : Nat) : (fuel : Nat) → Pending → List FragMsg → Pending × Result × List FragMsg
  | 0, st, ms => (st, .fatal .tooMany, ms)
  | _ + 1, st, [] => (st, .needMore, [])
  | fuel + 1, st, m :: ms =>
    match check maxHs m.total m.off m.len with
    | some f => (st, .fatal f, m :: ms)
    | none =>
      match apply strictTotal st m with
      | (st', .cont) => recv strictTotal maxHs fuel st' ms
      | (st', .deliver d) => (st', .msg d, ms)
      | (st', .fatal f) => (st', .fatal f, ms)

/-! ### receiver at byte level (what the oracle runs): `handBuf` + unread records -/

structure Conn where
  pending : Pending := []
  /-- `c.handBuf` -/
  hand : Bytes := []
  /-- payloads of the handshake records still queued in the transport, oldest first -/
  queue : List Bytes := []
  /-- `c.in.err` (sticky) -/
  err : Option Fatal := none
deriving Repr

/-- `for c.handBuf.Len() < need { readRecord() }` : `none` = enough bytes; otherwise the
result the call returns. An empty handshake record is fatal (unexpected_message). -/
def fill (need : Nat) (c : Conn) : List Bytes → Conn × Option Result
  | [] =>
    if c.hand.length ≥ need then ({ c with queue := [] }, none)
    else match c.err with
      | some f => ({ c with queue := [] }, some (.fatal f))
      | none => ({ c with queue := [] }, some .needMore)
  | r :: q =>
    if c.hand.length ≥ need then ({ c with queue := r :: q }, none)
    else match c.err with
      | some f => ({ c with queue := r :: q }, some (.fatal f))
      | none =>
        if r.isEmpty then ({ c with queue := q, err := some .other }, some (.fatal .other))
        else fill need { c with hand := c.hand ++ r } q

def u24 (b : Bytes) (i : Nat) : Nat :=
  (b.getD i 0).toNat <<< 16 ||| (b.getD (i + 1) 0).toNat <<< 8 ||| (b.getD (i + 2) 0).toNat

def readHandshake (strictTotal : Bool) (maxHs : Nat) : (fuel : Nat) → Conn → Conn × Result
  | 0, c => ({ c with err := some .tooMany }, .fatal .tooMany)
  | fuel + 1, c =>
    match fill 12 c c.queue with
    | (c, some r) => (c, r)
    | (c, none) =>
      let total := u24 c.hand 1
      let off := u24 c.hand 6
      let len := u24 c.hand 9
      match check maxHs total off len with
      | some f => ({ c with err := some f }, .fatal f)
      | none =>
        match fill (12 + len) c c.queue with
        | (c, some r) => (c, r)
        | (c, none) =>
          let m : FragMsg := { typ := (c.hand.getD 0 0).toNat, total := total,
                               seq := (c.hand.getD 4 0).toNat <<< 8 ||| (c.hand.getD 5 0).toNat,
                               off := off, len := len, payload := (c.hand.drop 12).take len }
          let c := { c with hand := c.hand.drop (12 + len) }
          match apply strictTotal c.pending m with
          | (st', .cont) => readHandshake strictTotal maxHs fuel { c with pending := st' }
          | (st', .deliver d) => ({ c with pending := st' }, .msg d)
          | (st', .fatal f) => ({ c with pending := st', err := some f }, .fatal f)

/-! ### stale-buffer cleanup (`cleanupStaleFragments`) and the clock

`addFragment` stamps the buffer (`receivedAt`), `cleanupStaleFragments(timeout)` — called on every fragment
before the buffer lookup — reads "now" and drops the buffers whose age `now − receivedAt` exceeds the
timeout. Times are nanosecond counts (`Int`). What matters for reassembly is WHICH clock each of the two
sites reads: `stampClk` / `nowClk` map real time to the reading of the clock used at that site. -/

/-- pending reassembly buffers with their stamps: (message_seq, receivedAt) -/
abbrev Stamped := List (Nat × Int)

/-- `now.Sub(fb.receivedAt) > timeout` -/
def staleAt (now stamp timeout : Int) : Bool := decide (now - stamp > timeout)

/-- cleanupStaleFragments: the buffers that survive -/
def cleanupStale (now timeout : Int) (st : Stamped) : Stamped := st.filter fun e => !staleAt now e.2 timeout

/-- the buffers that survive a cleanup at real time `t` when the stamps were taken from `stampClk` (at the
real times recorded in `st`) and "now" is read from `nowClk` -/
def cleanupAt (stampClk nowClk : Int → Int) (t timeout : Int) (st : Stamped) : Stamped :=
  st.filter fun e => !staleAt (nowClk t) (stampClk e.2) timeout

end Gotlcp.Model.Fragment

/-
Model of the TLCP stream stack's *receiving* record layer (`/repo/tlcp/conn.go`):

  * `extractPadding`                      — bit-exact (`BitVec 64` for Go's `uint`, `BitVec 8` for
                                            `byte`, the `int32(^t) >> 31` trick as written);
  * `halfConn.decrypt`                    — AEAD arm, CBC arm (combined MAC-and-padding test),
                                            nil-cipher arm; crypto primitives are *parameters*;
  * `Conn.readRecordOrCCS` / `retryReadRecord` — one wire record at a time (`rx`), header checks,
                                            record-type switch, `retryCount`, the latch `in.err`,
                                            which alert is sent;
  * `Conn.Read`                           — buffering in `c.input`, the loop
                                            `for c.input.Len() == 0 { readRecord }`, the
                                            close-notify look-ahead.

What is *not* here: the sender (`Model/RecordTx.lean`, C06), byte-level re-segmentation of the
transport (`Model/RecordRxStream.lean`, C06) — this model consumes whole wire records as framed by
their 5-byte headers plus a description of how the transport ends — and the API state machine
around it (`Model/ConnAPI.lean`, C12).

Go ↦ Lean
  * `hc.seq [8]byte` ↦ `Nat` (big-endian 8 bytes where it enters additional data); the wrap-around
    `panic` of `incSeq` needs 2^64 records and is outside the model;
  * known defect F8 (handshake-type records after the handshake are appended to `c.hand` and never
    consumed) is modelled as the code behaves: `hand` grows, the record is accepted;
  * the `cipher.Stream` arm of `decrypt` is unreachable (no TLCP suite constructs one) and is
    omitted.

Core Lean only: linked into `oracle_c05` / `oracle_c12`.
-/
import Gotlcp.Base.Hex
import Gotlcp.Generated.Facts

namespace Gotlcp.Model.RecordRx

/-! ## constants the code refers to by name -/

structure Params where
  maxCiphertext : Nat
  maxPlaintext  : Nat
  maxUseless    : Nat
  hdrLen        : Nat
  tCCS : Nat
  tAlert : Nat
  tHandshake : Nat
  tApp : Nat
  lvlWarning : Nat
  lvlError : Nat
  aCloseNotify : Nat
  aUnexpected : Nat
  aBadMAC : Nat
  aOverflow : Nat
  aDecodeError : Nat
  aProtoVersion : Nat
  aInternal : Nat
  aNoRenegotiation : Nat
  /-- `c.vers` once negotiated -/
  vers : Nat
  /-- the source refuses handshake-type records once the handshake is complete (the repair of
  F8: `if handshakeComplete { …sendAlert(alertNoRenegotiation) }` before `c.hand.Write`) -/
  postHsRefused : Bool
deriving Repr

/-- the parameters of this tree (regenerated facts) -/
def tlcpParams : Params :=
  { maxCiphertext := Facts.tlcp.maxCiphertext, maxPlaintext := Facts.tlcp.maxPlaintext,
    maxUseless := Facts.tlcp.maxUselessRecords, hdrLen := Facts.tlcp.recordHeaderLen,
    tCCS := Facts.tlcp.recordTypeChangeCipherSpec, tAlert := Facts.tlcp.recordTypeAlert,
    tHandshake := Facts.tlcp.recordTypeHandshake, tApp := Facts.tlcp.recordTypeApplicationData,
    lvlWarning := Facts.tlcp.alertLevelWarning, lvlError := Facts.tlcp.alertLevelError,
    aCloseNotify := Facts.tlcp.alertCloseNotify, aUnexpected := Facts.tlcp.alertUnexpectedMessage,
    aBadMAC := Facts.tlcp.alertBadRecordMAC, aOverflow := Facts.tlcp.alertRecordOverflow,
    aDecodeError := Facts.tlcp.alertDecodeError, aProtoVersion := Facts.tlcp.alertProtocolVersion,
    aInternal := Facts.tlcp.alertInternalError, aNoRenegotiation := Facts.tlcp.alertNoRenegotiation,
    vers := Facts.tlcp.VersionTLCP, postHsRefused := Facts.tlcp.rxPostHandshakeRefused }

/-! ## `extractPadding`, bit for bit -/

/-- `byte(int32(^t) >> 31)` for `t uint` (64 bit): truncate `^t` to 32 bits, arithmetic shift by 31,
truncate to a byte -/
def msbMask (t : BitVec 64) : BitVec 8 :=
  (((~~~t).setWidth 32).sshiftRight 31).setWidth 8

/-- `good &= good << 4; good &= good << 2; good &= good << 1; good = uint8(int8(good) >> 7)` -/
def collapse (g : BitVec 8) : BitVec 8 :=
  let g := g &&& (g <<< 4)
  let g := g &&& (g <<< 2)
  let g := g &&& (g <<< 1)
  g.sshiftRight 7

/-- one iteration of the loop body:
`t := uint(paddingLen) - uint(i); mask := byte(int32(^t) >> 31); good &^= mask&paddingLen ^ mask&b` -/
def padStep (pl : BitVec 8) (i : Nat) (b : BitVec 8) (good : BitVec 8) : BitVec 8 :=
  let t : BitVec 64 := pl.setWidth 64 - BitVec.ofNat 64 i
  let mask := msbMask t
  good &&& ~~~((mask &&& pl) ^^^ (mask &&& b))

/-- `for i := 0; i < toCheck; i++ { b := payload[len(payload)-1-i] … }` — the bytes are handed over
in the order the loop visits them (last byte first) -/
def padLoop (pl : BitVec 8) : Nat → Bytes → BitVec 8 → BitVec 8
  | _, [], g => g
  | i, b :: bs, g => padLoop pl (i+1) bs (padStep pl i b.toBitVec g)

/-- `extractPadding(payload) (toRemove int, good byte)` -/
def extractPadding (payload : Bytes) : Nat × UInt8 :=
  match payload.getLast? with
  | none => (0, 0)
  | some last =>
    let pl := last.toBitVec
    let t : BitVec 64 := BitVec.ofNat 64 (payload.length - 1) - pl.setWidth 64
    let good := msbMask t
    let toCheck := if 256 > payload.length then payload.length else 256
    let good := padLoop pl 0 (payload.reverse.take toCheck) good
    let good := collapse good
    let pl := pl &&& good
    (pl.toNat + 1, UInt8.ofBitVec good)

/-! ## `halfConn.decrypt` -/

/-- `roundUp(a, b) = a + (b-a%b)%b` -/
def roundUp (a b : Nat) : Nat := a + (b - a % b) % b

/-- 8-byte big-endian image of the sequence number (`hc.seq[:]`) -/
def be64 (n : Nat) : Bytes :=
  [7, 6, 5, 4, 3, 2, 1, 0].map fun i => UInt8.ofNat (n / 256 ^ i % 256)

/-- `byte(n>>8), byte(n)` for a Go `int` (arithmetic shift, truncation; `n` may be negative) -/
def int16be (n : Int) : Bytes := [UInt8.ofNat (n / 256 % 256).toNat, UInt8.ofNat (n % 256).toNat]

structure AeadSuite where
  explicitNonceLen : Nat
  overhead : Nat
  /-- `c.Open(nil, nonce, ciphertext, additionalData)` -/
  aopen : (nonce ad ct : Bytes) → Option Bytes

structure CbcSuite where
  blockSize : Nat
  macSize : Nat
  /-- `SetIV(iv); CryptBlocks(body, body)` -/
  dec : (iv body : Bytes) → Bytes
  /-- `tls10MAC(hc.mac, _, seq, header, data, extra)` (the `extra` bytes do not enter the result) -/
  mac : (seq : Nat) → (hdr data : Bytes) → Bytes

inductive Cipher
  | none
  | aead (a : AeadSuite)
  | cbc (c : CbcSuite)

/-- why `decrypt` refused a record (every arm returns `alertBadRecordMAC`; the reason is kept so
that the failing paths can be enumerated) -/
inductive DecFail
  | aeadShort | aeadOpen
  | cbcNotBlockMultiple | cbcTooShort | cbcShorterThanMac | cbcMacOrPadding
deriving Repr, DecidableEq

inductive DecOut
  | ok (plaintext : Bytes)
  | fail (alert : Nat) (why : DecFail)
deriving Repr, DecidableEq

/-- `subtle.ConstantTimeSelect(int(uint32(n)>>31), 0, n)` -/
def clampNeg (n : Int) : Int :=
  if (n % 4294967296) / 2147483648 = 1 then 0 else n

/-- `hc.decrypt(record)`; `record` = 5-byte header followed by the body. The returned record type
is `record[0]`; the sequence number advances exactly when the result is `ok` (the caller does it). -/
def decrypt (p : Params) (c : Cipher) (seq : Nat) (record : Bytes) : DecOut :=
  let payload := record.drop p.hdrLen
  match c with
  | .none => .ok payload
  | .aead a =>
    if payload.length < a.explicitNonceLen then .fail p.aBadMAC .aeadShort else
    let nonce := payload.take a.explicitNonceLen
    let nonce := if nonce.length = 0 then be64 seq else nonce
    let payload := payload.drop a.explicitNonceLen
    let n : Int := (payload.length : Int) - (a.overhead : Int)
    let ad := be64 seq ++ record.take 3 ++ int16be n
    match a.aopen nonce ad payload with
    | none => .fail p.aBadMAC .aeadOpen
    | some pt => .ok pt
  | .cbc s =>
    let explicitNonceLen := s.blockSize
    let minPayload := explicitNonceLen + roundUp (s.macSize + 1) s.blockSize
    if payload.length % s.blockSize ≠ 0 then .fail p.aBadMAC .cbcNotBlockMultiple else
    if payload.length < minPayload then .fail p.aBadMAC .cbcTooShort else
    let iv := payload.take explicitNonceLen
    let payload := s.dec iv (payload.drop explicitNonceLen)
    let (paddingLen, paddingGood) := extractPadding payload
    if payload.length < s.macSize then .fail p.aBadMAC .cbcShorterThanMac else
    let n : Int := clampNeg ((payload.length : Int) - (s.macSize : Int) - (paddingLen : Int))
    let n := n.toNat
    let hdr := record.take 3 ++ int16be n
    let remoteMAC := (payload.drop n).take s.macSize
    let localMAC := s.mac seq hdr (payload.take n)
    let cmp : Nat := if localMAC = remoteMAC then 1 else 0
    if Nat.land cmp paddingGood.toNat ≠ 1 then .fail p.aBadMAC .cbcMacOrPadding else
    .ok (payload.take n)

/-! ## one record through `readRecordOrCCS` -/

/-- what the record layer needs to know about a body of type `β`: its wire length, its bytes when
no cipher is active, and `hc.decrypt` for the header fields that enter the authenticated data -/
structure Dec (β : Type) where
  len : β → Nat
  raw : β → Bytes
  decrypt : (seq typ vers : Nat) → β → DecOut

/-- a wire record as the receiver frames it: header fields and the `len` bytes that follow -/
structure Wire (β : Type) where
  typ : Nat
  vers : Nat
  body : β
deriving Repr, DecidableEq

def hdrBytes (typ vers len : Nat) : Bytes :=
  [UInt8.ofNat typ, UInt8.ofNat (vers / 256), UInt8.ofNat vers, UInt8.ofNat (len / 256), UInt8.ofNat len]

/-- the byte-level instance: bodies are bytes, `decrypt` is the model of `halfConn.decrypt` -/
def Dec.ofCipher (p : Params) (c : Cipher) : Dec Bytes :=
  { len := List.length, raw := id,
    decrypt := fun seq typ vers b => RecordRx.decrypt p c seq (hdrBytes typ vers b.length ++ b) }

/-- errors a read can return (the small enum of the observation syntax) -/
inductive RxErr
  | eof                     -- io.EOF
  | unexpectedEOF           -- io.ErrUnexpectedEOF
  | localAlert (a : Nat)    -- &net.OpError{Op: "local error", Err: alert}
  | remoteAlert (a : Nat)   -- &net.OpError{Op: "remote error", Err: alert}
  | header                  -- RecordHeaderError (version, oversized, SSLv2, first record)
  | tooManyIgnored          -- "tlcp: too many ignored records"
  | internalPending         -- "attempted to read record with pending application data"
deriving Repr, DecidableEq

/-- the flags of the connection `readRecordOrCCS` looks at -/
structure Ctx where
  hsComplete : Bool
  expectCCS : Bool
  haveVers : Bool
  /-- `c.in.cipher != nil` -/
  keyed : Bool
  /-- `c.in.nextCipher != nil` (only matters when a CCS is accepted) -/
  haveNext : Bool := true
deriving Repr, DecidableEq

/-- after a completed handshake -/
def Ctx.established : Ctx := { hsComplete := true, expectCCS := false, haveVers := true, keyed := true }

structure RxState where
  /-- `c.in.err` -/
  err : Option RxErr := none
  /-- `c.in.seq` -/
  seq : Nat := 0
  /-- `c.retryCount` -/
  retry : Nat := 0
  /-- `c.hand.Len()` -/
  hand : Nat := 0
  /-- unread part of `c.input` -/
  input : Bytes := []
  /-- alert descriptions this side has sent, oldest first -/
  alerts : List Nat := []
deriving Repr, DecidableEq

inductive RxOut
  | data (bs : Bytes)   -- `c.input.Reset(data)`, returns nil
  | hand                -- `c.hand.Write(data)`, returns nil
  | ccs                 -- `c.in.changeCipherSpec()`, returns nil
  | cont                -- `retryReadRecord` recurses: the next record is read by the same call
  | err (e : RxErr)     -- returns e (latched)
deriving Repr, DecidableEq

/-- `c.in.setErrorLocked(e)` without an alert -/
def fail (s : RxState) (e : RxErr) : RxState × RxOut := ({ s with err := some e }, .err e)

/-- `c.in.setErrorLocked(c.sendAlert(a))`: the alert goes out, the local error is latched -/
def failAlert (s : RxState) (a : Nat) : RxState × RxOut :=
  ({ s with err := some (.localAlert a), alerts := s.alerts ++ [a] }, .err (.localAlert a))

/-- `_ = c.sendAlert(a); return c.in.setErrorLocked(e)` -/
def failWith (s : RxState) (a : Nat) (e : RxErr) : RxState × RxOut :=
  ({ s with err := some e, alerts := s.alerts ++ [a] }, .err e)

/-- `retryReadRecord` up to its recursive call -/
def retry (p : Params) (s : RxState) : RxState × RxOut :=
  let s := { s with retry := s.retry + 1 }
  if s.retry > p.maxUseless then failWith s p.aUnexpected .tooManyIgnored else (s, .cont)

/-- the checks `readRecordOrCCS` makes on the 5 header bytes before it waits for the body;
`some (alert?, error)` = refused -/
def hdrCheck (p : Params) (c : Ctx) (typ vers n : Nat) : Option (Option Nat × RxErr) :=
  if !c.hsComplete && typ == 0x80 then some (some p.aProtoVersion, .header)
  else if c.haveVers && vers != p.vers then some (some p.aProtoVersion, .header)
  else if !c.haveVers && ((typ != p.tAlert && typ != p.tHandshake) || vers ≥ 0x1000) then some (none, .header)
  else if n > p.maxCiphertext then some (some p.aOverflow, .header)
  else none

def failHdr (s : RxState) : Option Nat × RxErr → RxState × RxOut
  | (some a, e) => failWith s a e
  | (none, e) => fail s e

/-- "This is a state-advancing message: reset the retry count." -/
def resetRetry (p : Params) (s : RxState) (typ : Nat) (data : Bytes) : RxState :=
  if typ != p.tAlert && typ != p.tCCS && data.length > 0 then { s with retry := 0 } else s

/-- the record-type switch, applied to the plaintext of a record that passed `decrypt` -/
def dispatch (p : Params) (c : Ctx) (s : RxState) (typ : Nat) (data : Bytes) : RxState × RxOut :=
  if data.length > p.maxPlaintext then failAlert s p.aOverflow
  else if !c.keyed && typ == p.tApp then failAlert s p.aUnexpected
  else
    let s := resetRetry p s typ data
    if typ == p.tAlert then
      match data with
      | [lvl, desc] =>
        if desc.toNat == p.aCloseNotify then fail s .eof
        else if lvl.toNat == p.lvlWarning then retry p s
        else if lvl.toNat == p.lvlError then fail s (.remoteAlert desc.toNat)
        else failAlert s p.aUnexpected
      | _ => failAlert s p.aUnexpected
    else if typ == p.tCCS then
      if data != [1] then failAlert s p.aDecodeError
      else if s.hand > 0 then failAlert s p.aUnexpected
      else if !c.expectCCS then failAlert s p.aUnexpected
      else if !c.haveNext then failAlert s p.aInternal
      else ({ s with seq := 0 }, .ccs)
    else if typ == p.tApp then
      if !c.hsComplete || c.expectCCS then failAlert s p.aUnexpected
      else if data.length == 0 then retry p s
      else (s, .data data)
    else if typ == p.tHandshake then
      if data.length == 0 || c.expectCCS then failAlert s p.aUnexpected
      else if c.hsComplete && p.postHsRefused then failAlert s p.aNoRenegotiation
      else ({ s with hand := s.hand + data.length }, .hand)
    else failAlert s p.aUnexpected

/-- `readRecordOrCCS` from the header checks on, for one complete wire record (the latch is
tested by the caller, `pump`) -/
def rx {β : Type} (p : Params) (D : Dec β) (c : Ctx) (s : RxState) (w : Wire β) : RxState × RxOut :=
  match hdrCheck p c w.typ w.vers (D.len w.body) with
  | some r => failHdr s r
  | none =>
    match (if c.keyed then D.decrypt s.seq w.typ w.vers w.body else DecOut.ok (D.raw w.body)) with
    | .fail a _ => failAlert s a
    | .ok data => dispatch p c { s with seq := s.seq + 1 } w.typ data

/-! ## how the transport ends, `readRecord`, `Conn.Read` -/

/-- an incomplete record at the end of the transport stream -/
inductive Partial
  | hdr (typ : Nat) (k : Nat)          -- 1 ≤ k < 5 header bytes; `typ` is the first of them
  | body (typ vers n : Nat)            -- the whole header, fewer than `n` body bytes
deriving Repr, DecidableEq

structure Tail where
  part : Option Partial := none
  /-- the transport reported EOF after the bytes above (otherwise a read blocks) -/
  closed : Bool := true
deriving Repr, DecidableEq

inductive Stop
  | filled            -- `c.input` was set
  | nil               -- `readRecord` returned nil without setting `c.input` (handshake bytes, CCS)
  | err (e : RxErr)
  | blocked           -- the transport has no more bytes and is not closed
deriving Repr, DecidableEq

/-- `readRecordOrCCS` when no complete record is left -/
def atTail (p : Params) (c : Ctx) (s : RxState) (t : Tail) : RxState × Stop :=
  match t.part with
  | none => if t.closed then ({ s with err := some .eof }, .err .eof) else (s, .blocked)
  | some (.hdr _ _) =>
    if t.closed then ({ s with err := some .unexpectedEOF }, .err .unexpectedEOF) else (s, .blocked)
  | some (.body typ vers n) =>
    match hdrCheck p c typ vers n with
    | some r => let (s', _) := failHdr s r; (s', .err (match r with | (_, e) => e))
    | none => if t.closed then ({ s with err := some .unexpectedEOF }, .err .unexpectedEOF) else (s, .blocked)

/-- `readRecord` calls until something other than "retry" happens.
`stopAtHand = true`: exactly one `c.readRecord()` (with its internal retries);
`stopAtHand = false`: the loop `for c.input.Len() == 0 { c.readRecord() }` of `Conn.Read`. -/
def pump {β : Type} (p : Params) (D : Dec β) (c : Ctx) (t : Tail) (stopAtHand : Bool) :
    RxState → List (Wire β) → RxState × List (Wire β) × Stop
  | s, [] =>
    match s.err with
    | some e => (s, [], .err e)
    | none => let (s', st) := atTail p c s t; (s', [], st)
  | s, w :: ws =>
    match s.err with
    | some e => (s, w :: ws, .err e)
    | none =>
      if s.input ≠ [] then
        ({ s with err := some .internalPending }, w :: ws, .err .internalPending)
      else
      match rx p D c s w with
      | (s', .data d) => ({ s' with input := d }, ws, .filled)
      | (s', .cont) => pump p D c t stopAtHand s' ws
      | (s', .hand) => if stopAtHand then (s', ws, .nil) else pump p D c t stopAtHand s' ws
      | (s', .ccs) => if stopAtHand then (s', ws, .nil) else pump p D c t stopAtHand s' ws
      | (s', .err e) => (s', ws, .err e)

inductive ReadRes
  | ok (data : Bytes)                    -- (n, nil)
  | okErr (data : Bytes) (e : RxErr)     -- (n > 0, err): the close-notify look-ahead failed
  | err (e : RxErr)                      -- (0, err)
  | blocked (data : Bytes)               -- the call does not return (after taking `data` out of `c.input`)
deriving Repr, DecidableEq

/-- bytes a call handed to the application -/
def ReadRes.data : ReadRes → Bytes
  | .ok d => d | .okErr d _ => d | .err _ => [] | .blocked d => d

/-- the error a call returned -/
def ReadRes.error : ReadRes → Option RxErr
  | .ok _ => none | .okErr _ e => some e | .err e => some e | .blocked _ => none

/-- first byte of what follows in the transport stream, if any -/
def nextType {β : Type} (ws : List (Wire β)) (t : Tail) : Option Nat :=
  match ws with
  | w :: _ => some w.typ
  | [] => match t.part with
    | some (.hdr typ _) => some typ
    | some (.body typ _ _) => some typ
    | none => none

/-- `Conn.Read(b)` with `len(b) = n` on an established connection (`Handshake()` returns nil).
`peek` says whether `c.rawInput.Len() > 0` at the moment of the look-ahead test, i.e. whether the
transport had already handed over the first byte of what follows. -/
def readCall {β : Type} (p : Params) (D : Dec β) (c : Ctx) (t : Tail)
    (s : RxState) (ws : List (Wire β)) (n : Nat) (peek : Bool) : (RxState × List (Wire β)) × ReadRes :=
  if n = 0 then ((s, ws), .ok []) else
  let r := if s.input ≠ [] then (s, ws, Stop.filled) else pump p D c t false s ws
  match r with
  | (s1, ws1, .err e) => ((s1, ws1), .err e)
  | (s1, ws1, .blocked) => ((s1, ws1), .blocked [])
  | (s1, ws1, _) =>
    let out := s1.input.take n
    let s2 := { s1 with input := s1.input.drop n }
    if out ≠ [] && s2.input == [] && peek && nextType ws1 t == some p.tAlert then
      match pump p D c t true s2 ws1 with
      | (s3, ws3, .err e) => ((s3, ws3), .okErr out e)
      | (s3, ws3, .blocked) => ((s3, ws3), .blocked out)
      | (s3, ws3, _) => ((s3, ws3), .ok out)
    else ((s2, ws1), .ok out)

/-- a history of `Read` calls, each with its buffer length and look-ahead bit -/
def reads {β : Type} (p : Params) (D : Dec β) (c : Ctx) (t : Tail) :
    RxState → List (Wire β) → List (Nat × Bool) → List ReadRes
  | _, _, [] => []
  | s, ws, (n, pk) :: calls =>
    let ((s', ws'), r) := readCall p D c t s ws n pk
    r :: reads p D c t s' ws' calls

/-- record-level run without buffering: every wire record is offered to `readRecordOrCCS` in turn
(latch first) — used to state what happens to each individual record of an attack -/
def recvAll {β : Type} (p : Params) (D : Dec β) (c : Ctx) : RxState → List (Wire β) → List RxOut
  | _, [] => []
  | s, w :: ws =>
    match s.err with
    | some e => .err e :: recvAll p D c s ws
    | none => let (s', o) := rx p D c s w; o :: recvAll p D c s' ws

/-! ## the sender's side, symbolically, and the ideal-protection law -/

/-- what the honest peer handed to its record layer: the i-th record's type and plaintext -/
structure Sent where
  typ : Nat
  payload : Bytes
deriving Repr, DecidableEq

/-- INT-CTXT as a law about `hc.decrypt` in a world where the key protected exactly the records
`sent` (the i-th under sequence number i) and `wire i` is the body that went out for the i-th:
the genuine body opens to its plaintext under its own sequence number and header fields, and
nothing else opens at all. -/
structure IdealLaw {β : Type} (p : Params) (D : Dec β) (sent : List Sent) (wire : Nat → β) : Prop where
  opens : ∀ i (h : i < sent.length), D.decrypt i sent[i].typ p.vers (wire i) = .ok sent[i].payload
  only : ∀ seq typ vers b pt, D.decrypt seq typ vers b = .ok pt →
    ∃ h : seq < sent.length, b = wire seq ∧ typ = sent[seq].typ ∧ vers = p.vers ∧ pt = sent[seq].payload

/-- per sender record, the bytes the peer's application is entitled to: the plaintext of
application-data records, nothing for the others -/
def appPayloads (p : Params) (sent : List Sent) : List Bytes :=
  sent.map fun r => if r.typ = p.tApp then r.payload else []

/-- the wire record an untouched transport delivers for the sender's i-th record -/
def honest {β : Type} (p : Params) (sent : List Sent) (wire : Nat → β) (i : Nat) : Wire β :=
  { typ := (sent.getD i ⟨0, []⟩).typ, vers := p.vers, body := wire i }

/-- number of leading wire records that are the sender's records `i, i+1, …`, untouched and in
order; the record at this index (if any) is the first damaged one -/
def goodPrefix {β : Type} [DecidableEq β] (p : Params) (sent : List Sent) (wire : Nat → β) (i : Nat) :
    List (Wire β) → Nat
  | [] => 0
  | w :: ws => if w = honest p sent wire i ∧ i < sent.length then 1 + goodPrefix p sent wire (i+1) ws else 0

/-- the bytes of the first `k` sender records the peer application is entitled to -/
def appBytes (p : Params) (sent : List Sent) (k : Nat) : Bytes := ((appPayloads p sent).take k).flatten

/-- symbolic bodies: the sender's i-th body, or anything else (numbered, with its length and the
bytes it would be read as if no cipher were active) -/
inductive SymBody
  | genuine (i : Nat)
  | junk (k : Nat) (len : Nat) (plain : Bytes)
deriving Repr, DecidableEq

/-- the term-algebra instance of the law: a body opens iff it is the genuine one for this
sequence number and these header fields. `glen i` is the wire length of the i-th genuine body. -/
def symDec (p : Params) (sent : List Sent) (glen : Nat → Nat) : Dec SymBody :=
  { len := fun | .genuine i => glen i | .junk _ l _ => l,
    raw := fun | .genuine _ => [] | .junk _ _ b => b,
    decrypt := fun seq typ vers b =>
      match b with
      | .genuine i =>
        match sent[i]? with
        | some r => if i = seq ∧ typ = r.typ ∧ vers = p.vers then .ok r.payload else .fail p.aBadMAC .aeadOpen
        | none => .fail p.aBadMAC .aeadOpen
      | .junk _ _ _ => .fail p.aBadMAC .aeadOpen }

end Gotlcp.Model.RecordRx

import Gotlcp.Oracle.C08
def main : IO Unit := Gotlcp.Oracle.mainWith Gotlcp.Oracle.C08.judge

import Gotlcp.Oracle.C10
def main : IO Unit := Gotlcp.Oracle.mainWith Gotlcp.Oracle.C10.judge

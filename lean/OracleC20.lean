import Gotlcp.Oracle.C20
def main : IO Unit := Gotlcp.Oracle.mainWith Gotlcp.Oracle.C20.judge

import Gotlcp.Oracle.C12
def main : IO Unit := Gotlcp.Oracle.mainWith Gotlcp.Oracle.C12.judge

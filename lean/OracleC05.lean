import Gotlcp.Oracle.C05
def main : IO Unit := Gotlcp.Oracle.mainWith Gotlcp.Oracle.C05.judge

import Gotlcp.Oracle.C18
def main : IO Unit := Gotlcp.Oracle.mainWith Gotlcp.Oracle.C18.judge

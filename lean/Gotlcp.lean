import Gotlcp.Base.Hex
import Gotlcp.Generated.Facts
import Gotlcp.Props.C11

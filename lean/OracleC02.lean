import Gotlcp.Oracle.C02
def main : IO Unit := Gotlcp.Oracle.mainWith Gotlcp.Oracle.C02.judge

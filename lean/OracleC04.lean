import Gotlcp.Oracle.C04HS
def main (args : List String) : IO Unit :=
  if args == ["seal"] then Gotlcp.Oracle.C04.sealService
  else Gotlcp.Oracle.mainWith Gotlcp.Oracle.C04HS.judge

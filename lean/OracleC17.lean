import Gotlcp.Oracle.C17
def main : IO Unit := Gotlcp.Oracle.mainWith Gotlcp.Oracle.C17.judge

import Gotlcp.Oracle.C14
def main : IO Unit := Gotlcp.Oracle.mainWith Gotlcp.Oracle.C14.judge

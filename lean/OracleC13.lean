import Gotlcp.Oracle.C13
def main : IO Unit := Gotlcp.Oracle.mainWith Gotlcp.Oracle.C13.judge

import Gotlcp.Oracle.C15
def main : IO Unit := Gotlcp.Oracle.mainWith Gotlcp.Oracle.C15.judge

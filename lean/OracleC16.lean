import Gotlcp.Oracle.C16
def main : IO Unit := Gotlcp.Oracle.mainWith Gotlcp.Oracle.C16.judge

import Gotlcp.Oracle.C19
def main : IO Unit := Gotlcp.Oracle.mainWith Gotlcp.Oracle.C19.judge

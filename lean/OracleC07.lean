import Gotlcp.Oracle.C07
def main : IO Unit := Gotlcp.Oracle.mainWith Gotlcp.Oracle.C07.judge

import Gotlcp.Oracle.Common
/-- placeholder: the oracle of C07 is not written yet -/
def main : IO Unit := Gotlcp.Oracle.mainWith (fun _ _ => none)

import Gotlcp.Oracle.C11
def main : IO Unit := Gotlcp.Oracle.mainWith Gotlcp.Oracle.C11.judge

import Gotlcp.Oracle.C03
def main : IO Unit := Gotlcp.Oracle.mainWith Gotlcp.Oracle.C03.judge

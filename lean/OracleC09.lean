import Gotlcp.Oracle.C09
def main : IO Unit := Gotlcp.Oracle.mainWith Gotlcp.Oracle.C09.judge

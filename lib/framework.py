"""Framework behind bin/check (see DESIGN.md section 3.5)."""
import argparse, fcntl, hashlib, json, os, re, shutil, subprocess, sys, time

VERIF = os.path.abspath(os.path.join(os.path.dirname(os.path.abspath(__file__)), ".."))
REPO = os.environ.get("VERIF_REPO", "/repo")
LEAN = os.path.join(VERIF, "lean")
HARNESS = os.path.join(VERIF, "harness")
BUILD = os.path.join(VERIF, ".build")
WORK = os.path.join(VERIF, "work")
REPLAYS = os.path.join(VERIF, "replays")
EVID = os.path.join(VERIF, "evidence")
ALLOWED_AXIOMS = {"propext", "Classical.choice", "Quot.sound"}

# /repo needs go >= 1.25: the default `go` switches offline to the cached go1.25.0 toolchain under
# GOTOOLCHAIN=auto (GOSUMDB must stay at its default for that switch to verify from the cache).
GOENV = dict(os.environ, GOFLAGS="-mod=mod", GOPROXY="off", GOTOOLCHAIN="auto")
GOENV.pop("GOSUMDB", None)


def log(*a):
    print(*a, file=sys.stderr, flush=True)


def run(cmd, cwd=None, env=None, timeout=None, stdin=None, stdout=subprocess.PIPE):
    t0 = time.time()
    try:
        p = subprocess.run(cmd, cwd=cwd, env=env, timeout=timeout, stdin=stdin, stdout=stdout,
                           stderr=subprocess.STDOUT, text=True, errors="replace")
        return p.returncode, p.stdout or "", time.time() - t0
    except subprocess.TimeoutExpired as e:
        out = e.stdout if isinstance(e.stdout, str) else (e.stdout or b"").decode("utf8", "replace")
        return 124, (out or "") + "\n[timeout]", time.time() - t0


class Lock:
    """serialises the build steps (lake / go build) between concurrently running checks"""
    def __init__(self, name):
        os.makedirs(BUILD, exist_ok=True)
        self.path = os.path.join(BUILD, name + ".lock")
    def __enter__(self):
        self.f = open(self.path, "w")
        fcntl.flock(self.f, fcntl.LOCK_EX)
        return self
    def __exit__(self, *a):
        fcntl.flock(self.f, fcntl.LOCK_UN)
        self.f.close()


# --------------------------------------------------------------------------- steps

def sync_gosum():
    """harness/go.sum follows /repo/go.sum (the harness module replaces gotlcp by /repo)"""
    src = os.path.join(REPO, "go.sum")
    dst = os.path.join(HARNESS, "go.sum")
    try:
        a = open(src, "rb").read()
        b = open(dst, "rb").read() if os.path.exists(dst) else b""
        if a != b and not b.startswith(a):
            # keep extra lines the harness may need (none today)
            open(dst, "wb").write(a)
    except OSError:
        pass


def extract_facts():
    """returns (ok, message, facts dict)"""
    os.makedirs(BUILD, exist_ok=True)
    sync_gosum()
    exe = os.path.join(BUILD, "extract")
    rc, out, _ = run(["go", "build", "-o", exe, "./cmd/extract"], cwd=HARNESS, env=GOENV, timeout=600)
    if rc != 0:
        return False, "building the fact extractor failed:\n" + out, {}
    facts_json = os.path.join(BUILD, "facts.json")
    rc, out, _ = run([exe, "-repo", REPO, "-lean", os.path.join(LEAN, "Gotlcp/Generated/Facts.lean"),
                      "-json", facts_json], timeout=120)
    if rc != 0:
        return False, "fact extraction failed (source does not parse?):\n" + out, {}
    # the translator: selected pure functions of the Go source -> lean/Gotlcp/Generated/Src.lean
    exe2 = os.path.join(BUILD, "go2lean")
    rc, out, _ = run(["go", "build", "-o", exe2, "./cmd/go2lean"], cwd=HARNESS, env=GOENV, timeout=600)
    if rc != 0:
        return False, "building the Go->Lean translator failed:\n" + out, {}
    rc, out, _ = run([exe2, "-selftest"], timeout=120)
    if rc != 0:
        return False, "the translator's alias-analysis self test failed:\n" + out, {}
    rc, out, _ = run([exe2, "-repo", REPO, "-out", os.path.join(LEAN, "Gotlcp/Generated/Src.lean")], timeout=120)
    if rc != 0:
        return False, "Go->Lean translation failed (source does not parse?):\n" + out, {}
    try:
        return True, "", json.load(open(facts_json))
    except Exception as e:
        return False, "facts.json unreadable: %s" % e, {}


def changed_hashes(facts, names):
    golden_path = os.path.join(HARNESS, "expect", "facts.golden.json")
    try:
        golden = json.load(open(golden_path)).get("hashes", {})
    except Exception:
        golden = {}
    cur = facts.get("hashes", {})
    return sorted(n for n in names if cur.get(n) != golden.get(n))


def changed_facts(facts):
    golden_path = os.path.join(HARNESS, "expect", "facts.golden.json")
    try:
        golden = json.load(open(golden_path))
    except Exception:
        return []
    out = []
    for k in sorted(set(golden) | set(facts)):
        if k == "hashes":
            continue
        if golden.get(k) != facts.get(k):
            out.append(k)
    return out


def theorem_names(props_file, pid):
    names = []
    ns = None
    for line in open(props_file, encoding="utf8"):
        m = re.match(r"\s*namespace\s+(\S+)", line)
        if m and ns is None:
            ns = m.group(1)
        m = re.match(r"\s*theorem\s+(%s_[A-Za-z0-9_']+)" % pid, line)
        if m:
            names.append(m.group(1))
    return ns, names


def enclosing_theorem(props_file, lineno):
    last = None
    for i, line in enumerate(open(props_file, encoding="utf8"), 1):
        m = re.match(r"\s*(theorem|lemma|example|def)\s+([A-Za-z0-9_'.]+)?", line)
        if m:
            if i > lineno:
                break
            last = m.group(2) or "example@%d" % i
    return last


def lake_build(targets, timeout=3600):
    return run(["lake", "build"] + targets, cwd=LEAN, timeout=timeout)


def parse_lean_errors(out):
    """[(file, line, message)]"""
    errs = []
    for m in re.finditer(r"error: (\S+?\.lean):(\d+):(\d+): (.*)", out):
        errs.append((m.group(1), int(m.group(2)), m.group(4)))
    return errs


def audit_axioms(pid, modules, ns, names):
    """returns dict theorem -> sorted list of axioms (or None when not reported)"""
    os.makedirs(os.path.join(LEAN, ".audit"), exist_ok=True)
    path = os.path.join(LEAN, ".audit", pid + ".lean")
    with open(path, "w") as f:
        for m in modules:
            f.write("import %s\n" % m)
        for n in names:
            f.write("#print axioms %s.%s\n" % (ns, n))
    rc, out, _ = run(["lake", "env", "lean", path], cwd=LEAN, timeout=900)
    res = {}
    # "'X' depends on axioms: [a, b]" possibly wrapped over lines; "'X' does not depend on any axioms"
    flat = re.sub(r"\s+", " ", out)
    for n in names:
        full = "%s.%s" % (ns, n)
        m = re.search(r"'%s' depends on axioms: \[([^\]]*)\]" % re.escape(full), flat)
        if m:
            res[n] = sorted(x.strip() for x in m.group(1).split(",") if x.strip())
        elif re.search(r"'%s' does not depend on any axioms" % re.escape(full), flat):
            res[n] = []
        else:
            res[n] = None
    return res, out


def grep_forbidden(files):
    bad = []
    pat = re.compile(r"\b(sorry|admit|native_decide|bv_decide|implemented_by|unsafe)\b|^\s*axiom\s|maxHeartbeats\s+0")
    for f in files:
        try:
            incomment = 0
            for i, line in enumerate(open(f, encoding="utf8"), 1):
                code = line
                # crude comment stripping: block comments and line comments
                if incomment:
                    if "-/" in code:
                        incomment = 0
                        code = code.split("-/", 1)[1]
                    else:
                        continue
                if "/-" in code:
                    pre = code.split("/-", 1)[0]
                    if "-/" not in code.split("/-", 1)[1]:
                        incomment = 1
                    code = pre
                code = code.split("--", 1)[0]
                if pat.search(code):
                    bad.append("%s:%d: %s" % (os.path.relpath(f, VERIF), i, line.strip()))
        except OSError:
            pass
    return bad


def lean_closure(modules):
    """source files of Gotlcp.* modules reachable from `modules` (imports within the project)"""
    seen, todo, files = set(), list(modules), []
    while todo:
        m = todo.pop()
        if m in seen or not m.startswith("Gotlcp"):
            continue
        seen.add(m)
        p = os.path.join(LEAN, m.replace(".", "/") + ".lean")
        if not os.path.exists(p):
            continue
        files.append(p)
        for line in open(p, encoding="utf8"):
            mm = re.match(r"\s*import\s+(\S+)", line)
            if mm:
                todo.append(mm.group(1))
    return sorted(files)


def reference_oracle(cfg, workdir):
    """path of an oracle executable built from harness/expect/Facts.golden.lean, or None when the regenerated facts
    are the golden ones (then the oracle at hand is the reference) or it cannot be built"""
    gold = os.path.join(HARNESS, "expect", "Facts.golden.lean")
    cur = os.path.join(LEAN, "Gotlcp", "Generated", "Facts.lean")
    try:
        if open(gold, "rb").read() == open(cur, "rb").read():
            return None
    except OSError:
        return None
    dst = os.path.join(workdir, "lean_ref")
    rc, out, _ = run(["rsync", "-a", "--delete", "--exclude", ".audit", LEAN + "/", dst + "/"], timeout=600)
    if rc != 0:
        return None
    shutil.copy2(gold, os.path.join(dst, "Gotlcp", "Generated", "Facts.lean"))
    rc, out, secs = run(["lake", "build", cfg["oracle"]], cwd=dst, timeout=1800)
    log("[%s] reference oracle (golden facts): rc=%d %.1fs" % (cfg["property"], rc, secs))
    exe = os.path.join(dst, ".lake", "build", "bin", cfg["oracle"])
    return exe if rc == 0 and os.path.exists(exe) else None


def build_driver(name):
    exe = os.path.join(BUILD, name)
    rc, out, _ = run(["go", "build", "-tags", "verif", "-o", exe, "./cmd/" + name], cwd=HARNESS, env=GOENV, timeout=1200)
    return rc == 0, out, exe


def run_phase(cfg, exe, oracle_exe, phase, tier, seed, scale, workdir, replay=None, on_line=None):
    """Runs the driver and streams its `case => observed` lines through the oracle.

    Nothing is kept on disk or in memory: the trace goes through a FIFO, every (case, answer)
    pair is handed to on_line(case_line, answer). Returns dict(phase, driver_s, cases, errors)."""
    import threading, queue, tempfile
    name = phase.get("name", "main")
    fifo = os.path.join(workdir, "%s.fifo" % (name or "main"))
    if os.path.exists(fifo):
        os.unlink(fifo)
    os.mkfifo(fifo)
    args = [exe, "-tier", tier, "-seed", str(seed), "-out", fifo, "-scale", str(scale)]
    if phase.get("name"):
        args += ["-phase", phase["name"]]
    if replay:
        args += ["-replay", replay]
    args += phase.get("args", [])
    env = dict(GOENV, GOMEMLIMIT=phase.get("gomemlimit", "6GiB"))
    timeout = phase.get("timeout", 900 if tier == "quick" else 7200)
    res = {"phase": name, "driver_s": 0.0, "cases": 0, "errors": []}
    t0 = time.time()
    # reader end first (non-blocking open), plus a dummy writer so that EOF arrives only when we say so
    rfd = os.open(fifo, os.O_RDONLY | os.O_NONBLOCK)
    wfd = os.open(fifo, os.O_WRONLY)
    os.set_blocking(rfd, True)
    dlog = tempfile.TemporaryFile(mode="w+")
    drv = subprocess.Popen(args, cwd=HARNESS, env=env, stdout=dlog, stderr=subprocess.STDOUT)
    orc = subprocess.Popen([oracle_exe], stdin=subprocess.PIPE, stdout=subprocess.PIPE, stderr=subprocess.PIPE)
    pending = queue.Queue()
    state = {"timed_out": False}

    def waiter():
        try:
            drv.wait(timeout=timeout)
        except subprocess.TimeoutExpired:
            state["timed_out"] = True
            drv.kill()
            drv.wait()
        res["driver_s"] = round(time.time() - t0, 2)
        os.close(wfd)           # now the reader sees EOF once the FIFO is drained

    def feeder():
        try:
            with os.fdopen(rfd, "rb", buffering=1 << 20) as fin:
                for raw in fin:
                    line = raw.rstrip(b"\r\n")
                    if not line.strip() or line.startswith(b"#"):
                        continue
                    pending.put(line)
                    try:
                        orc.stdin.write(line + b"\n")
                    except (BrokenPipeError, OSError):
                        break
        finally:
            try:
                orc.stdin.close()
            except OSError:
                pass
            pending.put(None)

    errbuf = []
    def errreader():
        errbuf.append(orc.stderr.read()[-4000:])

    th = [threading.Thread(target=f, daemon=True) for f in (waiter, feeder, errreader)]
    for t in th:
        t.start()
    answered = 0
    for raw in orc.stdout:
        ans = raw.decode("utf8", "replace").rstrip("\r\n")
        c = pending.get()
        if c is None:
            res["errors"].append("oracle answered more lines than cases")
            break
        answered += 1
        if on_line:
            on_line(c.decode("utf8", "replace"), ans)
    orc.wait()
    for t in th:
        t.join(timeout=30)
    # cases the oracle never answered
    unanswered = 0
    while True:
        try:
            c = pending.get_nowait()
        except queue.Empty:
            break
        if c is not None:
            unanswered += 1
    res["cases"] = answered
    if unanswered:
        res["errors"].append("oracle left %d cases unanswered" % unanswered)
    if orc.returncode != 0:
        res["errors"].append("oracle exited %s: %s" % (orc.returncode, (errbuf[0] if errbuf else b"").decode("utf8", "replace")))
    dlog.seek(0)
    dout = dlog.read()[-4000:]
    dlog.close()
    if state["timed_out"]:
        res["errors"].append("driver timed out after %ds" % timeout)
    elif drv.returncode != 0:
        res["errors"].append("driver exited %s: %s" % (drv.returncode, dout[-2000:]))
    try:
        os.unlink(fifo)
    except OSError:
        pass
    return res


def match_known(pid, tag, case, known):
    for k in known:
        if k.get("property") != pid or k.get("status") != "known":
            continue
        if k.get("tag") and k["tag"] != tag:
            continue
        if k.get("case_regex") and not re.search(k["case_regex"], case):
            continue
        return k
    return None


def load_known():
    try:
        return json.load(open(os.path.join(VERIF, "known_findings.json"))).get("findings", [])
    except Exception:
        return []


def write_replay(pid, kind, body):
    os.makedirs(REPLAYS, exist_ok=True)
    h = hashlib.sha256(body.encode()).hexdigest()[:12]
    path = os.path.join(REPLAYS, "%s-%s-%s.txt" % (pid, kind, h))
    with open(path, "w") as f:
        f.write(body)
    return path


class Stats:
    """streaming summary of (case line, oracle answer) pairs"""
    MAXKEEP = 200

    def __init__(self, pid, known):
        self.pid, self.known = pid, known
        self.n = self.agree = self.ndis = self.nfail = self.nbad = 0
        self.disagree, self.bad = [], []
        self.nontrivial, self.distinct = set(), set()
        self.notes = {}
        self.unknown = {}      # tag -> (case, answer, why, count) shortest failing case not in known_findings
        self.known_hit = {}    # finding id -> (entry, case, count)
        self.head, self.tail = [], []
        self.cur = None        # (phase dict, tier, seed, scale) of the run_phase call in progress
        self.origin = {}       # tag -> the `cur` under which its representative case was produced

    def add(self, c, a):
        self.n += 1
        if len(self.head) < 3:
            self.head.append(c)
        else:
            self.tail = (self.tail + [c])[-2:]
        h = hash(c.split(" => ")[0])
        self.distinct.add(h)
        if a.startswith("BADLINE") or not a:
            self.nbad += 1
            if len(self.bad) < 5:
                self.bad.append((c, a))
            return
        if not a.endswith(" triv"):
            self.nontrivial.add(h)
        if a.startswith("DISAGREE"):
            self.ndis += 1
            if len(self.disagree) < self.MAXKEEP:
                self.disagree.append((c, a))
        else:
            self.agree += 1
        m = re.search(r"spec=FAIL:([^:\s]*):(\S*)", a)
        if m:
            self.nfail += 1
            tag, why = m.group(1), m.group(2)
            k = match_known(self.pid, tag, c, self.known)
            if k:
                e = self.known_hit.get(k["id"])
                self.known_hit[k["id"]] = (k, e[1] if e else c, (e[2] if e else 0) + 1)
            else:
                e = self.unknown.get(tag)
                if e is None or len(c) < len(e[0]):
                    self.unknown[tag] = (c, a, why, (e[3] if e else 0) + 1)
                    self.origin[tag] = self.cur
                else:
                    self.unknown[tag] = (e[0], e[1], e[2], e[3] + 1)
        m = re.search(r"note=(\S+)", a)
        if m and len(self.notes) < 200:
            self.notes[m.group(1)] = self.notes.get(m.group(1), 0) + 1
        elif m and m.group(1) in self.notes:
            self.notes[m.group(1)] += 1


# --------------------------------------------------------------------------- main

def main(argv):
    ap = argparse.ArgumentParser()
    ap.add_argument("pid")
    ap.add_argument("--tier", default=os.environ.get("VERIF_TIER", "quick"))
    ap.add_argument("--replay")
    ap.add_argument("--no-lean", action="store_true", help="skip the Lean build (development only)")
    a = ap.parse_args(argv)
    if a.replay:
        a.replay = os.path.abspath(a.replay)
    pid = a.pid.upper()
    tier = "thorough" if a.tier == "thorough" else "quick"
    try:
        seed = int(os.environ.get("VERIF_SEED", "1"))
    except ValueError:
        seed = 1
    cfg_path = os.path.join(VERIF, "checks", pid + ".json")
    if not os.path.exists(cfg_path):
        print("no check registered for", pid)
        return 2
    cfg = json.load(open(cfg_path))
    t0 = time.time()
    # one work directory per invocation (several checks of one property may run at once)
    workdir = os.path.join(WORK, "%s-%d" % (pid, os.getpid()))
    shutil.rmtree(workdir, ignore_errors=True)
    os.makedirs(workdir, exist_ok=True)
    import atexit
    atexit.register(lambda: os.environ.get("VERIF_KEEP_WORK") or shutil.rmtree(workdir, ignore_errors=True))
    os.makedirs(EVID, exist_ok=True)
    known = load_known()

    problems = []      # (kind, theorem-or-site, text): proof / tie broken
    obligations = []   # [{name, kind, discharged, axioms}]
    facts = {}
    oracle_exe = os.path.join(LEAN, ".lake", "build", "bin", cfg["oracle"])
    props_file = os.path.join(VERIF, cfg["props_file"])
    modules = cfg["lean_targets"]

    with Lock("build"):
        ok, msg, facts = extract_facts()
        if not ok:
            problems.append(("extract", "harness/cmd/extract", msg))
        ns, names = theorem_names(props_file, pid)
        # further files of property theorems (same Lean namespace as the main one; their modules are in lean_targets)
        for extra in cfg.get("extra_props_files", []):
            ep = os.path.join(VERIF, extra)
            if os.path.exists(ep):
                ens, enames = theorem_names(ep, pid)
                if ens != ns:
                    problems.append(("harness", extra, "namespace %s differs from %s" % (ens, ns)))
                names += [n for n in enames if n not in names]
            else:
                problems.append(("proof", extra, "property theorem file missing"))
        if not a.no_lean:
            rc, out, secs = lake_build(modules)
            log("[%s] lake build %s: rc=%d %.1fs" % (pid, " ".join(modules), rc, secs))
            broken = {}
            if rc != 0:
                for f, ln, m in parse_lean_errors(out):
                    fp = os.path.join(LEAN, f)
                    th = enclosing_theorem(fp, ln) if os.path.exists(fp) else None
                    broken.setdefault("%s:%s" % (f, th), []).append("%s:%d: %s" % (f, ln, m))
                if not broken:
                    broken["build"] = [out[-3000:]]
                for k, v in broken.items():
                    problems.append(("proof", k, "\n".join(v[:5])))
            if "declaration uses 'sorry'" in out:
                problems.append(("proof", "sorry", "a declaration uses sorry"))
            axioms = {}
            if rc == 0:
                axioms, audit_out = audit_axioms(pid, modules, ns, names)
            for n in names:
                ax = axioms.get(n)
                good = ax is not None and set(ax) <= ALLOWED_AXIOMS
                obligations.append({"name": n, "kind": "theorem", "discharged": bool(good), "axioms": ax})
                if rc == 0 and not good:
                    problems.append(("axioms", n, "depends on %s" % ax))
            forb = grep_forbidden(lean_closure(modules))
            obligations.append({"name": "no sorry/admit/axiom/native_decide in the import closure", "kind": "grep",
                                "discharged": not forb, "detail": forb[:10]})
            if forb:
                problems.append(("forbidden", "grep", "\n".join(forb[:10])))
            if tier == "thorough" and rc == 0:
                for m in modules:
                    rc2, out2, s2 = run(["lake", "env", "leanchecker", m], cwd=LEAN, timeout=3600)
                    obligations.append({"name": "leanchecker " + m, "kind": "recheck", "discharged": rc2 == 0})
                    if rc2 != 0:
                        problems.append(("leanchecker", m, out2[-1500:]))
            rc, out, secs = lake_build([cfg["oracle"]])
            log("[%s] lake build %s: rc=%d %.1fs" % (pid, cfg["oracle"], rc, secs))
            if rc != 0:
                problems.append(("oracle-build", cfg["oracle"], out[-3000:]))
        okd, outd, exe = build_driver(cfg["driver"])
        if not okd:
            problems.append(("driver-build", "harness/cmd/" + cfg["driver"], outd[-3000:]))
        # private copies: a concurrent check may rebuild the shared binaries while we run
        try:
            if okd:
                shutil.copy2(exe, os.path.join(workdir, "driver"))
                exe = os.path.join(workdir, "driver")
            if os.path.exists(oracle_exe):
                shutil.copy2(oracle_exe, os.path.join(workdir, "oracle"))
                oracle_exe = os.path.join(workdir, "oracle")
        except OSError as e:
            problems.append(("harness", "copy", str(e)))

    changed = changed_hashes(facts, cfg.get("hashes", []))
    moved = [k for k in changed_facts(facts) if any(k.startswith(p) for p in cfg.get("fact_prefixes", ["Gotlcp.Facts"]))]
    scale = 4 if changed else 1

    # ----- replay mode
    if a.replay:
        if not okd or not os.path.exists(oracle_exe):
            print("cannot replay: driver or oracle did not build")
            return 2
        bad = [0]
        def show(c, ans):
            print(c)
            print("   ->", ans)
            if "spec=FAIL" in ans or ans.startswith("DISAGREE"):
                bad[0] += 1
        res = run_phase(cfg, exe, oracle_exe, {"name": ""}, tier, seed, 1, workdir, replay=a.replay, on_line=show)
        for e in res["errors"]:
            print("error:", e)
        return 1 if bad[0] else 0

    # ----- correspondence + spec
    phase_stats, harness_errors = [], []
    can_run = okd and os.path.exists(oracle_exe) and not any(p[0] == "oracle-build" for p in problems)
    phases = cfg.get("phases", {}).get(tier) or [{"name": ""}]
    st = Stats(pid, known)
    if can_run:
        for ph in phases:
            st.cur = (ph, tier, seed, scale)
            res = run_phase(cfg, exe, oracle_exe, ph, tier, seed, scale, workdir, on_line=st.add)
            harness_errors += ["%s: %s" % (res["phase"], e) for e in res["errors"]]
            phase_stats.append({"phase": res["phase"], "cases": res["cases"], "driver_s": res["driver_s"]})
    for e in harness_errors:
        problems.append(("harness", "driver/oracle", e))
    for c, ans in st.bad[:3]:
        problems.append(("harness", "oracle", "unparseable case: %s -> %s" % (c[:300], ans)))
    n_main = st.n

    # ----- search when a proof or the correspondence broke and the spec has not failed yet
    if (problems or st.ndis) and not st.unknown and can_run:
        log("[%s] proof/correspondence broke; searching for a failing input" % pid)
        has_search = "search" in cfg.get("phases", {})
        sp = cfg.get("phases", {}).get("search") or cfg.get("phases", {}).get("thorough") or phases
        for ph in sp:
            ph = dict(ph)
            ph.setdefault("timeout", 1500)
            st.cur = (ph, tier if has_search else "thorough", seed + 1000, 10)
            res = run_phase(cfg, exe, oracle_exe, ph, tier if has_search else "thorough", seed + 1000, 10, workdir, on_line=st.add)
            phase_stats.append({"phase": "search:" + res["phase"], "cases": res["cases"], "driver_s": res["driver_s"]})
            if st.unknown:
                break
    searched = st.n - n_main

    # ----- confirmation: a spec failure is reported as a concrete violation only if the case fails again when it
    # is re-executed ALONE (some observations are watchdog- or deadline-based: a deadlock verdict taken on a
    # loaded machine must reproduce; a deterministic failure always does)
    unconfirmed = {}
    by_phase = {}
    judge_exe = oracle_exe
    if st.unknown and can_run:
        # the spec verdict must not depend on facts the extractor could no longer find (a rename makes constants
        # default): when the regenerated facts differ from the golden ones, the failing cases are re-judged by a
        # REFERENCE oracle built from the golden facts (the spec as instantiated for the unchanged tree)
        ref = reference_oracle(cfg, workdir)
        if ref:
            judge_exe = ref
        for tag, (c, ans, why, cnt) in sorted(st.unknown.items()):
            reproduced = False
            for attempt in range(2):
                tmp = os.path.join(workdir, "confirm-%s-%d.txt" % (re.sub(r"[^A-Za-z0-9_-]", "_", tag or "fail"), attempt))
                with open(tmp, "w") as f:
                    f.write(c + "\n")
                got = []
                res = run_phase(cfg, exe, judge_exe, {"name": ""}, tier, seed, 1, workdir, replay=tmp,
                                on_line=lambda cc, aa: got.append(aa))
                if any(("spec=FAIL" in a_) for a_ in got) or (not got and res["errors"]):
                    reproduced = True
                    break
            if not reproduced and st.origin.get(tag):
                # some failures need the history of the process (an earlier case of the same run): re-run the phase
                # that produced the case, same seed and budget, and look for the SAME case failing again
                ph0, tier0, seed0, scale0 = st.origin[tag]
                key = c.split(" => ")[0]
                hit, same_tag = [], []
                def again(cc, aa, key=key, hit=hit, same_tag=same_tag, tag=tag):
                    if "spec=FAIL:%s:" % tag in aa:
                        same_tag.append(cc)
                        if cc.split(" => ")[0] == key:
                            hit.append(aa)
                run_phase(cfg, exe, judge_exe, dict(ph0), tier0, seed0, scale0, workdir, on_line=again)
                # the same case again — or, for schedule-dependent failures (several cases failed with this tag in
                # the first run), the same tag again on some case: then that case becomes the replay
                reproduced = bool(hit) or (cnt >= 2 and bool(same_tag))
                if reproduced and not hit:
                    c = min(same_tag, key=len)
                    st.unknown[tag] = (c, "spec=FAIL:%s:%s (failed in two executions of the phase; schedule-dependent)" % (tag, why), why, cnt)
                if reproduced:
                    by_phase[tag] = "phase '%s' (tier %s, seed %d, budget x%d)" % (ph0.get("name", "") or "main", tier0, seed0, scale0)
            if not reproduced:
                unconfirmed[tag] = (c, ans, why, cnt)
        for tag in unconfirmed:
            del st.unknown[tag]

    # ----- verdict
    violations = 0
    out_lines = []
    for tag, (c, ans, why, cnt) in sorted(unconfirmed.items()):
        out_lines.append("UNCONFIRMED: property=%s a spec failure (tag %s: %s) did not reproduce when the case was re-executed alone; not reported as a violation" % (pid, tag, why))
    known_hit = st.known_hit
    for kid, (k, c, cnt) in sorted(known_hit.items()):
        out_lines.append("KNOWN-FINDING: property=%s %s [%s]" % (pid, k.get("what", ""), kid))
    if st.unknown:
        for tag, (c, ans, why, cnt) in sorted(st.unknown.items()):
            body = "# property %s fails on the implementation (spec verdict by the Lean oracle)\n# tag=%s reason=%s (%d failing cases with this tag)\n# replay: bin/check %s --replay <this file>\n%s\n# oracle: %s\n" % (pid, tag, why, cnt, pid, c, ans)
            if tag in by_phase:
                body += "# this case fails only with the history of its run (an earlier case of the same process): it failed again when %s was re-executed, not when replayed alone\n" % by_phase[tag]
            if problems:
                body += "# broken obligations at the same time:\n" + "".join("#   %s %s\n" % (p[0], p[1]) for p in problems)
            path = write_replay(pid, tag or "fail", body)
            out_lines.append("VIOLATION property=%s replay=%s" % (pid, path))
            violations += 1
    elif problems or st.ndis:
        body = "# property %s: no failing input found, but the property is no longer shown to hold\n" % pid
        for kind, site, text in problems:
            body += "# broken %s: %s\n" % (kind, site)
            for l in text.splitlines()[:12]:
                body += "#     %s\n" % l
        for c, ans in st.disagree[:5]:
            body += "# model and implementation disagree on:\n%s\n# oracle: %s\n" % (c, ans)
        body += "# cases searched after the break: %d\n" % searched
        path = write_replay(pid, "broken", body)
        out_lines.append("VIOLATION property=%s replay=%s no-failing-input-found" % (pid, path))
        violations += 1

    # ----- evidence
    n_obl = len(obligations)
    n_dis = sum(1 for o in obligations if o["discharged"])
    samples = st.head + st.tail
    ev = {
        "property_id": pid, "tier": tier, "seed": seed, "level": cfg.get("level", "proof") if cfg.get("level", "proof") in ("exploration", "fault_enumeration", "model_checking", "proof", "translation_validation", "other") else "proof",
        "coverage": {
            "obligations": n_obl, "discharged": n_dis,
            "checker_cmd": "cd lean && lake build %s && lake env lean .audit/%s.lean  (#print axioms of every %s_* theorem)%s" % (
                " ".join(modules), pid, pid, "; lake env leanchecker" if tier == "thorough" else ""),
            "trusted_base": cfg.get("trusted_base", []),
            "theorems": obligations,
            "evaluations": st.n,
            "distinct_nontrivial": len(st.nontrivial),
            "distinct_cases": len(st.distinct),
            "rule": cfg.get("rule", ""),
            "samples": [s[:600] for s in samples] or ["(no case was run)"],
            "model_impl_agreements": st.agree, "model_impl_disagreements": st.ndis,
            "spec_failures": st.nfail, "known_findings_hit": sorted(known_hit),
            "spec_failures_by_known_finding": {k: v[2] for k, v in known_hit.items()},
            "phases": phase_stats, "notes": st.notes,
            "changed_function_hashes": changed, "moved_facts": moved, "budget_scale": scale,
            "broken": [{"kind": p[0], "site": p[1]} for p in problems],
            "unconfirmed_spec_failures": [{"tag": t, "case": v[0][:400], "reason": v[2]} for t, v in sorted(unconfirmed.items())],
        },
        "assumptions": cfg.get("assumptions", []),
        "wall_s": round(time.time() - t0, 2),
        "violations": violations,
    }
    with open(os.path.join(EVID, pid + ".json"), "w") as f:
        json.dump(ev, f, indent=1, ensure_ascii=False)
        f.write("\n")
    for l in out_lines:
        print(l)
    print("%s %s: theorems %d/%d, cases %d (non-trivial distinct %d), disagreements %d, spec failures %d, %.1fs" % (
        pid, "FAIL" if violations else "ok", n_dis, n_obl, st.n, len(st.nontrivial),
        st.ndis, st.nfail, time.time() - t0))
    return 1 if violations else 0

package main

// Case generation for C01. Every case is a full abstract configuration pair; dimensions:
//
//	suites   17 x 17   every subset of the four suites (+ nil), written in documented or reverse
//	                   order, sometimes with an unknown id or a duplicate mixed in
//	client keys  12    len(Certificates) 0..2 x GetClientCertificate x GetClientKECertificate
//	auth          6    ClientAuth policies
//	CAs         2 x 3  issuer of the client certificates x server ClientCAs
//	ALPN        7 x 7  -, h2, http/1.1, h2+http/1.1, http/1.1+h2, spdy, grpc+h2
//	SNI           3    none, a DNS name, an IP literal
//	cache       2 x 2, Clone 2 x 2
//	versions    6 x 6  Min/MaxVersion windows around 0x0101 (two of them exclude it)
//	server certs  8    len(Certificates) x GetCertificate x GetKECertificate (four of them lack a key pair)
//	server keys   6    sm2.sm2 and five foreign-key variants
//
// and HISTORIES (token hist=): the case above as first connection, then 2..4 further
// connections between the same two parties, each `same` or a reconfiguration of 1..3 of
// {client suites, server suites, client ALPN, server ALPN, client Clone, server Clone, server
// cache in use} — see randomHistory / histStepToken.

import (
	"fmt"
	"strings"

	"verifharness/internal/hx"
)

var suiteIDs = []string{"e053", "e013", "e051", "e011"} // documented order

func suiteToken(mask int, reverse bool, extra int) string {
	if mask < 0 {
		return "nil"
	}
	var ids []string
	for i, id := range suiteIDs {
		if mask&(1<<i) != 0 {
			ids = append(ids, id)
		}
	}
	if reverse {
		for i, j := 0, len(ids)-1; i < j; i, j = i+1, j-1 {
			ids[i], ids[j] = ids[j], ids[i]
		}
	}
	switch extra {
	case 1: // an id the library does not implement, in front
		ids = append([]string{"e019"}, ids...)
	case 2: // a duplicate of the last entry
		if len(ids) > 0 {
			ids = append(ids, ids[len(ids)-1])
		}
	case 3: // not a TLCP id at all, at the end
		ids = append(ids, "c02f")
	}
	if len(ids) == 0 {
		return "-"
	}
	return strings.Join(ids, ",")
}

var alpnCat = []string{"-", "h2", "http/1.1", "h2,http/1.1", "http/1.1,h2", "spdy", "grpc,h2"}
var clientKeys = [][3]int{{0, 0, 0}, {1, 0, 0}, {0, 0, 1}, {2, 0, 0}, {0, 1, 0}, {0, 1, 1}, {1, 0, 1}, {1, 1, 0}, {2, 1, 1}, {1, 1, 1}, {2, 1, 0}, {2, 0, 1}}
var caCombos = [][2]string{{"root", "none"}, {"root", "root"}, {"other", "root"}, {"other", "none"}, {"other", "other"}, {"root", "other"}}
var sniCat = [][2]string{{"-", "0"}, {"test.example", "0"}, {"127.0.0.1", "1"}, {"localhost", "0"}}
var verCat = []string{"0.0", "0101.0101", "0.0101", "0100.0", "0101.0", "0.0301", "0102.0", "0.0100"}
var srvCerts = [][3]int{{2, 0, 0}, {0, 1, 1}, {1, 0, 1}, {2, 1, 1}, {1, 1, 1}, {0, 0, 0}, {1, 0, 0}, {0, 1, 0}, {0, 0, 1}}
var srvKeys = []string{"sm2.sm2", "p256.sm2", "ed.sm2", "rsa.sm2", "sm2.rsa", "sm2.p256"}

// cfg is a case as a vector of dimension indices.
type cfg struct {
	stack          string
	cmask, smask   int // -1 = nil
	crev, srev     bool
	cextra, sextra int
	ckeys          int
	auth           int
	ca             int
	calpn, salpn   int
	sni            int
	ccache, scache bool
	cclone, sclone bool
	cver, sver     int
	scerts         int
	skeys          int
}

func (c cfg) String() string {
	k := clientKeys[c.ckeys]
	sc := srvCerts[c.scerts]
	b := func(x bool) int {
		if x {
			return 1
		}
		return 0
	}
	return fmt.Sprintf("stack=%s cs=%s cn=%d cgc=%d cgk=%d cfam=%s calpn=%s csn=%s csip=%s cca=%d cver=%s ccl=%d ss=%s sn=%d sgc=%d sgk=%d skey=%s salpn=%s auth=%d scas=%s sca=%d sver=%s scl=%d",
		c.stack, suiteToken(c.cmask, c.crev, c.cextra), k[0], k[1], k[2], caCombos[c.ca][0], alpnCat[c.calpn],
		sniCat[c.sni][0], sniCat[c.sni][1], b(c.ccache), verCat[c.cver], b(c.cclone),
		suiteToken(c.smask, c.srev, c.sextra), sc[0], sc[1], sc[2], srvKeys[c.skeys], alpnCat[c.salpn], c.auth, caCombos[c.ca][1],
		b(c.scache), verCat[c.sver], b(c.sclone))
}

// randomOthers fills the secondary dimensions; the rare failure dimensions (versions that
// exclude 0x0101, missing server key pairs, foreign keys) are drawn with low probability so
// that most cases reach the suite / ALPN / client-auth logic.
func randomOthers(r *hx.Rand, c *cfg) {
	c.crev, c.srev = r.Bool(), r.Bool()
	c.cextra, c.sextra = 0, 0
	if r.Chance(15) {
		c.cextra = 1 + r.Intn(3)
	}
	if r.Chance(15) {
		c.sextra = 1 + r.Intn(3)
	}
	c.calpn, c.salpn = 0, 0
	if r.Chance(50) {
		c.calpn, c.salpn = r.Intn(len(alpnCat)), r.Intn(len(alpnCat))
	}
	c.sni = r.Intn(len(sniCat))
	c.ccache, c.scache = r.Chance(30), r.Chance(30)
	if r.Chance(30) {
		c.ccache, c.scache = true, true
	}
	c.cclone, c.sclone = r.Bool(), r.Bool()
	c.cver, c.sver = r.Intn(6), r.Intn(6)
	if r.Chance(3) {
		c.cver = 6 + r.Intn(2)
	}
	if r.Chance(3) {
		c.sver = 6 + r.Intn(2)
	}
	c.scerts = r.Intn(5)
	if r.Chance(4) {
		c.scerts = 5 + r.Intn(4)
	}
	c.skeys = 0
	if r.Chance(5) {
		c.skeys = 1 + r.Intn(5)
	}
}

func randomCfg(r *hx.Rand, stack string) cfg {
	c := cfg{stack: stack}
	c.cmask, c.smask = r.Intn(17)-1, r.Intn(17)-1
	c.ckeys = r.Intn(len(clientKeys))
	c.auth = r.Intn(6)
	c.ca = r.Intn(len(caCombos))
	randomOthers(r, &c)
	return c
}

// neighbours: every case that differs from c in exactly one dimension (this is how both sides
// of every boundary of `compatible` next to c get executed).
func neighbours(c cfg) []cfg {
	var out []cfg
	add := func(f func(*cfg)) {
		d := c
		f(&d)
		if d != c {
			out = append(out, d)
		}
	}
	for i := 0; i < 4; i++ {
		i := i
		add(func(d *cfg) {
			if d.cmask < 0 {
				d.cmask = 15
			}
			d.cmask ^= 1 << i
		})
		add(func(d *cfg) {
			if d.smask < 0 {
				d.smask = 15
			}
			d.smask ^= 1 << i
		})
	}
	add(func(d *cfg) { d.cmask = -1 })
	add(func(d *cfg) { d.smask = -1 })
	add(func(d *cfg) { d.crev = !d.crev })
	add(func(d *cfg) { d.srev = !d.srev })
	for i := range clientKeys {
		i := i
		add(func(d *cfg) { d.ckeys = i })
	}
	for i := 0; i < 6; i++ {
		i := i
		add(func(d *cfg) { d.auth = i })
	}
	for i := range caCombos {
		i := i
		add(func(d *cfg) { d.ca = i })
	}
	for i := range alpnCat {
		i := i
		add(func(d *cfg) { d.calpn = i })
		add(func(d *cfg) { d.salpn = i })
	}
	for i := range sniCat {
		i := i
		add(func(d *cfg) { d.sni = i })
	}
	add(func(d *cfg) { d.ccache = !d.ccache })
	add(func(d *cfg) { d.scache = !d.scache })
	add(func(d *cfg) { d.cclone = !d.cclone })
	add(func(d *cfg) { d.sclone = !d.sclone })
	for i := range verCat {
		i := i
		add(func(d *cfg) { d.cver = i })
		add(func(d *cfg) { d.sver = i })
	}
	for i := range srvCerts {
		i := i
		add(func(d *cfg) { d.scerts = i })
	}
	for i := range srvKeys {
		i := i
		add(func(d *cfg) { d.skeys = i })
	}
	return out
}

// ---------------------------------------------------------------------------- histories

// histStepToken draws one further connection of a history: `same`, or overrides of 1..3 of the
// reconfigurable settings (suites / protocols of either side, Clone(), the server's use of its
// session cache) with values from the same catalogues as the first connection.
func histStepToken(r *hx.Rand) string {
	if r.Chance(45) {
		return "same"
	}
	b := func() string {
		if r.Bool() {
			return "1"
		}
		return "0"
	}
	suites := func() string {
		extra := 0
		if r.Chance(10) {
			extra = 1 + r.Intn(3)
		}
		return suiteToken(r.Intn(17)-1, r.Bool(), extra)
	}
	n := 1 + r.Intn(3)
	used := map[string]bool{}
	var fs []string
	for len(fs) < n {
		var k, v string
		switch x := r.Intn(100); {
		case x < 30:
			k, v = "ss", suites()
		case x < 50:
			k, v = "cs", suites()
		case x < 62:
			k, v = "salpn", alpnCat[r.Intn(len(alpnCat))]
		case x < 72:
			k, v = "calpn", alpnCat[r.Intn(len(alpnCat))]
		case x < 82:
			k, v = "scl", b()
		case x < 90:
			k, v = "ccl", b()
		default:
			k, v = "sca", b()
		}
		if used[k] {
			continue
		}
		used[k] = true
		fs = append(fs, k+":"+v)
	}
	return strings.Join(fs, "+")
}

// randomHistory: a first connection (mostly between caching, otherwise healthy parties, so
// that sessions get established and resumed) followed by 2..4 further connections.
func randomHistory(r *hx.Rand, stack string) string {
	c := randomCfg(r, stack)
	if r.Chance(85) {
		c.ccache, c.scache = true, true
		if c.cver >= 6 {
			c.cver = r.Intn(6)
		}
		if c.sver >= 6 {
			c.sver = r.Intn(6)
		}
		if c.scerts >= 5 {
			c.scerts = r.Intn(5)
		}
		c.skeys = 0
		if r.Chance(70) { // a client with both key pairs, issued by a CA the server accepts
			c.ckeys, c.ca = 3, 1
			if r.Chance(15) {
				c.ca = 0
			}
		} else if r.Chance(70) { // or a policy that does not insist on a certificate
			c.auth = []int{0, 1, 3}[r.Intn(3)]
		}
		if r.Chance(60) {
			c.calpn, c.salpn = 0, 0
		}
	}
	if r.Chance(70) { // more often than not the first connection has a suite in common
		c.cmask, c.smask = -1, -1
		if r.Bool() {
			c.cmask = 1 + r.Intn(15)
			c.smask = c.cmask | r.Intn(16)
		}
	}
	n := 2 + r.Intn(3)
	steps := make([]string, n)
	for i := range steps {
		steps[i] = histStepToken(r)
	}
	return c.String() + " hist=" + strings.Join(steps, ";")
}

// a DTLCP client that cannot build its ClientHello never sends a datagram: there is no
// handshake for the server to end (a datagram transport has no connection to close).
func dtlcpOK(c cfg) bool { return c.cver < 6 }

// verIndex: the index in verCat of the client version window of a case text
func verIndex(desc string) int {
	v, _ := hx.KV(desc, "cver")
	for i, s := range verCat {
		if s == v {
			return i
		}
	}
	return 0
}

func generate(o hx.Opts) []string {
	r := hx.NewRand(o.Seed)
	thorough := o.Tier == "thorough"
	seen := map[string]bool{}
	var out []string
	emit := func(c cfg) {
		if c.stack == "dtlcp" && !dtlcpOK(c) {
			return
		}
		s := c.String()
		if !seen[s] {
			seen[s] = true
			out = append(out, s)
		}
	}
	raw := func(s string) {
		if !seen[s] {
			seen[s] = true
			out = append(out, s)
		}
	}

	// 1. witnesses of the findings (always first)
	for _, st := range []string{"tlcp", "dtlcp"} {
		raw("stack=" + st + " cn=0 cgk=1 auth=1")                      // F36: encryption key pair only, certificate requested
		raw("stack=" + st + " cn=0 cgk=1 auth=3 scas=root")            // F36
		raw("stack=" + st + " cn=1 cgk=1 cfam=other auth=1 scas=root") // F36: signing certificate not acceptable
		raw("stack=" + st + " cca=1 sca=1")                            // F37: resumption (fails on DTLCP before the repair)
		raw("stack=" + st + " cca=1 sca=1 ccl=1 scl=1 calpn=h2,http/1.1 salpn=http/1.1,h2 csn=test.example cn=2 auth=4 scas=root")
		raw("stack=" + st + " cs=e011,e051,e013,e053 ss=e011,e051,e013,e053 cn=2") // configured order is ignored
		raw("stack=" + st + " cs=e011,e051 cn=2 ss=nil auth=0")                    // ECDHE under NoClientCert still asks for both certificates
		raw("stack=" + st + " calpn=http/1.1 salpn=h2")                            // fallback rule
		// histories: the same two configurations 4 and 5 times (full, then resumed again and again)
		raw("stack=" + st + " cca=1 sca=1 hist=same;same;same")
		raw("stack=" + st + " cca=1 sca=1 ccl=1 scl=1 cn=2 auth=4 scas=root cs=e011,e051 calpn=h2 salpn=h2 hist=same;same;same;same")
		raw("stack=" + st + " cca=1 sca=1 cn=2 auth=1 cs=e051 hist=same;scl:1;same") // ECDHE session with client certificates, resumed
		raw("stack=" + st + " cca=1 sca=1 cn=2 cs=e051 hist=same;same")              // … never resumed under NoClientCert
		// the server is reconfigured around the same session cache: the session's suite disabled, enabled again, no common suite
		raw("stack=" + st + " cca=1 sca=1 hist=ss:e013+scl:1;same;ss:e051;same")
		raw("stack=" + st + " cca=1 sca=1 ss=e053,e013 hist=ss:e013;ss:e013;ss:e053,e013")
		raw("stack=" + st + " cca=1 sca=1 ss=e013 hist=ss:nil;ss:nil+scl:1")                               // a better suite becomes available: the session is still resumed
		raw("stack=" + st + " cca=1 sca=1 hist=cs:e013;cs:e013;same")                                      // the client no longer offers the session's suite
		raw("stack=" + st + " cca=1 sca=1 calpn=h2,http/1.1 salpn=h2 hist=salpn:http/1.1;calpn:spdy;same") // ALPN is negotiated afresh; a refused connection drops the session
		raw("stack=" + st + " cca=1 sca=0 hist=sca:1;sca:1;same;sca:1")                                    // the server's cache comes and goes
		raw("stack=" + st + " cca=0 sca=1 hist=same;same")
	}

	base := cfg{stack: "tlcp", cmask: -1, smask: -1, ckeys: 3, ca: 1}
	// 2. the ALPN catalogue, all pairs, for two bases and both stacks' rule
	for i := range alpnCat {
		for j := range alpnCat {
			c := base
			c.calpn, c.salpn = i, j
			emit(c)
			c.cclone, c.sclone, c.ccache, c.scache = true, true, true, true
			emit(c)
			if thorough || (i+j)%3 == 0 {
				c.stack = "dtlcp"
				emit(c)
			}
		}
	}

	// 3. the core product: suites x suites x client keys x policy (x CA combinations in the
	// thorough tier), the other dimensions drawn at random
	nKeys, cas := 4, []int{1}
	rounds := 1 * o.Scale
	if thorough {
		nKeys, cas = len(clientKeys), []int{1, 2, 0}
		rounds = 4 * o.Scale
	}
	for round := 0; round < rounds; round++ {
		for cm := -1; cm < 16; cm++ {
			for sm := -1; sm < 16; sm++ {
				for k := 0; k < nKeys; k++ {
					for a := 0; a < 6; a++ {
						for _, ca := range cas {
							c := cfg{stack: "tlcp", cmask: cm, smask: sm, ckeys: k, auth: a, ca: ca}
							randomOthers(r, &c)
							emit(c)
						}
					}
				}
			}
		}
	}

	// 4. boundary neighbourhoods: random points and every single-dimension change of them
	nb := 25 * o.Scale
	if thorough {
		nb = 400 * o.Scale
	}
	for i := 0; i < nb; i++ {
		c := randomCfg(r, "tlcp")
		emit(c)
		for _, d := range neighbours(c) {
			emit(d)
		}
	}

	// 5. uniform random sample over all dimensions (pairwise coverage)
	nr := 3000 * o.Scale
	if thorough {
		nr = 150000 * o.Scale
	}
	for i := 0; i < nr; i++ {
		emit(randomCfg(r, "tlcp"))
	}

	// 5b. histories of 3..5 connections with reconfigurations in between
	// (own generator, seeded through one splitmix step: consecutive seeds of hx.NewRand are the
	// same stream shifted by one draw, and the parse of the stream into cases re-synchronises)
	rh := hx.NewRand(hx.NewRand(o.Seed ^ 0xC01).U64())
	nh := 1500 * o.Scale
	if thorough {
		nh = 60000 * o.Scale
	}
	for i := 0; i < nh; i++ {
		raw(randomHistory(rh, "tlcp"))
	}

	// 6. DTLCP: the same generators, sampled more thinly (each handshake waits ~0.2 s)
	nd, ndb := 600*o.Scale, 5*o.Scale
	if thorough {
		nd, ndb = 60000*o.Scale, 200*o.Scale
	}
	for cm := 0; cm < 16; cm++ { // every suite subset pair once, keys/policy at random
		for sm := 0; sm < 16; sm++ {
			if !thorough && (cm+sm)%4 != 0 {
				continue
			}
			c := cfg{stack: "dtlcp", cmask: cm, smask: sm, ckeys: r.Intn(4), auth: r.Intn(6), ca: 1}
			randomOthers(r, &c)
			emit(c)
		}
	}
	for i := 0; i < ndb; i++ {
		c := randomCfg(r, "dtlcp")
		emit(c)
		for _, d := range neighbours(c) {
			emit(d)
		}
	}
	for i := 0; i < nd; i++ {
		emit(randomCfg(r, "dtlcp"))
	}
	ndh := 250 * o.Scale
	if thorough {
		ndh = 15000 * o.Scale
	}
	for i := 0; i < ndh; i++ {
		h := randomHistory(rh, "dtlcp")
		if dtlcpOK(cfg{cver: verIndex(h)}) {
			raw(h)
		}
	}
	return out
}

// DTLCP half of the C01 driver: tlcp.go with the package swapped; only run() differs (datagram pipe, short retransmission timer).
package main

import (
	"time"

	"gitee.com/Trisia/gotlcp/dtlcp"
	"verifharness/internal/pair"
	"verifharness/internal/pki"
)

type dtlcpStack struct{}

// retransmission timer: nothing is lost on the in-memory transport, so it should never fire;
// it is kept well above scheduling delays of a loaded machine
const rto = 6 * time.Second

func dtlcpCert(l *pki.Leaf) *dtlcp.Certificate {
	return &dtlcp.Certificate{Certificate: [][]byte{l.DER}, PrivateKey: l.Key}
}

// client configuration from the abstract description
// (cache: the session cache the configuration refers to; nil = a fresh one when c.cache)
func (dtlcpStack) client(c cliCfg, cache dtlcp.SessionCache) *dtlcp.Config {
	s := pki.Std()
	cfg := &dtlcp.Config{RootCAs: s.Root.Pool, ServerName: c.sname, Time: pki.NowFn, InitialRetransmitTimeout: rto,
		NextProtos: c.alpn, MinVersion: c.vmin, MaxVersion: c.vmax}
	if !c.suitesNil {
		cfg.CipherSuites = append([]uint16{}, c.suites...)
	}
	sig, enc := cliLeaves(c.fam)
	if c.ncerts >= 1 {
		cfg.Certificates = append(cfg.Certificates, *dtlcpCert(sig))
	}
	if c.ncerts >= 2 {
		cfg.Certificates = append(cfg.Certificates, *dtlcpCert(enc))
	}
	if c.gcc {
		cfg.GetClientCertificate = func(*dtlcp.CertificateRequestInfo) (*dtlcp.Certificate, error) { return dtlcpCert(sig), nil }
	}
	if c.gke {
		cfg.GetClientKECertificate = func(*dtlcp.CertificateRequestInfo) (*dtlcp.Certificate, error) { return dtlcpCert(enc), nil }
	}
	if c.cache {
		if cache == nil {
			cache = dtlcp.NewLRUSessionCache(0)
		}
		cfg.SessionCache = cache
	}
	return cfg
}

func (dtlcpStack) server(c srvCfg, cache dtlcp.SessionCache) *dtlcp.Config {
	cfg := &dtlcp.Config{Time: pki.NowFn, InitialRetransmitTimeout: rto, NextProtos: c.alpn, MinVersion: c.vmin, MaxVersion: c.vmax,
		ClientAuth: dtlcp.ClientAuthType(c.auth), ClientCAs: caPool(c.cas)}
	if !c.suitesNil {
		cfg.CipherSuites = append([]uint16{}, c.suites...)
	}
	sig, enc := srvLeaves(c.sigKind, c.encKind)
	if c.ncerts >= 1 {
		cfg.Certificates = append(cfg.Certificates, *dtlcpCert(sig))
	}
	if c.ncerts >= 2 {
		cfg.Certificates = append(cfg.Certificates, *dtlcpCert(enc))
	}
	if c.gc {
		cfg.GetCertificate = func(*dtlcp.ClientHelloInfo) (*dtlcp.Certificate, error) { return dtlcpCert(sig), nil }
	}
	if c.gke {
		cfg.GetKECertificate = func(*dtlcp.ClientHelloInfo) (*dtlcp.Certificate, error) { return dtlcpCert(enc), nil }
	}
	if c.cache {
		if cache == nil {
			cache = dtlcp.NewLRUSessionCache(0)
		}
		cfg.SessionCache = cache
	}
	return cfg
}

func dtlcpState(c *dtlcp.Conn, err error, peer [2]*pki.Leaf) endState {
	if err != nil {
		return endState{err: err.Error()}
	}
	st := c.ConnectionState()
	es := endState{ok: true, vers: st.Version, suite: st.CipherSuite, alpn: st.NegotiatedProtocol,
		sname: st.ServerName, resumed: st.DidResume, complete: st.HandshakeComplete}
	for _, pc := range st.PeerCertificates {
		es.certs += leafSymbol(pc.Raw, peer)
	}
	return es
}

// connect runs one handshake (and, when both ends succeed, the echo) between the two
// configurations over a fresh transport and returns what both ends report.
func (st dtlcpStack) connect(cu, su *dtlcp.Config, cc cliCfg, sc srvCfg) hsResult {
	cliSig, cliEnc := cliLeaves(cc.fam)
	srvSig, srvEnc := srvLeaves(sc.sigKind, sc.encKind)
	ce, se := pair.PacketPipe()
	c := dtlcp.Client(ce, se.LocalAddr(), cu)
	s := dtlcp.Server(se, ce.LocalAddr(), su)
	cerr, serr, cHung, sHung := runBoth(c.Handshake, s.Handshake, func() { ce.Close() }, func() { se.Close() }, 20*time.Second)
	res := hsResult{cHung: cHung, sHung: sHung}
	res.c = dtlcpState(c, cerr, [2]*pki.Leaf{srvSig, srvEnc})
	res.s = dtlcpState(s, serr, [2]*pki.Leaf{cliSig, cliEnc})
	if res.c.ok && res.s.ok {
		dl := time.Now().Add(5 * time.Second)
		ce.SetReadDeadline(dl)
		se.SetReadDeadline(dl)
		res.echo = echo(c, s)
	}
	ce.Close()
	se.Close()
	return res
}

// run performs `rounds` consecutive handshakes between the two abstract configurations
// (each over a fresh transport, same Config objects or fresh clones of them) and returns
// what both ends report.
func (st dtlcpStack) run(cc cliCfg, sc srvCfg, rounds int) []hsResult {
	ccfg, scfg := st.client(cc, nil), st.server(sc, nil)
	var out []hsResult
	for r := 0; r < rounds; r++ {
		cu, su := ccfg, scfg
		if cc.clone {
			cu = ccfg.Clone()
		}
		if sc.clone {
			su = scfg.Clone()
		}
		res := st.connect(cu, su, cc, sc)
		out = append(out, res)
		if !(res.c.ok && res.s.ok) {
			break
		}
	}
	return out
}

// runHist performs a history: one connection per step between the same two parties. The
// client configurations share ONE client session cache and the server configurations that
// have a cache share ONE server session cache (what Clone(), GetConfigForClient or a
// reloaded configuration built around the same cache do); steps with the same settings use
// the same Config object. The history goes on after a failed connection (that is when the
// client must forget the session) and stops only when an end had to be aborted.
func (st dtlcpStack) runHist(steps []histStep) []hsResult {
	ccache, scache := dtlcp.NewLRUSessionCache(0), dtlcp.NewLRUSessionCache(0)
	ccfgs, scfgs := map[string]*dtlcp.Config{}, map[string]*dtlcp.Config{}
	var out []hsResult
	for _, h := range steps {
		ccfg, ok := ccfgs[h.ckey]
		if !ok {
			ccfg = st.client(h.cc, ccache)
			ccfgs[h.ckey] = ccfg
		}
		scfg, ok := scfgs[h.skey]
		if !ok {
			scfg = st.server(h.sc, scache)
			scfgs[h.skey] = scfg
		}
		cu, su := ccfg, scfg
		if h.cc.clone {
			cu = ccfg.Clone()
		}
		if h.sc.clone {
			su = scfg.Clone()
		}
		res := st.connect(cu, su, h.cc, h.sc)
		out = append(out, res)
		if res.cHung || res.sHung {
			break
		}
	}
	return out
}

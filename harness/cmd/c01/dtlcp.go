// DTLCP half of the C01 driver: tlcp.go with the package swapped; only run() differs (datagram pipe, short retransmission timer).
package main

import (
	"time"

	"gitee.com/Trisia/gotlcp/dtlcp"
	"verifharness/internal/pair"
	"verifharness/internal/pki"
)

type dtlcpStack struct{}

// retransmission timer: nothing is lost on the in-memory transport, so it should never fire;
// it is kept well above scheduling delays of a loaded machine
const rto = 6 * time.Second

func dtlcpCert(l *pki.Leaf) *dtlcp.Certificate {
	return &dtlcp.Certificate{Certificate: [][]byte{l.DER}, PrivateKey: l.Key}
}

// client configuration from the abstract description
func (dtlcpStack) client(c cliCfg) *dtlcp.Config {
	s := pki.Std()
	cfg := &dtlcp.Config{RootCAs: s.Root.Pool, ServerName: c.sname, Time: pki.NowFn, InitialRetransmitTimeout: rto,
		NextProtos: c.alpn, MinVersion: c.vmin, MaxVersion: c.vmax}
	if !c.suitesNil {
		cfg.CipherSuites = append([]uint16{}, c.suites...)
	}
	sig, enc := cliLeaves(c.fam)
	if c.ncerts >= 1 {
		cfg.Certificates = append(cfg.Certificates, *dtlcpCert(sig))
	}
	if c.ncerts >= 2 {
		cfg.Certificates = append(cfg.Certificates, *dtlcpCert(enc))
	}
	if c.gcc {
		cfg.GetClientCertificate = func(*dtlcp.CertificateRequestInfo) (*dtlcp.Certificate, error) { return dtlcpCert(sig), nil }
	}
	if c.gke {
		cfg.GetClientKECertificate = func(*dtlcp.CertificateRequestInfo) (*dtlcp.Certificate, error) { return dtlcpCert(enc), nil }
	}
	if c.cache {
		cfg.SessionCache = dtlcp.NewLRUSessionCache(0)
	}
	return cfg
}

func (dtlcpStack) server(c srvCfg) *dtlcp.Config {
	cfg := &dtlcp.Config{Time: pki.NowFn, InitialRetransmitTimeout: rto, NextProtos: c.alpn, MinVersion: c.vmin, MaxVersion: c.vmax,
		ClientAuth: dtlcp.ClientAuthType(c.auth), ClientCAs: caPool(c.cas)}
	if !c.suitesNil {
		cfg.CipherSuites = append([]uint16{}, c.suites...)
	}
	sig, enc := srvLeaves(c.sigKind, c.encKind)
	if c.ncerts >= 1 {
		cfg.Certificates = append(cfg.Certificates, *dtlcpCert(sig))
	}
	if c.ncerts >= 2 {
		cfg.Certificates = append(cfg.Certificates, *dtlcpCert(enc))
	}
	if c.gc {
		cfg.GetCertificate = func(*dtlcp.ClientHelloInfo) (*dtlcp.Certificate, error) { return dtlcpCert(sig), nil }
	}
	if c.gke {
		cfg.GetKECertificate = func(*dtlcp.ClientHelloInfo) (*dtlcp.Certificate, error) { return dtlcpCert(enc), nil }
	}
	if c.cache {
		cfg.SessionCache = dtlcp.NewLRUSessionCache(0)
	}
	return cfg
}

func dtlcpState(c *dtlcp.Conn, err error, peer [2]*pki.Leaf) endState {
	if err != nil {
		return endState{err: err.Error()}
	}
	st := c.ConnectionState()
	es := endState{ok: true, vers: st.Version, suite: st.CipherSuite, alpn: st.NegotiatedProtocol,
		sname: st.ServerName, resumed: st.DidResume, complete: st.HandshakeComplete}
	for _, pc := range st.PeerCertificates {
		es.certs += leafSymbol(pc.Raw, peer)
	}
	return es
}

// run performs `rounds` consecutive handshakes between the two abstract configurations
// (each over a fresh transport, same Config objects or fresh clones of them) and returns
// what both ends report.
func (st dtlcpStack) run(cc cliCfg, sc srvCfg, rounds int) []hsResult {
	ccfg, scfg := st.client(cc), st.server(sc)
	cliSig, cliEnc := cliLeaves(cc.fam)
	srvSig, srvEnc := srvLeaves(sc.sigKind, sc.encKind)
	var out []hsResult
	for r := 0; r < rounds; r++ {
		cu, su := ccfg, scfg
		if cc.clone {
			cu = ccfg.Clone()
		}
		if sc.clone {
			su = scfg.Clone()
		}
		ce, se := pair.PacketPipe()
		c := dtlcp.Client(ce, se.LocalAddr(), cu)
		s := dtlcp.Server(se, ce.LocalAddr(), su)
		cerr, serr, cHung, sHung := runBoth(c.Handshake, s.Handshake, func() { ce.Close() }, func() { se.Close() }, 20*time.Second)
		res := hsResult{cHung: cHung, sHung: sHung}
		res.c = dtlcpState(c, cerr, [2]*pki.Leaf{srvSig, srvEnc})
		res.s = dtlcpState(s, serr, [2]*pki.Leaf{cliSig, cliEnc})
		if res.c.ok && res.s.ok {
			dl := time.Now().Add(5 * time.Second)
			ce.SetReadDeadline(dl)
			se.SetReadDeadline(dl)
			res.echo = echo(c, s)
		}
		ce.Close()
		se.Close()
		out = append(out, res)
		if !(res.c.ok && res.s.ok) {
			break
		}
	}
	return out
}

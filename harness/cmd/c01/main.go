// Driver for C01: runs REAL handshakes between two honest endpoints of both stacks for
// enumerated pairs of abstract configurations and writes `case => observed` lines for the
// Lean oracle (model Gotlcp.Model.Negotiate + spec Gotlcp.Spec.NegotiateSpec).
//
// case tokens (all about configuration; nothing about the run):
//
//	stack=tlcp|dtlcp
//	cs=nil|-|<hex id>,<hex id>..   client Config.CipherSuites (nil, empty non-nil, list in this order)
//	cn=<0|1|2>  cgc=<0|1> cgk=<0|1>  client len(Certificates) ([sig,enc] prefix), GetClientCertificate, GetClientKECertificate set
//	cfam=root|other                CA family of the client's certificates
//	calpn=-|p,q,..                 client NextProtos
//	csn=-|<name>  csip=<0|1>       client ServerName, and whether it is an IP literal (no SNI is sent for those)
//	cca=<0|1>                      client session cache on
//	cver=<min>.<max>               client MinVersion.MaxVersion (hex, 0 = unset)
//	ccl=<0|1>                      client configuration used through Clone()
//	ss= sn= sgc= sgk=              server CipherSuites, len(Certificates), GetCertificate, GetKECertificate
//	skey=<sig kind>.<enc kind>     sm2|p256|ed|rsa
//	salpn= sca= sver= scl=         as for the client
//	auth=<0..5>                    ClientAuth (iota order of ClientAuthType)
//	scas=none|root|other           server ClientCAs
//
//	hist=<step>;<step>;..          (optional) a HISTORY: after the connection described by the tokens
//	                               above, one more connection per step between the same two parties
//	                               (same key pairs, policy, names, one shared client session cache, one
//	                               shared server session cache). A step is `same` or `+`-joined overrides
//	                               of the first connection's settings: cs:<suites> calpn:<protos> ccl:<0|1>
//	                               ss:<suites> salpn:<protos> sca:<0|1> scl:<0|1>. Without `hist`, a second
//	                               handshake with the same objects is run when either side has a cache.
//
// observed: `h1=<client>|<server>|<echo> [h2=...]` where an end is
// `ok:<vers>:<suite>:<alpn|->:<resumed>:<peer certs as S/E/? symbols|->:<server name|->` or `fail`,
// echo is ok|bad|-; `timeout` replaces an end that had not returned from Handshake by itself when the
// harness gave up: 4 s (endGrace; 1 s once 16 such ends were seen in the run) after the other end had
// failed, or at the watchdog's limit.
// For a connection that failed, `w1=<client>/<server>` says how each end came to its end (ok | own |
// alert | eof | timeout) and the error texts follow as `e1c= e1s= ...` (all secondary: reported by
// the oracle as notes only).
package main

import (
	"bytes"
	"fmt"
	"os"
	"runtime"
	"strconv"
	"strings"
	"sync"
	"sync/atomic"
	"time"

	"github.com/emmansun/gmsm/smx509"
	"verifharness/internal/hx"
	"verifharness/internal/pki"
)

type cliCfg struct {
	suitesNil bool
	suites    []uint16
	ncerts    int
	gcc, gke  bool
	fam       string
	alpn      []string
	sname     string
	sip       bool
	cache     bool
	vmin      uint16
	vmax      uint16
	clone     bool
}

type srvCfg struct {
	suitesNil        bool
	suites           []uint16
	ncerts           int
	gc, gke          bool
	sigKind, encKind string
	alpn             []string
	auth             int
	cas              string
	cache            bool
	vmin, vmax       uint16
	clone            bool
}

type endState struct {
	ok       bool
	err      string
	vers     uint16
	suite    uint16
	alpn     string
	sname    string
	resumed  bool
	complete bool
	certs    string
}

type hsResult struct {
	c, s         endState
	cHung, sHung bool // the end had not returned when the watchdog fired
	echo         string
}

// ---------------------------------------------------------------------------- fixtures

func cliLeaves(fam string) (sig, enc *pki.Leaf) {
	s := pki.Std()
	if fam == "other" {
		return s.CliOthSig, s.CliOthEnc
	}
	return s.CliSig, s.CliEnc
}

func srvLeaves(sigKind, encKind string) (sig, enc *pki.Leaf) {
	s := pki.Std()
	sig, enc = s.SrvSig, s.SrvEnc
	switch sigKind {
	case "p256":
		sig = s.P256Sig
	case "ed":
		sig = s.EdSig
	case "rsa":
		sig = s.RSAEnc
	}
	switch encKind {
	case "p256":
		enc = s.P256Enc
	case "rsa":
		enc = s.RSAEnc
	}
	return
}

func caPool(kind string) *smx509.CertPool {
	s := pki.Std()
	switch kind {
	case "root":
		return s.Root.Pool
	case "other":
		return s.Other.Pool
	}
	return nil
}

func leafSymbol(der []byte, peer [2]*pki.Leaf) string {
	if bytes.Equal(der, peer[0].DER) {
		return "S"
	}
	if bytes.Equal(der, peer[1].DER) {
		return "E"
	}
	return "?"
}

// ---------------------------------------------------------------------------- parsing

func parseSuites(s string) (isNil bool, ids []uint16) {
	switch s {
	case "nil", "":
		return true, nil
	case "-":
		return false, []uint16{}
	}
	for _, p := range strings.Split(s, ",") {
		v, _ := strconv.ParseUint(p, 16, 16)
		ids = append(ids, uint16(v))
	}
	return false, ids
}

func parseList(s string) []string {
	if s == "-" || s == "" {
		return nil
	}
	return strings.Split(s, ",")
}

func parseVer(s string) (uint16, uint16) {
	parts := strings.Split(s, ".")
	if len(parts) != 2 {
		return 0, 0
	}
	a, _ := strconv.ParseUint(parts[0], 16, 16)
	b, _ := strconv.ParseUint(parts[1], 16, 16)
	return uint16(a), uint16(b)
}

func kvs(desc, key, def string) string {
	if v, ok := hx.KV(desc, key); ok {
		return v
	}
	return def
}

func parseCase(desc string) (stack string, cc cliCfg, sc srvCfg) {
	stack = kvs(desc, "stack", "tlcp")
	cc.suitesNil, cc.suites = parseSuites(kvs(desc, "cs", "nil"))
	cc.ncerts = hx.KVInt(desc, "cn")
	cc.gcc = kvs(desc, "cgc", "0") == "1"
	cc.gke = kvs(desc, "cgk", "0") == "1"
	cc.fam = kvs(desc, "cfam", "root")
	cc.alpn = parseList(kvs(desc, "calpn", "-"))
	cc.sname = kvs(desc, "csn", "-")
	if cc.sname == "-" {
		cc.sname = ""
	}
	cc.sip = kvs(desc, "csip", "0") == "1"
	cc.cache = kvs(desc, "cca", "0") == "1"
	cc.vmin, cc.vmax = parseVer(kvs(desc, "cver", "0.0"))
	cc.clone = kvs(desc, "ccl", "0") == "1"

	sc.suitesNil, sc.suites = parseSuites(kvs(desc, "ss", "nil"))
	sc.ncerts = 2
	if _, ok := hx.KV(desc, "sn"); ok {
		sc.ncerts = hx.KVInt(desc, "sn")
	}
	sc.gc = kvs(desc, "sgc", "0") == "1"
	sc.gke = kvs(desc, "sgk", "0") == "1"
	k := strings.Split(kvs(desc, "skey", "sm2.sm2"), ".")
	sc.sigKind, sc.encKind = k[0], "sm2"
	if len(k) > 1 {
		sc.encKind = k[1]
	}
	sc.alpn = parseList(kvs(desc, "salpn", "-"))
	sc.auth = hx.KVInt(desc, "auth")
	sc.cas = kvs(desc, "scas", "none")
	sc.cache = kvs(desc, "sca", "0") == "1"
	sc.vmin, sc.vmax = parseVer(kvs(desc, "sver", "0.0"))
	sc.clone = kvs(desc, "scl", "0") == "1"
	return
}

// histStep is one connection of a history: the full abstract configurations in use and the
// keys under which the real Config objects are shared between steps.
type histStep struct {
	cc         cliCfg
	sc         srvCfg
	ckey, skey string
}

func parseHist(cc cliCfg, sc srvCfg, hist string) []histStep {
	mk := func(c cliCfg, s srvCfg) histStep {
		return histStep{cc: c, sc: s,
			ckey: fmt.Sprintf("%v|%v|%v", c.suitesNil, c.suites, c.alpn),
			skey: fmt.Sprintf("%v|%v|%v|%v", s.suitesNil, s.suites, s.alpn, s.cache)}
	}
	steps := []histStep{mk(cc, sc)}
	for _, st := range strings.Split(hist, ";") {
		c, s := cc, sc
		if st != "same" {
			for _, f := range strings.Split(st, "+") {
				kv := strings.SplitN(f, ":", 2)
				if len(kv) != 2 {
					continue
				}
				switch kv[0] {
				case "cs":
					c.suitesNil, c.suites = parseSuites(kv[1])
				case "ss":
					s.suitesNil, s.suites = parseSuites(kv[1])
				case "calpn":
					c.alpn = parseList(kv[1])
				case "salpn":
					s.alpn = parseList(kv[1])
				case "ccl":
					c.clone = kv[1] == "1"
				case "scl":
					s.clone = kv[1] == "1"
				case "sca":
					s.cache = kv[1] == "1"
				}
			}
		}
		steps = append(steps, mk(c, s))
	}
	return steps
}

// ---------------------------------------------------------------------------- running

// endGrace: how long the other end may take to return from Handshake once one end has FAILED.
// The transports are lossless and deliver at once, so an end that is told (TLCP: the fatal alert or
// the end of the stream; DTLCP: the fatal alert — a datagram socket that is closed says nothing to
// its peer) returns within milliseconds, long before any retransmission timer (6 s here) could fire.
// An end that is still waiting / retransmitting after this time has not been told: its handshake
// does not end by the protocol's own means — gotlcp's DTLCP handshake retransmits with a back-off
// capped at MaxRetransmitTimeout for ever, it has no retry limit — but only because the harness
// gives up. Such an end is reported as `timeout`.
const endGrace = 4 * time.Second

// Once 16 ends of this run have been found waiting like that, the implementation under test is
// known not to end such handshakes and the remaining cases wait 1 s instead (still a thousand times
// what an end that is told needs): a run against such an implementation stays within its time limit.
const endGraceAfter, endGraceShort = 16, 1 * time.Second

var hangsSeen atomic.Int32

func graceNow() time.Duration {
	if hangsSeen.Load() >= endGraceAfter {
		return endGraceShort
	}
	return endGrace
}

// runBoth runs the two handshakes concurrently. An endpoint whose handshake fails closes its
// transport end (what an application does with a connection whose handshake failed): on a stream
// the peer then reads the end of the stream; on datagrams it learns nothing from that. The
// watchdog aborts both ends after `timeout`, or `endGrace` after the first end returned an error.
func runBoth(ch, sh func() error, closeC, closeS func(), timeout time.Duration) (cerr, serr error, cHung, sHung bool) {
	var wg sync.WaitGroup
	var mu sync.Mutex
	cDone, sDone := false, false
	failed := make(chan struct{}, 2)
	wg.Add(2)
	go func() {
		defer wg.Done()
		var err error
		if p := hx.Guard(func() { err = ch() }); p != "" {
			err = fmt.Errorf("panic=%s", p)
		}
		mu.Lock()
		cerr, cDone = err, true
		mu.Unlock()
		if err != nil {
			closeC()
			failed <- struct{}{}
		}
	}()
	go func() {
		defer wg.Done()
		var err error
		if p := hx.Guard(func() { err = sh() }); p != "" {
			err = fmt.Errorf("panic=%s", p)
		}
		mu.Lock()
		serr, sDone = err, true
		mu.Unlock()
		if err != nil {
			closeS()
			failed <- struct{}{}
		}
	}()
	done := make(chan struct{})
	go func() { wg.Wait(); close(done) }()
	abort := func() {
		mu.Lock()
		cHung, sHung = !cDone, !sDone
		mu.Unlock()
		closeC()
		closeS()
		<-done
	}
	overall := time.After(timeout)
	select {
	case <-done:
	case <-overall:
		abort()
	case <-failed:
		select {
		case <-done:
		case <-overall:
			abort()
		case <-time.After(graceNow()):
			hangsSeen.Add(1)
			abort()
		}
	}
	return
}

type rw interface {
	Read([]byte) (int, error)
	Write([]byte) (int, error)
}

// echo writes a few bytes in both directions and checks they arrive unchanged.
func echo(c, s rw) string {
	res := "ok"
	if p := hx.Guard(func() {
		m1 := []byte("c01 ping from the client \x00\x01\xff")
		m2 := []byte("c01 pong from the server")
		buf := make([]byte, 256)
		if _, err := c.Write(m1); err != nil {
			res = "bad"
			return
		}
		n, err := s.Read(buf)
		if err != nil || !bytes.Equal(buf[:n], m1) {
			res = "bad"
			return
		}
		if _, err := s.Write(m2); err != nil {
			res = "bad"
			return
		}
		n, err = c.Read(buf)
		if err != nil || !bytes.Equal(buf[:n], m2) {
			res = "bad"
		}
	}); p != "" {
		res = "bad"
	}
	return res
}

func dash(s string) string {
	if s == "" {
		return "-"
	}
	return s
}

func b01(b bool) string {
	if b {
		return "1"
	}
	return "0"
}

func (e endState) String() string {
	if !e.ok {
		return "fail"
	}
	if !e.complete {
		return "incomplete"
	}
	return fmt.Sprintf("ok:%04x:%04x:%s:%s:%s:%s", e.vers, e.suite, dash(e.alpn), b01(e.resumed), dash(e.certs), dash(e.sname))
}

var errCleaner = strings.NewReplacer(" ", "_", "=", "~", "\n", "_", "\t", "_")

func canonErr(s string) string {
	if s == "" {
		return "-"
	}
	if len(s) > 90 {
		s = s[:90]
	}
	return errCleaner.Replace(s)
}

// endedBy: how a handshake end came to its end — ok, own (an error it raised itself), alert (the
// peer's fatal alert), eof (the transport ended / failed), timeout (it never returned by itself)
func endedBy(e endState, hung bool) string {
	switch {
	case hung:
		return "timeout"
	case e.ok:
		return "ok"
	case strings.Contains(e.err, "remote error"):
		return "alert"
	case strings.Contains(e.err, "EOF") || strings.Contains(e.err, "closed") || strings.Contains(e.err, "broken pipe"):
		return "eof"
	}
	return "own"
}

func observe(rs []hsResult) string {
	var main, errs []string
	for i, r := range rs {
		c, s := r.c.String(), r.s.String()
		// the ends that had not returned when the watchdog fired are reported as such
		if r.cHung {
			c = "timeout"
		}
		if r.sHung {
			s = "timeout"
		}
		main = append(main, fmt.Sprintf("h%d=%s|%s|%s", i+1, c, s, dash(r.echo)))
		if !r.c.ok || !r.s.ok {
			errs = append(errs, fmt.Sprintf("w%d=%s/%s e%dc=%s e%ds=%s", i+1, endedBy(r.c, r.cHung), endedBy(r.s, r.sHung),
				i+1, canonErr(r.c.err), i+1, canonErr(r.s.err)))
		}
	}
	return strings.Join(append(main, errs...), " ")
}

// rounds: a second handshake with the same configuration objects is run when a session
// cache is configured on either side (to observe the resumption flag on both ends).
func roundsFor(cc cliCfg, sc srvCfg) int {
	if cc.cache || sc.cache {
		return 2
	}
	return 1
}

func execute(desc string) string {
	stack, cc, sc := parseCase(desc)
	var rs []hsResult
	if hist, ok := hx.KV(desc, "hist"); ok {
		if stack == "dtlcp" {
			rs = dtlcpStack{}.runHist(parseHist(cc, sc, hist))
		} else {
			rs = tlcpStack{}.runHist(parseHist(cc, sc, hist))
		}
		return observe(rs)
	}
	if stack == "dtlcp" {
		rs = dtlcpStack{}.run(cc, sc, roundsFor(cc, sc))
	} else {
		rs = tlcpStack{}.run(cc, sc, roundsFor(cc, sc))
	}
	return observe(rs)
}

// lineWriter writes `case => observed` lines and hands every line to the reader at once (the trace
// goes through a FIFO to the oracle): when a mutated implementation makes the run slow — every
// handshake that does not end costs endGrace — the verdicts on the cases done so far are not lost
// with a driver that is killed at the phase's time limit.
type lineWriter struct {
	f *os.File
}

func newLineWriter(path string) *lineWriter {
	if path == "" {
		return &lineWriter{f: os.Stdout}
	}
	f, err := os.Create(path)
	if err != nil {
		fmt.Fprintln(os.Stderr, err)
		os.Exit(2)
	}
	return &lineWriter{f: f}
}

func (w *lineWriter) Line(c, o string) { w.f.WriteString(c + " => " + o + "\n") }
func (w *lineWriter) Close()           { w.f.Close() }

// runAll executes the cases on a pool of workers and writes the lines in case order, each as soon
// as it and all cases before it are done.
func runAll(tr *lineWriter, cases []string, workers int) {
	out := make([]string, len(cases))
	ready := make([]bool, len(cases))
	var mu sync.Mutex
	written := 0
	var wg sync.WaitGroup
	next := make(chan int, len(cases))
	for i := range cases {
		next <- i
	}
	close(next)
	for w := 0; w < workers; w++ {
		wg.Add(1)
		go func() {
			defer wg.Done()
			for i := range next {
				o := execute(cases[i])
				mu.Lock()
				out[i], ready[i] = o, true
				for written < len(cases) && ready[written] {
					tr.Line(cases[written], out[written])
					written++
				}
				mu.Unlock()
			}
		}()
	}
	wg.Wait()
}

func main() {
	o := hx.ParseOpts()
	tr := newLineWriter(o.Out)
	defer tr.Close()
	pki.Std()
	workers := runtime.GOMAXPROCS(0)
	if workers > 16 {
		workers = 16
	}
	if v := os.Getenv("C01_WORKERS"); v != "" {
		if n, err := strconv.Atoi(v); err == nil && n > 0 {
			workers = n
		}
	}
	if o.Replay != "" {
		runAll(tr, hx.ReplayCases(o.Replay), workers)
		return
	}
	t0 := time.Now()
	var tl, dt []string
	for _, c := range generate(o) {
		if strings.HasPrefix(c, "stack=dtlcp") {
			dt = append(dt, c)
		} else {
			tl = append(tl, c)
		}
	}
	if o.Phase == "" || o.Phase == "tlcp" {
		runAll(tr, tl, workers)
	}
	if o.Phase == "" || o.Phase == "dtlcp" {
		runAll(tr, dt, workers)
	}
	fmt.Fprintf(os.Stderr, "c01: %d tlcp + %d dtlcp cases in %.1fs\n", len(tl), len(dt), time.Since(t0).Seconds())
}

package main

// Phase "frames": the receive loops stepped on raw connections fed with arbitrary bytes.
//
// Stream stack:
//
//	fn=frames stack=tlcp hv=0|1 seg=<a>.<b>.<k> ops=<op>,<op>,... wire=<hex>
//	    a raw connection (VerifNewRawConn; hv = version already negotiated) whose transport holds
//	    `wire` and then EOF, delivered in reads of 1+((a*remaining+b) mod k) bytes (k <= 512).
//	    ops: H = c.readHandshake, R = c.readRecord, C = prepare a cipher + c.readChangeCipherSpec,
//	         F = mark the handshake complete, D = Conn.Read with a large buffer (only when complete)
//	    => steps=<r>,<r>,.. lens=<hand>.<raw>.<retry>.<input>,..   one entry per op
//	       r = m<type>:<len> (a message) | ok | d<bytes> | err | panic | skip
//
// Datagram stack:
//
//	fn=framesd stack=dtlcp hv=0|1 ops=<op>,.. dgrams=<hex>/<hex>/.. [flood=<n>x<size>]
//	    a raw server connection whose socket holds the datagrams and then fails; flood = n more
//	    datagrams after the listed ones, each ONE handshake record (epoch 0, record sequence
//	    numbers 1000, 1001, ..) of `size` zero bytes;
//	    ops: H = c.readHandshake, R = c.readRecord, F = complete, D = Conn.Read
//	    => steps=.. lens=<handBuf>.<rawInputBuf>.<retry>.<pending buffers>.<pending bytes>,..

import (
	"fmt"
	"strconv"
	"strings"
	"time"

	"gitee.com/Trisia/gotlcp/dtlcp"
	"gitee.com/Trisia/gotlcp/tlcp"
	"verifharness/internal/hx"
	"verifharness/internal/pair"
)

func segSize(a, b, k, remaining int) int {
	if k < 1 {
		k = 1
	}
	s := 1 + ((a*remaining + b) % k)
	if s > remaining {
		s = remaining
	}
	if s < 1 {
		s = 1
	}
	return s
}

func execFrames(desc string) string {
	fn, _ := hx.KV(desc, "fn")
	if fn == "framesd" {
		return execFramesD(desc)
	}
	hv := hx.KVInt(desc, "hv") == 1
	segs, _ := hx.KV(desc, "seg")
	opsS, _ := hx.KV(desc, "ops")
	wireS, _ := hx.KV(desc, "wire")
	wire := hx.UnHex(wireS)
	sp := strings.Split(segs, ".")
	a, _ := strconv.Atoi(sp[0])
	b, _ := strconv.Atoi(sp[1])
	k, _ := strconv.Atoi(sp[2])

	ce, se := pair.StreamPipe()
	defer ce.Close()
	defer se.Close()
	remaining := len(wire)
	se.MaxRead = func(avail int) int {
		s := segSize(a, b, k, remaining)
		if s > avail {
			s = avail
		}
		remaining -= s
		return s
	}
	ce.Inject(wire)
	ce.CloseWriteRaw()
	c := tlcp.VerifNewRawConn(se, false, hv)
	complete := false
	var steps, lens []string
	for _, op := range strings.Split(opsS, ",") {
		res := "skip"
		err, pan, stalled := guarded(func() error {
			switch op {
			case "H":
				t, l, e, p := tlcp.VerifStepHandshake(c)
				if p != "" {
					panic(p)
				}
				if e == nil {
					res = fmt.Sprintf("m%d:%d", t, l)
				}
				return e
			case "R":
				e, p := tlcp.VerifStepRecord(c, false)
				if p != "" {
					panic(p)
				}
				if e == nil {
					res = "ok"
				}
				return e
			case "C":
				tlcp.VerifPrepareReadCipher(c, tlcp.ECC_SM4_GCM_SM3, recKey, bytesOf(0x22, 4), nil)
				e, p := tlcp.VerifStepRecord(c, true)
				if p != "" {
					panic(p)
				}
				if e == nil {
					res = "ok"
				}
				return e
			case "F":
				tlcp.VerifSetComplete(c, true)
				complete = true
				res = "ok"
			case "D":
				if !complete {
					return nil
				}
				buf := make([]byte, 1<<17)
				n, e := c.Read(buf)
				if e == nil {
					res = "d" + strconv.Itoa(n)
				}
				return e
			}
			return nil
		}, func() { ce.Close(); se.Close() }, watchdog)
		switch {
		case pan != "":
			res = "panic"
		case stalled:
			res = "stall"
		case err != nil:
			res = "err"
		}
		steps = append(steps, res)
		h, r, _, in, rt := tlcp.VerifBufLens(c)
		lens = append(lens, fmt.Sprintf("%d.%d.%d.%d", h, r, rt, in))
		if pan != "" || stalled {
			break
		}
	}
	return "steps=" + strings.Join(steps, ",") + " lens=" + strings.Join(lens, ",")
}

func execFramesD(desc string) string {
	hv := hx.KVInt(desc, "hv") == 1
	opsS, _ := hx.KV(desc, "ops")
	dg, _ := hx.KV(desc, "dgrams")
	ce, se := pair.PacketPipe()
	defer ce.Close()
	defer se.Close()
	if dg != "-" && dg != "" {
		for _, d := range strings.Split(dg, "/") {
			se.Deliver(hx.UnHex(d), ce.LocalAddr())
		}
	}
	if fl, ok := hx.KV(desc, "flood"); ok {
		var n, size int
		if _, err := fmt.Sscanf(fl, "%dx%d", &n, &size); err == nil && n <= 4096 && size <= 16384 {
			for i := 0; i < n; i++ {
				se.Deliver(rec13(22, 0, 1000+i, make([]byte, size)), ce.LocalAddr())
			}
		}
	}
	c := dtlcp.VerifNewRawConn(se, ce.LocalAddr(), false, hv)
	complete := false
	var steps, lens []string
	for _, op := range strings.Split(opsS, ",") {
		res := "skip"
		// the socket has no more datagrams after the scripted ones: a read deadline turns the
		// blocking read into the timeout error the library treats as non-fatal
		se.SetReadDeadline(time.Now().Add(3 * time.Millisecond))
		err, pan, stalled := guarded(func() error {
			switch op {
			case "H":
				t, l, e, p := dtlcp.VerifStepHandshake(c)
				if p != "" {
					panic(p)
				}
				if e == nil {
					res = fmt.Sprintf("m%d:%d", t, l)
				}
				return e
			case "R":
				e, p := dtlcp.VerifStepRecord(c, false)
				if p != "" {
					panic(p)
				}
				if e == nil {
					res = "ok"
				}
				return e
			case "F":
				dtlcp.VerifSetComplete(c, true)
				complete = true
				res = "ok"
			case "D":
				if !complete {
					return nil
				}
				buf := make([]byte, 1<<17)
				n, e := c.Read(buf)
				if e == nil {
					res = "d" + strconv.Itoa(n)
				}
				return e
			}
			return nil
		}, func() { ce.Close(); se.Close() }, watchdog)
		switch {
		case pan != "":
			res = "panic"
		case stalled:
			res = "stall"
		case err != nil:
			res = "err"
			if ne, ok := err.(interface{ Timeout() bool }); ok && ne.Timeout() {
				res = "tmo"
			}
		}
		steps = append(steps, res)
		h, r, _, rt, np, nb := dtlcp.VerifBufLens(c)
		lens = append(lens, fmt.Sprintf("%d.%d.%d.%d.%d", h, r, rt, np, nb))
		if pan != "" || stalled {
			break
		}
	}
	return "steps=" + strings.Join(steps, ",") + " lens=" + strings.Join(lens, ",")
}

// ---------------------------------------------------------------------------
// generators

func rec5(typ byte, payload []byte) []byte {
	return append([]byte{typ, 1, 1, byte(len(payload) >> 8), byte(len(payload))}, payload...)
}

func hsMsg(typ byte, body []byte) []byte {
	return append([]byte{typ, byte(len(body) >> 16), byte(len(body) >> 8), byte(len(body))}, body...)
}

// randomWire builds a byte stream out of record-shaped pieces, mostly well framed.
func randomWire(r *hx.Rand) []byte {
	var w []byte
	n := 1 + r.Intn(8)
	for i := 0; i < n; i++ {
		switch x := r.Intn(100); {
		case x < 35: // handshake record carrying (part of) handshake messages
			var p []byte
			for j := 0; j < 1+r.Intn(3); j++ {
				body := r.Bytes(r.Intn(40))
				m := hsMsg(hx.Pick(r, []byte{1, 2, 11, 12, 13, 14, 14, 14, 15, 16, 20, 0, 99}), body)
				if r.Chance(15) { // inconsistent length
					m[3] += byte(1 + r.Intn(5))
				}
				if r.Chance(5) {
					m[1] = byte(r.Intn(3)) // up to 131071+: too long
				}
				p = append(p, m...)
			}
			if r.Chance(30) && len(p) > 1 { // split across two records
				cut := 1 + r.Intn(len(p)-1)
				w = append(w, rec5(22, p[:cut])...)
				if r.Chance(30) {
					w = append(w, rec5(21, []byte{1, 90})...) // a warning alert in between
				}
				w = append(w, rec5(22, p[cut:])...)
			} else {
				w = append(w, rec5(22, p)...)
			}
		case x < 50: // warning alerts (non-advancing)
			for j := 0; j < 1+r.Intn(20); j++ {
				w = append(w, rec5(21, []byte{1, byte(1 + r.Intn(120))})...)
			}
		case x < 55:
			w = append(w, rec5(21, []byte{hx.Pick(r, []byte{2, 1, 3, 0}), hx.Pick(r, []byte{0, 10, 40})})...)
		case x < 60:
			w = append(w, rec5(21, r.Bytes(r.Intn(4)))...)
		case x < 68:
			w = append(w, rec5(20, hx.Pick(r, [][]byte{{1}, {1}, {0}, {}, {1, 1}}))...)
		case x < 74:
			w = append(w, rec5(23, r.Bytes(r.Intn(5)))...)
		case x < 80:
			w = append(w, rec5(22, nil)...)
		case x < 86: // odd type / version / length
			p := rec5(hx.Pick(r, []byte{0, 0x80, 24, 19, 255, 22}), r.Bytes(r.Intn(10)))
			if r.Bool() {
				p[1+r.Intn(2)] = byte(r.U64())
			}
			w = append(w, p...)
		case x < 92: // declared length beyond what follows / oversized
			p := rec5(22, r.Bytes(r.Intn(10)))
			p[3], p[4] = hx.Pick(r, []byte{0, 0x47, 0x48, 0x49, 0xff}), byte(r.U64())
			w = append(w, p...)
		default:
			w = append(w, r.Bytes(r.Intn(12))...)
		}
	}
	if r.Chance(20) && len(w) > 0 {
		w = w[:r.Intn(len(w))]
	}
	return w
}

func randomOps(r *hx.Rand, post bool) string {
	n := 1 + r.Intn(6)
	var ops []string
	done := false
	for i := 0; i < n; i++ {
		switch x := r.Intn(100); {
		case x < 55:
			ops = append(ops, "H")
		case x < 75:
			ops = append(ops, "R")
		case x < 85:
			ops = append(ops, "C")
		default:
			if post && !done {
				ops = append(ops, "F", "D")
				done = true
			} else {
				ops = append(ops, "H")
			}
		}
	}
	return strings.Join(ops, ",")
}

func genFrames(o hx.Opts, emit func(string)) {
	r := hx.NewRand(o.Seed + 11)
	// corpus: a complete message; a message split over records with warnings between; floods
	shd := rec5(22, hsMsg(14, nil))
	emit("fn=frames stack=tlcp hv=1 seg=0.511.512 ops=H,H wire=" + hx.Hex(append(append([]byte(nil), shd...), shd...)))
	var flood []byte
	for i := 0; i < 20; i++ {
		flood = append(flood, rec5(21, []byte{1, 90})...)
	}
	emit("fn=frames stack=tlcp hv=1 seg=0.0.1 ops=H wire=" + hx.Hex(flood))
	emit("fn=frames stack=tlcp hv=1 seg=7.3.64 ops=H wire=" + hx.Hex(append(append([]byte(nil), flood[:7*16]...), shd...)))
	// a maximum-size message in maximum-size records, then one more record
	big := hsMsg(11, r.Bytes(65536))
	var bw []byte
	for off := 0; off < len(big); off += 16384 {
		end := min(off+16384, len(big))
		bw = append(bw, rec5(22, big[off:end])...)
	}
	emit("fn=frames stack=tlcp hv=1 seg=0.511.512 ops=H,H wire=" + hx.Hex(append(bw, shd...)))
	emit("fn=frames stack=tlcp hv=1 seg=0.511.512 ops=H wire=" + hx.Hex(rec5(22, []byte{11, 1, 0, 1}))) // 65537: too long
	// a message that announces 100000 bytes and delivers them: refused at its header
	huge := hsMsg(11, r.Bytes(100000))
	var hw []byte
	for off := 0; off < len(huge); off += 16384 {
		hw = append(hw, rec5(22, huge[off:min(off+16384, len(huge))])...)
	}
	emit("fn=frames stack=tlcp hv=1 seg=0.511.512 ops=H,R,R,R,R,R,R wire=" + hx.Hex(hw))
	n := 1500 * o.Scale
	if o.Tier == "thorough" {
		n = 150000 * o.Scale
	}
	for i := 0; i < n; i++ {
		k := hx.Pick(r, []int{1, 2, 3, 5, 16, 100, 512})
		emit(fmt.Sprintf("fn=frames stack=tlcp hv=%d seg=%d.%d.%d ops=%s wire=%s", r.Intn(2), r.Intn(50), r.Intn(512), k,
			randomOps(r, true), hx.Hex(randomWire(r))))
	}
	genFramesD(o, emit, r)
}

package main

// Phase "kx": the key-agreement functions of both stacks on raw message bodies.
//
// case     : fn=<name> stack=tlcp|dtlcp [srv=..] [peer=k,k|-] [cenc=..] [tmp=0|1] [vec=0|1] [body=<hex>]
// observed : out=ok|err|panic why=<enum|-> decin=<hex|none> dec=<none|err|plaintext length> tmp=0|1 [panic=<text>]
//
//	fn        Go function                                       parameters
//	ecc_pckx  eccKeyAgreement.processClientKeyExchange          srv (server certificates), body
//	ecc_pskx  eccKeyAgreement.processServerKeyExchange          peer (key kinds of hs.peerCertificates), body
//	ecc_gckx  eccKeyAgreement.generateClientKeyExchange         peer
//	dhe_pub   getECDHEPublicKey                                 body
//	dhe_pckx  sm2ECDHEKeyAgreement.processClientKeyExchange     peer (client certificates), body
//	dhe_pskx  sm2ECDHEKeyAgreement.processServerKeyExchange     peer, body
//	dhe_gckx  sm2ECDHEKeyAgreement.generateClientKeyExchange    peer, tmp (a well-formed ServerKeyExchange was given to
//	                                                            processServerKeyExchange before, with the same peer
//	                                                            certificates), cenc (hs.encCert: nil|sm2|rsa|p256|ed), vec

import (
	"strconv"
	"strings"

	"github.com/emmansun/gmsm/smx509"

	"gitee.com/Trisia/gotlcp/dtlcp"
	"gitee.com/Trisia/gotlcp/tlcp"
	"verifharness/internal/hx"
	"verifharness/internal/pki"
)

type kxRes struct {
	Panic     string
	Err       error
	Out, Out2 []byte
	DecCalled bool
	DecIn     []byte
	DecLen    int
	DecErr    bool
	HaveTmp   bool
}

type kaAPI interface {
	GenSKX(sig, enc *pki.Leaf, cr, sr []byte) kxRes
	ProcCKX(sig, enc *pki.Leaf, peer []*smx509.Certificate, body []byte) kxRes
	ProcSKX(peer []*smx509.Certificate, cr, sr, body []byte) kxRes
	GenCKX(peer []*smx509.Certificate, cenc *pki.Leaf, vec bool) kxRes
}

type tka struct{ k *tlcp.VerifKA }
type dka struct{ k *dtlcp.VerifKA }

func tc(l *pki.Leaf) *tlcp.Certificate {
	if l == nil {
		return nil
	}
	return &tlcp.Certificate{Certificate: [][]byte{l.DER}, PrivateKey: l.Key}
}
func dc(l *pki.Leaf) *dtlcp.Certificate {
	if l == nil {
		return nil
	}
	return &dtlcp.Certificate{Certificate: [][]byte{l.DER}, PrivateKey: l.Key}
}
func tr(r tlcp.VerifKXResult) kxRes {
	return kxRes{r.Panic, r.Err, r.Out, r.Out2, r.DecCalled, r.DecIn, r.DecLen, r.DecErr, r.HaveTmpKey}
}
func dr(r dtlcp.VerifKXResult) kxRes {
	return kxRes{r.Panic, r.Err, r.Out, r.Out2, r.DecCalled, r.DecIn, r.DecLen, r.DecErr, r.HaveTmpKey}
}

func (a tka) GenSKX(sig, enc *pki.Leaf, cr, sr []byte) kxRes { return tr(a.k.GenerateSKX(tc(sig), tc(enc), cr, sr)) }
func (a tka) ProcCKX(sig, enc *pki.Leaf, peer []*smx509.Certificate, body []byte) kxRes {
	return tr(a.k.ProcessCKX(tc(sig), tc(enc), peer, body))
}
func (a tka) ProcSKX(peer []*smx509.Certificate, cr, sr, body []byte) kxRes {
	return tr(a.k.ProcessSKX(peer, cr, sr, body))
}
func (a tka) GenCKX(peer []*smx509.Certificate, cenc *pki.Leaf, vec bool) kxRes {
	return tr(a.k.GenerateCKX(peer, tc(cenc), vec))
}
func (a dka) GenSKX(sig, enc *pki.Leaf, cr, sr []byte) kxRes { return dr(a.k.GenerateSKX(dc(sig), dc(enc), cr, sr)) }
func (a dka) ProcCKX(sig, enc *pki.Leaf, peer []*smx509.Certificate, body []byte) kxRes {
	return dr(a.k.ProcessCKX(dc(sig), dc(enc), peer, body))
}
func (a dka) ProcSKX(peer []*smx509.Certificate, cr, sr, body []byte) kxRes {
	return dr(a.k.ProcessSKX(peer, cr, sr, body))
}
func (a dka) GenCKX(peer []*smx509.Certificate, cenc *pki.Leaf, vec bool) kxRes {
	return dr(a.k.GenerateCKX(peer, dc(cenc), vec))
}

func newKA(stack, kind string) kaAPI {
	if stack == "dtlcp" {
		return dka{dtlcp.VerifNewKA(kind)}
	}
	return tka{tlcp.VerifNewKA(kind)}
}

// fixed randoms of the hello messages (their value is irrelevant to parsing)
var cRandom = bytesOf(0xc1, 32)
var sRandom = bytesOf(0x5e, 32)

func bytesOf(b byte, n int) []byte {
	out := make([]byte, n)
	for i := range out {
		out[i] = b
	}
	return out
}

// leafOf returns a leaf whose key has the given kind ("sm2" has distinct sign / encrypt leaves).
func leafOf(kind string, pos int, client bool) *pki.Leaf {
	s := pki.Std()
	switch kind {
	case "sm2":
		if client {
			if pos == 0 {
				return s.CliSig
			}
			return s.CliEnc
		}
		if pos == 0 {
			return s.SrvSig
		}
		return s.SrvEnc
	case "rsa":
		return s.RSAEnc
	case "p256":
		if pos == 0 {
			return s.P256Sig
		}
		return s.P256Enc
	case "ed":
		return s.EdSig
	}
	return nil
}

func peerCerts(spec string, client bool) []*smx509.Certificate {
	if spec == "-" || spec == "" {
		return nil
	}
	var out []*smx509.Certificate
	for i, k := range strings.Split(spec, ",") {
		if l := leafOf(k, i, client); l != nil {
			out = append(out, l.Cert)
		}
	}
	return out
}

// why maps an error of the key-agreement functions to a small enum.
func why(err error) string {
	if err == nil {
		return "-"
	}
	m := err.Error()
	has := func(s string) bool { return strings.Contains(m, s) }
	switch {
	case has("invalid ClientKeyExchange message"):
		return "ckx"
	case has("invalid ServerKeyExchange message"):
		return "skx"
	case has("need 2 certificates"), has("needs 2 certificates"), has("need server provide two certificate"), has("need client enc cert"):
		return "certs"
	case has("bad client key exchange ciphertext format"):
		return "fmt"
	case has("does not implement crypto.Decrypter"):
		return "nodec"
	case has("sm2 signing requires a sm2 public key"):
		return "sigkey"
	case has("sm2 verification failure"):
		return "verify"
	case has("client key not sm2 type"), has("server encrypt certificate key type not sm2"), has("encryption requires a sm2 public key"):
		return "enckey"
	case has("private key not support sm2 key exchange"), has("need client encryption certificate"), has("needs a client encryption certificate"):
		return "noke"
	}
	return "lib"
}

func (r kxRes) obs() string {
	out := "ok"
	if r.Panic != "" {
		out = "panic"
	} else if r.Err != nil {
		out = "err"
	}
	w := why(r.Err)
	if r.Panic != "" {
		w = "-"
	}
	decin := "none"
	if r.DecCalled {
		decin = hx.Hex(r.DecIn)
	}
	tmp := "0"
	if r.HaveTmp {
		tmp = "1"
	}
	dec := "none"
	if r.DecCalled {
		dec = "err"
		if !r.DecErr {
			dec = strconv.Itoa(r.DecLen)
		}
	}
	s := "out=" + out + " why=" + w + " decin=" + decin + " dec=" + dec + " tmp=" + tmp
	if r.Panic != "" {
		s += " panic=" + strings.ReplaceAll(r.Panic, " ", "_")
	}
	return s
}

// validBodies holds well-formed bodies produced by the real code at start-up; the malformed
// stream is derived from them.
type validBodies struct {
	eccSKX, eccCKX, dheSKX, dheCKX69, dheCKX71 []byte
}

var valid = map[string]*validBodies{}

func validFor(stack string) *validBodies {
	if v, ok := valid[stack]; ok {
		return v
	}
	s := pki.Std()
	v := &validBodies{}
	srvPeer := []*smx509.Certificate{s.SrvSig.Cert, s.SrvEnc.Cert}
	v.eccSKX = newKA(stack, "ecc").GenSKX(s.SrvSig, s.SrvEnc, cRandom, sRandom).Out
	v.eccCKX = newKA(stack, "ecc").GenCKX(srvPeer, nil, false).Out
	srvKA := newKA(stack, "ecdhe")
	v.dheSKX = srvKA.GenSKX(s.SrvSig, s.SrvEnc, cRandom, sRandom).Out
	for _, vec := range []bool{false, true} {
		cli := newKA(stack, "ecdhe")
		cli.ProcSKX(srvPeer, cRandom, sRandom, v.dheSKX)
		b := cli.GenCKX(srvPeer, s.CliEnc, vec).Out
		if vec {
			v.dheCKX71 = b
		} else {
			v.dheCKX69 = b
		}
	}
	valid[stack] = v
	return v
}

func execKX(desc string) string {
	fn, _ := hx.KV(desc, "fn")
	stack, _ := hx.KV(desc, "stack")
	bodyHex, hasBody := hx.KV(desc, "body")
	var body []byte
	if hasBody {
		body = hx.UnHex(bodyHex)
	}
	peerSpec, _ := hx.KV(desc, "peer")
	s := pki.Std()
	switch fn {
	case "ecc_pckx":
		srv, _ := hx.KV(desc, "srv")
		sig, enc := s.SrvSig, s.SrvEnc
		switch srv {
		case "nocert":
			sig, enc = nil, nil
		case "rsaenc":
			enc = s.RSAEnc
		case "edenc":
			enc = s.EdSig
		}
		return newKA(stack, "ecc").ProcCKX(sig, enc, nil, body).obs()
	case "ecc_pskx":
		return newKA(stack, "ecc").ProcSKX(peerCerts(peerSpec, false), cRandom, sRandom, body).obs()
	case "ecc_gckx":
		return newKA(stack, "ecc").GenCKX(peerCerts(peerSpec, false), nil, false).obs()
	case "dhe_pub":
		var r kxRes
		if stack == "dtlcp" {
			r = dr(dtlcp.VerifGetECDHEPublicKey(body))
		} else {
			r = tr(tlcp.VerifGetECDHEPublicKey(body))
		}
		return r.obs()
	case "dhe_pckx":
		k := newKA(stack, "ecdhe")
		k.GenSKX(s.SrvSig, s.SrvEnc, cRandom, sRandom) // the server always sends its ServerKeyExchange first
		return k.ProcCKX(s.SrvSig, s.SrvEnc, peerCerts(peerSpec, true), body).obs()
	case "dhe_pskx":
		return newKA(stack, "ecdhe").ProcSKX(peerCerts(peerSpec, false), cRandom, sRandom, body).obs()
	case "dhe_gckx":
		k := newKA(stack, "ecdhe")
		if hx.KVInt(desc, "tmp") == 1 {
			// the same certificates as the later call sees (as in a real handshake); whether
			// peerTmpKey got set is reported in the observation
			k.ProcSKX(peerCerts(peerSpec, false), cRandom, sRandom, validFor(stack).dheSKX)
		}
		ce, _ := hx.KV(desc, "cenc")
		return k.GenCKX(peerCerts(peerSpec, false), leafOf(ce, 1, true), hx.KVInt(desc, "vec") == 1).obs()
	}
	return "out=badcase"
}

var keyKinds = []string{"sm2", "rsa", "p256", "ed"}

// mutations of one well-formed body: every truncation, +/-1 on every byte that is a plausible
// length field (all bytes of the first 8 and any byte equal to a suffix length), single flips,
// extensions, empty
func mutations(r *hx.Rand, b []byte, budget int) [][]byte {
	var out [][]byte
	out = append(out, nil, append([]byte(nil), b...))
	for i := 0; i <= len(b); i++ {
		out = append(out, append([]byte(nil), b[:i]...))
	}
	for i := 0; i < len(b); i++ {
		isLen := i < 8
		for _, w := range []int{1, 2} { // a 1- or 2-byte field holding the length of what follows
			if i+w <= len(b) {
				v := 0
				for j := 0; j < w; j++ {
					v = v<<8 | int(b[i+j])
				}
				if v == len(b)-i-w {
					isLen = true
				}
			}
		}
		if isLen {
			for _, d := range []int{1, -1} {
				c := append([]byte(nil), b...)
				c[i] = byte(int(c[i]) + d)
				out = append(out, c)
			}
			c := append([]byte(nil), b...)
			c[i] = 0
			out = append(out, c)
			c = append([]byte(nil), b...)
			c[i] = 0xff
			out = append(out, c)
		}
	}
	out = append(out, append(append([]byte(nil), b...), 0), append(append([]byte(nil), b...), r.Bytes(1+r.Intn(40))...))
	for i := 0; i < budget; i++ {
		c := append([]byte(nil), b...)
		switch r.Intn(4) {
		case 0: // flip
			if len(c) > 0 {
				c[r.Intn(len(c))] ^= 1 << uint(r.Intn(8))
			}
		case 1: // truncate and perturb a leading byte
			c = c[:r.Intn(len(c)+1)]
			if len(c) > 0 {
				j := r.Intn(min(len(c), 6))
				c[j] = byte(r.U64())
			}
		case 2: // random short string
			c = r.Bytes(r.Intn(12))
		case 3: // consistent outer length over random content
			n := r.Intn(80)
			c = append([]byte{byte(n >> 8), byte(n)}, r.Bytes(n)...)
			if n > 0 && r.Bool() {
				c[2] = 0x30
			}
		}
		out = append(out, c)
	}
	return out
}

func genKX(o hx.Opts, emit func(string)) {
	r := hx.NewRand(o.Seed)
	stacks := []string{"tlcp", "dtlcp"}
	// 1. documented witnesses first (F2, F3, F4)
	for _, st := range stacks {
		for _, w := range []string{"00", "0000", "000130", "00023000"} {
			emit("fn=ecc_pckx stack=" + st + " srv=sm2 body=" + w)
		}
		v := validFor(st)
		pl := int(v.dheSKX[3])
		emit("fn=dhe_pskx stack=" + st + " peer=sm2,sm2 body=" + hx.Hex(v.dheSKX[:4+pl]))
		emit("fn=dhe_pskx stack=" + st + " peer=sm2,sm2 body=" + hx.Hex(v.dheSKX[:5+pl]))
		emit("fn=dhe_gckx stack=" + st + " peer=sm2,sm2 tmp=1 cenc=nil vec=0")
		emit("fn=ecc_gckx stack=" + st + " peer=sm2,rsa")
		emit("fn=ecc_gckx stack=" + st + " peer=sm2,ed")
	}
	budget := 150 * o.Scale
	if o.Tier == "thorough" {
		budget = 20000 * o.Scale
	}
	for _, st := range stacks {
		v := validFor(st)
		// certificate key kinds in both positions, on well-formed bodies
		var specs []string
		specs = append(specs, "-", "sm2", "rsa")
		for _, a := range keyKinds {
			for _, b := range keyKinds {
				specs = append(specs, a+","+b)
			}
		}
		for _, sp := range specs {
			emit("fn=ecc_pskx stack=" + st + " peer=" + sp + " body=" + hx.Hex(v.eccSKX))
			emit("fn=ecc_gckx stack=" + st + " peer=" + sp)
			emit("fn=dhe_pskx stack=" + st + " peer=" + sp + " body=" + hx.Hex(v.dheSKX))
			emit("fn=dhe_pckx stack=" + st + " peer=" + sp + " body=" + hx.Hex(v.dheCKX69))
			for _, ce := range []string{"nil", "sm2", "rsa", "p256", "ed"} {
				for _, tmp := range []string{"0", "1"} {
					emit("fn=dhe_gckx stack=" + st + " peer=" + sp + " tmp=" + tmp + " cenc=" + ce + " vec=" + hx.Pick(r, []string{"0", "1"}))
				}
			}
		}
		for _, srv := range []string{"sm2", "nocert", "rsaenc", "edenc"} {
			emit("fn=ecc_pckx stack=" + st + " srv=" + srv + " body=" + hx.Hex(v.eccCKX))
			emit("fn=ecc_pckx stack=" + st + " srv=" + srv + " body=-")
		}
		// malformed bodies
		for _, b := range mutations(r, v.eccCKX, budget) {
			emit("fn=ecc_pckx stack=" + st + " srv=sm2 body=" + hx.Hex(b))
		}
		for _, b := range mutations(r, v.eccSKX, budget) {
			emit("fn=ecc_pskx stack=" + st + " peer=sm2,sm2 body=" + hx.Hex(b))
		}
		for _, b := range mutations(r, v.dheSKX, budget) {
			emit("fn=dhe_pskx stack=" + st + " peer=sm2,sm2 body=" + hx.Hex(b))
		}
		for _, base := range [][]byte{v.dheCKX69, v.dheCKX71} {
			for _, b := range mutations(r, base, budget/2) {
				emit("fn=dhe_pckx stack=" + st + " peer=sm2,sm2 body=" + hx.Hex(b))
				emit("fn=dhe_pub stack=" + st + " body=" + hx.Hex(b))
			}
		}
		// substituted bodies: each well-formed body given to each parser
		all := [][]byte{v.eccCKX, v.eccSKX, v.dheSKX, v.dheCKX69, v.dheCKX71}
		for _, b := range all {
			emit("fn=ecc_pckx stack=" + st + " srv=sm2 body=" + hx.Hex(b))
			emit("fn=ecc_pskx stack=" + st + " peer=sm2,sm2 body=" + hx.Hex(b))
			emit("fn=dhe_pskx stack=" + st + " peer=sm2,sm2 body=" + hx.Hex(b))
			emit("fn=dhe_pckx stack=" + st + " peer=sm2,sm2 body=" + hx.Hex(b))
			emit("fn=dhe_pub stack=" + st + " body=" + hx.Hex(b))
		}
		// exhaustive short bodies for the hand-indexed prefixes
		for n := 0; n <= 2; n++ {
			var rec func(p []byte)
			rec = func(p []byte) {
				if len(p) == n {
					emit("fn=ecc_pckx stack=" + st + " srv=sm2 body=" + hx.Hex(p))
					emit("fn=ecc_pskx stack=" + st + " peer=sm2,sm2 body=" + hx.Hex(p))
					emit("fn=dhe_pskx stack=" + st + " peer=sm2,sm2 body=" + hx.Hex(p))
					return
				}
				for _, x := range []byte{0, 1, 2, 3, 0x30, 0xff} {
					rec(append(append([]byte(nil), p...), x))
				}
			}
			rec(nil)
		}
		// ASN.1 length forms after the SEQUENCE tag: short, 0x81, 0x82, 0x83 …, bodies just long
		// enough (or one byte too short) for each
		for n := 1; n <= 7; n++ {
			for _, lenByte := range []byte{0x00, 0x05, 0x7f, 0x80, 0x81, 0x82, 0x83, 0x84, 0xff} {
				for _, fill := range []byte{0x00, 0x01, 0xa6, 0xff} {
					b := make([]byte, 2+n)
					b[1] = byte(n)
					b[2] = 0x30
					if n > 1 {
						b[3] = lenByte
					}
					for j := 4; j < len(b); j++ {
						b[j] = fill
					}
					emit("fn=ecc_pckx stack=" + st + " srv=sm2 body=" + hx.Hex(b))
				}
			}
		}
		for _, l := range []int{3, 4, 5, 6} { // 2-byte length + body of l-2 bytes, every first/third byte class
			for _, b0 := range []byte{0x30, 0x00} {
				for _, b2 := range []byte{0, 1, 2, 3, 0x7f, 0xff} {
					b := make([]byte, l)
					b[1] = byte(l - 2)
					b[2] = b0
					if l > 4 {
						b[4] = b2
					}
					emit("fn=ecc_pckx stack=" + st + " srv=sm2 body=" + hx.Hex(b))
				}
			}
		}
	}
}

package main

import "verifharness/internal/hx"

func genFramesD(hx.Opts, func(string), *hx.Rand) {}

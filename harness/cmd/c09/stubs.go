package main

import "verifharness/internal/hx"

func execRec(string) string          { return "out=badcase" }
func execFrames(string) string       { return "out=badcase" }
func execLive(string) string         { return "out=badcase" }
func genRec(hx.Opts, func(string))    {}
func genFrames(hx.Opts, func(string)) {}
func genLive(hx.Opts, func(string))   {}

package main

// Phase "live": live endpoints of both stacks.
//
//	fn=live_flood stack=S victim=server|client kind=hs|warn|empty|mix|ccs n=<records> size=<bytes> [suite=..]
//	    a real handshake, then the OTHER side (a peer that completed the handshake) sends n
//	    authenticated records of the kind (hs: handshake records of `size` bytes; warn: warning
//	    alerts; empty: empty application-data records; ccs: change_cipher_spec) followed by one
//	    application-data record "x"; the victim calls Read once.
//	fn=live_state stack=S victim=server|client suite=ecc|ecdhe at=<k> mut=<kind> seed=<n>
//	    a real handshake in which the k-th transport write / datagram of the victim's peer is
//	    mutated (trunc, flip, lenp, lenm, junk, dup, rand, bigrec, hsflood, warnflood) and the
//	    stream is closed after it; both sides run to completion under a watchdog.
//	fn=live_raw stack=S victim=server|client seed=<n> len=<bytes> shape=<kind>
//	    a fresh endpoint fed with arbitrary bytes as the first thing it ever receives.
//	fn=live_script ...   a scripted peer with an arbitrary certificate list: see script.go
//
// observed: out=ok|err|panic stalled=0|1 hand=<max> raw=<max> pend=<max buffers> pendb=<max bytes> [stackd=<bytes>]
//
//	hs=<readHandshake budget: messages the victim may have read> [err=<text>] [panic=<text>]
//
// These cases have no model prediction beyond the class (the spec is the judge): the oracle
// echoes the observation and evaluates Spec.Robust on it.

import (
	"fmt"
	"io"
	"net"
	"runtime"
	"strconv"
	"strings"
	"sync"
	"sync/atomic"
	"time"

	"gitee.com/Trisia/gotlcp/dtlcp"
	"gitee.com/Trisia/gotlcp/tlcp"
	"verifharness/internal/hx"
	"verifharness/internal/pair"
	"verifharness/internal/pki"
)

const watchdog = 3 * time.Second

type liveObs struct {
	out     string
	stalled bool
	hand    int
	raw     int
	pend    int
	pendb   int
	hs      int
	stackd  int // growth of runtime.MemStats.StackInuse during the call (floods only)
	err     string
	panicv  string
}

func (o liveObs) String() string {
	s := fmt.Sprintf("out=%s stalled=%s hand=%d raw=%d pend=%d pendb=%d hs=%d", o.out, b01(o.stalled), o.hand, o.raw, o.pend, o.pendb, o.hs)
	if o.stackd > 0 {
		s += " stackd=" + strconv.Itoa(o.stackd)
	}
	if o.err != "" {
		s += " err=" + canonErr(o.err)
	}
	if o.panicv != "" {
		s += " panic=" + strings.ReplaceAll(o.panicv, " ", "_")
	}
	return s
}

func b01(b bool) string {
	if b {
		return "1"
	}
	return "0"
}

// canonErr keeps error texts stable across runs: no numbers, no spaces.
func canonErr(e string) string {
	var b strings.Builder
	lastDigit := false
	for _, r := range e {
		switch {
		case r >= '0' && r <= '9':
			if !lastDigit {
				b.WriteByte('N')
			}
			lastDigit = true
			continue
		case r == ' ' || r == '\t' || r == '\n' || r == '=':
			b.WriteByte('_')
		default:
			b.WriteRune(r)
		}
		lastDigit = false
	}
	s := b.String()
	if len(s) > 90 {
		s = s[:90]
	}
	return s
}

// guarded runs f in its own goroutine with recover and a watchdog; abort is called when the
// watchdog fires (it must unblock f).
func guarded(f func() error, abort func(), d time.Duration) (err error, panicked string, stalled bool) {
	type res struct {
		err error
		p   string
	}
	ch := make(chan res, 1)
	go func() {
		var r res
		defer func() {
			if p := recover(); p != nil {
				r.p = fmt.Sprint(p)
			}
			ch <- r
		}()
		r.err = f()
	}()
	select {
	case r := <-ch:
		return r.err, r.p, false
	case <-time.After(d):
		abort()
		select {
		case r := <-ch:
			return r.err, r.p, true
		case <-time.After(2 * time.Second):
			return nil, "", true
		}
	}
}

// idleConn wraps a stream end and records whether the endpoint is parked inside the
// transport's Read (waiting for input that has not come) — that is idling, not spinning.
type idleConn struct {
	net.Conn
	waiting atomic.Int32
	done    atomic.Int32 // the endpoint's handshake call has returned
	reads   atomic.Int64
}

func (c *idleConn) Read(p []byte) (int, error) {
	c.waiting.Store(1)
	n, err := c.Conn.Read(p)
	c.waiting.Store(0)
	c.reads.Add(1)
	return n, err
}

// quiesce closes the transports once both endpoints are parked in Read with nothing in flight
// (each waits for the other: silence, not a spin), so that such cases end at once.
func quiesce(a, b *idleConn, closeAll func(), stop chan struct{}) {
	idle := 0
	var last int64 = -1
	for {
		select {
		case <-stop:
			return
		case <-time.After(5 * time.Millisecond):
		}
		cur := a.reads.Load() + b.reads.Load()
		if (a.waiting.Load() == 1 || a.done.Load() == 1) && (b.waiting.Load() == 1 || b.done.Load() == 1) && cur == last {
			idle++
			if idle >= 10 {
				closeAll()
				return
			}
		} else {
			idle = 0
		}
		last = cur
	}
}

// ---------------------------------------------------------------------------
// stack abstraction for live connections

type liveConn interface {
	Handshake() error
	Read(b []byte) (int, error)
	Write(b []byte) (int, error)
	Close() error
	writeRecord(typ byte, data []byte) error
	lens() (hand, raw, pend, pendb int)
}

type tConn struct{ *tlcp.Conn }
type dConn struct{ *dtlcp.Conn }

func (c tConn) writeRecord(typ byte, data []byte) error {
	_, err := tlcp.VerifWriteRecord(c.Conn, typ, data)
	return err
}
func (c tConn) lens() (int, int, int, int) {
	h, r, _, _, _ := tlcp.VerifBufLens(c.Conn)
	return h, r, 0, 0
}
func (c dConn) writeRecord(typ byte, data []byte) error {
	_, err := dtlcp.VerifWriteRecord(c.Conn, typ, data)
	return err
}
func (c dConn) lens() (int, int, int, int) {
	h, r, _, _, n, b := dtlcp.VerifBufLens(c.Conn)
	return h, r, n, b
}

// sampler polls the buffer lengths of a connection while another goroutine is inside it
// (racy by construction: the numbers are lower bounds of the true maxima).
type sampler struct {
	mu   sync.Mutex
	o    *liveObs
	stop chan struct{}
	done chan struct{}
}

func startSampler(c liveConn, o *liveObs) *sampler {
	s := &sampler{o: o, stop: make(chan struct{}), done: make(chan struct{})}
	go func() {
		defer close(s.done)
		t := time.NewTicker(200 * time.Microsecond)
		defer t.Stop()
		for {
			s.sample(c)
			select {
			case <-s.stop:
				return
			case <-t.C:
			}
		}
	}()
	return s
}
func (s *sampler) sample(c liveConn) {
	defer func() { recover() }() // a torn read of a map under mutation: ignore the sample
	h, r, n, b := c.lens()
	s.mu.Lock()
	s.o.hand, s.o.raw, s.o.pend, s.o.pendb = max(s.o.hand, h), max(s.o.raw, r), max(s.o.pend, n), max(s.o.pendb, b)
	s.mu.Unlock()
}
func (s *sampler) finish(c liveConn) {
	close(s.stop)
	<-s.done
	s.sample(c)
}

func suiteIDs(name string) []uint16 {
	if name == "ecdhe" {
		return []uint16{tlcp.ECDHE_SM4_GCM_SM3}
	}
	if name == "ecdhecbc" {
		return []uint16{tlcp.ECDHE_SM4_CBC_SM3}
	}
	if name == "ecccbc" {
		return []uint16{tlcp.ECC_SM4_CBC_SM3}
	}
	return []uint16{tlcp.ECC_SM4_GCM_SM3}
}

// configs for a suite (ECDHE needs mutual authentication)
func tConfigs(suite string) (*tlcp.Config, *tlcp.Config) {
	s := pki.Std()
	cc, sc := pair.TClient(), pair.TServer()
	cc.CipherSuites, sc.CipherSuites = suiteIDs(suite), suiteIDs(suite)
	if strings.HasPrefix(suite, "ecdhe") {
		cc.Certificates = []tlcp.Certificate{pair.TCert(s.CliSig), pair.TCert(s.CliEnc)}
		sc.ClientAuth = tlcp.RequireAndVerifyClientCert
		sc.ClientCAs = s.Root.Pool
	}
	return cc, sc
}
func dConfigs(suite string) (*dtlcp.Config, *dtlcp.Config) {
	s := pki.Std()
	cc, sc := pair.DClient(), pair.DServer()
	cc.CipherSuites, sc.CipherSuites = suiteIDs(suite), suiteIDs(suite)
	if strings.HasPrefix(suite, "ecdhe") {
		cc.Certificates = []dtlcp.Certificate{pair.DCert(s.CliSig), pair.DCert(s.CliEnc)}
		sc.ClientAuth = dtlcp.RequireAndVerifyClientCert
		sc.ClientCAs = s.Root.Pool
	}
	return cc, sc
}

// ---------------------------------------------------------------------------
// floods after the handshake

func execFlood(desc string) string {
	stack, _ := hx.KV(desc, "stack")
	victim, _ := hx.KV(desc, "victim")
	kind, _ := hx.KV(desc, "kind")
	n := hx.KVInt(desc, "n")
	size := hx.KVInt(desc, "size")
	suite, ok := hx.KV(desc, "suite")
	if !ok {
		suite = "ecc"
	}
	var o liveObs
	var cl, sv liveConn
	var closeAll func()
	if stack == "dtlcp" {
		cc, sc := dConfigs(suite)
		c, s, ce, se, r := pair.DTLCP(cc, sc, nil)
		if !r.OK() {
			return "out=setup err=" + canonErr(r.String())
		}
		cl, sv = dConn{c}, dConn{s}
		closeAll = func() { ce.Close(); se.Close() }
	} else {
		cc, sc := tConfigs(suite)
		c, s, ce, se, r := pair.TLCP(cc, sc, nil)
		if !r.OK() {
			return "out=setup err=" + canonErr(r.String())
		}
		cl, sv = tConn{c}, tConn{s}
		closeAll = func() { ce.Close(); se.Close() }
	}
	defer closeAll()
	vic, att := sv, cl
	if victim == "client" {
		vic, att = cl, sv
	}
	r := hx.NewRand(uint64(n*131 + size))
	for i := 0; i < n; i++ {
		var err error
		switch kind {
		case "hs":
			err = att.writeRecord(22, r.Bytes(size))
		case "warn":
			err = att.writeRecord(21, []byte{1, 90})
		case "empty":
			err = att.writeRecord(23, nil)
		case "ccs":
			err = att.writeRecord(20, []byte{1})
		case "mix": // empty application data and warning alerts alternating
			if i%2 == 0 {
				err = att.writeRecord(23, nil)
			} else {
				err = att.writeRecord(21, []byte{1, 90})
			}
		}
		if err != nil {
			return "out=setup err=attacker_write:" + canonErr(err.Error())
		}
	}
	att.writeRecord(23, []byte("x"))
	sm := startSampler(vic, &o)
	// goroutine stack in use, sampled while the victim is inside Read (a recursion per ignored
	// record shows as growth proportional to the flood)
	var ms runtime.MemStats
	runtime.GC()
	runtime.ReadMemStats(&ms)
	stack0 := ms.StackInuse
	stackMax := stack0
	stopStack := make(chan struct{})
	stackDone := make(chan struct{})
	go func() {
		defer close(stackDone)
		var m runtime.MemStats
		for {
			runtime.ReadMemStats(&m)
			if m.StackInuse > stackMax {
				stackMax = m.StackInuse
			}
			select {
			case <-stopStack:
				return
			case <-time.After(time.Millisecond):
			}
		}
	}()
	buf := make([]byte, 16)
	got := 0
	err, p, stalled := guarded(func() error {
		m, e := vic.Read(buf)
		got = m
		return e
	}, closeAll, watchdog)
	close(stopStack)
	<-stackDone
	o.stackd = int(stackMax - stack0)
	if o.stackd < 1<<20 { // below one megabyte: noise of the runtime, not reported
		o.stackd = 0
	}
	sm.finish(vic)
	o.stalled, o.panicv = stalled, p
	o.hs = 1
	switch {
	case p != "":
		o.out = "panic"
	case err != nil:
		o.out, o.err = "err", err.Error()
	default:
		o.out = "ok"
	}
	_ = got
	return o.String()
}

// ---------------------------------------------------------------------------
// mutated handshakes

func mutate(r *hx.Rand, kind string, b []byte, hdr int) [][]byte {
	c := append([]byte(nil), b...)
	switch kind {
	case "trunc":
		if len(c) > 0 {
			c = c[:r.Intn(len(c))]
		}
	case "flip":
		if len(c) > 0 {
			c[r.Intn(len(c))] ^= 1 << uint(r.Intn(8))
		}
	case "flipbody": // past the record and handshake headers: inner length fields and bodies
		if len(c) > hdr+4 {
			c[hdr+4+r.Intn(min(len(c)-hdr-4, 12))] ^= byte(1 + r.Intn(255))
		}
	case "lenp", "lenm": // +-1 on one of the first bytes after the record header (handshake length / inner lengths)
		if len(c) > hdr+1 {
			j := hdr + 1 + r.Intn(min(len(c)-hdr-1, 16))
			if kind == "lenp" {
				c[j]++
			} else {
				c[j]--
			}
		}
	case "reclen": // the record length field itself
		if len(c) >= hdr {
			c[hdr-1] += byte(1 + r.Intn(3))
		}
	case "junk":
		return [][]byte{r.Bytes(1 + r.Intn(64)), c}
	case "dup":
		return [][]byte{c, c}
	case "rand":
		c = r.Bytes(r.Intn(200))
	case "cut": // keep the record header, truncate the body and fix the record length: a well-framed short message
		if len(c) > hdr+4 {
			keep := hdr + r.Intn(len(c)-hdr)
			c = c[:keep]
			c[hdr-2], c[hdr-1] = byte((keep-hdr)>>8), byte(keep-hdr)
		}
	case "cuths": // truncate the handshake body and fix BOTH the record and the handshake length
		hh := 4
		if hdr == 13 {
			hh = 12
		}
		if len(c) > hdr+hh && c[0] == 22 {
			keep := hdr + hh + r.Intn(len(c)-hdr-hh)
			c = c[:keep]
			c[hdr-2], c[hdr-1] = byte((keep-hdr)>>8), byte(keep-hdr)
			bl := keep - hdr - hh
			c[hdr+1], c[hdr+2], c[hdr+3] = byte(bl>>16), byte(bl>>8), byte(bl)
			if hdr == 13 {
				c[hdr+9], c[hdr+10], c[hdr+11] = byte(bl>>16), byte(bl>>8), byte(bl)
			}
		}
	}
	return [][]byte{c}
}

// splitRecords cuts a write / datagram into records (hdr = record header length); a tail that
// is not a whole record is returned as the last element.
func splitRecords(b []byte, hdr int) [][]byte {
	var out [][]byte
	for len(b) >= hdr {
		n := hdr + (int(b[hdr-2])<<8 | int(b[hdr-1]))
		if n > len(b) {
			break
		}
		out = append(out, b[:n])
		b = b[n:]
	}
	if len(b) > 0 {
		out = append(out, b)
	}
	return out
}

// recordMutator mutates the at-th RECORD (counted over everything the peer sends) and leaves
// the rest of the flight as it is.
func recordMutator(r *hx.Rand, mut string, at, hdr int) func([]byte) []byte {
	idx := 0
	return func(d []byte) []byte {
		var out []byte
		for _, rec := range splitRecords(d, hdr) {
			if idx == at {
				for _, piece := range mutate(r, mut, rec, hdr) {
					out = append(out, piece...)
				}
			} else {
				out = append(out, rec...)
			}
			idx++
		}
		return out
	}
}

func execState(desc string) string {
	stack, _ := hx.KV(desc, "stack")
	victim, _ := hx.KV(desc, "victim")
	suite, _ := hx.KV(desc, "suite")
	at := hx.KVInt(desc, "at")
	mut, _ := hx.KV(desc, "mut")
	r := hx.NewRand(uint64(hx.KVInt(desc, "seed")))
	var o liveObs
	o.hs = 12
	if stack == "dtlcp" {
		cc, sc := dConfigs(suite)
		ce, se := pair.PacketPipe()
		peerEnd := ce // the end whose datagrams are mutated = the victim's peer
		if victim == "client" {
			peerEnd = se
		}
		mf := recordMutator(r, mut, at, 13)
		peerEnd.OnSend = func(i int, d []byte) [][]byte {
			if m := mf(d); len(m) > 0 {
				return [][]byte{m}
			}
			return nil
		}
		c := dtlcp.Client(ce, se.LocalAddr(), cc)
		s := dtlcp.Server(se, ce.LocalAddr(), sc)
		return runBoth(dConn{c}, dConn{s}, victim, func() { ce.Close(); se.Close() }, &o, nil, nil)
	}
	cc, sc := tConfigs(suite)
	ce, se := pair.StreamPipe()
	peerEnd := ce
	if victim == "client" {
		peerEnd = se
	}
	mf := recordMutator(r, mut, at, 5)
	peerEnd.OnWrite = func(d []byte) [][]byte { return [][]byte{mf(d)} }
	ic, is := &idleConn{Conn: ce}, &idleConn{Conn: se}
	c := tlcp.Client(ic, cc)
	s := tlcp.Server(is, sc)
	stop := make(chan struct{})
	closeAll := func() { ce.Close(); se.Close() }
	go quiesce(ic, is, closeAll, stop)
	defer close(stop)
	vi := is
	if victim == "client" {
		vi = ic
	}
	pi := ic
	if victim == "client" {
		pi = is
	}
	return runBoth(tConn{c}, tConn{s}, victim, closeAll, &o, vi, pi)
}

// runBoth runs both handshakes; the observation is about the victim.
func runBoth(cl, sv liveConn, victim string, closeAll func(), o *liveObs, vicIdle, peerIdle *idleConn) string {
	vic, peer := sv, cl
	if victim == "client" {
		vic, peer = cl, sv
	}
	sm := startSampler(vic, o)
	var wg sync.WaitGroup
	wg.Add(1)
	var peerPanic string
	go func() {
		defer wg.Done()
		defer func() {
			if p := recover(); p != nil {
				peerPanic = fmt.Sprint(p)
			}
		}()
		peer.Handshake()
		if peerIdle != nil {
			peerIdle.done.Store(1)
		}
	}()
	parked := false
	err, p, stalled := guarded(func() error {
		e := vic.Handshake()
		if vicIdle != nil {
			vicIdle.done.Store(1)
		}
		return e
	}, func() {
		// parked inside the transport's Read when the watchdog fires: waiting for a silent peer
		parked = vicIdle != nil && vicIdle.waiting.Load() == 1
		closeAll()
	}, watchdog)
	if parked {
		stalled = false
	}
	closeAll()
	wg.Wait()
	sm.finish(vic)
	o.stalled, o.panicv = stalled, p
	if p == "" && peerPanic != "" { // a crash of the honest peer on the victim's answer is a finding too
		o.panicv = "peer:" + peerPanic
		p = o.panicv
	}
	switch {
	case p != "":
		o.out = "panic"
	case err != nil:
		o.out, o.err = "err", err.Error()
		if stalled { // the watchdog had to close the transport: the error is ours
			o.err = ""
		}
	default:
		o.out = "ok"
	}
	// a handshake that waits for a peer that went silent is not a spin: the stream pipe reports
	// EOF when the mutated side is closed; for datagrams silence ends with the library's own
	// retransmission timeout, which may exceed the watchdog. `stalled` is therefore only
	// reported for the stream stack.
	if _, isD := vic.(dConn); isD {
		o.stalled = false
	}
	return o.String()
}

// ---------------------------------------------------------------------------
// arbitrary first bytes

func rawShape(r *hx.Rand, shape string, n int, hdr int) []byte {
	switch shape {
	case "rand":
		return r.Bytes(n)
	case "hsrec": // a plausible handshake record header over random content
		b := r.Bytes(n)
		if len(b) >= hdr {
			b[0], b[1], b[2] = 22, 1, 1
			if hdr == 13 {
				for i := 3; i < 11; i++ {
					b[i] = 0
				}
			}
			l := len(b) - hdr
			if r.Chance(30) {
				l = r.Intn(70000)
			}
			b[hdr-2], b[hdr-1] = byte(l>>8), byte(l)
		}
		return b
	case "hsmsg": // record header + handshake header with consistent lengths over random content
		hh := 4
		if hdr == 13 {
			hh = 12
		}
		if n < hdr+hh {
			n = hdr + hh
		}
		b := r.Bytes(n)
		b[0], b[1], b[2] = 22, 1, 1
		if hdr == 13 {
			for i := 3; i < 11; i++ {
				b[i] = 0
			}
		}
		l := n - hdr
		b[hdr-2], b[hdr-1] = byte(l>>8), byte(l)
		b[hdr] = hx.Pick(r, []byte{1, 2, 3, 11, 12, 13, 14, 15, 16, 20, 0, 99})
		bl := n - hdr - hh
		if r.Chance(25) {
			bl = r.Intn(1 << 17)
		}
		b[hdr+1], b[hdr+2], b[hdr+3] = byte(bl>>16), byte(bl>>8), byte(bl)
		if hdr == 13 {
			b[hdr+4], b[hdr+5] = 0, byte(r.Intn(3))
			fo, fl := 0, bl
			if r.Chance(50) {
				fo, fl = r.Intn(bl+1), r.Intn(bl+2)
			}
			b[hdr+6], b[hdr+7], b[hdr+8] = byte(fo>>16), byte(fo>>8), byte(fo)
			b[hdr+9], b[hdr+10], b[hdr+11] = byte(fl>>16), byte(fl>>8), byte(fl)
		}
		return b
	}
	return nil
}

func execRaw(desc string) string {
	stack, _ := hx.KV(desc, "stack")
	victim, _ := hx.KV(desc, "victim")
	shape, _ := hx.KV(desc, "shape")
	n := hx.KVInt(desc, "len")
	r := hx.NewRand(uint64(hx.KVInt(desc, "seed")))
	var o liveObs
	o.hs = 2
	if stack == "dtlcp" {
		ce, se := pair.PacketPipe()
		cc, sc := dConfigs("ecc")
		var vic liveConn
		var vend *pair.PacketEnd
		var from net.Addr
		if victim == "client" {
			vic, vend, from = dConn{dtlcp.Client(ce, se.LocalAddr(), cc)}, ce, se.LocalAddr()
		} else {
			vic, vend, from = dConn{dtlcp.Server(se, ce.LocalAddr(), sc)}, se, ce.LocalAddr()
		}
		k := 1 + r.Intn(4)
		for i := 0; i < k; i++ {
			vend.Deliver(rawShape(r, shape, n, 13), from)
		}
		closeAll := func() { ce.Close(); se.Close() }
		sm := startSampler(vic, &o)
		time.AfterFunc(300*time.Millisecond, closeAll) // nothing more will come
		err, p, _ := guarded(vic.Handshake, closeAll, watchdog)
		sm.finish(vic)
		return finishObs(&o, err, p, false)
	}
	ce, se := pair.StreamPipe()
	cc, sc := tConfigs("ecc")
	var vic liveConn
	var att *pair.StreamEnd
	if victim == "client" {
		vic, att = tConn{tlcp.Client(ce, cc)}, se
	} else {
		vic, att = tConn{tlcp.Server(se, sc)}, ce
	}
	att.Inject(rawShape(r, shape, n, 5))
	att.CloseWriteRaw()
	closeAll := func() { ce.Close(); se.Close() }
	sm := startSampler(vic, &o)
	err, p, stalled := guarded(vic.Handshake, closeAll, watchdog)
	sm.finish(vic)
	closeAll()
	return finishObs(&o, err, p, stalled)
}

func finishObs(o *liveObs, err error, p string, stalled bool) string {
	o.stalled, o.panicv = stalled, p
	switch {
	case p != "":
		o.out = "panic"
	case err != nil:
		o.out = "err"
		if !stalled {
			o.err = err.Error()
		}
	default:
		o.out = "ok"
	}
	return o.String()
}

// ---------------------------------------------------------------------------
// certificates of foreign key types in every position, and servers that skip CertificateRequest

func execCert(desc string) string {
	stack, _ := hx.KV(desc, "stack")
	victim, _ := hx.KV(desc, "victim")
	suite, _ := hx.KV(desc, "suite")
	kv := func(k string) string { v, _ := hx.KV(desc, k); return v }
	ssig, senc := leafOf(kv("ssig"), 0, false), leafOf(kv("senc"), 1, false)
	csig, cenc := leafOf(kv("csig"), 0, true), leafOf(kv("cenc"), 1, true)
	auth := hx.KVInt(desc, "auth")
	var o liveObs
	o.hs = 12
	s := pki.Std()
	if stack == "dtlcp" {
		cc, sc := dConfigs(suite)
		cc.InsecureSkipVerify = true
		sc.Certificates = []dtlcp.Certificate{pair.DCert(ssig), pair.DCert(senc)}
		cc.Certificates = nil
		if csig != nil {
			cc.Certificates = append(cc.Certificates, pair.DCert(csig))
			if cenc != nil {
				cc.Certificates = append(cc.Certificates, pair.DCert(cenc))
			}
		}
		sc.ClientAuth = dtlcp.ClientAuthType(auth)
		sc.ClientCAs = s.Root.Pool
		ce, se := pair.PacketPipe()
		c := dtlcp.Client(ce, se.LocalAddr(), cc)
		sv := dtlcp.Server(se, ce.LocalAddr(), sc)
		return runBoth(dConn{c}, dConn{sv}, victim, func() { ce.Close(); se.Close() }, &o, nil, nil)
	}
	cc, sc := tConfigs(suite)
	cc.InsecureSkipVerify = true
	sc.Certificates = []tlcp.Certificate{pair.TCert(ssig), pair.TCert(senc)}
	cc.Certificates = nil
	if csig != nil {
		cc.Certificates = append(cc.Certificates, pair.TCert(csig))
		if cenc != nil {
			cc.Certificates = append(cc.Certificates, pair.TCert(cenc))
		}
	}
	sc.ClientAuth = tlcp.ClientAuthType(auth)
	sc.ClientCAs = s.Root.Pool
	ce, se := pair.StreamPipe()
	ic, is := &idleConn{Conn: ce}, &idleConn{Conn: se}
	c := tlcp.Client(ic, cc)
	sv := tlcp.Server(is, sc)
	stop := make(chan struct{})
	closeAll := func() { ce.Close(); se.Close() }
	go quiesce(ic, is, closeAll, stop)
	defer close(stop)
	vi, pi := is, ic
	if victim == "client" {
		vi, pi = ic, is
	}
	return runBoth(tConn{c}, tConn{sv}, victim, closeAll, &o, vi, pi)
}

func execLive(desc string) string {
	fn, _ := hx.KV(desc, "fn")
	switch fn {
	case "live_cert":
		return execCert(desc)
	case "live_flood":
		return execFlood(desc)
	case "live_state":
		return execState(desc)
	case "live_raw":
		return execRaw(desc)
	case "live_script":
		return execScript(desc)
	}
	return "out=badcase"
}

var _ = io.EOF

func genLive(o hx.Opts, emit func(string)) {
	r := hx.NewRand(o.Seed + 77)
	// 1. the documented witness first (F8): 50 post-handshake handshake records of 16000 bytes
	emit("fn=live_flood stack=tlcp victim=server kind=hs n=50 size=16000")
	emit("fn=live_flood stack=tlcp victim=client kind=hs n=50 size=16000")
	emit("fn=live_flood stack=dtlcp victim=server kind=hs n=120 size=1000")
	emit("fn=live_flood stack=dtlcp victim=client kind=hs n=120 size=1000")
	// F43: a client whose own signing certificate has an RSA / Ed25519 key, asked for a certificate
	emit("fn=live_cert stack=tlcp victim=client suite=ecc ssig=sm2 senc=sm2 csig=rsa cenc=sm2 auth=1")
	emit("fn=live_cert stack=dtlcp victim=client suite=ecc ssig=sm2 senc=sm2 csig=ed cenc=sm2 auth=1")
	// non-advancing records after the handshake: 16 in a row are tolerated, the 17th must end the
	// connection ("too many ignored records"), a long flood must neither deliver what follows it
	// nor make the stack grow
	for _, v := range []string{"server", "client"} {
		for _, k := range []string{"empty", "warn", "mix"} {
			for _, n := range []int{16, 17, 1000} {
				emit(fmt.Sprintf("fn=live_flood stack=tlcp victim=%s kind=%s n=%d size=0", v, k, n))
			}
		}
		emit("fn=live_flood stack=tlcp victim=" + v + " kind=empty n=20000 size=0")
		emit("fn=live_flood stack=tlcp victim=" + v + " kind=empty n=1000 size=0 suite=ecccbc")
		for _, n := range []int{16, 17, 1000} {
			emit(fmt.Sprintf("fn=live_flood stack=dtlcp victim=%s kind=warn n=%d size=0", v, n))
		}
		emit("fn=live_flood stack=dtlcp victim=" + v + " kind=empty n=5000 size=0")
	}
	// floods of PROTECTED handshake records after the handshake (there is no renegotiation, nothing
	// will ever consume them): one more than the documented number of ignored records, forty
	// times that number, and a flood long enough for one stack frame per record to show; small
	// and maximum-size records. Read must end with an error (stream stack) / must not hold what
	// it drops (datagram stack: retransmissions of the last flight are dropped by the loop).
	for _, v := range []string{"server", "client"} {
		for _, n := range []int{17, 640, 20000} {
			emit(fmt.Sprintf("fn=live_flood stack=tlcp victim=%s kind=hs n=%d size=4", v, n))
		}
		emit("fn=live_flood stack=tlcp victim=" + v + " kind=hs n=17 size=16384")
		emit("fn=live_flood stack=tlcp victim=" + v + " kind=hs n=640 size=4 suite=ecccbc")
		emit("fn=live_flood stack=tlcp victim=" + v + " kind=hs n=640 size=12 suite=ecdhe")
		emit("fn=live_flood stack=dtlcp victim=" + v + " kind=hs n=640 size=12")
		emit("fn=live_flood stack=dtlcp victim=" + v + " kind=hs n=5000 size=25")
	}
	for _, st := range []string{"tlcp", "dtlcp"} {
		for _, v := range []string{"server", "client"} {
			for _, k := range []string{"warn", "empty", "ccs"} {
				emit("fn=live_flood stack=" + st + " victim=" + v + " kind=" + k + " n=40 size=0")
			}
			emit("fn=live_flood stack=" + st + " victim=" + v + " kind=hs n=1 size=1")
			emit("fn=live_flood stack=" + st + " victim=" + v + " kind=hs n=3 size=700 suite=ecccbc")
		}
	}
	// 1b. certificates of foreign key types in both positions on both sides, every client-auth
	// policy (0 = the server sends no CertificateRequest: the F4 situation for ECDHE)
	for _, st := range []string{"tlcp", "dtlcp"} {
		for _, su := range []string{"ecc", "ecdhe"} {
			for _, v := range []string{"client", "server"} {
				emit(fmt.Sprintf("fn=live_cert stack=%s victim=%s suite=%s ssig=sm2 senc=sm2 csig=sm2 cenc=sm2 auth=0", st, v, su))
				emit(fmt.Sprintf("fn=live_cert stack=%s victim=%s suite=%s ssig=sm2 senc=sm2 csig=- cenc=- auth=0", st, v, su))
				for _, k := range []string{"rsa", "p256", "ed"} {
					if st == "dtlcp" && o.Tier != "thorough" && k != "rsa" {
						continue
					}
					emit(fmt.Sprintf("fn=live_cert stack=%s victim=%s suite=%s ssig=sm2 senc=%s csig=sm2 cenc=sm2 auth=%d", st, v, su, k, hx.Pick(r, []int{0, 4})))
					emit(fmt.Sprintf("fn=live_cert stack=%s victim=%s suite=%s ssig=%s senc=sm2 csig=sm2 cenc=sm2 auth=%d", st, v, su, k, hx.Pick(r, []int{0, 4})))
					emit(fmt.Sprintf("fn=live_cert stack=%s victim=%s suite=%s ssig=sm2 senc=sm2 csig=%s cenc=sm2 auth=%d", st, v, su, k, hx.Pick(r, []int{1, 2, 4})))
					emit(fmt.Sprintf("fn=live_cert stack=%s victim=%s suite=%s ssig=sm2 senc=sm2 csig=sm2 cenc=%s auth=%d", st, v, su, k, hx.Pick(r, []int{1, 2, 4})))
				}
			}
		}
	}
	// 1c. scripted peers: Certificate messages with 0..4 entries (valid, foreign, junk) under every
	// suite and client-auth policy, both roles
	genScript(o, emit)
	// 2. every handshake state x mutation kind
	muts := []string{"trunc", "flip", "flipbody", "lenp", "lenm", "reclen", "junk", "dup", "rand", "cut", "cuths"}
	reps := 1 * o.Scale
	if o.Tier == "thorough" {
		reps = 25 * o.Scale
	}
	var batch []string
	for rep := 0; rep < reps; rep++ {
		for _, st := range []string{"tlcp", "dtlcp"} {
			for _, su := range []string{"ecc", "ecdhe"} {
				for _, v := range []string{"server", "client"} {
					nRecs := 4 // records a client sends: ClientHello, ClientKeyExchange, ChangeCipherSpec, Finished
					if v == "client" {
						nRecs = 6 // ServerHello, Certificate, ServerKeyExchange, ServerHelloDone, ChangeCipherSpec, Finished
					}
					if su == "ecdhe" {
						nRecs += 2 // CertificateRequest / Certificate, CertificateVerify
						if v == "client" {
							nRecs--
						}
					}
					for at := 0; at < nRecs; at++ {
						for _, m := range muts {
							if o.Tier != "thorough" && st == "dtlcp" && r.Chance(60) {
								continue // datagram cases end by timeout: keep the quick tier short
							}
							batch = append(batch, fmt.Sprintf("fn=live_state stack=%s victim=%s suite=%s at=%d mut=%s seed=%d", st, v, su, at, m, r.Intn(1<<30)))
						}
					}
				}
			}
		}
	}
	emitBatch(batch)
	// 3. arbitrary first bytes
	nRaw := 150 * o.Scale
	if o.Tier == "thorough" {
		nRaw = 6000 * o.Scale
	}
	for i := 0; i < nRaw; i++ {
		st := hx.Pick(r, []string{"tlcp", "tlcp", "tlcp", "dtlcp"})
		if o.Tier == "thorough" {
			st = hx.Pick(r, []string{"tlcp", "dtlcp"})
		}
		emit("fn=live_raw stack=" + st + " victim=" + hx.Pick(r, []string{"server", "client"}) + " seed=" + strconv.Itoa(r.Intn(1<<30)) +
			" len=" + strconv.Itoa(hx.Pick(r, []int{0, 1, 4, 5, 6, 12, 13, 14, 25, 26, 60, 300, 2000, 20000})) + " shape=" + hx.Pick(r, []string{"rand", "hsrec", "hsmsg", "hsmsg"}))
	}
}

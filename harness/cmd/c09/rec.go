package main

// Phase "rec": halfConn.decrypt and extractPadding of both stacks on raw records.
//
//	fn=rec_pad stack=S payload=<hex>
//	    => out=ok|panic rem=<toRemove> good=0|1
//	fn=rec_dec stack=S suite=none|gcm|cbc seq=<16 hex digits> rec=<hex, at least a record header>
//	    => out=ok|err|panic plen=<plaintext length|-> after=<the record as decrypt left it>
//
// Keys are fixed constants, so a replayed case reproduces exactly. `after` carries the result
// of the in-place CBC decryption, which the model takes as the answer of the cipher.

import (
	"crypto/rand"
	"strconv"
	"strings"

	"gitee.com/Trisia/gotlcp/dtlcp"
	"gitee.com/Trisia/gotlcp/tlcp"
	"verifharness/internal/hx"
)

var (
	recKey = bytesOf(0x11, 16)
	recMac = bytesOf(0x33, 32)
)

func suiteOf(name string) (id uint16, iv []byte) {
	switch name {
	case "gcm":
		return tlcp.ECC_SM4_GCM_SM3, bytesOf(0x22, 4)
	case "cbc":
		return tlcp.ECC_SM4_CBC_SM3, bytesOf(0x22, 16)
	}
	return 0, nil
}

func hdrLen(stack string) int {
	if stack == "dtlcp" {
		return 13
	}
	return 5
}

func execRec(desc string) string {
	fn, _ := hx.KV(desc, "fn")
	stack, _ := hx.KV(desc, "stack")
	switch fn {
	case "rec_pad":
		p, _ := hx.KV(desc, "payload")
		payload := hx.UnHex(p)
		var rem int
		var good byte
		var pan string
		if stack == "dtlcp" {
			rem, good, pan = dtlcp.VerifExtractPadding(payload)
		} else {
			rem, good, pan = tlcp.VerifExtractPadding(payload)
		}
		if pan != "" {
			return "out=panic rem=- good=- panic=" + strings.ReplaceAll(pan, " ", "_")
		}
		return "out=ok rem=" + strconv.Itoa(rem) + " good=" + b01(good == 255)
	case "rec_dec":
		su, _ := hx.KV(desc, "suite")
		sq, _ := hx.KV(desc, "seq")
		rc, _ := hx.KV(desc, "rec")
		rec := hx.UnHex(rc)
		if len(rec) < hdrLen(stack) {
			return "out=badcase" // decrypt is only ever given rawInput.Next(recordHeaderLen+n)
		}
		var seq [8]byte
		copy(seq[:], hx.UnHex(sq))
		id, iv := suiteOf(su)
		var plain, after []byte
		var err error
		var pan string
		if stack == "dtlcp" {
			h := dtlcp.VerifNewHalfConn(id, recKey, iv, recMac, true)
			h.SetSeq(seq)
			plain, _, err, pan, after = h.Decrypt(rec)
		} else {
			h := tlcp.VerifNewHalfConn(id, recKey, iv, recMac, true)
			h.SetSeq(seq)
			plain, _, err, pan, after = h.Decrypt(rec)
		}
		switch {
		case pan != "":
			return "out=panic plen=- after=" + hx.Hex(after) + " panic=" + strings.ReplaceAll(pan, " ", "_")
		case err != nil:
			return "out=err plen=- after=" + hx.Hex(after)
		}
		return "out=ok plen=" + strconv.Itoa(len(plain)) + " after=" + hx.Hex(after)
	}
	return "out=badcase"
}

// seal produces a well-formed protected record with the fixed keys.
func seal(stack, suite string, seq [8]byte, typ byte, payload []byte) []byte {
	id, iv := suiteOf(suite)
	if stack == "dtlcp" {
		h := dtlcp.VerifNewHalfConn(id, recKey, iv, recMac, false)
		h.SetSeq(seq)
		out, _ := h.Encrypt(typ, payload, rand.Reader)
		// dtlcp fixes the length field after sealing
		n := len(out) - 13
		out[11], out[12] = byte(n>>8), byte(n)
		return out
	}
	h := tlcp.VerifNewHalfConn(id, recKey, iv, recMac, false)
	h.SetSeq(seq)
	out, _ := h.Encrypt(typ, payload, rand.Reader)
	n := len(out) - 5
	out[3], out[4] = byte(n>>8), byte(n)
	return out
}

func genRec(o hx.Opts, emit func(string)) {
	r := hx.NewRand(o.Seed + 5)
	seq := [8]byte{0, 0, 0, 0, 0, 0, 0, 7}
	seqHex := "0000000000000007"
	for _, st := range []string{"tlcp", "dtlcp"} {
		h := hdrLen(st)
		// extractPadding: every length up to 40, every last byte class; long payloads
		for n := 0; n <= 40; n++ {
			for _, last := range []int{0, 1, n - 1, n, n + 1, 255} {
				if last < 0 {
					continue
				}
				p := bytesOf(byte(last), n)
				emit("fn=rec_pad stack=" + st + " payload=" + hx.Hex(p))
				if n > 2 {
					q := append([]byte(nil), p...)
					q[r.Intn(n-1)] ^= 0x40
					emit("fn=rec_pad stack=" + st + " payload=" + hx.Hex(q))
				}
			}
		}
		for _, n := range []int{255, 256, 257, 300, 600} {
			for _, last := range []int{0, 254, 255} {
				emit("fn=rec_pad stack=" + st + " payload=" + hx.Hex(bytesOf(byte(last), n)))
			}
			emit("fn=rec_pad stack=" + st + " payload=" + hx.Hex(r.Bytes(n)))
		}
		nr := 300 * o.Scale
		if o.Tier == "thorough" {
			nr = 30000 * o.Scale
		}
		for i := 0; i < nr; i++ {
			emit("fn=rec_pad stack=" + st + " payload=" + hx.Hex(r.Bytes(r.Intn(70))))
		}
		for _, su := range []string{"none", "gcm", "cbc"} {
			emitRec := func(rec []byte) {
				if len(rec) >= h {
					emit("fn=rec_dec stack=" + st + " suite=" + su + " seq=" + seqHex + " rec=" + hx.Hex(rec))
				}
			}
			// every payload length around the guards, random content
			for n := 0; n <= 100; n++ {
				rec := append(append([]byte{byte(20 + r.Intn(5)), 1, 1}, make([]byte, h-3)...), r.Bytes(n)...)
				rec[h-2], rec[h-1] = byte(n>>8), byte(n)
				emitRec(rec)
			}
			// well-formed records and their mutations
			for _, pl := range []int{0, 1, 15, 16, 17, 47, 100} {
				good := seal(st, su, seq, 23, r.Bytes(pl))
				emitRec(good)
				for cut := h; cut < len(good); cut++ {
					emitRec(good[:cut])
				}
				nm := 10 * o.Scale
				if o.Tier == "thorough" {
					nm = 400 * o.Scale
				}
				for i := 0; i < nm; i++ {
					c := append([]byte(nil), good...)
					switch r.Intn(3) {
					case 0:
						c[r.Intn(len(c))] ^= 1 << uint(r.Intn(8))
					case 1:
						c = append(c, r.Bytes(1+r.Intn(33))...)
					case 2:
						if len(c) > h {
							c[h+r.Intn(len(c)-h)] = byte(r.U64())
						}
					}
					emitRec(c)
				}
			}
		}
	}
}

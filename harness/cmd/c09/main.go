// Driver for C09 (no peer input makes an endpoint panic, spin, or buffer without bound):
// runs the REAL code of both stacks on generated inputs and writes `case => observed`
// lines for the Lean oracle (model prediction + spec verdict).
//
// Phases (selected with -phase, all when empty):
//
//	kx      key-agreement functions on raw bodies (kx.go)
//	rec     halfConn.decrypt / extractPadding on raw records (rec.go)
//	frames  readHandshake / readRecordOrCCS stepped on raw connections fed with arbitrary bytes,
//	        buffer lengths after each step (frames.go)
//	live    live endpoints in every handshake state and after the handshake: arbitrary
//	        records, floods, a watchdog per case (live.go); scripted peers that send arbitrary
//	        certificate lists (script.go)
package main

import (
	"os"
	"strings"
	"sync"

	"verifharness/internal/hx"
)

// execute dispatches one case description on its `fn=` token.
func execute(desc string) string {
	fn, _ := hx.KV(desc, "fn")
	var out string
	p := hx.Guard(func() {
		switch {
		case strings.HasPrefix(fn, "ecc_") || strings.HasPrefix(fn, "dhe_"):
			out = execKX(desc)
		case strings.HasPrefix(fn, "rec_"):
			out = execRec(desc)
		case strings.HasPrefix(fn, "frames"):
			out = execFrames(desc)
		case strings.HasPrefix(fn, "live_"):
			out = execLive(desc)
		default:
			out = "out=badcase"
		}
	})
	if p != "" { // a panic that escaped the hook wrappers: still an observation
		return "out=panic why=- panic=" + p
	}
	return out
}

// emitBatch executes independent cases concurrently and writes them in the given order.
var emitBatch func(descs []string)

func main() {
	o := hx.ParseOpts()
	tr := hx.NewTrace(o.Out)
	defer tr.Close()
	emit := func(desc string) { tr.Line(desc, execute(desc)) }
	// cases that mostly WAIT (a datagram endpoint whose peer went silent ends by its own timers)
	// are executed several at a time; the trace keeps the order of the generator
	emitBatch = func(descs []string) {
		res := make([]string, len(descs))
		sem := make(chan struct{}, 12)
		var wg sync.WaitGroup
		for i := range descs {
			wg.Add(1)
			sem <- struct{}{}
			go func(i int) {
				defer wg.Done()
				defer func() { <-sem }()
				res[i] = execute(descs[i])
			}(i)
		}
		wg.Wait()
		for i := range descs {
			tr.Line(descs[i], res[i])
		}
	}

	if o.Replay != "" {
		if os.Getenv("C09_PAR") != "" { // development: replay a long file twelve cases at a time
			emitBatch(hx.ReplayCases(o.Replay))
			return
		}
		for _, c := range hx.ReplayCases(o.Replay) {
			emit(c)
		}
		return
	}
	want := func(p string) bool { return o.Phase == "" || o.Phase == p }
	if want("kx") {
		genKX(o, emit)
	}
	if want("rec") {
		genRec(o, emit)
	}
	if want("frames") {
		genFrames(o, emit)
	}
	if want("live") {
		genLive(o, emit)
	}
}

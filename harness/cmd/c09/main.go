// Driver for C09 (no peer input makes an endpoint panic, spin, or buffer without bound):
// runs the REAL code of both stacks on generated inputs and writes `case => observed`
// lines for the Lean oracle (model prediction + spec verdict).
//
// Phases (selected with -phase, all when empty):
//
//	kx      key-agreement functions on raw bodies (kx.go)
//	rec     halfConn.decrypt / extractPadding on raw records (rec.go)
//	frames  readHandshake / readRecordOrCCS stepped on raw connections fed with arbitrary bytes,
//	        buffer lengths after each step (frames.go)
//	live    live endpoints in every handshake state and after the handshake: arbitrary
//	        records, floods, a watchdog per case (live.go)
package main

import (
	"strings"

	"verifharness/internal/hx"
)

// execute dispatches one case description on its `fn=` token.
func execute(desc string) string {
	fn, _ := hx.KV(desc, "fn")
	var out string
	p := hx.Guard(func() {
		switch {
		case strings.HasPrefix(fn, "ecc_") || strings.HasPrefix(fn, "dhe_"):
			out = execKX(desc)
		case strings.HasPrefix(fn, "rec_"):
			out = execRec(desc)
		case strings.HasPrefix(fn, "frames"):
			out = execFrames(desc)
		case strings.HasPrefix(fn, "live_"):
			out = execLive(desc)
		default:
			out = "out=badcase"
		}
	})
	if p != "" { // a panic that escaped the hook wrappers: still an observation
		return "out=panic why=- panic=" + p
	}
	return out
}

func main() {
	o := hx.ParseOpts()
	tr := hx.NewTrace(o.Out)
	defer tr.Close()
	emit := func(desc string) { tr.Line(desc, execute(desc)) }

	if o.Replay != "" {
		for _, c := range hx.ReplayCases(o.Replay) {
			emit(c)
		}
		return
	}
	want := func(p string) bool { return o.Phase == "" || o.Phase == p }
	if want("kx") {
		genKX(o, emit)
	}
	if want("rec") {
		genRec(o, emit)
	}
	if want("frames") {
		genFrames(o, emit)
	}
	if want("live") {
		genLive(o, emit)
	}
}

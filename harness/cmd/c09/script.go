package main

// Phase "live", family live_script: a SCRIPTED peer (tlcp.VerifScript / dtlcp.VerifScript, the
// package's own message codecs and cryptography, driven one message at a time) plays a
// handshake against a REAL endpoint and puts an arbitrary certificate list into its
// Certificate message — something the library's own client / server never sends.
//
//	fn=live_script stack=S victim=server|client suite=ecc|ecccbc|ecdhe|ecdhecbc auth=<n> certs=<spec> [skip=1]
//	    victim=server: real server with ClientAuth = auth (0..4), ClientCAs = the trusted root;
//	        the scripted client sends ClientHello (again with the cookie after a
//	        HelloVerifyRequest), reads the server's flight, then Certificate(<spec>),
//	        ClientKeyExchange, CertificateVerify (when the first certificate is its own signing
//	        certificate), ChangeCipherSpec, Finished.
//	    victim=client: real client (with a certificate pair when auth > 0; skip=1 =
//	        InsecureSkipVerify); the scripted server sends ServerHello, Certificate(<spec>),
//	        ServerKeyExchange, CertificateRequest (auth > 0), ServerHelloDone, then
//	        ChangeCipherSpec, Finished.
//	    <spec>: `none` = no Certificate message at all, `-` = an empty list, otherwise the
//	        entries of the list separated by `.`:
//	        s / e  the script's own signing / encryption certificate      r  the trusted root
//	        o      a signing certificate under an untrusted root          x  RSA   p  P-256   d  Ed25519 key
//	        j      20 bytes that are not DER                              z  an empty entry
//	        t      the first half of a valid certificate
//	    The script stops at the first message the endpoint answers by ending its handshake.
//
// observed: as the other live cases (out= stalled= hand= raw= pend= pendb= hs= [err=] [panic=])
// plus at=<number of scripted messages sent when the endpoint's Handshake returned, `-` = it was
// still waiting for input when the script ended>.

import (
	"fmt"
	"net"
	"strings"
	"time"

	"gitee.com/Trisia/gotlcp/dtlcp"
	"gitee.com/Trisia/gotlcp/tlcp"
	"verifharness/internal/hx"
	"verifharness/internal/pair"
	"verifharness/internal/pki"
	"verifharness/internal/script"
)

const scriptIdle = 3 * time.Second

// scriptPeer is what the two stacks' scripted peers have in common.
type scriptPeer interface {
	send(kind string, chain [][]byte, empty bool) error
	ccs() error
	drain() []string // kinds of everything the endpoint has written so far
}

type tScript struct{ *tlcp.VerifScript }
type dScript struct{ *dtlcp.VerifScript }

func (s tScript) send(kind string, chain [][]byte, empty bool) error {
	if chain == nil && !empty {
		return s.Send(kind, nil)
	}
	return s.Send(kind, &tlcp.VerifSendOpts{Certificates: chain, EmptyCerts: empty})
}
func (s tScript) ccs() error { return s.SendCCS() }
func (s tScript) drain() []string {
	var ks []string
	for _, e := range s.ReadAvailable() {
		ks = append(ks, e.Kind)
	}
	return ks
}
func (s dScript) send(kind string, chain [][]byte, empty bool) error {
	if chain == nil && !empty {
		return s.Send(kind, nil)
	}
	return s.Send(kind, &dtlcp.VerifSendOpts{Certificates: chain, EmptyCerts: empty})
}
func (s dScript) ccs() error { return s.SendCCS() }
func (s dScript) drain() []string {
	var ks []string
	for _, e := range s.ReadAvailable() {
		ks = append(ks, e.Kind)
	}
	return ks
}

// chainOf resolves a certificate-list spec; own = the script's own pair.
func chainOf(spec string, ownSig, ownEnc *pki.Leaf, r *hx.Rand) (chain [][]byte, empty, send bool) {
	switch spec {
	case "none":
		return nil, false, false
	case "-", "":
		return nil, true, true
	}
	s := pki.Std()
	for _, it := range strings.Split(spec, ".") {
		var der []byte
		switch it {
		case "s":
			der = ownSig.DER
		case "e":
			der = ownEnc.DER
		case "r":
			der = s.Root.DER
		case "o":
			der = s.CliOthSig.DER
		case "x":
			der = s.RSAEnc.DER
		case "p":
			der = s.P256Sig.DER
		case "d":
			der = s.EdSig.DER
		case "j":
			der = r.Bytes(20)
		case "z":
			der = []byte{}
		case "t":
			der = ownSig.DER[:len(ownSig.DER)/2]
		default:
			der = []byte{0x30, 0x00}
		}
		chain = append(chain, der)
	}
	return chain, false, true
}

func execScript(desc string) string {
	stack, _ := hx.KV(desc, "stack")
	victim, _ := hx.KV(desc, "victim")
	suite, _ := hx.KV(desc, "suite")
	spec, _ := hx.KV(desc, "certs")
	auth := hx.KVInt(desc, "auth")
	skip := hx.KVInt(desc, "skip") == 1
	seed := uint64(len(desc))
	for _, ch := range []byte(desc) {
		seed = seed*131 + uint64(ch)
	}
	r := hx.NewRand(seed)
	st := pki.Std()
	ownSig, ownEnc := st.CliSig, st.CliEnc
	if victim == "client" {
		ownSig, ownEnc = st.SrvSig, st.SrvEnc
	}
	chain, empty, sendCert := chainOf(spec, ownSig, ownEnc, r)

	w := script.NewWatch()
	var ep liveConn
	var peer scriptPeer
	var closeAll func()
	if stack == "dtlcp" {
		cc, sc := dConfigs(suite)
		ce, se := pair.PacketPipe()
		closeAll = func() { ce.Close(); se.Close() }
		pcfg := &dtlcp.Config{Certificates: []dtlcp.Certificate{pair.DCert(ownSig), pair.DCert(ownEnc)},
			CipherSuites: suiteIDs(suite), Time: pki.NowFn, RootCAs: st.Root.Pool, ClientCAs: st.Root.Pool}
		quiet := func(c *dtlcp.Config) { // the script steps at its own pace: no retransmission, no fragmentation
			c.InitialRetransmitTimeout, c.MaxRetransmitTimeout, c.PMTU = time.Hour, time.Hour, 16000
		}
		if victim == "client" {
			cc.InsecureSkipVerify = skip
			if auth > 0 { // (ECDHE: the client always has its pair, else it would not offer the suite)
				cc.Certificates = []dtlcp.Certificate{pair.DCert(st.CliSig), pair.DCert(st.CliEnc)}
			}
			quiet(cc)
			ep = dConn{dtlcp.Client(w.EndpointPacket(ce), se.LocalAddr(), cc)}
			peer = dScript{dtlcp.NewVerifScript("server", w.ScriptPacket(se), ce.LocalAddr(), pcfg)}
		} else {
			sc.ClientAuth, sc.ClientCAs = dtlcp.ClientAuthType(auth), st.Root.Pool
			quiet(sc)
			ep = dConn{dtlcp.Server(w.EndpointPacket(se), ce.LocalAddr(), sc)}
			peer = dScript{dtlcp.NewVerifScript("client", w.ScriptPacket(ce), se.LocalAddr(), pcfg)}
		}
	} else {
		cc, sc := tConfigs(suite)
		ce, se := pair.StreamPipe()
		closeAll = func() { ce.Close(); se.Close() }
		pcfg := &tlcp.Config{Certificates: []tlcp.Certificate{pair.TCert(ownSig), pair.TCert(ownEnc)},
			CipherSuites: suiteIDs(suite), Time: pki.NowFn, RootCAs: st.Root.Pool, ClientCAs: st.Root.Pool}
		if victim == "client" {
			cc.InsecureSkipVerify = skip
			if auth > 0 {
				cc.Certificates = []tlcp.Certificate{pair.TCert(st.CliSig), pair.TCert(st.CliEnc)}
			}
			ep = tConn{tlcp.Client(w.Endpoint(net.Conn(ce)), cc)}
			peer = tScript{tlcp.NewVerifScript("server", w.Script(se), pcfg)}
		} else {
			sc.ClientAuth, sc.ClientCAs = tlcp.ClientAuthType(auth), st.Root.Pool
			ep = tConn{tlcp.Server(w.Endpoint(net.Conn(se)), sc)}
			peer = tScript{tlcp.NewVerifScript("client", w.Script(ce), pcfg)}
		}
	}

	var o liveObs
	o.hs = 12
	sent, at := 0, -1
	sample := func() { // the endpoint is parked in its transport read (or has returned): reading is safe
		h, rw, n, b := ep.lens()
		o.hand, o.raw, o.pend, o.pendb = max(o.hand, h), max(o.raw, rw), max(o.pend, n), max(o.pendb, b)
	}
	ended := func() bool {
		d, _ := w.Done()
		if d && at < 0 {
			at = sent
		}
		return d
	}
	var kinds []string
	// step sends one scripted message and waits until the endpoint has digested it
	step := func(f func() error) bool {
		if o.stalled || ended() {
			return false
		}
		if err := f(); err != nil {
			return false
		}
		sent++
		if !w.WaitIdle(scriptIdle) {
			o.stalled = true
			return false
		}
		sample()
		kinds = peer.drain()
		return !ended()
	}
	has := func(k string) bool {
		for _, x := range kinds {
			if x == k {
				return true
			}
		}
		return false
	}
	plain := func(kind string) func() error { return func() error { return peer.send(kind, nil, false) } }
	cert := func() error { return peer.send("Certificate", chain, empty) }

	w.Go(ep.Handshake)
	if !w.WaitIdle(scriptIdle) {
		o.stalled = true
	}
	sample()
	kinds = peer.drain()
	func() {
		if victim == "server" {
			if !step(plain("ClientHello")) {
				return
			}
			if has("HelloVerifyRequest") && !step(plain("ClientHello")) {
				return
			}
			if sendCert && !step(cert) {
				return
			}
			if !step(plain("ClientKeyExchange")) {
				return
			}
			if sendCert && strings.HasPrefix(spec, "s") && !step(plain("CertificateVerify")) {
				return
			}
		} else {
			if !step(plain("ServerHello")) {
				return
			}
			if sendCert && !step(cert) {
				return
			}
			if !step(plain("ServerKeyExchange")) {
				return
			}
			if auth > 0 && !step(plain("CertificateRequest")) {
				return
			}
			if !step(plain("ServerHelloDone")) {
				return
			}
		}
		if !step(peer.ccs) {
			return
		}
		step(plain("Finished"))
	}()
	ended()
	closeAll() // an endpoint that still waits for input sees the end of the transport
	if !w.WaitDone(scriptIdle) {
		o.stalled = true
	}
	sample()
	_, err := w.Done()
	o.panicv = w.Panicked()
	switch {
	case o.panicv != "":
		o.out = "panic"
	case err != nil:
		o.out = "err"
		if at >= 0 { // an error of its own, not the closed transport
			o.err = err.Error()
		}
	default:
		o.out = "ok"
	}
	if _, isD := ep.(dConn); isD && o.panicv == "" && at < 0 {
		o.stalled = false // a datagram endpoint waiting for a silent peer ends by its own timers
	}
	ats := "-"
	if at >= 0 {
		ats = fmt.Sprint(at)
	}
	return o.String() + " at=" + ats
}

// genScript emits the certificate-list catalogue: every suite, every client-auth policy, both
// roles and stacks, lists of 0..4 entries with valid, foreign-key, untrusted, truncated and
// junk certificates in every position.
func genScript(o hx.Opts, emit func(string)) {
	lists := []string{"none", "-", "s", "e", "j", "z", "x", "o", "s.e", "e.s", "s.j", "j.e", "j.j", "s.x", "x.e", "d.e", "s.t", "o.e",
		"s.e.r", "s.e.j", "s.j.e", "j.s.e", "s.e.s.e"}
	suites := []string{"ecc", "ecdhe", "ecccbc", "ecdhecbc"}
	for _, st := range []string{"tlcp", "dtlcp"} {
		for _, su := range suites {
			for auth := 0; auth <= 4; auth++ {
				for _, l := range lists {
					emit(fmt.Sprintf("fn=live_script stack=%s victim=server suite=%s auth=%d certs=%s", st, su, auth, l))
				}
			}
			for _, auth := range []int{0, 1} {
				for _, skip := range []string{"", " skip=1"} {
					for _, l := range lists {
						emit(fmt.Sprintf("fn=live_script stack=%s victim=client suite=%s auth=%d certs=%s%s", st, su, auth, l, skip))
					}
				}
			}
		}
	}
	// the same class at random: lists of 1..6 entries over the whole alphabet
	r := hx.NewRand(o.Seed + 4242)
	n := 40 * o.Scale
	if o.Tier == "thorough" {
		n = 4000 * o.Scale
	}
	for i := 0; i < n; i++ {
		var items []string
		for j := 0; j < 1+r.Intn(6); j++ {
			items = append(items, hx.Pick(r, []string{"s", "e", "s", "e", "r", "o", "x", "p", "d", "j", "z", "t"}))
		}
		v := hx.Pick(r, []string{"server", "server", "client"})
		auth := r.Intn(5)
		skip := ""
		if v == "client" {
			auth = r.Intn(2)
			if r.Bool() {
				skip = " skip=1"
			}
		}
		emit(fmt.Sprintf("fn=live_script stack=%s victim=%s suite=%s auth=%d certs=%s%s", hx.Pick(r, []string{"tlcp", "dtlcp"}), v,
			hx.Pick(r, suites), auth, strings.Join(items, "."), skip))
	}
}

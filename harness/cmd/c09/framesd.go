package main

// generators of the datagram-stack loop cases (see frames.go for the case syntax)

import (
	"fmt"
	"strings"

	"verifharness/internal/hx"
)

func rec13(typ byte, epoch int, seq int, payload []byte) []byte {
	h := []byte{typ, 1, 1, byte(epoch >> 8), byte(epoch), 0, 0, byte(seq >> 24), byte(seq >> 16), byte(seq >> 8), byte(seq),
		byte(len(payload) >> 8), byte(len(payload))}
	return append(h, payload...)
}

// hsFrag builds a DTLCP handshake fragment header + body.
func hsFrag(typ byte, total, msgSeq, off int, body []byte) []byte {
	h := []byte{typ, byte(total >> 16), byte(total >> 8), byte(total), byte(msgSeq >> 8), byte(msgSeq),
		byte(off >> 16), byte(off >> 8), byte(off), byte(len(body) >> 16), byte(len(body) >> 8), byte(len(body))}
	return append(h, body...)
}

func randomDgrams(r *hx.Rand) [][]byte {
	var out [][]byte
	seq := 0
	next := func() int { seq++; return seq }
	n := 1 + r.Intn(7)
	for i := 0; i < n; i++ {
		var d []byte
		recs := 1
		if r.Chance(30) {
			recs = 2 + r.Intn(2)
		}
		for j := 0; j < recs; j++ {
			switch x := r.Intn(100); {
			case x < 30: // a complete, unfragmented message
				body := r.Bytes(hx.Pick(r, []int{0, 0, 0, 12, 5}))
				typ := hx.Pick(r, []byte{14, 14, 14, 20, 16, 1, 0, 99})
				d = append(d, rec13(22, 0, next(), hsFrag(typ, len(body), r.Intn(3), 0, body))...)
			case x < 60: // a fragment of a larger message
				total := hx.Pick(r, []int{4, 8, 8, 20, 65536, 65537, 1})
				off := r.Intn(total)
				ln := r.Intn(min(total-off, 12) + 1)
				if r.Chance(40) {
					off, ln = 0, min(total, 4)
				}
				if r.Chance(30) && total >= 8 {
					off, ln = 4, min(total-4, 4)
				}
				d = append(d, rec13(22, 0, next(), hsFrag(hx.Pick(r, []byte{14, 20, 11}), total, r.Intn(4), off, r.Bytes(ln)))...)
			case x < 66: // inconsistent fragment header
				f := hsFrag(14, 4, 0, 3, r.Bytes(3))
				d = append(d, rec13(22, 0, next(), f)...)
			case x < 74:
				d = append(d, rec13(21, 0, next(), []byte{1, byte(1 + r.Intn(100))})...)
			case x < 78:
				d = append(d, rec13(21, 0, next(), hx.Pick(r, [][]byte{{2, 40}, {1, 0}, {3, 3}, {1}}))...)
			case x < 82:
				d = append(d, rec13(20, 0, next(), hx.Pick(r, [][]byte{{1}, {0}, {}}))...)
			case x < 86:
				d = append(d, rec13(23, 0, next(), r.Bytes(r.Intn(4)))...)
			case x < 90: // replayed / old sequence number, other epoch
				s := seq
				if r.Bool() && seq > 0 {
					s = r.Intn(seq + 1)
				}
				d = append(d, rec13(22, hx.Pick(r, []int{0, 0, 1}), s, hsFrag(14, 0, 0, 0, nil))...)
			case x < 94: // header split across records: first half of a handshake header
				f := hsFrag(14, 0, 0, 0, nil)
				cut := 1 + r.Intn(11)
				d = append(d, rec13(22, 0, next(), f[:cut])...)
				d = append(d, rec13(22, 0, next(), f[cut:])...)
			case x < 97: // bad version / length beyond the datagram
				p := rec13(22, 0, next(), r.Bytes(r.Intn(6)))
				if r.Bool() {
					p[1] = byte(r.U64())
				} else {
					p[12] += byte(1 + r.Intn(9))
				}
				d = append(d, p...)
			default:
				d = append(d, r.Bytes(r.Intn(16))...)
			}
		}
		if r.Chance(10) {
			d = append(d, r.Bytes(1+r.Intn(5))...) // trailing bytes after the last record
		}
		out = append(out, d)
	}
	return out
}

func genFramesD(o hx.Opts, emit func(string), r *hx.Rand) {
	line := func(hv int, ops string, ds [][]byte) {
		hs := make([]string, len(ds))
		for i, d := range ds {
			hs[i] = hx.Hex(d)
		}
		dg := "-"
		if len(hs) > 0 {
			dg = strings.Join(hs, "/")
		}
		emit(fmt.Sprintf("fn=framesd stack=dtlcp hv=%d ops=%s dgrams=%s", hv, ops, dg))
	}
	shd := hsFrag(14, 0, 0, 0, nil)
	// corpus: one message; a message in two fragments; 300 one-byte fragments of distinct messages
	// (the fragmentReads cap); a flood of warning alerts
	// witness (unbounded handBuf inside ONE readRecord call): 200 datagrams, each one handshake
	// fragment of 1000 bytes followed by a single trailing byte; and the same with a replayed
	// record instead of the trailing byte
	// record instead of the trailing byte, and with a warning alert (the handshake record resets
	// retryCount, so the retries never reach maxUselessRecords)
	var trail, dup, warnChain [][]byte
	for i := 0; i < 200; i++ {
		f := rec13(22, 0, 2*i+1, hsFrag(11, 65536, 0, 0, make([]byte, 1000)))
		trail = append(trail, append(append([]byte(nil), f...), 0))
		dup = append(dup, append(append([]byte(nil), f...), rec13(22, 0, 2*i+1, shd)...))
		warnChain = append(warnChain, append(append([]byte(nil), f...), rec13(21, 0, 2*i+2, []byte{1, 90})...))
	}
	line(1, "H", trail)
	line(1, "H", dup)
	line(1, "H", warnChain)
	// fragments of a message that announces 100000 bytes: refused at the first header
	var hugeD [][]byte
	for i := 0; i < 8; i++ {
		hugeD = append(hugeD, rec13(22, 0, 1000+i, hsFrag(11, 100000, 7, i*12000, make([]byte, 12000))))
	}
	line(1, "H,H", hugeD)
	line(1, "H,H", [][]byte{rec13(22, 0, 1, shd), rec13(22, 0, 2, shd)})
	line(1, "H", [][]byte{rec13(22, 0, 1, hsFrag(20, 8, 0, 0, []byte{1, 2, 3, 4})), rec13(22, 0, 2, hsFrag(20, 8, 0, 4, []byte{5, 6, 7, 8}))})
	var many [][]byte
	for i := 0; i < 300; i++ {
		many = append(many, rec13(22, 0, i+1, hsFrag(11, 65536, i, 0, nil)))
	}
	line(1, "H", many)
	line(1, "H,H", many[:200])
	var warn [][]byte
	for i := 0; i < 20; i++ {
		warn = append(warn, rec13(21, 0, i+1, []byte{1, 90}))
	}
	line(1, "H", warn)
	// hostile fragment headers at the START of a message, followed by a flood of handshake
	// records: every combination of (message length, fragment_offset, fragment_length) over the
	// boundary values around the 64 body bytes that are really there and around the 24-bit /
	// maxHandshake limits. Whatever the header claims, the endpoint may hold one maximum-size
	// message plus one record; the flood (6 x 16384 bytes) is larger than that.
	bvals := []int{0, 1, 63, 64, 65, 0xFFFF, 0x10000, 0xFFFFFF}
	hostile := func(total, off, flen int) []byte {
		f := hsFrag(1, total, 0, off, make([]byte, 64))
		f[9], f[10], f[11] = byte(flen>>16), byte(flen>>8), byte(flen)
		return rec13(22, 0, 1, f)
	}
	for _, total := range bvals {
		for _, off := range bvals {
			for _, flen := range bvals {
				ops := "H"
				if (total+off+flen)%3 == 0 {
					ops = "H,H"
				}
				emit(fmt.Sprintf("fn=framesd stack=dtlcp hv=%d ops=%s dgrams=%s flood=6x16384", (total+off)%2, ops, hx.Hex(hostile(total, off, flen))))
			}
		}
	}
	// the same class at random: arbitrary 24-bit values, the hostile header after 0..2 complete
	// messages, other flood shapes
	nh := 40 * o.Scale
	if o.Tier == "thorough" {
		nh = 4000 * o.Scale
	}
	for i := 0; i < nh; i++ {
		pick := func() int {
			if r.Chance(60) {
				return hx.Pick(r, bvals)
			}
			return r.Intn(1 << uint(1+r.Intn(24)))
		}
		var ds []string
		ops := []string{"H"}
		k := r.Intn(3)
		for j := 0; j < k; j++ {
			ds = append(ds, hx.Hex(rec13(22, 0, 10+j, hsFrag(14, 0, j, 0, nil))))
			ops = append(ops, "H")
		}
		ds = append(ds, hx.Hex(hostile(pick(), pick(), pick())))
		emit(fmt.Sprintf("fn=framesd stack=dtlcp hv=%d ops=%s dgrams=%s flood=%s", r.Intn(2), strings.Join(ops, ","), strings.Join(ds, "/"),
			hx.Pick(r, []string{"6x16384", "100x1000", "30x4000", "7x16000"})))
	}
	n := 1200 * o.Scale
	if o.Tier == "thorough" {
		n = 40000 * o.Scale
	}
	for i := 0; i < n; i++ {
		var ops []string
		for j := 0; j < 1+r.Intn(5); j++ {
			ops = append(ops, hx.Pick(r, []string{"H", "H", "H", "R"}))
		}
		if r.Chance(12) {
			ops = append(ops, "F", "R", "R")
		}
		line(r.Intn(2), strings.Join(ops, ","), randomDgrams(r))
	}
}

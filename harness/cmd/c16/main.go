// Driver for C16: runs delivery histories against the real replay window (through the verif
// hooks) and against the real post-handshake receive paths of a DTLCP connection pair, and
// writes `case => observed` lines for the Lean oracle (model + spec).
//
// Levels (token lvl=):
//
//	win  newReplayWindow(size) + check(seq)...      observed: accept bits, right, bitmap, size
//	cfg  the window Server/Client build from Config.ReplayWindow, same observation
//	rx   see rx.go
package main

import (
	"fmt"
	"sort"
	"strconv"
	"strings"

	"gitee.com/Trisia/gotlcp/dtlcp"
	"verifharness/internal/hx"
)

const max48 = uint64(1)<<48 - 1

func observeWindow(w *dtlcp.VerifReplayWindow, seqs []uint64) string {
	if w == nil {
		return "nowindow=1"
	}
	var sb strings.Builder
	for _, s := range seqs {
		if w.Check(s) {
			sb.WriteByte('1')
		} else {
			sb.WriteByte('0')
		}
	}
	acc := sb.String()
	if acc == "" {
		acc = "-"
	}
	right, size, bitmap := w.State()
	return fmt.Sprintf("acc=%s right=%d bitmap=%016x size=%d", acc, right, bitmap, size)
}

func parseSeqs(s string) []uint64 {
	if s == "-" || s == "" {
		return nil
	}
	parts := strings.Split(s, ",")
	out := make([]uint64, 0, len(parts))
	for _, p := range parts {
		v, err := strconv.ParseUint(p, 10, 64)
		if err != nil {
			panic("bad sequence number " + p)
		}
		out = append(out, v)
	}
	return out
}

func seqsStr(seqs []uint64) string {
	if len(seqs) == 0 {
		return "-"
	}
	ss := make([]string, len(seqs))
	for i, s := range seqs {
		ss[i] = strconv.FormatUint(s, 10)
	}
	return strings.Join(ss, ",")
}

// execute one case description and return the observation
func execute(desc string) (obs string) {
	if p := hx.Guard(func() { obs = execute1(desc) }); p != "" {
		return "panic=" + p
	}
	return obs
}

func execute1(desc string) string {
	lvl, _ := hx.KV(desc, "lvl")
	switch lvl {
	case "win":
		size := hx.KVInt(desc, "size")
		s, _ := hx.KV(desc, "seqs")
		return observeWindow(dtlcp.VerifNewReplayWindow(size), parseSeqs(s))
	case "cfg":
		cfg := hx.KVInt(desc, "cfg")
		role, _ := hx.KV(desc, "role")
		s, _ := hx.KV(desc, "seqs")
		var c *dtlcp.Conn
		if role == "client" {
			c = dtlcp.Client(nil, nil, &dtlcp.Config{ReplayWindow: cfg})
		} else {
			c = dtlcp.Server(nil, nil, &dtlcp.Config{ReplayWindow: cfg})
		}
		return observeWindow(dtlcp.VerifConnWindow(c), parseSeqs(s))
	case "rx":
		return executeRx(desc)
	}
	return "unknown-level=1"
}

// boundary sequence numbers for a window created for `size`
func boundary(size int) []uint64 {
	w := size
	if w < 0 {
		w = 0
	}
	cand := []int64{0, 1, int64(w) - 1, int64(w), int64(w) + 1, 31, 32, 33, 63, 64, 65, 2 * int64(w)}
	set := map[uint64]bool{max48: true, max48 - 1: true}
	for _, c := range cand {
		if c >= 0 {
			set[uint64(c)] = true
		}
	}
	var out []uint64
	for k := range set {
		out = append(out, k)
	}
	sort.Slice(out, func(i, j int) bool { return out[i] < out[j] })
	return out
}

// distances behind the right edge worth probing for a window created for `size`
func distances(size int) []uint64 {
	w := size
	if w < 0 {
		w = 0
	}
	cand := []int64{0, 1, 2, 30, 31, 32, 33, 62, 63, 64, 65, 66, int64(w) - 1, int64(w), int64(w) + 1, 2 * int64(w), 127, 128, 129}
	set := map[uint64]bool{}
	for _, c := range cand {
		if c >= 0 {
			set[uint64(c)] = true
		}
	}
	var out []uint64
	for k := range set {
		out = append(out, k)
	}
	sort.Slice(out, func(i, j int) bool { return out[i] < out[j] })
	return out
}

func genWindow(o hx.Opts, emit func(string)) {
	// 1. the documented witnesses (F7), always first
	emit("lvl=win size=128 seqs=100,30,30,30")
	emit("lvl=cfg role=server cfg=128 seqs=100,30,30,30")
	emit("lvl=cfg role=client cfg=128 seqs=100,30,30,30")
	emit("lvl=win size=65 seqs=64,0,0")
	emit("lvl=win size=64 seqs=100,30,30,37,37,36")
	emit("lvl=win size=0 seqs=0,0,40,9,8,9")
	emit(fmt.Sprintf("lvl=win size=64 seqs=%d,%d,%d,%d", max48, max48, max48-63, max48-64))

	var sizes []int
	if o.Tier == "thorough" {
		for s := -1; s <= 160; s++ {
			sizes = append(sizes, s)
		}
		sizes = append(sizes, 1000, 1<<20)
	} else {
		sizes = []int{0, 1, 31, 32, 33, 48, 63, 64, 65, 96, 128, 160}
	}

	// 2a. every delivery order / duplication of up to `depth` deliveries over the boundary numbers
	depth := 3
	for _, size := range sizes {
		b := boundary(size)
		d := depth
		if o.Tier == "thorough" && (size == 0 || size == 32 || size == 33 || size == 48 || size == 64 || size == 65 || size == 100 || size == 128) {
			d = 4
		}
		var rec func(seq []uint64)
		rec = func(seq []uint64) {
			if len(seq) > 0 {
				emit(fmt.Sprintf("lvl=win size=%d seqs=%s", size, seqsStr(seq)))
			}
			if len(seq) == d {
				return
			}
			for _, x := range b {
				rec(append(seq, x))
			}
		}
		rec(nil)
	}

	// 2b. relative to an established right edge: old numbers at boundary distances, a move of
	// the edge in between, then the same old numbers again
	for _, size := range sizes {
		ds := distances(size)
		for _, edge := range []uint64{200, 1000, max48} {
			for _, d1 := range ds {
				for _, d2 := range ds {
					if d1 > edge || d2 > edge {
						continue
					}
					emit(fmt.Sprintf("lvl=win size=%d seqs=%s", size, seqsStr([]uint64{edge, edge - d1, edge - d2, edge - d1, edge - d2})))
				}
				if edge == max48 {
					continue
				}
				for _, j := range []uint64{1, 2, 31, 32, 33, 63, 64, 65, 128} {
					if d1 > edge {
						continue
					}
					emit(fmt.Sprintf("lvl=win size=%d seqs=%s", size, seqsStr([]uint64{edge, edge - d1, edge + j, edge - d1, edge + j - 1, edge - d1})))
				}
			}
		}
	}

	// 2c. the construction sites: both constructors, every configured value
	cfgs := []int{-1, 0, 1, 16, 31, 32, 33, 63, 64, 65, 100, 128, 160, 1 << 20}
	if o.Tier == "thorough" {
		cfgs = nil
		for s := -2; s <= 160; s++ {
			cfgs = append(cfgs, s)
		}
		cfgs = append(cfgs, 1000, 1<<20)
	}
	for _, cfg := range cfgs {
		for _, role := range []string{"server", "client"} {
			for _, d := range distances(cfg) {
				if d > 300 {
					continue
				}
				emit(fmt.Sprintf("lvl=cfg role=%s cfg=%d seqs=%s", role, cfg, seqsStr([]uint64{300, 300 - d, 300 - d, 301, 300 - d})))
			}
		}
	}

	// 3. long random histories
	r := hx.NewRand(o.Seed)
	n := 1500 * o.Scale
	if o.Tier == "thorough" {
		n = 60000 * o.Scale
	}
	for i := 0; i < n; i++ {
		size := r.Intn(162) - 1
		switch r.Intn(12) {
		case 0:
			size = 1000
		case 1:
			size = 64
		case 2:
			size = 128
		}
		w := uint64(32)
		if size > 32 {
			w = uint64(size)
		}
		ln := 20 + r.Intn(300)
		if r.Chance(10) {
			ln = 500 + r.Intn(1500)
		}
		seqs := make([]uint64, 0, ln)
		var edge uint64
		if r.Chance(20) {
			edge = max48 - uint64(r.Intn(3000))
		} else if r.Chance(50) {
			edge = uint64(r.Intn(500))
		}
		for j := 0; j < ln; j++ {
			var s uint64
			switch x := r.Intn(100); {
			case x < 35: // advance a little
				s = edge + 1 + uint64(r.Intn(3))
			case x < 45: // jump around the window width
				s = edge + hx.Pick(r, []uint64{31, 32, 33, 63, 64, 65, w - 1, w, w + 1, 2 * w, 300})
			case x < 75: // something behind the edge, inside or just outside the window
				d := uint64(r.Intn(int(2*w) + 2))
				if d > edge {
					d = edge
				}
				s = edge - d
			case x < 90 && len(seqs) > 0: // an exact duplicate of a recent delivery
				s = seqs[len(seqs)-1-r.Intn(min(len(seqs), 20))]
			default:
				d := hx.Pick(r, []uint64{0, 31, 32, 33, 63, 64, 65, w - 1, w, w + 1})
				if d > edge {
					d = edge
				}
				s = edge - d
			}
			if s > max48 {
				s = max48
			}
			seqs = append(seqs, s)
			if s > edge {
				edge = s
			}
		}
		if r.Chance(15) {
			role := hx.Pick(r, []string{"server", "client"})
			emit(fmt.Sprintf("lvl=cfg role=%s cfg=%d seqs=%s", role, size, seqsStr(seqs)))
		} else {
			emit(fmt.Sprintf("lvl=win size=%d seqs=%s", size, seqsStr(seqs)))
		}
	}
}

func main() {
	o := hx.ParseOpts()
	tr := hx.NewTrace(o.Out)
	defer tr.Close()
	emit := func(desc string) { tr.Line(desc, execute(desc)) }

	if o.Replay != "" {
		for _, c := range hx.ReplayCases(o.Replay) {
			emit(c)
		}
		return
	}
	if o.Phase == "" || o.Phase == "win" {
		genWindow(o, emit)
	}
	if o.Phase == "" || o.Phase == "rx" {
		genRx(o, emit)
	}
}

package main

// Level rx: the post-handshake receive paths of a real DTLCP connection.
//
// case:  lvl=rx path=readfrom|read suite=gcm|cbc role=server|client cfg=<Config.ReplayWindow>
//        sent=<k> [repoch=<n>] script=<item>,<item>,...
//
// repoch=<n>: before the script a hook sets the receiver's read epoch to n (the peer keeps
// sending in epoch 1), so that authentic records meet the "older epoch" (n=2) and "newer
// epoch" (n=0) branches; the property is not judged on such cases, only model = code.
//
// A real handshake is run over an in-memory datagram pipe. The sending side then protects k
// application records (payload i = "P" + 4-byte i, sequence numbers 1..k in epoch 1) and a
// close_notify alert (sequence number k+1); none of them reaches the receiver by itself.
// The script says which datagrams the network delivers, one at a time:
//
//	g<i>      record i as sent                                   (q = the close_notify record)
//	f<i>      record i with the last byte (tag / MAC / padding) flipped
//	c<i>      record i with the first byte after the header flipped
//	s<i>.<n>  record i with the sequence number in the header rewritten to n
//	e<i>.<n>  record i with the epoch in the header rewritten to n
//	v<i>      record i with the version in the header rewritten
//	t<i>      record i cut by one byte (length field points beyond the datagram)
//	o<i>      record i with the length field set to 0xffff
//	z         a 5-byte datagram
//	a<i>      record i as sent but from another source address
//
// After each delivery the receiving application calls ReadFrom / Read once with an expired
// deadline; the observation is what the call returned and the replay state after it:
//
//	init=<epoch>:<right>:<bitmap>:<size> hdrs=1.1-<k+1> (or the list <epoch>.<seq>,... when not consecutive) steps=<out>:<epoch>:<right>:<bitmap>|... inerr=none|eof|fatal
//	out = d<i> (payload i handed over) | T (timeout, nothing) | EOF | ERR

import (
	"encoding/binary"
	"errors"
	"fmt"
	"io"
	"net"
	"strconv"
	"strings"
	"time"

	"gitee.com/Trisia/gotlcp/dtlcp"
	"verifharness/internal/hx"
	"verifharness/internal/pair"
)

// consecutive failed handshakes (a tree that cannot handshake is reported, not waited for)
var handshakeFailures int

func payloadOf(i int) []byte {
	b := make([]byte, 5+i%7)
	b[0] = 'P'
	binary.BigEndian.PutUint32(b[1:], uint32(i))
	return b
}

func payloadID(b []byte) string {
	if len(b) >= 5 && b[0] == 'P' {
		return "d" + strconv.Itoa(int(binary.BigEndian.Uint32(b[1:5])))
	}
	return "d?" + hx.Hex(b)
}

func stateStr(c *dtlcp.Conn, withSize bool) string {
	ep, right, size, bm, ok := dtlcp.VerifConnReplayState(c)
	if !ok {
		return "nowindow"
	}
	if withSize {
		return fmt.Sprintf("%d:%d:%016x:%d", ep, right, bm, size)
	}
	return fmt.Sprintf("%d:%d:%016x", ep, right, bm)
}

func executeRx(desc string) string {
	path, _ := hx.KV(desc, "path")
	suite, _ := hx.KV(desc, "suite")
	role, _ := hx.KV(desc, "role")
	cfg := hx.KVInt(desc, "cfg")
	k := hx.KVInt(desc, "sent")
	script, _ := hx.KV(desc, "script")

	ccfg, scfg := pair.DClient(), pair.DServer()
	id := dtlcp.ECC_SM4_GCM_SM3
	if suite == "cbc" {
		id = dtlcp.ECC_SM4_CBC_SM3
	}
	ccfg.CipherSuites = []uint16{id}
	scfg.CipherSuites = []uint16{id}
	if role == "client" {
		ccfg.ReplayWindow = cfg
	} else {
		scfg.ReplayWindow = cfg
	}
	if handshakeFailures >= 3 {
		// the tree cannot complete a plain handshake: do not spend the watchdog time per case
		return "handshake=failed"
	}
	c, s, ce, se, r := pair.DTLCP(ccfg, scfg, nil)
	defer ce.Close()
	defer se.Close()
	if !r.OK() {
		handshakeFailures++
		return "handshake=failed"
	}
	handshakeFailures = 0
	rcv, snd, re, sndEnd := s, c, se, ce
	if role == "client" {
		rcv, snd, re, sndEnd = c, s, ce, se
	}
	// nothing the sender emits from now on reaches the receiver by itself
	var captured [][]byte
	sndEnd.OnSend = func(_ int, data []byte) [][]byte {
		captured = append(captured, append([]byte(nil), data...))
		return nil
	}
	// leftovers of the handshake (retransmissions) are removed from the receiver's queue
	past := time.Now().Add(-time.Hour)
	re.SetReadDeadline(past)
	drain := make([]byte, 65536)
	for {
		if _, _, err := re.ReadFrom(drain); err != nil {
			break
		}
	}
	if v, ok := hx.KV(desc, "repoch"); ok {
		e, _ := strconv.Atoi(v)
		dtlcp.VerifConnSetReadEpoch(rcv, uint16(e))
	}
	init := stateStr(rcv, true)

	for i := 1; i <= k; i++ {
		if _, err := snd.WriteTo(payloadOf(i), re.LocalAddr()); err != nil {
			return "write=failed:" + strings.ReplaceAll(err.Error(), " ", "_")
		}
	}
	snd.CloseWrite()
	if len(captured) != k+1 {
		return fmt.Sprintf("captured=%d", len(captured))
	}
	var hdrs []string
	consecutive := true
	for i, d := range captured {
		if len(d) < 13 {
			return "captured=short"
		}
		ep := binary.BigEndian.Uint16(d[3:5])
		seq := uint64(d[5])<<40 | uint64(d[6])<<32 | uint64(d[7])<<24 | uint64(d[8])<<16 | uint64(d[9])<<8 | uint64(d[10])
		if 13+int(binary.BigEndian.Uint16(d[11:13])) != len(d) {
			return "captured=not-one-record"
		}
		hdrs = append(hdrs, fmt.Sprintf("%d.%d", ep, seq))
		if ep != 1 || seq != uint64(i+1) {
			consecutive = false
		}
	}
	hdrStr := strings.Join(hdrs, ",")
	if consecutive { // the usual case, kept short: epoch 1, sequence numbers 1..k+1
		hdrStr = fmt.Sprintf("1.1-%d", len(captured))
	}

	from := sndEnd.LocalAddr()
	other := &net.UDPAddr{IP: net.IPv4(10, 9, 8, 7), Port: 4444}
	buf := make([]byte, 65536)
	var steps []string
	if script != "-" && script != "" {
		for _, it := range strings.Split(script, ",") {
			data, src := buildItem(it, captured, k), from
			if it[0] == 'a' {
				src = other
			}
			re.Deliver(data, src)
			var n int
			var err error
			if path == "read" {
				n, err = rcv.Read(buf)
			} else {
				n, _, err = rcv.ReadFrom(buf)
			}
			var out string
			var ne net.Error
			switch {
			case err == nil:
				out = payloadID(buf[:n])
			case err == io.EOF:
				out = "EOF"
			case errors.As(err, &ne) && ne.Timeout():
				out = "T"
			default:
				out = "ERR"
			}
			steps = append(steps, out+":"+stateStr(rcv, false))
		}
	}
	inerr := "none"
	if e := dtlcp.VerifConnReadError(rcv); e == io.EOF {
		inerr = "eof"
	} else if e != nil {
		inerr = "fatal"
	}
	st := "-"
	if len(steps) > 0 {
		st = strings.Join(steps, "|")
	}
	return fmt.Sprintf("init=%s hdrs=%s steps=%s inerr=%s", init, hdrStr, st, inerr)
}

// buildItem returns the bytes of one script item (record indices are 1-based; q / index k+1
// is the close_notify record).
func buildItem(it string, captured [][]byte, k int) []byte {
	if it == "z" {
		return []byte{23, 1, 1, 0, 1}
	}
	if it == "q" {
		return append([]byte(nil), captured[k]...)
	}
	kind := it[0]
	rest := it[1:]
	arg := uint64(0)
	if i := strings.IndexByte(rest, '.'); i >= 0 {
		arg, _ = strconv.ParseUint(rest[i+1:], 10, 64)
		rest = rest[:i]
	}
	idx, err := strconv.Atoi(rest)
	if err != nil || idx < 1 || idx > k+1 {
		panic("bad script item " + it)
	}
	d := append([]byte(nil), captured[idx-1]...)
	switch kind {
	case 'g', 'a':
	case 'f':
		d[len(d)-1] ^= 0x01
	case 'c':
		d[13] ^= 0x80
	case 's':
		d[5], d[6], d[7], d[8], d[9], d[10] = byte(arg>>40), byte(arg>>32), byte(arg>>24), byte(arg>>16), byte(arg>>8), byte(arg)
	case 'e':
		d[3], d[4] = byte(arg>>8), byte(arg)
	case 'v':
		d[2] ^= 0x03
	case 't':
		d = d[:len(d)-1]
	case 'o':
		d[11], d[12] = 0xff, 0xff
	default:
		panic("bad script item " + it)
	}
	return d
}

var forgeKinds = []string{"f", "c", "s", "e", "v", "t", "o", "z", "a"}

// forged renders a forged item of the given kind derived from record i
func forged(r *hx.Rand, kind string, i, k int) string {
	switch kind {
	case "z":
		return "z"
	case "s":
		// towards a number that would be fresh and acceptable if it were believed
		return fmt.Sprintf("s%d.%d", i, k+1+r.Intn(200))
	case "e":
		return fmt.Sprintf("e%d.%d", i, hx.Pick(r, []int{0, 2, 3, 65535}))
	}
	return kind + strconv.Itoa(i)
}

func genRx(o hx.Opts, emit func(string)) {
	r := hx.NewRand(o.Seed + 77)
	combos := func(f func(path, suite, role string)) {
		for _, path := range []string{"readfrom", "read"} {
			for _, suite := range []string{"gcm", "cbc"} {
				for _, role := range []string{"server", "client"} {
					f(path, suite, role)
				}
			}
		}
	}
	line := func(path, suite, role string, cfg, k int, script []string) {
		sc := "-"
		if len(script) > 0 {
			sc = strings.Join(script, ",")
		}
		emit(fmt.Sprintf("lvl=rx path=%s suite=%s role=%s cfg=%d sent=%d script=%s", path, suite, role, cfg, k, sc))
	}

	// 1. witnesses: F14 (a forged record on the Read path), F7 at connection level
	line("read", "gcm", "server", 64, 3, []string{"g1", "f2", "g2", "g3"})
	line("readfrom", "gcm", "server", 64, 3, []string{"g1", "f2", "g2", "g3"})
	line("read", "cbc", "client", 0, 2, []string{"z", "g1", "g2"})
	line("readfrom", "gcm", "server", 128, 101, []string{"g100", "g30", "g30", "g30"})
	line("read", "cbc", "client", 128, 101, []string{"g100", "g30", "g30", "g30"})
	line("readfrom", "cbc", "server", 0, 4, []string{"g2", "s1.3", "g3", "e4.2", "g4", "g1", "q", "g1"})

	// 1b. the two epoch branches with authentic records: a hook moves the receiver's read epoch
	combos(func(path, suite, role string) {
		for _, ep := range []int{0, 2} {
			emit(fmt.Sprintf("lvl=rx path=%s suite=%s role=%s cfg=64 sent=4 repoch=%d script=g2,g1,g2,f3,g3,g4,g1", path, suite, role, ep))
		}
	})

	// 2. every kind of forgery at every point of a short genuine exchange (with a replay at the end)
	base := []string{"g1", "g2", "g3"}
	nPos := len(base) + 1
	combos(func(path, suite, role string) {
		for _, kind := range forgeKinds {
			if o.Tier != "thorough" && ((suite == "cbc") != (role == "client")) {
				continue // quick: half of the combinations
			}
			for pos := 0; pos < nPos; pos++ {
				var sc []string
				sc = append(sc, base[:pos]...)
				sc = append(sc, forged(r, kind, min(pos+1, 3), 3))
				sc = append(sc, base[pos:]...)
				sc = append(sc, "g2")
				line(path, suite, role, 64, 3, sc)
			}
		}
	})

	// 3. replays and reordering across the window boundary, through the connection
	cfgs := []int{0, 64, 128}
	if o.Tier == "thorough" {
		cfgs = []int{0, 16, 32, 33, 48, 63, 64, 65, 100, 128, 160}
	}
	combos(func(path, suite, role string) {
		if o.Tier != "thorough" && ((suite == "gcm") != (role == "client")) {
			return
		}
		for _, cfg := range cfgs {
			w := cfg
			if cfg <= 0 {
				w = 64
			}
			if w < 32 {
				w = 32
			}
			edge := 135
			var sc []string
			sc = append(sc, fmt.Sprintf("g%d", edge))
			for _, d := range []int{0, 1, 31, 32, 33, 63, 64, 65, w - 1, w, w + 1, 127, 128} {
				if d >= edge {
					continue
				}
				sc = append(sc, fmt.Sprintf("g%d", edge-d), fmt.Sprintf("f%d", edge-d), fmt.Sprintf("g%d", edge-d))
			}
			sc = append(sc, fmt.Sprintf("g%d", edge+3), fmt.Sprintf("g%d", edge-62), fmt.Sprintf("g%d", edge-61), fmt.Sprintf("g%d", edge-60))
			line(path, suite, role, cfg, 140, sc)
		}
	})

	// 4. random scripts
	n := 1200 * o.Scale
	if o.Tier == "thorough" {
		n = 40000 * o.Scale
	}
	for i := 0; i < n; i++ {
		path := hx.Pick(r, []string{"readfrom", "read"})
		suite := hx.Pick(r, []string{"gcm", "cbc"})
		role := hx.Pick(r, []string{"server", "client"})
		cfg := hx.Pick(r, []int{0, 0, 16, 32, 33, 48, 64, 64, 65, 100, 128, 160})
		k := 10 + r.Intn(40)
		if r.Chance(40) {
			k = 100 + r.Intn(100)
		}
		ln := 10 + r.Intn(50)
		var sc []string
		cur := 1 + r.Intn(k)
		for j := 0; j < ln; j++ {
			switch x := r.Intn(100); {
			case x < 40: // next ones, roughly in order
				cur = min(k, cur+1+r.Intn(2))
				sc = append(sc, fmt.Sprintf("g%d", cur))
			case x < 60: // an older one (maybe a replay)
				sc = append(sc, fmt.Sprintf("g%d", max(1, cur-r.Intn(140))))
			case x < 70 && len(sc) > 0: // exact replay of something delivered before
				sc = append(sc, sc[r.Intn(len(sc))])
			case x < 73:
				cur = min(k, cur+hx.Pick(r, []int{31, 32, 33, 63, 64, 65, 100}))
				sc = append(sc, fmt.Sprintf("g%d", cur))
			case x < 75 && j > ln/2:
				sc = append(sc, "q")
			default:
				sc = append(sc, forged(r, hx.Pick(r, forgeKinds), 1+r.Intn(k), k))
			}
		}
		line(path, suite, role, cfg, k, sc)
	}
}

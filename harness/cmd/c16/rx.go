package main

// Level rx: the post-handshake receive paths of a real DTLCP connection.
//
// case:  lvl=rx path=readfrom|read|mix suite=gcm|cbc role=server|client cfg=<Config.ReplayWindow>
//        sent=<k> [repoch=<n>] [skip=<j>.<n>,...] [plen=<L>] [pcw=<base>] script=<item>,<item>,...
//
// pcw=<base> (role=server only): the server is created with a listener Config whose ReplayWindow
// is <base> and whose GetConfigForClient returns a per-client Config with ReplayWindow cfg: the
// Config that governs the connection (and whose size the property speaks of) is installed by the
// handshake after the connection — and its epoch-0 window — was created from the listener's.
//
// skip=<j>.<n>: before protecting record j the sender moves its write sequence number to n (a
// hook; a sender may skip ahead), so record i carries n + (i - j) for the last skip point j <= i
// and i without one: sequence numbers on both sides of every byte boundary of the 48-bit field.
// plen=<L>: payload i has L + i%7 bytes (default 5): the byte i, then bytes in 201..255 that
// depend on i and on the position (sent <= 200).
//
// repoch=<n>: before the script a hook sets the receiver's read epoch to n (the peer keeps
// sending in epoch 1), so that authentic records meet the "older epoch" (n=2) and "newer
// epoch" (n=0) branches; the property is not judged on such cases, only model = code.
//
// A real handshake is run over an in-memory datagram pipe. The sending side then protects k
// application records (payload i = "P" + 4-byte i, sequence numbers 1..k in epoch 1) and a
// close_notify alert (sequence number k+1); none of them reaches the receiver by itself.
// The script says which datagrams the network delivers and which calls the receiving
// application makes:
//
//	g<i>      record i as sent                                   (q = the close_notify record)
//	f<i>      record i with the last byte (tag / MAC / padding) flipped
//	c<i>      record i with the first byte after the header flipped
//	s<i>.<n>  record i with the sequence number in the header rewritten to n
//	e<i>.<n>  record i with the epoch in the header rewritten to n
//	v<i>      record i with the version in the header rewritten
//	t<i>      record i cut by one byte (length field points beyond the datagram)
//	o<i>      record i with the length field set to 0xffff
//	z         a 5-byte datagram
//	a<i>      record i as sent but from another source address
//	+<item>   the same datagram, but the application does not call (it stays queued)
//	R<n>      no datagram; the application calls Read with an n-byte buffer
//	F<n>      no datagram; the application calls ReadFrom with an n-byte buffer
//
// After each delivery without '+' the receiving application calls ReadFrom (path=readfrom) /
// Read (path=read) once with a 64 KiB buffer; with path=mix only R / F items call. Every call
// has an expired deadline; the observation is what each call returned and the replay state
// and the number of decrypted bytes kept for the next Read after it:
//
//	init=<epoch>:<right>:<bitmap>:<size> hdrs=1.<a>-<b>[,1.<a>-<b>...] (runs of consecutive sequence numbers; the list <epoch>.<seq>,... when an epoch is not 1) steps=<out>:<epoch>:<right>:<bitmap>:<pending>|... inerr=none|eof|fatal
//	out = d<i> (exactly payload i handed over) | x<hex> (other bytes, x- for none) | T (timeout, nothing) | EOF | ERR
//	      a call that returned bytes together with an error: <bytes>!T | <bytes>!EOF | <bytes>!ERR

import (
	"bytes"
	"encoding/binary"
	"errors"
	"fmt"
	"io"
	"net"
	"strconv"
	"strings"
	"time"

	"gitee.com/Trisia/gotlcp/dtlcp"
	"verifharness/internal/hx"
	"verifharness/internal/pair"
)

// consecutive failed handshakes (a tree that cannot handshake is reported, not waited for)
var handshakeFailures int

// payloadOf is the content of application record i (1..200) for base length L (plen=):
// L + i%7 bytes; the first byte is i, every other byte lies in 201..255 and depends on i and on
// the position — so any non-empty run of bytes a call returns tells whether it starts a record,
// and which.
func payloadOf(i, L int) []byte {
	b := make([]byte, L+i%7)
	for j := range b {
		b[j] = byte(201 + (i*7+j*13)%55)
	}
	b[0] = byte(i)
	return b
}

// bytesID names what a call handed over: d<i> when it is exactly payload i, the bytes otherwise.
func bytesID(b []byte, k, L int) string {
	if len(b) >= 1 {
		if i := int(b[0]); i >= 1 && i <= k && bytes.Equal(b, payloadOf(i, L)) {
			return "d" + strconv.Itoa(i)
		}
	}
	if len(b) == 0 {
		return "x-"
	}
	return "x" + hx.Hex(b)
}

func stateStr(c *dtlcp.Conn, withSize bool) string {
	ep, right, size, bm, ok := dtlcp.VerifConnReplayState(c)
	if !ok {
		return "nowindow"
	}
	if withSize {
		return fmt.Sprintf("%d:%d:%016x:%d", ep, right, bm, size)
	}
	return fmt.Sprintf("%d:%d:%016x:%d", ep, right, bm, dtlcp.VerifConnPendingRead(c))
}

// parseSkips reads skip=<j>.<n>,... (record index -> sequence number the sender moves to)
func parseSkips(desc string) map[int]uint64 {
	out := map[int]uint64{}
	v, ok := hx.KV(desc, "skip")
	if !ok || v == "-" {
		return out
	}
	for _, part := range strings.Split(v, ",") {
		jn := strings.SplitN(part, ".", 2)
		if len(jn) != 2 {
			panic("bad skip " + part)
		}
		j, err1 := strconv.Atoi(jn[0])
		n, err2 := strconv.ParseUint(jn[1], 10, 64)
		if err1 != nil || err2 != nil || j < 1 || n >= 1<<48 {
			panic("bad skip " + part)
		}
		out[j] = n
	}
	return out
}

func executeRx(desc string) string {
	path, _ := hx.KV(desc, "path")
	suite, _ := hx.KV(desc, "suite")
	role, _ := hx.KV(desc, "role")
	cfg := hx.KVInt(desc, "cfg")
	k := hx.KVInt(desc, "sent")
	script, _ := hx.KV(desc, "script")

	ccfg, scfg := pair.DClient(), pair.DServer()
	id := dtlcp.ECC_SM4_GCM_SM3
	if suite == "cbc" {
		id = dtlcp.ECC_SM4_CBC_SM3
	}
	ccfg.CipherSuites = []uint16{id}
	scfg.CipherSuites = []uint16{id}
	if role == "client" {
		ccfg.ReplayWindow = cfg
	} else {
		scfg.ReplayWindow = cfg
	}
	// pcw=<base>: the listener's Config carries ReplayWindow <base> and a GetConfigForClient that
	// answers with a Config whose ReplayWindow is cfg — the Config that governs the connection
	// from the cookie-verified ClientHello on (the epoch-0 window was built before, from <base>).
	perClientCalls := 0
	_, perClient := hx.KV(desc, "pcw")
	if perClient {
		if role != "server" {
			panic("pcw= needs role=server (the receiver is the connection GetConfigForClient configures)")
		}
		per := scfg.Clone()
		per.ReplayWindow = cfg
		per.GetConfigForClient = nil
		scfg.ReplayWindow = hx.KVInt(desc, "pcw")
		scfg.GetConfigForClient = func(*dtlcp.ClientHelloInfo) (*dtlcp.Config, error) {
			perClientCalls++
			return per, nil
		}
	}
	if handshakeFailures >= 3 {
		// the tree cannot complete a plain handshake: do not spend the watchdog time per case
		return "handshake=failed"
	}
	c, s, ce, se, r := pair.DTLCP(ccfg, scfg, nil)
	defer ce.Close()
	defer se.Close()
	if !r.OK() {
		handshakeFailures++
		return "handshake=failed"
	}
	handshakeFailures = 0
	if perClient && perClientCalls == 0 {
		// the connection is still governed by the listener's Config: cfg is not its configured size
		return "perclient=not-consulted"
	}
	rcv, snd, re, sndEnd := s, c, se, ce
	if role == "client" {
		rcv, snd, re, sndEnd = c, s, ce, se
	}
	// nothing the sender emits from now on reaches the receiver by itself
	var captured [][]byte
	sndEnd.OnSend = func(_ int, data []byte) [][]byte {
		captured = append(captured, append([]byte(nil), data...))
		return nil
	}
	// leftovers of the handshake (retransmissions) are removed from the receiver's queue
	past := time.Now().Add(-time.Hour)
	re.SetReadDeadline(past)
	drain := make([]byte, 65536)
	for {
		if _, _, err := re.ReadFrom(drain); err != nil {
			break
		}
	}
	if v, ok := hx.KV(desc, "repoch"); ok {
		e, _ := strconv.Atoi(v)
		dtlcp.VerifConnSetReadEpoch(rcv, uint16(e))
	}
	init := stateStr(rcv, true)
	L := 5
	if _, ok := hx.KV(desc, "plen"); ok {
		L = hx.KVInt(desc, "plen")
	}
	if L < 1 || k > 200 {
		panic("plen must be positive and sent at most 200")
	}
	skips := parseSkips(desc)

	for i := 1; i <= k; i++ {
		if n, ok := skips[i]; ok {
			dtlcp.VerifConnSetWriteSeq(snd, n)
		}
		if _, err := snd.WriteTo(payloadOf(i, L), re.LocalAddr()); err != nil {
			return "write=failed:" + strings.ReplaceAll(err.Error(), " ", "_")
		}
	}
	if n, ok := skips[k+1]; ok {
		dtlcp.VerifConnSetWriteSeq(snd, n)
	}
	snd.CloseWrite()
	if len(captured) != k+1 {
		return fmt.Sprintf("captured=%d", len(captured))
	}
	// headers of what the sender protected: runs of consecutive sequence numbers in epoch 1
	var hdrs, runs []string
	allEpoch1 := true
	var runFrom, runTo uint64
	flush := func() {
		if len(hdrs) > 0 {
			runs = append(runs, fmt.Sprintf("1.%d-%d", runFrom, runTo))
		}
	}
	for _, d := range captured {
		if len(d) < 13 {
			return "captured=short"
		}
		ep := binary.BigEndian.Uint16(d[3:5])
		seq := uint64(d[5])<<40 | uint64(d[6])<<32 | uint64(d[7])<<24 | uint64(d[8])<<16 | uint64(d[9])<<8 | uint64(d[10])
		if 13+int(binary.BigEndian.Uint16(d[11:13])) != len(d) {
			return "captured=not-one-record"
		}
		if ep != 1 {
			allEpoch1 = false
		}
		if len(hdrs) > 0 && seq == runTo+1 {
			runTo = seq
		} else {
			flush()
			runFrom, runTo = seq, seq
		}
		hdrs = append(hdrs, fmt.Sprintf("%d.%d", ep, seq))
	}
	flush()
	hdrStr := strings.Join(runs, ",")
	if !allEpoch1 {
		hdrStr = strings.Join(hdrs, ",")
	}

	from := sndEnd.LocalAddr()
	other := &net.UDPAddr{IP: net.IPv4(10, 9, 8, 7), Port: 4444}
	var steps []string
	call := func(stream bool, size int) {
		buf := make([]byte, size)
		var n int
		var err error
		if stream {
			n, err = rcv.Read(buf)
		} else {
			n, _, err = rcv.ReadFrom(buf)
		}
		var out string
		var ne net.Error
		switch {
		case err == nil:
		case err == io.EOF:
			out = "EOF"
		case errors.As(err, &ne) && ne.Timeout():
			out = "T"
		default:
			out = "ERR"
		}
		if err == nil {
			out = bytesID(buf[:n], k, L)
		} else if n > 0 {
			out = bytesID(buf[:n], k, L) + "!" + out
		}
		steps = append(steps, out+":"+stateStr(rcv, false))
	}
	if script != "-" && script != "" {
		for _, it := range strings.Split(script, ",") {
			if it == "" {
				panic("empty script item")
			}
			if it[0] == 'R' || it[0] == 'F' {
				size, err := strconv.Atoi(it[1:])
				if err != nil || size < 0 || size > 1<<20 || (it[0] == 'R' && size == 0) {
					panic("bad script item " + it)
				}
				call(it[0] == 'R', size)
				continue
			}
			queued := it[0] == '+'
			if queued {
				it = it[1:]
			}
			data, src := buildItem(it, captured, k), from
			if it[0] == 'a' {
				src = other
			}
			re.Deliver(data, src)
			if !queued && path != "mix" {
				call(path == "read", 65536)
			}
		}
	}
	inerr := "none"
	if e := dtlcp.VerifConnReadError(rcv); e == io.EOF {
		inerr = "eof"
	} else if e != nil {
		inerr = "fatal"
	}
	st := "-"
	if len(steps) > 0 {
		st = strings.Join(steps, "|")
	}
	return fmt.Sprintf("init=%s hdrs=%s steps=%s inerr=%s", init, hdrStr, st, inerr)
}

// buildItem returns the bytes of one script item (record indices are 1-based; q / index k+1
// is the close_notify record).
func buildItem(it string, captured [][]byte, k int) []byte {
	if it == "" {
		panic("empty script item")
	}
	if it == "z" {
		return []byte{23, 1, 1, 0, 1}
	}
	if it == "q" {
		return append([]byte(nil), captured[k]...)
	}
	kind := it[0]
	rest := it[1:]
	arg := uint64(0)
	if i := strings.IndexByte(rest, '.'); i >= 0 {
		arg, _ = strconv.ParseUint(rest[i+1:], 10, 64)
		rest = rest[:i]
	}
	idx, err := strconv.Atoi(rest)
	if err != nil || idx < 1 || idx > k+1 {
		panic("bad script item " + it)
	}
	d := append([]byte(nil), captured[idx-1]...)
	switch kind {
	case 'g', 'a':
	case 'f':
		d[len(d)-1] ^= 0x01
	case 'c':
		d[13] ^= 0x80
	case 's':
		d[5], d[6], d[7], d[8], d[9], d[10] = byte(arg>>40), byte(arg>>32), byte(arg>>24), byte(arg>>16), byte(arg>>8), byte(arg)
	case 'e':
		d[3], d[4] = byte(arg>>8), byte(arg)
	case 'v':
		d[2] ^= 0x03
	case 't':
		d = d[:len(d)-1]
	case 'o':
		d[11], d[12] = 0xff, 0xff
	default:
		panic("bad script item " + it)
	}
	return d
}

var forgeKinds = []string{"f", "c", "s", "e", "v", "t", "o", "z", "a"}

// forged renders a forged item of the given kind derived from record i
func forged(r *hx.Rand, kind string, i, k int) string {
	switch kind {
	case "z":
		return "z"
	case "s":
		// towards a number that would be fresh and acceptable if it were believed
		return fmt.Sprintf("s%d.%d", i, k+1+r.Intn(200))
	case "e":
		return fmt.Sprintf("e%d.%d", i, hx.Pick(r, []int{0, 2, 3, 65535}))
	}
	return kind + strconv.Itoa(i)
}

func genRx(o hx.Opts, emit func(string)) {
	r := hx.NewRand(o.Seed + 77)
	combos := func(f func(path, suite, role string)) {
		for _, path := range []string{"readfrom", "read"} {
			for _, suite := range []string{"gcm", "cbc"} {
				for _, role := range []string{"server", "client"} {
					f(path, suite, role)
				}
			}
		}
	}
	line := func(path, suite, role string, cfg, k int, script []string) {
		sc := "-"
		if len(script) > 0 {
			sc = strings.Join(script, ",")
		}
		emit(fmt.Sprintf("lvl=rx path=%s suite=%s role=%s cfg=%d sent=%d script=%s", path, suite, role, cfg, k, sc))
	}

	// 1. witnesses: F14 (a forged record on the Read path), F7 at connection level
	line("read", "gcm", "server", 64, 3, []string{"g1", "f2", "g2", "g3"})
	line("readfrom", "gcm", "server", 64, 3, []string{"g1", "f2", "g2", "g3"})
	line("read", "cbc", "client", 0, 2, []string{"z", "g1", "g2"})
	line("readfrom", "gcm", "server", 128, 101, []string{"g100", "g30", "g30", "g30"})
	line("read", "cbc", "client", 128, 101, []string{"g100", "g30", "g30", "g30"})
	line("readfrom", "cbc", "server", 0, 4, []string{"g2", "s1.3", "g3", "e4.2", "g4", "g1", "q", "g1"})

	// 1b. the two epoch branches with authentic records: a hook moves the receiver's read epoch
	combos(func(path, suite, role string) {
		for _, ep := range []int{0, 2} {
			emit(fmt.Sprintf("lvl=rx path=%s suite=%s role=%s cfg=64 sent=4 repoch=%d script=g2,g1,g2,f3,g3,g4,g1", path, suite, role, ep))
		}
	})

	// 2. every kind of forgery at every point of a short genuine exchange (with a replay at the end)
	base := []string{"g1", "g2", "g3"}
	nPos := len(base) + 1
	combos(func(path, suite, role string) {
		for _, kind := range forgeKinds {
			if o.Tier != "thorough" && ((suite == "cbc") != (role == "client")) {
				continue // quick: half of the combinations
			}
			for pos := 0; pos < nPos; pos++ {
				var sc []string
				sc = append(sc, base[:pos]...)
				sc = append(sc, forged(r, kind, min(pos+1, 3), 3))
				sc = append(sc, base[pos:]...)
				sc = append(sc, "g2")
				line(path, suite, role, 64, 3, sc)
			}
		}
	})

	// 3. replays and reordering across the window boundary, through the connection
	cfgs := []int{0, 64, 128}
	if o.Tier == "thorough" {
		cfgs = []int{0, 16, 32, 33, 48, 63, 64, 65, 100, 128, 160}
	}
	combos(func(path, suite, role string) {
		if o.Tier != "thorough" && ((suite == "gcm") != (role == "client")) {
			return
		}
		for _, cfg := range cfgs {
			w := cfg
			if cfg <= 0 {
				w = 64
			}
			if w < 32 {
				w = 32
			}
			edge := 135
			var sc []string
			sc = append(sc, fmt.Sprintf("g%d", edge))
			for _, d := range []int{0, 1, 31, 32, 33, 63, 64, 65, w - 1, w, w + 1, 127, 128} {
				if d >= edge {
					continue
				}
				sc = append(sc, fmt.Sprintf("g%d", edge-d), fmt.Sprintf("f%d", edge-d), fmt.Sprintf("g%d", edge-d))
			}
			sc = append(sc, fmt.Sprintf("g%d", edge+3), fmt.Sprintf("g%d", edge-62), fmt.Sprintf("g%d", edge-61), fmt.Sprintf("g%d", edge-60))
			line(path, suite, role, cfg, 140, sc)
		}
	})

	// 3b. long bursts of datagrams that do not authenticate between genuine records
	combos(func(path, suite, role string) {
		if o.Tier != "thorough" && ((suite == "cbc") != (role == "client")) {
			return
		}
		for _, nb := range []int{15, 16, 17, 18, 33, 70, 150} {
			var sc []string
			sc = append(sc, "g1")
			for j := 0; j < nb; j++ {
				sc = append(sc, "f2")
			}
			sc = append(sc, "g2", "g1")
			for j := 0; j < nb; j++ {
				sc = append(sc, forged(r, forgeKinds[j%len(forgeKinds)], 3, 4))
			}
			sc = append(sc, "g3", "g2")
			for j := 0; j < nb; j++ {
				sc = append(sc, "c4")
			}
			sc = append(sc, "g4", "q")
			line(path, suite, role, 64, 4, sc)
			if path == "read" { // the same bursts waiting in the socket, consumed by few calls of either kind
				var mx []string
				mx = append(mx, "+g1", "R2")
				for j := 0; j < nb; j++ {
					mx = append(mx, "+"+forged(r, forgeKinds[j%len(forgeKinds)], 2, 4))
				}
				mx = append(mx, "+g2", "F65536", "R65536")
				for j := 0; j < nb; j++ {
					mx = append(mx, "+f3")
				}
				mx = append(mx, "R65536", "+g3", "R3", "F9", "R65536", "R65536")
				emit(fmt.Sprintf("lvl=rx path=mix suite=%s role=%s cfg=64 sent=4 plen=9 script=%s", suite, role, strings.Join(mx, ",")))
			}
		}
	})

	// 4. sequence numbers on both sides of every byte boundary of the 48-bit field: the sender
	// skips ahead (hook), the receiver follows by accepting what arrives
	lineX := func(path, suite, role string, cfg, k int, extra string, script []string) {
		emit(fmt.Sprintf("lvl=rx path=%s suite=%s role=%s cfg=%d sent=%d %s script=%s", path, suite, role, cfg, k, extra, strings.Join(script, ",")))
	}
	bounds := []uint64{1 << 8, 1 << 16, 1 << 24, 1 << 32, 1 << 40}
	combos(func(path, suite, role string) {
		if o.Tier != "thorough" && path == "read" && ((suite == "gcm") != (role == "client")) {
			return
		}
		for _, b := range bounds {
			// across the boundary in order, a replay from each side, close_notify beyond it
			lineX(path, suite, role, 64, 6, fmt.Sprintf("skip=1.%d", b-3), []string{"g1", "g2", "g3", "g4", "g5", "g6", "g2", "g5", "f4", "q"})
			// the jump happens in mid-stream; old small numbers afterwards
			lineX(path, suite, role, 0, 6, fmt.Sprintf("skip=4.%d", b-1), []string{"g1", "g2", "g4", "g5", "g3", "g6", "g5", "g4", "s1.7", "g1"})
			// reordered around the boundary
			lineX(path, suite, role, 64, 6, fmt.Sprintf("skip=1.%d", b-3), []string{"g5", "g3", "g4", "g2", "f3", "g6", "g1", "g4", "g5", "q", "g3"})
			// the window edge just beyond the boundary, old numbers at the window's far end below it
			lineX(path, suite, role, 64, 80, fmt.Sprintf("skip=1.%d", b-60), []string{"g71", "g8", "g7", "g61", "g60", "g62", "g8", "g61", "g72", "g9", "g8"})
			lineX(path, suite, role, 128, 80, fmt.Sprintf("skip=1.%d", b-60), []string{"g1", "g71", "g8", "g7", "g61", "g60", "g8", "g60"})
			// a long way beyond, then back
			lineX(path, suite, role, 64, 6, fmt.Sprintf("skip=3.%d,5.%d", b+1000, 2*b+5), []string{"g1", "g3", "g2", "g4", "g5", "g3", "g6", "g4"})
		}
		top := uint64(1)<<48 - 1
		lineX(path, suite, role, 64, 6, fmt.Sprintf("skip=1.%d", top-6), []string{"g1", "g2", "g3", "g4", "g5", "g6", "g2", "q", "q", "g6"})
		lineX(path, suite, role, 0, 6, fmt.Sprintf("skip=3.%d", top-4), []string{"g1", "g2", "g6", "g4", "g3", "g5", "f5", "g6", "g4", "q", "g2"})
		lineX(path, suite, role, 32, 70, fmt.Sprintf("skip=1.%d", top-70), []string{"g70", "g7", "g6", "g38", "g39", "g7", "g69", "q", "g40"})
	})

	// 5. both read APIs on one connection, caller buffers of every relation to the record length
	mix := func(suite, role string, cfg, k, plen int, script []string) {
		lineX("mix", suite, role, cfg, k, fmt.Sprintf("plen=%d", plen), script)
	}
	R := func(n int) string { return fmt.Sprintf("R%d", n) }
	F := func(n int) string { return fmt.Sprintf("F%d", n) }
	for _, suite := range []string{"gcm", "cbc"} {
		for _, role := range []string{"server", "client"} {
			for _, plen := range []int{5, 20, 96, 300} {
				l1 := plen + 1 // length of payload 1
				for _, n1 := range []int{1, 4, l1 - 1, l1, l1 + 1} {
					for _, n2 := range []int{65536, 3} {
						// part of record 1 by Read, record 2 by ReadFrom, the rest of record 1 by Read
						mix(suite, role, 64, 3, plen, []string{"+g1", R(n1), "+g2", F(n2), R(65536), "+g3", R(7), F(9), R(65536), R(2)})
					}
				}
				// a byte stream over record boundaries
				mix(suite, role, 64, 3, plen, []string{"+g1", "+g2", "+g3", R(7), R(7), R(7), R(7), R(plen), R(7), R(65536), R(65536), R(1)})
				// what does not fit a ReadFrom buffer is gone, not kept for Read
				mix(suite, role, 64, 3, plen, []string{"+g1", "+g2", F(3), R(65536), R(65536), "+g3", "+g1", F(0), F(5), R(4)})
				// forgeries and replays between the calls
				mix(suite, role, 64, 3, plen, []string{"+g1", R(4), "+f2", "+g1", F(100), R(65536), "+g2", "+g2", "+c3", F(100), F(100), R(5), "+g3", R(2), "+s1.9", F(8), R(65536)})
				// close_notify between / behind partial reads (Read looks ahead for an alert)
				mix(suite, role, 64, 2, plen, []string{"+g1", "+q", R(7), F(100), R(65536), "+g2", R(65536), R(65536)})
				mix(suite, role, 64, 2, plen, []string{"+g1", R(3), "+q", R(65536), R(65536), "+g2", F(10), R(10)})
				mix(suite, role, 64, 2, plen, []string{"+g1", R(3), "+f3", F(50), R(65536), "+g2", R(65536), "+q", R(9)})
				mix(suite, role, 64, 2, plen, []string{"+g1", R(3), "+q", F(50), "+g2", R(65536), R(3), F(1), R(65536)})
			}
			// every sequence of four calls over three queued records and the close_notify
			if o.Tier != "thorough" && ((suite == "gcm") != (role == "server")) {
				continue
			}
			kinds := []string{R(2), R(9), R(65536), F(4), F(65536)}
			for a := 0; a < len(kinds)*len(kinds)*len(kinds)*len(kinds); a++ {
				c1, c2, c3, c4 := kinds[a%5], kinds[a/5%5], kinds[a/25%5], kinds[a/125%5]
				if a%2 == 0 {
					mix(suite, role, 64, 3, 8, []string{"+g1", "+g2", "+g3", "+q", c1, c2, c3, c4, R(65536), F(65536)})
				} else {
					mix(suite, role, 64, 3, 8, []string{"+g1", c1, "+g2", c2, "+f2", "+g3", c3, "+q", c4, R(65536), F(65536)})
				}
			}
		}
	}

	// 6. random scripts
	n := 1200 * o.Scale
	if o.Tier == "thorough" {
		n = 40000 * o.Scale
	}
	for i := 0; i < n; i++ {
		path := hx.Pick(r, []string{"readfrom", "read", "mix"})
		suite := hx.Pick(r, []string{"gcm", "cbc"})
		role := hx.Pick(r, []string{"server", "client"})
		cfg := hx.Pick(r, []int{0, 0, 16, 32, 33, 48, 64, 64, 65, 100, 128, 160})
		k := 10 + r.Intn(40)
		if r.Chance(40) {
			k = 100 + r.Intn(100)
		}
		ln := 10 + r.Intn(50)
		extra := ""
		if r.Chance(30) { // the sender skips ahead once or twice, to the neighbourhood of a byte boundary
			j1 := 1 + r.Intn(k)
			b := hx.Pick(r, []uint64{1 << 8, 1 << 16, 1 << 24, 1 << 32, 1 << 32, 1 << 40, 1<<48 - 400})
			n1 := b + uint64(r.Intn(k))
			if back := uint64(r.Intn(2 * k)); back < n1 {
				n1 -= back
			}
			if n1 < uint64(j1)+1 {
				n1 = uint64(j1) + 1
			}
			extra = fmt.Sprintf("skip=%d.%d", j1, n1)
			if r.Chance(30) && j1 < k {
				j2 := j1 + 1 + r.Intn(k-j1)
				extra += fmt.Sprintf(",%d.%d", j2, n1+uint64(j2-j1)+uint64(hx.Pick(r, []int{1, 31, 63, 64, 65, 1000, 1 << 20, 1 << 33})))
			}
			if n1+uint64(k)+(1<<34) >= 1<<48 {
				extra = fmt.Sprintf("skip=%d.%d", j1, n1) // stay inside the 48 bits
			}
		}
		var sc []string
		cur := 1 + r.Intn(k)
		item := func(j int) string {
			switch x := r.Intn(100); {
			case x < 40: // next ones, roughly in order
				cur = min(k, cur+1+r.Intn(2))
				return fmt.Sprintf("g%d", cur)
			case x < 60: // an older one (maybe a replay)
				return fmt.Sprintf("g%d", max(1, cur-r.Intn(140)))
			case x < 70 && len(sc) > 0: // exact replay of something delivered before
				prev := sc[r.Intn(len(sc))]
				if prev[0] != 'R' && prev[0] != 'F' {
					return strings.TrimPrefix(prev, "+")
				}
				return fmt.Sprintf("g%d", cur)
			case x < 73:
				cur = min(k, cur+hx.Pick(r, []int{31, 32, 33, 63, 64, 65, 100}))
				return fmt.Sprintf("g%d", cur)
			case x < 75 && j > ln/2:
				return "q"
			default:
				return forged(r, hx.Pick(r, forgeKinds), 1+r.Intn(k), k)
			}
		}
		burst := func(pfx string) { // now and then a long run of forgeries
			if r.Chance(3) {
				kind := hx.Pick(r, forgeKinds)
				for b := 10 + r.Intn(40); b > 0; b-- {
					sc = append(sc, pfx+forged(r, kind, 1+r.Intn(k), k))
				}
			}
		}
		if path != "mix" {
			for j := 0; j < ln; j++ {
				sc = append(sc, item(j))
				burst("")
			}
		} else {
			extra = strings.TrimSpace(extra + fmt.Sprintf(" plen=%d", hx.Pick(r, []int{5, 5, 12, 40, 200})))
			sizes := []int{1, 2, 3, 5, 7, 16, 64, 65536, 65536}
			for j := 0; j < ln; j++ {
				switch x := r.Intn(100); {
				case x < 50:
					sc = append(sc, "+"+item(j))
					burst("+")
				case x < 78:
					sc = append(sc, R(hx.Pick(r, sizes)))
				default:
					sc = append(sc, F(hx.Pick(r, sizes)))
				}
			}
			// drain what is left
			sc = append(sc, R(65536), F(65536), R(65536))
		}
		if extra != "" {
			lineX(path, suite, role, cfg, k, extra, sc)
			continue
		}
		line(path, suite, role, cfg, k, sc)
	}

	// 7. connections governed by a per-client Config: the listener's Config (ReplayWindow = base)
	// has a GetConfigForClient that answers with a Config whose ReplayWindow (= cfg) differs — the
	// window that guards application data must have the size of the Config that governs the
	// connection. Deep reordering of genuine records up to and beyond both sizes, then replays.
	// (Own random stream, after everything else: the cases above do not move.)
	clampW := func(v int) int {
		if v <= 0 {
			v = 64
		}
		return min(64, max(32, v))
	}
	pcPairs := [][2]int{{32, 64}, {64, 32}, {32, 0}, {0, 32}, {48, 64}, {64, 48}, {32, 48}, {128, 32}, {32, 128}, {16, 64}, {64, 16}, {33, 63}, {40, 40}}
	if o.Tier == "thorough" {
		for _, b := range []int{0, 1, 31, 32, 33, 47, 48, 63, 64, 65, 100, 160} {
			for _, p := range []int{0, 1, 31, 32, 33, 47, 48, 63, 64, 65, 100, 160} {
				pcPairs = append(pcPairs, [2]int{b, p})
			}
		}
	}
	r7 := hx.NewRand(o.Seed + 7716)
	for pi, bp := range pcPairs {
		base, per := bp[0], bp[1]
		pcw := fmt.Sprintf("pcw=%d", base)
		wb, wp := clampW(base), clampW(per)
		for si, suite := range []string{"gcm", "cbc"} {
			for pj, path := range []string{"readfrom", "read"} {
				if o.Tier != "thorough" && (pi+si+pj)%2 == 1 {
					continue
				}
				// newest first, then never-seen records at the boundary distances of both sizes,
				// farthest first and nearest first; then every one of them again
				edge := 135
				dists := []int{1, 31, 32, 33, 47, 48, 49, 62, 63, 64, 65, wb - 1, wb, wb + 1, wp - 1, wp, wp + 1}
				sc := []string{fmt.Sprintf("g%d", edge)}
				for j, d := range dists {
					if (pi+si)%2 == 1 {
						d = dists[len(dists)-1-j]
					}
					sc = append(sc, fmt.Sprintf("g%d", edge-d))
				}
				sc = append(sc, fmt.Sprintf("f%d", edge-40), fmt.Sprintf("g%d", edge-40), fmt.Sprintf("g%d", edge))
				for _, d := range dists {
					sc = append(sc, fmt.Sprintf("g%d", edge-d))
				}
				// the edge moves by a few, the far end of the window follows
				sc = append(sc, fmt.Sprintf("g%d", edge+3), fmt.Sprintf("g%d", edge+3-wp), fmt.Sprintf("g%d", edge+4-wp), fmt.Sprintf("g%d", edge+4-wb), fmt.Sprintf("g%d", edge+2), "q", fmt.Sprintf("g%d", edge+1))
				lineX(path, suite, "server", per, 140, pcw, sc)
				// a short exchange delivered back to front
				lineX(path, suite, "server", per, 55, pcw, []string{"g50", "g30", "g19", "g18", "g17", "g10", "g1", "g50", "g30", "g18", "g10", "g1", "g51", "g2", "q"})
			}
			if o.Tier != "thorough" && (pi+si)%2 == 0 {
				continue
			}
			// both APIs, the reordered records waiting in the socket
			lineX("mix", suite, "server", per, 70, pcw+" plen=9", []string{"+g70", "+g30", "+g7", "R4", "F65536", "R65536", "R65536", "+g38", "+g39", "+g6", "+g30", "F3", "R65536", "F65536", "+g8", "+g70", "+q", "R65536", "R65536"})
		}
		// random deep reordering
		nr := 2 * o.Scale
		if o.Tier == "thorough" {
			nr = 6 * o.Scale
		}
		for i := 0; i < nr; i++ {
			path := hx.Pick(r7, []string{"readfrom", "read"})
			suite := hx.Pick(r7, []string{"gcm", "cbc"})
			k := 80 + r7.Intn(100)
			cur := 66 + r7.Intn(k-66)
			sc := []string{fmt.Sprintf("g%d", cur)}
			for j := 10 + r7.Intn(40); j > 0; j-- {
				switch x := r7.Intn(100); {
				case x < 55: // behind the newest, around both sizes
					d := hx.Pick(r7, []int{wb, wp, wb, wp, 32, 48, 64}) - 3 + r7.Intn(6)
					if r7.Chance(30) {
						d = r7.Intn(70)
					}
					sc = append(sc, fmt.Sprintf("g%d", max(1, cur-d)))
				case x < 70:
					cur = min(k, cur+1+r7.Intn(3))
					sc = append(sc, fmt.Sprintf("g%d", cur))
				case x < 85:
					sc = append(sc, sc[r7.Intn(len(sc))])
				default:
					sc = append(sc, forged(r7, hx.Pick(r7, forgeKinds), 1+r7.Intn(k), k))
				}
			}
			lineX(path, suite, "server", per, k, pcw, sc)
		}
	}
}

package main

// The two stacks behind the `link` abstraction: in-memory transports of package pair, the
// library's real client and server, and (TLCP) the scripted server of tlcp/verif_script.go.

import (
	"crypto"
	"crypto/rand"
	"crypto/rsa"
	"fmt"
	"sync"
	"time"

	"github.com/emmansun/gmsm/smx509"

	"gitee.com/Trisia/gotlcp/dtlcp"
	"gitee.com/Trisia/gotlcp/tlcp"
	"verifharness/internal/pair"
	"verifharness/internal/pki"
)

func isRSA(k crypto.PublicKey) bool { _, ok := k.(*rsa.PublicKey); return ok }

func randRead(p []byte) (int, error) { return rand.Read(p) }

func newCaches(stack string) (client, server any) {
	if stack == "dtlcp" {
		return dtlcp.NewLRUSessionCache(8), dtlcp.NewLRUSessionCache(8)
	}
	return tlcp.NewLRUSessionCache(8), tlcp.NewLRUSessionCache(8)
}

// raceCache: a client SessionCache (the built-in LRU behind a thin wrapper, supplied through
// the public Config) with which the driver plays the other users of a shared cache: they store
// enough sessions of their own to make the LRU evict everything it held — now, or at the moment
// a lookup of the client has just been answered (after SessionCache.Get returned the session,
// before the caller does anything with it).
type raceCache interface {
	evictAll()
	armWindow()
	resetStats()
	stats() (hit, fired bool) // a lookup of the client found a session / the armed eviction happened
	sessionMaster() []byte    // master secret of the most recently stored session (copy)
}

const raceCapacity = 4

type raceCore struct {
	mu         sync.Mutex
	armed      bool
	hit, fired bool
	fillers    int
}

func (r *raceCore) armWindow()               { r.mu.Lock(); r.armed = true; r.mu.Unlock() }
func (r *raceCore) resetStats()              { r.mu.Lock(); r.hit, r.fired = false, false; r.mu.Unlock() }
func (r *raceCore) stats() (hit, fired bool) { r.mu.Lock(); defer r.mu.Unlock(); return r.hit, r.fired }

// looked: a lookup was answered; reports whether the armed eviction is due now
func (r *raceCore) looked(found bool) (evict bool) {
	r.mu.Lock()
	defer r.mu.Unlock()
	if !found {
		return false
	}
	r.hit = true
	if r.armed {
		r.armed, r.fired = false, true
		return true
	}
	return false
}

func (r *raceCore) nextFillers() (from int) {
	r.mu.Lock()
	defer r.mu.Unlock()
	from = r.fillers
	r.fillers += raceCapacity
	return from
}

func newRaceCache(stack string) (cache any, rc raceCache) {
	if stack == "dtlcp" {
		c := &dRaceCache{inner: dtlcp.NewLRUSessionCache(raceCapacity)}
		return dtlcp.SessionCache(c), c
	}
	c := &tRaceCache{inner: tlcp.NewLRUSessionCache(raceCapacity)}
	return tlcp.SessionCache(c), c
}

type tRaceCache struct {
	raceCore
	inner tlcp.SessionCache
}

func (c *tRaceCache) Get(k string) (*tlcp.SessionState, bool) {
	s, ok := c.inner.Get(k)
	if c.looked(ok && s != nil) {
		c.evictAll()
	}
	return s, ok
}
func (c *tRaceCache) Put(k string, s *tlcp.SessionState) { c.inner.Put(k, s) }
func (c *tRaceCache) evictAll() {
	from := c.nextFillers()
	for i := from; i < from+raceCapacity; i++ {
		c.inner.Put(fmt.Sprintf("198.51.100.%d:443", i), tlcp.VerifNewSessionState(1000+i))
	}
}
func (c *tRaceCache) sessionMaster() []byte {
	s, ok := c.inner.Get("")
	if !ok || s == nil {
		return nil
	}
	_, _, _, m, _ := tlcp.VerifSessionInfo(s)
	return append([]byte(nil), m...)
}

type dRaceCache struct {
	raceCore
	inner dtlcp.SessionCache
}

func (c *dRaceCache) Get(k string) (*dtlcp.SessionState, bool) {
	s, ok := c.inner.Get(k)
	if c.looked(ok && s != nil) {
		c.evictAll()
	}
	return s, ok
}
func (c *dRaceCache) Put(k string, s *dtlcp.SessionState) { c.inner.Put(k, s) }
func (c *dRaceCache) evictAll() {
	from := c.nextFillers()
	for i := from; i < from+raceCapacity; i++ {
		c.inner.Put(fmt.Sprintf("198.51.100.%d:443", i), dtlcp.VerifNewSessionState(1000+i))
	}
}
func (c *dRaceCache) sessionMaster() []byte {
	s, ok := c.inner.Get("")
	if !ok || s == nil {
		return nil
	}
	_, _, _, m, _ := dtlcp.VerifSessionInfo(s)
	return append([]byte(nil), m...)
}

// ---------------------------------------------------------------------------- TLCP

type tLink struct{ ce, se *pair.StreamEnd }

func newTLink() *tLink { ce, se := pair.StreamPipe(); return &tLink{ce, se} }

func tCerts(kps []keyPair) []tlcp.Certificate {
	var out []tlcp.Certificate
	for _, kp := range kps {
		out = append(out, tlcp.Certificate{Certificate: [][]byte{kp.der}, PrivateKey: kp.key})
	}
	return out
}

func (l *tLink) client(cfg clientCfg) (endpoint, func() connState) {
	c := &tlcp.Config{RootCAs: cfg.tweak.rootPool(), ServerName: cfg.tweak.name, Time: cfg.tweak.now,
		InsecureSkipVerify: cfg.tweak.skip, CipherSuites: []uint16{cfg.suite}, Certificates: tCerts(cfg.certs)}
	if cfg.cache != nil {
		c.SessionCache = cfg.cache.(tlcp.SessionCache)
	}
	if vpc, vc := cbFuncs(cfg.cb); vpc != nil || vc != nil {
		if vpc != nil {
			c.VerifyPeerCertificate = func([][]byte, [][]*smx509.Certificate) error { return vpc() }
		}
		if vc != nil {
			c.VerifyConnection = func(tlcp.ConnectionState) error { return vc() }
		}
	}
	if cfg.rnd != nil {
		c.Rand = cfg.rnd
	}
	conn := tlcp.Client(l.ce, c)
	return conn, func() connState {
		st := conn.ConnectionState()
		return connState{complete: st.HandshakeComplete, resumed: st.DidResume}
	}
}

func (l *tLink) serverConfig(cfg serverCfg) *tlcp.Config {
	c := &tlcp.Config{Certificates: tCerts(cfg.certs), CipherSuites: []uint16{cfg.suite},
		ClientCAs: pki.Std().Root.Pool, Time: pki.NowFn}
	if cfg.cache != nil {
		c.SessionCache = cfg.cache.(tlcp.SessionCache)
	}
	if r := newLogRand(cfg.rnd); r != nil {
		c.Rand = r
	}
	return c
}

func (l *tLink) server(cfg serverCfg) endpoint { return tlcp.Server(l.se, l.serverConfig(cfg)) }

func (l *tLink) wire() (c2s, s2c flightView) {
	return parseStream(l.ce.SentBytes()), parseStream(l.se.SentBytes())
}

func (l *tLink) injectToClient(p []byte) {
	rec := append([]byte{recAppData, 0x01, 0x01, byte(len(p) >> 8), byte(len(p))}, p...)
	l.se.Inject(rec)
}

func (l *tLink) closeBoth() { l.ce.Close(); l.se.Close() }

type tScript struct{ s *tlcp.VerifScript }

func (l *tLink) scriptServer(cfg serverCfg) scriptPeer {
	return &tScript{tlcp.NewVerifScript("server", l.se, l.serverConfig(cfg))}
}

func (t *tScript) ReadKind() (string, error) {
	ev, err := t.s.ReadMsg()
	return ev.Kind, err
}

func (t *tScript) Send(kind string, o scriptOpts) error {
	return t.s.Send(kind, &tlcp.VerifSendOpts{Body: o.Body, Raw: o.Raw, Mutate: o.Mutate,
		Certificates: o.Certificates, EmptyCerts: o.EmptyCerts, SignKey: o.SignKey,
		SignClientRandom: o.SignClientRandom, SignServerRandom: o.SignServerRandom, SignEncCert: o.SignEncCert})
}
func (t *tScript) SendCCS() error             { return t.s.SendCCS() }
func (t *tScript) SendAppData(p []byte) error { return t.s.SendAppData(p) }
func (t *tScript) PeerFinishedOK() bool       { return t.s.PeerFinishedOK }
func (t *tScript) GuessPreMaster(n int, cand func(int) []byte) int {
	return t.s.GuessPreMaster(n, cand)
}
func (t *tScript) WriteProtected() bool     { return t.s.WriteProtected() }
func (t *tScript) HasMaster() bool          { return len(t.s.Master()) > 0 }
func (t *tScript) HeaderLen() int           { return 4 }
func (t *tScript) OfferedSessionID() []byte { return t.s.OfferedSessionID() }
func (t *tScript) SetResumeMaster(m []byte) { t.s.ResumeMaster = m }
func (t *tScript) Master() []byte           { return t.s.Master() }

// ---------------------------------------------------------------------------- DTLCP

type dLink struct{ ce, se *pair.PacketEnd }

func newDLink() *dLink { ce, se := pair.PacketPipe(); return &dLink{ce, se} }

func dCerts(kps []keyPair) []dtlcp.Certificate {
	var out []dtlcp.Certificate
	for _, kp := range kps {
		out = append(out, dtlcp.Certificate{Certificate: [][]byte{kp.der}, PrivateKey: kp.key})
	}
	return out
}

// The in-memory datagram pipe loses nothing, so no case needs a retransmission; a long timer
// keeps a loaded machine from making the real endpoint retransmit in the middle of a scripted
// case (a repeated flight would enter the scripted server's transcript).
const dRetransmit = time.Hour

func (l *dLink) client(cfg clientCfg) (endpoint, func() connState) {
	c := &dtlcp.Config{RootCAs: cfg.tweak.rootPool(), ServerName: cfg.tweak.name, Time: cfg.tweak.now,
		InsecureSkipVerify: cfg.tweak.skip, CipherSuites: []uint16{cfg.suite}, Certificates: dCerts(cfg.certs),
		InitialRetransmitTimeout: dRetransmit, MaxRetransmitTimeout: dRetransmit}
	if cfg.cache != nil {
		c.SessionCache = cfg.cache.(dtlcp.SessionCache)
	}
	if vpc, vc := cbFuncs(cfg.cb); vpc != nil || vc != nil {
		if vpc != nil {
			c.VerifyPeerCertificate = func([][]byte, [][]*smx509.Certificate) error { return vpc() }
		}
		if vc != nil {
			c.VerifyConnection = func(dtlcp.ConnectionState) error { return vc() }
		}
	}
	if cfg.rnd != nil {
		c.Rand = cfg.rnd
	}
	conn := dtlcp.Client(l.ce, l.se.LocalAddr(), c)
	return conn, func() connState {
		st := conn.ConnectionState()
		return connState{complete: st.HandshakeComplete, resumed: st.DidResume}
	}
}

func (l *dLink) serverConfig(cfg serverCfg) *dtlcp.Config {
	c := &dtlcp.Config{Certificates: dCerts(cfg.certs), CipherSuites: []uint16{cfg.suite},
		ClientCAs: pki.Std().Root.Pool, Time: pki.NowFn, InitialRetransmitTimeout: dRetransmit, MaxRetransmitTimeout: dRetransmit}
	if cfg.cache != nil {
		c.SessionCache = cfg.cache.(dtlcp.SessionCache)
	}
	if r := newLogRand(cfg.rnd); r != nil {
		c.Rand = r
	}
	return c
}

func (l *dLink) server(cfg serverCfg) endpoint {
	return dtlcp.Server(l.se, l.ce.LocalAddr(), l.serverConfig(cfg))
}

func (l *dLink) wire() (c2s, s2c flightView) {
	return parseDatagrams(l.ce.SentCopy()), parseDatagrams(l.se.SentCopy())
}

func (l *dLink) injectToClient(p []byte) {
	rec := append([]byte{recAppData, 0x01, 0x01, 0, 0, 0, 0, 0, 0, 0, 99, byte(len(p) >> 8), byte(len(p))}, p...)
	l.ce.Deliver(rec, l.se.LocalAddr())
}

func (l *dLink) closeBoth() { l.ce.Close(); l.se.Close() }

package main

// Independent reading of what went over the wire (written from GB/T 38636-2020 and the DTLS
// record/handshake framing, not from the library under test): the two hello randoms, the
// certificate list, the ServerKeyExchange body, and whether the server produced a
// ChangeCipherSpec followed by a (protected) handshake record. The driver uses it to compute
// the verdicts of the case line with the real crypto library, without asking the client.

import (
	"crypto/ecdsa"
	"crypto/rand"

	"github.com/emmansun/gmsm/ecdh"
	"github.com/emmansun/gmsm/sm2"
	"github.com/emmansun/gmsm/smx509"
)

const (
	recCCS       = 20
	recAlert     = 21
	recHandshake = 22
	recAppData   = 23

	hsClientHello       = 1
	hsServerHello       = 2
	hsCertificate       = 11
	hsServerKeyExchange = 12
	hsCertificateReq    = 13
	hsServerHelloDone   = 14
	hsClientKeyExchange = 16
)

type hsMsg struct {
	typ  byte
	body []byte
}

// flightView is what one direction of a handshake showed before its ChangeCipherSpec.
type flightView struct {
	msgs        []hsMsg
	ccs         bool // a ChangeCipherSpec record was written
	hsAfterCCS  bool // … followed by at least one handshake record (the Finished)
	alertBefore bool // an alert record was written before any ChangeCipherSpec
}

func (f *flightView) last(typ byte) *hsMsg {
	for i := len(f.msgs) - 1; i >= 0; i-- {
		if f.msgs[i].typ == typ {
			return &f.msgs[i]
		}
	}
	return nil
}

func (f *flightView) has(typ byte) bool { return f.last(typ) != nil }

// parseStream reads TLCP records (5-byte header) from the concatenation of one end's writes.
func parseStream(data []byte) flightView {
	var f flightView
	var hand []byte
	for len(data) >= 5 {
		typ := data[0]
		n := int(data[3])<<8 | int(data[4])
		if len(data) < 5+n {
			break
		}
		payload := data[5 : 5+n]
		data = data[5+n:]
		switch {
		case typ == recCCS:
			f.ccs = true
		case typ == recHandshake && f.ccs:
			f.hsAfterCCS = true
		case typ == recHandshake:
			hand = append(hand, payload...)
		case typ == recAlert && !f.ccs:
			f.alertBefore = true
		}
	}
	for len(hand) >= 4 {
		n := int(hand[1])<<16 | int(hand[2])<<8 | int(hand[3])
		if len(hand) < 4+n {
			break
		}
		f.msgs = append(f.msgs, hsMsg{typ: hand[0], body: append([]byte(nil), hand[4:4+n]...)})
		hand = hand[4+n:]
	}
	return f
}

// parseDatagrams reads DTLCP records (13-byte header: type, version, epoch, 48-bit sequence
// number, length) and reassembles epoch-0 handshake fragments (12-byte header: type, length,
// message_seq, fragment_offset, fragment_length) by message_seq.
func parseDatagrams(dgrams [][]byte) flightView {
	var f flightView
	type asm struct {
		typ  byte
		buf  []byte
		have []bool
	}
	bySeq := map[int]*asm{}
	var order []int
	for _, d := range dgrams {
		for len(d) >= 13 {
			typ := d[0]
			epoch := int(d[3])<<8 | int(d[4])
			n := int(d[11])<<8 | int(d[12])
			if len(d) < 13+n {
				break
			}
			payload := d[13 : 13+n]
			d = d[13+n:]
			switch {
			case typ == recCCS:
				f.ccs = true
			case typ == recHandshake && epoch > 0:
				f.hsAfterCCS = true
			case typ == recAlert && epoch == 0:
				f.alertBefore = true
			case typ == recHandshake:
				for len(payload) >= 12 {
					ht := payload[0]
					total := int(payload[1])<<16 | int(payload[2])<<8 | int(payload[3])
					seq := int(payload[4])<<8 | int(payload[5])
					off := int(payload[6])<<16 | int(payload[7])<<8 | int(payload[8])
					fl := int(payload[9])<<16 | int(payload[10])<<8 | int(payload[11])
					if len(payload) < 12+fl || off+fl > total {
						payload = nil
						break
					}
					a := bySeq[seq]
					if a == nil || a.typ != ht || len(a.buf) != total {
						a = &asm{typ: ht, buf: make([]byte, total), have: make([]bool, total)}
						if bySeq[seq] == nil {
							order = append(order, seq)
						}
						bySeq[seq] = a
					}
					copy(a.buf[off:], payload[12:12+fl])
					for i := off; i < off+fl; i++ {
						a.have[i] = true
					}
					payload = payload[12+fl:]
				}
			}
		}
	}
	for _, seq := range order {
		a := bySeq[seq]
		complete := true
		for _, h := range a.have {
			complete = complete && h
		}
		if complete {
			f.msgs = append(f.msgs, hsMsg{typ: a.typ, body: a.buf})
		}
	}
	return f
}

// helloRandom: both hellos start with version(2) random(32).
func helloRandom(m *hsMsg) []byte {
	if m == nil || len(m.body) < 34 {
		return nil
	}
	return m.body[2:34]
}

// certList: opaque ASN.1Cert<1..2^24-1> certificate_list<0..2^24-1>
func certList(m *hsMsg) (ders [][]byte, ok bool) {
	if m == nil || len(m.body) < 3 {
		return nil, false
	}
	b := m.body
	total := int(b[0])<<16 | int(b[1])<<8 | int(b[2])
	b = b[3:]
	if total != len(b) {
		return nil, false
	}
	for len(b) > 0 {
		if len(b) < 3 {
			return nil, false
		}
		n := int(b[0])<<16 | int(b[1])<<8 | int(b[2])
		if len(b) < 3+n {
			return nil, false
		}
		ders = append(ders, b[3:3+n])
		b = b[3+n:]
	}
	return ders, true
}

// skxParts splits a ServerKeyExchange body per 6.4.5.4:
//
//	ECC  : opaque signed_params<1..2^16-1>                       (signature over cr ‖ sr ‖ ASN.1Cert enc)
//	ECDHE: ServerECDHParams params; opaque signed_params<1..2^16-1> (signature over cr ‖ sr ‖ params)
//
// wellFormed = framing exact, signature non-empty, and (ECDHE) named curve + a point that is on
// the SM2 curve.
func skxParts(ecdhe bool, body []byte) (params, sig []byte, wellFormed bool) {
	rest := body
	if ecdhe {
		if len(rest) < 4 {
			return nil, nil, false
		}
		pl := int(rest[3])
		if len(rest) < 4+pl {
			return nil, nil, false
		}
		params = rest[:4+pl]
		rest = rest[4+pl:]
		if params[0] != 3 || pl == 0 {
			return params, nil, false
		}
		if _, err := ecdh.P256().NewPublicKey(params[4:]); err != nil {
			return params, nil, false
		}
	}
	if len(rest) < 2 {
		return params, nil, false
	}
	n := int(rest[0])<<8 | int(rest[1])
	if n == 0 || len(rest) != 2+n {
		return params, nil, false
	}
	return params, rest[2:], true
}

// skxSignatureValid verifies, with the real SM2 implementation, the ServerKeyExchange signature
// with the key of the FIRST certificate presented over client_random ‖ server_random ‖
// (length-prefixed SECOND certificate | ServerECDHParams).
func skxSignatureValid(ecdhe bool, crand, srand []byte, ders [][]byte, body []byte) (wellFormed, valid bool) {
	params, sig, wf := skxParts(ecdhe, body)
	if !wf || len(ders) < 2 || len(crand) != 32 || len(srand) != 32 {
		return wf, false
	}
	c0, err := smx509.ParseCertificate(ders[0])
	if err != nil {
		return wf, false
	}
	pub, ok := c0.PublicKey.(*ecdsa.PublicKey)
	if !ok {
		return wf, false
	}
	tbs := append(append([]byte(nil), crand...), srand...)
	if ecdhe {
		tbs = append(tbs, params...)
	} else {
		n := len(ders[1])
		tbs = append(tbs, byte(n>>16), byte(n>>8), byte(n))
		tbs = append(tbs, ders[1]...)
	}
	defer func() {
		if recover() != nil {
			valid = false
		}
	}()
	return wf, sm2.VerifyASN1WithSM2(pub, nil, tbs, sig)
}

// keyKind: the dynamic type of the certificate's public key as Go's type switches see it.
func keyKind(c *smx509.Certificate) string {
	switch c.PublicKey.(type) {
	case *ecdsa.PublicKey:
		return "ecdsa"
	default:
		if isRSA(c.PublicKey) {
			return "rsa"
		}
		return "other"
	}
}

// clientKexWouldWork: can the client perform its public-key operation with the second
// certificate's key (ECC: SM2 encryption of 48 bytes; ECDHE: conversion to an SM2 ECDH key)?
func clientKexWouldWork(ecdhe bool, c *smx509.Certificate) (ok bool) {
	defer func() {
		if recover() != nil {
			ok = false
		}
	}()
	pub, isEC := c.PublicKey.(*ecdsa.PublicKey)
	if !isEC {
		return false
	}
	if ecdhe {
		_, err := sm2.PublicKeyToECDH(pub)
		return err == nil
	}
	_, err := sm2.Encrypt(rand.Reader, pub, make([]byte, 48), sm2.ASN1EncrypterOpts)
	return err == nil
}

// Driver for C02 (a verifying client completes only with an authenticated server).
//
// Runs the REAL client of both stacks against every impostor of the property's catalogue and
// writes one line per connection:
//
//	stack=.. suite=.. scen=.. skip=0|1 [cb=<p><c>] peer=real|script <verdict vector> => client=completed|failed(<class>) resumed=0|1 hs_complete=0|1 read=<n>
//
// `cb`: the optional user callbacks of the client's Config — VerifyPeerCertificate <p> and
// VerifyConnection <c>, each `-` (nil), `a` (installed, accepts everything: the callback of an
// application that adds a policy of its own and has no objection) or `r` (installed, refuses).
// Omitted when neither is installed.  The property gives a callback no power to excuse anything:
// the verdict vector, and with it the spec's judgement, is the same whatever the callbacks say.
//
// The verdict vector is computed by the driver with the real libraries from what went over
// the wire and from the scenario's construction — never by asking the client:
//
//	certmsg ncerts parse c0=<kind>:<chainOK>:<id> c1=…    certificates presented; chainOK = smx509 Verify
//	                                                      with the client's RootCAs / Time() / ServerName
//	skx=0|1 wf sigvalid                                   ServerKeyExchange present / well formed / its signature
//	                                                      verifies (real SM2) with c0's key over THIS handshake's
//	                                                      client random ‖ server random ‖ (c1 | ECDH params)
//	signer scr ssr sparams intact                         what the signature really covers (scenario ground truth)
//	creq clienc done ckx fin                              CertificateRequest sent, client has an encryption key
//	                                                      pair, ServerHelloDone sent, client's public-key operation
//	                                                      possible, the server produced a correct Finished
//	sess=<n>:<chainSigNow>:<chainEncNow>|none sresume sfin  cached session (certificates recorded with it, verified
//	                                                      under the configuration NOW in use), server echoed the id
//	sevict=none|window|afterload psecret=…                (resumption impostors only) when the client's cache evicted
//	                                                      the session relative to loadSession; the master secret the
//	                                                      peer computed its Finished with; sfin there = the peer sent
//	                                                      a Finished AND the secret it used equals, byte for byte, the
//	                                                      one of the session in the client's cache
//
//	enckey=0|1                                            the peer holds the private key that belongs to the
//	                                                      encryption certificate it presented (scenario ground truth,
//	                                                      checked by comparing public keys)
//
// `rand=<kind>`: Config.Rand of the client (and of the peer) is an io.Reader that is perfectly
// legal but does not fill the buffer in one call: `byte` one byte per call, `half` half of what was
// asked for, `stutter` zero-length reads alternating with one byte per call.  The reader logs what
// it hands out.  With it the line carries `pmsseen=0|1` (the driver found a ClientKeyExchange of an
// ECC suite on the wire and opened it with the private key of the presented encryption certificate,
// which the driver — not necessarily the peer — owns) and `rfirst=<k>|-` (bytes delivered by the
// first call that asked for the 46 random bytes of the pre-master secret); the observation carries
// `pms=<n>|-`: how many leading bytes of the 46 are a contiguous run of the reader's output.
//
// The Lean oracle predicts the observation from the vector (model) and judges
// "completed ⇒ Authenticated" (spec).
package main

import (
	"bytes"
	"crypto"
	"crypto/ecdsa"
	"errors"
	"fmt"
	"os"
	"runtime"
	"strings"
	"sync"
	"time"

	"github.com/emmansun/gmsm/sm2"
	"github.com/emmansun/gmsm/smx509"

	"verifharness/internal/hx"
	"verifharness/internal/pki"
)

// ---------------------------------------------------------------------------- catalogue

type suiteInfo struct {
	name  string
	id    uint16
	ecdhe bool
}

var suites = []suiteInfo{
	{"ecc-gcm", 0xe053, false},
	{"ecc-cbc", 0xe013, false},
	{"ecdhe-gcm", 0xe051, true},
	{"ecdhe-cbc", 0xe011, true},
}

func suiteByName(n string) (suiteInfo, bool) {
	for _, s := range suites {
		if s.name == n {
			return s, true
		}
	}
	return suiteInfo{}, false
}

// named leaves
var leaves map[string]*pki.Leaf
var leafOrder []string

func initLeaves() {
	s := pki.Std()
	leaves = map[string]*pki.Leaf{
		"srvsig": s.SrvSig, "srvenc": s.SrvEnc, "srv2sig": s.Srv2Sig, "srv2enc": s.Srv2Enc,
		"othsig": s.OtherSig, "othenc": s.OtherEnc, "expsig": s.ExpSig, "expenc": s.ExpEnc,
		"futsig": s.FutSig, "futenc": s.FutEnc, "namesig": s.NameSig, "nameenc": s.NameEnc,
		"p256sig": s.P256Sig, "p256enc": s.P256Enc, "rsaenc": s.RSAEnc, "edsig": s.EdSig,
		"root": &s.Root.Leaf, "clisig": s.CliSig, "clienc": s.CliEnc,
	}
	for k := range leaves {
		leafOrder = append(leafOrder, k)
	}
}

func leafName(der []byte) string {
	for k, l := range leaves {
		if bytes.Equal(l.DER, der) {
			return k
		}
	}
	return "unknown"
}

// scenario: one impostor (or the honest control) for a full handshake.
type scenario struct {
	name   string
	peer   string   // "real": the library's own server with an odd configuration; "script": scripted server
	chain  []string // leaves presented, in order
	sigKey string   // leaf whose PRIVATE key signs ServerKeyExchange ("" = chain[0])
	encKey string   // leaf whose PRIVATE key the server holds for key exchange ("" = chain[1])
	skx    string   // "" | omit | replay | old-crand | old-srand | other-cert | other-params | corrupt | empty | empty-sig | truncated
	fin    string   // "" | bad-tail | bad-head
	only   string   // "" | "ecc" | "ecdhe"
	group  string   // A | B
	// the Certificate message is not sent at all
	omitCert bool
	// Config.ServerName of the client when not the default DNS name (the documentation allows
	// "the DNS name or IP in the certificate")
	cname string
	// an impostor without the key-exchange private key that, instead of giving up, tries the
	// low-entropy pre-master secrets (version ‖ one unknown byte ‖ zeros, version ‖ one byte
	// repeated) against the client's Finished record
	guess bool
}

var catalogue = []scenario{
	// (A) real server with odd certificates
	{name: "honest", peer: "real", chain: []string{"srvsig", "srvenc"}, group: "A"},
	{name: "untrusted-ca", peer: "real", chain: []string{"othsig", "othenc"}, group: "A"},
	{name: "expired", peer: "real", chain: []string{"expsig", "expenc"}, group: "A"},
	{name: "not-yet-valid", peer: "real", chain: []string{"futsig", "futenc"}, group: "A"},
	{name: "wrong-name", peer: "real", chain: []string{"namesig", "nameenc"}, group: "A"},
	{name: "swapped", peer: "real", chain: []string{"srvenc", "srvsig"}, group: "A"},
	{name: "mixed-sig-trusted", peer: "real", chain: []string{"srvsig", "othenc"}, group: "A"},
	{name: "mixed-enc-trusted", peer: "real", chain: []string{"othsig", "srvenc"}, group: "A"},
	{name: "mixed-enc-expired", peer: "real", chain: []string{"srvsig", "expenc"}, group: "A"},
	{name: "mixed-sig-expired", peer: "real", chain: []string{"expsig", "srvenc"}, group: "A"},
	{name: "mixed-enc-wrong-name", peer: "real", chain: []string{"srvsig", "nameenc"}, group: "A"},
	{name: "mixed-sig-wrong-name", peer: "real", chain: []string{"namesig", "srvenc"}, group: "A"},
	{name: "mixed-enc-not-yet-valid", peer: "real", chain: []string{"srvsig", "futenc"}, group: "A"},
	{name: "other-identity", peer: "real", chain: []string{"srv2sig", "srv2enc"}, group: "A"},
	// the client is configured with an IP address as server name; the certificates are for a DNS name
	{name: "wrong-name-ipv4", peer: "real", chain: []string{"srvsig", "srvenc"}, group: "A", cname: "192.0.2.1"},
	{name: "wrong-name-ipv6", peer: "real", chain: []string{"srvsig", "srvenc"}, group: "A", cname: "[2001:db8::1]"},
	// (A, scripted because the library's server refuses to start with them)
	{name: "single-cert", peer: "script", chain: []string{"srvsig"}, group: "A"},
	{name: "single-cert-twice", peer: "script", chain: []string{"srvsig", "srvsig"}, group: "A"},
	{name: "no-cert", peer: "script", chain: []string{}, group: "A"},
	{name: "certificate-omitted", peer: "script", chain: []string{"srvsig", "srvenc"}, skx: "", fin: "", only: "", group: "A", omitCert: true},
	{name: "with-root", peer: "script", chain: []string{"srvsig", "srvenc", "root"}, group: "A"},
	{name: "foreign-sig-p256", peer: "script", chain: []string{"p256sig", "srvenc"}, sigKey: "srv2sig", group: "A"},
	{name: "foreign-sig-ed25519", peer: "script", chain: []string{"edsig", "srvenc"}, sigKey: "srv2sig", group: "A"},
	{name: "foreign-enc-rsa", peer: "script", chain: []string{"srvsig", "rsaenc"}, encKey: "srvenc", group: "A"},
	{name: "foreign-enc-p256", peer: "script", chain: []string{"srvsig", "p256enc"}, encKey: "srvenc", group: "A"},
	// (B) proofs of possession
	{name: "skx-other-key", peer: "real", chain: []string{"srvsig", "srvenc"}, sigKey: "srv2sig", group: "B"},
	{name: "skx-signed-by-enc-key", peer: "real", chain: []string{"srvsig", "srvenc"}, sigKey: "srvenc", group: "B"},
	{name: "no-enc-key", peer: "real", chain: []string{"srvsig", "srvenc"}, encKey: "srv2enc", group: "B"},
	{name: "script-honest", peer: "script", chain: []string{"srvsig", "srvenc"}, group: "B"},
	{name: "script-skx-other-key", peer: "script", chain: []string{"srvsig", "srvenc"}, sigKey: "othsig", group: "B"},
	{name: "script-no-enc-key", peer: "script", chain: []string{"srvsig", "srvenc"}, encKey: "srv2enc", group: "B"},
	{name: "script-no-enc-key-guess", peer: "script", chain: []string{"srvsig", "srvenc"}, encKey: "srv2enc", guess: true, only: "ecc", group: "B"},
	{name: "script-untrusted-no-enc-key-guess", peer: "script", chain: []string{"othsig", "srvenc"}, encKey: "srv2enc", guess: true, only: "ecc", group: "B"},
	{name: "skx-omitted", peer: "script", chain: []string{"srvsig", "srvenc"}, skx: "omit", group: "B"},
	{name: "skx-omitted-no-sig-key", peer: "script", chain: []string{"srvsig", "srvenc"}, sigKey: "othsig", skx: "omit", group: "B"},
	{name: "skx-replayed", peer: "script", chain: []string{"srvsig", "srvenc"}, skx: "replay", group: "B"},
	{name: "skx-old-client-random", peer: "script", chain: []string{"srvsig", "srvenc"}, skx: "old-crand", group: "B"},
	{name: "skx-old-server-random", peer: "script", chain: []string{"srvsig", "srvenc"}, skx: "old-srand", group: "B"},
	{name: "skx-other-cert", peer: "script", chain: []string{"srvsig", "srvenc"}, skx: "other-cert", only: "ecc", group: "B"},
	{name: "skx-other-params", peer: "script", chain: []string{"srvsig", "srvenc"}, skx: "other-params", only: "ecdhe", group: "B"},
	{name: "skx-corrupted", peer: "script", chain: []string{"srvsig", "srvenc"}, skx: "corrupt", group: "B"},
	{name: "skx-empty", peer: "script", chain: []string{"srvsig", "srvenc"}, skx: "empty", group: "B"},
	{name: "skx-empty-signature", peer: "script", chain: []string{"srvsig", "srvenc"}, skx: "empty-sig", group: "B"},
	{name: "skx-truncated", peer: "script", chain: []string{"srvsig", "srvenc"}, skx: "truncated", group: "B"},
	{name: "finished-bad-tail", peer: "script", chain: []string{"srvsig", "srvenc"}, fin: "bad-tail", group: "B"},
	{name: "finished-bad-head", peer: "script", chain: []string{"srvsig", "srvenc"}, fin: "bad-head", group: "B"},
	{name: "untrusted-and-skx-other-key", peer: "script", chain: []string{"othsig", "othenc"}, sigKey: "srvsig", group: "B"},
}

func scenarioByName(n string) (scenario, bool) {
	for _, s := range catalogue {
		if s.name == n {
			return s, true
		}
	}
	return scenario{}, false
}

// client configuration, abstract (both stacks)
type clientTweak struct {
	skip  bool
	roots string // "root" | "other" | "none"
	name  string // ServerName
	shift time.Duration
}

func (t clientTweak) rootPool() *smx509.CertPool {
	switch t.roots {
	case "root":
		return pki.Std().Root.Pool
	case "other":
		return pki.Std().Other.Pool
	case "empty":
		return smx509.NewCertPool()
	}
	return nil
}
func (t clientTweak) now() time.Time { return pki.Now.Add(t.shift) }

var defaultClient = clientTweak{roots: "root", name: "test.example"}

// history: (C) a session created under one client configuration and offered under another one
// sharing the cache.
type history struct {
	name          string
	chain         []string
	first, second clientTweak
}

const year = 365 * 24 * time.Hour

var histories = []history{
	{"same-config", []string{"srvsig", "srvenc"}, defaultClient, defaultClient},
	{"skip-then-skip", []string{"othsig", "othenc"}, clientTweak{skip: true, roots: "root", name: "test.example"}, clientTweak{skip: true, roots: "root", name: "test.example"}},
	{"skip-then-verify-untrusted", []string{"othsig", "othenc"}, clientTweak{skip: true, roots: "root", name: "test.example"}, defaultClient},
	{"skip-then-verify-empty-roots", []string{"srvsig", "srvenc"}, clientTweak{skip: true, roots: "root", name: "test.example"}, clientTweak{roots: "empty", name: "test.example"}},
	{"skip-then-verify-wrong-name", []string{"srvsig", "srvenc"}, clientTweak{skip: true, roots: "root", name: "test.example"}, clientTweak{roots: "root", name: "wrong.example"}},
	{"skip-then-verify-empty-roots-wrong-name", []string{"othsig", "othenc"}, clientTweak{skip: true}, clientTweak{roots: "empty", name: "wrong.example"}},
	{"skip-then-verify-good", []string{"srvsig", "srvenc"}, clientTweak{skip: true, roots: "root", name: "test.example"}, defaultClient},
	{"verify-then-moved-clock", []string{"srvsig", "srvenc"}, defaultClient, clientTweak{roots: "root", name: "test.example", shift: 10 * year}},
	{"verify-then-other-roots", []string{"srvsig", "srvenc"}, defaultClient, clientTweak{roots: "other", name: "test.example"}},
	{"verify-then-other-name", []string{"srvsig", "srvenc"}, defaultClient, clientTweak{roots: "root", name: "other.example"}},
	{"verify-then-skip", []string{"srvsig", "srvenc"}, defaultClient, clientTweak{skip: true, roots: "root", name: "test.example"}},
	{"skip-then-verify-mixed-enc-untrusted", []string{"srvsig", "othenc"}, clientTweak{skip: true, roots: "root", name: "test.example"}, defaultClient},
	{"skip-then-verify-mixed-sig-untrusted", []string{"othsig", "srvenc"}, clientTweak{skip: true, roots: "root", name: "test.example"}, defaultClient},
}

// named client configurations for the generated histories of the thorough tier
var tweaks = map[string]clientTweak{
	"verify":       defaultClient,
	"skip":         {skip: true, roots: "root", name: "test.example"},
	"empty-roots":  {roots: "empty", name: "test.example"},
	"other-roots":  {roots: "other", name: "test.example"},
	"wrong-name":   {roots: "root", name: "wrong.example"},
	"no-name":      {roots: "root", name: ""},
	"moved-clock":  {roots: "root", name: "test.example", shift: 10 * year},
	"early-clock":  {roots: "root", name: "test.example", shift: -10 * year},
	"skip-no-root": {skip: true},
}
var tweakOrder = []string{"verify", "skip", "empty-roots", "other-roots", "wrong-name", "no-name", "moved-clock", "early-clock", "skip-no-root"}
var genChains = [][]string{{"srvsig", "srvenc"}, {"othsig", "othenc"}, {"srvsig", "othenc"}, {"namesig", "srvenc"}, {"srvsig", "expenc"}}

// historyByName: a catalogue name, or a generated one `gen/<sig>+<enc>/<first>/<second>`.
func historyByName(n string) (history, bool) {
	for _, h := range histories {
		if h.name == n {
			return h, true
		}
	}
	if parts := strings.Split(n, "/"); len(parts) == 4 && parts[0] == "gen" {
		chain := strings.Split(parts[1], "+")
		t1, ok1 := tweaks[parts[2]]
		t2, ok2 := tweaks[parts[3]]
		if len(chain) == 2 && leaves[chain[0]] != nil && leaves[chain[1]] != nil && ok1 && ok2 {
			return history{n, chain, t1, t2}, true
		}
	}
	return history{}, false
}

// ---------------------------------------------------------------------------- cases

type caseDesc struct {
	stack, suite, scen string
	skip               bool
	cb                 string // "" = "--": no callback installed
	rnd                string // "" = Config.Rand nil (crypto/rand); else a kind of randKinds
}

func (c caseDesc) key() string {
	k := fmt.Sprintf("stack=%s suite=%s scen=%s skip=%s", c.stack, c.suite, c.scen, b01(c.skip))
	if c.cb != "" && c.cb != "--" {
		k += " cb=" + c.cb
	}
	if c.rnd != "" {
		k += " rand=" + c.rnd
	}
	return k
}

// ---------------------------------------------------------------------------- entropy sources

// randKinds: Config.Rand readers that are legal io.Readers (n <= len(p), nil error, progress
// within two calls) but never fill a buffer of more than one byte in one call.
var randKinds = []string{"byte", "half", "stutter"}

func validRand(k string) bool {
	if k == "" {
		return true
	}
	for _, x := range randKinds {
		if x == k {
			return true
		}
	}
	return false
}

// logRand hands out crypto/rand bytes in the manner of its kind and keeps what it handed out.
type logRand struct {
	mu      sync.Mutex
	kind    string
	calls   int
	out     []byte
	first46 int // bytes delivered by the first call that asked for 46 bytes; -1: no such call
}

func newLogRand(kind string) *logRand {
	if kind == "" {
		return nil
	}
	return &logRand{kind: kind, first46: -1}
}

func (r *logRand) Read(p []byte) (int, error) {
	r.mu.Lock()
	defer r.mu.Unlock()
	r.calls++
	n := len(p)
	switch r.kind {
	case "byte":
		if n > 1 {
			n = 1
		}
	case "half":
		n = (n + 1) / 2
	case "stutter":
		if r.calls%2 == 1 {
			n = 0
		} else if n > 1 {
			n = 1
		}
	}
	if _, err := randRead(p[:n]); err != nil {
		return 0, err
	}
	if len(p) == 46 && r.first46 < 0 {
		r.first46 = n
	}
	r.out = append(r.out, p[:n]...)
	return n, nil
}

// longestRun: the largest k such that want[:k] occurs as a contiguous run in stream.
func longestRun(stream, want []byte) int {
	best := 0
	for i := range stream {
		k := 0
		for k < len(want) && i+k < len(stream) && stream[i+k] == want[k] {
			k++
		}
		if k > best {
			best = k
		}
	}
	return best
}

// preMasterSeen: the pre-master secret of an ECC suite as the driver reads it off the wire — the
// ClientKeyExchange opened with the private key that belongs to the encryption certificate the
// peer PRESENTED (the driver made every key pair of the catalogue; whether the peer holds that
// key is another matter).
func preMasterSeen(su suiteInfo, c2s, s2c flightView) []byte {
	if su.ecdhe {
		return nil
	}
	ckx, cert := c2s.last(hsClientKeyExchange), s2c.last(hsCertificate)
	if ckx == nil || cert == nil || len(ckx.body) < 2 {
		return nil
	}
	ders, ok := certList(cert)
	if !ok || len(ders) < 2 {
		return nil
	}
	l := leaves[leafName(ders[1])]
	if l == nil {
		return nil
	}
	dec, isDec := l.Key.(crypto.Decrypter)
	n := int(ckx.body[0])<<8 | int(ckx.body[1])
	if !isDec || len(ckx.body) != 2+n {
		return nil
	}
	var pm []byte
	if p := hx.Guard(func() { pm, _ = dec.Decrypt(cryptoRand{}, ckx.body[2:], sm2.ASN1DecrypterOpts) }); p != "" || len(pm) != 48 {
		return nil
	}
	return pm
}

// holdsKeyOf: does priv belong to the public key of the certificate der?
func holdsKeyOf(priv crypto.PrivateKey, der []byte) bool {
	c, err := smx509.ParseCertificate(der)
	if err != nil {
		return false
	}
	pk, ok := priv.(interface{ Public() crypto.PublicKey })
	if !ok {
		return false
	}
	switch pub := pk.Public().(type) {
	case *ecdsa.PublicKey:
		return pub.Equal(c.PublicKey)
	case interface{ Equal(crypto.PublicKey) bool }:
		return pub.Equal(c.PublicKey)
	}
	return false
}

// callback configurations of the client: VerifyPeerCertificate x VerifyConnection, each
// not installed / accepting / refusing ("--" is the plain case).
var cbAll = []string{"a-", "-a", "aa", "r-", "-r", "ar", "ra", "rr"}

func validCB(cb string) bool {
	if cb == "" {
		return true
	}
	return len(cb) == 2 && strings.ContainsRune("-ar", rune(cb[0])) && strings.ContainsRune("-ar", rune(cb[1]))
}

// the errors the driver's refusing callbacks return
const (
	errVPC = "c02-callback VerifyPeerCertificate refuses"
	errVC  = "c02-callback VerifyConnection refuses"
)

// cbFuncs: the two callbacks as plain functions (nil = not installed); the stack files wrap them
// into the Config's types.
func cbFuncs(cb string) (vpc, vc func() error) {
	mk := func(ch byte, msg string) func() error {
		switch ch {
		case 'a':
			return func() error { return nil }
		case 'r':
			return func() error { return errors.New(msg) }
		}
		return nil
	}
	if len(cb) != 2 {
		return nil, nil
	}
	return mk(cb[0], errVPC), mk(cb[1], errVC)
}

func b01(b bool) string {
	if b {
		return "1"
	}
	return "0"
}

// what the driver establishes about one connection
type verdicts struct {
	peer                         string
	certmsg, parse               bool
	ncerts                       int
	c                            [2]string // kind:chain:id or "-"
	skx, wf, sigvalid            bool
	signer, scr, ssr, sparams    string
	intact                       bool
	creq, clienc, done, ckx, fin bool
	sess                         string // "none" or n:sig:enc
	sresume, sfin                bool
	sevict, psecret              string // resumption impostors only ("" = not printed)
	enckey                       bool
	rnd                          bool // a logging reader was configured: print pmsseen / rfirst
	pmsseen                      bool
	rfirst                       int
}

func (v verdicts) String() string {
	return fmt.Sprintf("peer=%s certmsg=%s ncerts=%d parse=%s c0=%s c1=%s skx=%s wf=%s sigvalid=%s signer=%s scr=%s ssr=%s sparams=%s intact=%s creq=%s clienc=%s done=%s ckx=%s fin=%s sess=%s sresume=%s sfin=%s",
		v.peer, b01(v.certmsg), v.ncerts, b01(v.parse), v.c[0], v.c[1], b01(v.skx), b01(v.wf), b01(v.sigvalid),
		v.signer, v.scr, v.ssr, v.sparams, b01(v.intact), b01(v.creq), b01(v.clienc), b01(v.done), b01(v.ckx), b01(v.fin),
		v.sess, b01(v.sresume), b01(v.sfin)) + v.resumeSuffix() + v.randSuffix()
}

func (v verdicts) randSuffix() string {
	s := " enckey=" + b01(v.enckey)
	if !v.rnd {
		return s
	}
	rf := "-"
	if v.rfirst >= 0 {
		rf = fmt.Sprint(v.rfirst)
	}
	return s + fmt.Sprintf(" pmsseen=%s rfirst=%s", b01(v.pmsseen), rf)
}

func (v verdicts) resumeSuffix() string {
	if v.sevict == "" {
		return ""
	}
	return fmt.Sprintf(" sevict=%s psecret=%s", v.sevict, v.psecret)
}

type observation struct {
	completed, resumed, hsComplete bool
	class                          string
	read                           string
	pms                            string // "" = not printed (no logging reader)
}

func (o observation) String() string {
	res := "completed"
	if !o.completed {
		res = "failed(" + o.class + ")"
	}
	s := fmt.Sprintf("client=%s resumed=%s hs_complete=%s read=%s", res, b01(o.resumed), b01(o.hsComplete), o.read)
	if o.pms != "" {
		s += " pms=" + o.pms
	}
	return s
}

// classify maps the client's handshake error to the stage names the model uses (finer detail
// than the property constrains: the oracle only reports differences as notes).
func classify(err error, panicked string) string {
	if panicked != "" {
		return "panic"
	}
	if err == nil {
		return "-"
	}
	s := err.Error()
	switch {
	case strings.Contains(s, errVPC):
		return "verify-peer-certificate"
	case strings.Contains(s, errVC):
		return "verify-connection"
	case strings.Contains(s, "failed to parse certificate"):
		return "certificate-parse"
	case strings.Contains(s, "need two of certificate"):
		return "certificate-count"
	case strings.Contains(s, "x509:") || strings.Contains(s, "failed to verify certificate") || strings.Contains(s, "certificate is not valid") || strings.Contains(s, "certificate signed by unknown authority"):
		return "certificate-chain"
	case strings.Contains(s, "unsupported type of public key"):
		return "certificate-keytype"
	case strings.Contains(s, "invalid ServerKeyExchange"):
		return "skx-format"
	case strings.Contains(s, "sm2 verification failure"):
		return "skx-signature"
	case strings.Contains(s, "requires a sm2 public key"):
		return "skx-keytype"
	case strings.Contains(s, "resumed a session without a master secret"):
		return "resume-master"
	case strings.Contains(s, "Finished message was incorrect"):
		return "finished"
	case strings.Contains(s, "bad record MAC"):
		return "finished-record"
	case strings.Contains(s, "unexpected message") || strings.Contains(s, "unexpected handshake message"):
		return "unexpected-message"
	case strings.Contains(s, "remote error"):
		return "remote-alert"
	case strings.Contains(s, "EOF"):
		return "eof"
	case strings.Contains(s, "closed"):
		return "closed"
	case strings.Contains(s, "timeout") || strings.Contains(s, "deadline"):
		return "timeout"
	}
	return "other:" + strings.ReplaceAll(strings.ReplaceAll(truncate(s, 60), " ", "_"), "=", "_")
}

func truncate(s string, n int) string {
	if len(s) > n {
		return s[:n]
	}
	return s
}

// ---------------------------------------------------------------------------- verdicts from the wire

// chainVerdict: smx509 path validation exactly as the statement asks: chains to a configured
// root, valid at the configured time, valid for the configured name (when one is configured).
func chainVerdict(ders [][]byte, i int, t clientTweak) bool {
	c, err := smx509.ParseCertificate(ders[i])
	if err != nil {
		return false
	}
	opts := smx509.VerifyOptions{Roots: t.rootPool(), CurrentTime: t.now(), DNSName: t.name, Intermediates: smx509.NewCertPool()}
	for j := 2; j < len(ders); j++ {
		if ic, err := smx509.ParseCertificate(ders[j]); err == nil {
			opts.Intermediates.AddCert(ic)
		}
	}
	_, err = c.Verify(opts)
	return err == nil
}

type truthSKX struct {
	signer, scr, ssr, sparams string
	intact                    bool
}

// fullVerdicts computes the verdict vector of a (possibly absent) full handshake from the wire.
func fullVerdicts(v *verdicts, su suiteInfo, c2s, s2c flightView, t clientTweak, clientHasEnc bool, ts truthSKX, finOK bool) {
	cert := s2c.last(hsCertificate)
	var ders [][]byte
	if cert != nil {
		ders, v.certmsg = certList(cert)
	}
	v.ncerts = len(ders)
	v.parse = true
	var parsed []*smx509.Certificate
	for _, d := range ders {
		c, err := smx509.ParseCertificate(d)
		if err != nil {
			v.parse = false
		}
		parsed = append(parsed, c)
	}
	v.c = [2]string{"-", "-"}
	for i := 0; i < 2 && i < len(ders); i++ {
		kind := "other"
		if parsed[i] != nil {
			kind = keyKind(parsed[i])
		}
		v.c[i] = fmt.Sprintf("%s:%s:%s", kind, b01(chainVerdict(ders, i, t)), leafName(ders[i]))
	}
	skx := s2c.last(hsServerKeyExchange)
	v.skx = skx != nil
	v.signer, v.scr, v.ssr, v.sparams, v.intact = "none", "this", "this", "none", false
	if skx != nil {
		crand := helloRandom(c2s.last(hsClientHello))
		srand := helloRandom(s2c.last(hsServerHello))
		v.wf, v.sigvalid = skxSignatureValid(su.ecdhe, crand, srand, ders, skx.body)
		v.signer, v.scr, v.ssr, v.sparams, v.intact = ts.signer, ts.scr, ts.ssr, ts.sparams, ts.intact
	}
	v.creq = s2c.has(hsCertificateReq)
	v.clienc = clientHasEnc
	v.done = s2c.has(hsServerHelloDone)
	v.ckx = len(parsed) >= 2 && parsed[1] != nil && clientKexWouldWork(su.ecdhe, parsed[1])
	v.fin = finOK
}

// sessionEchoed: the client offered a non-empty session id and the server answered with it.
func sessionEchoed(c2s, s2c flightView) bool {
	ch, sh := c2s.last(hsClientHello), s2c.last(hsServerHello)
	if ch == nil || sh == nil || len(ch.body) < 35 || len(sh.body) < 35 {
		return false
	}
	cn, sn := int(ch.body[34]), int(sh.body[34])
	if cn == 0 || sn != cn || len(ch.body) < 35+cn || len(sh.body) < 35+sn {
		return false
	}
	return bytes.Equal(ch.body[35:35+cn], sh.body[35:35+sn])
}

// ---------------------------------------------------------------------------- stack abstraction

type endpoint interface {
	Handshake() error
	Read([]byte) (int, error)
	Write([]byte) (int, error)
	SetReadDeadline(time.Time) error
	Close() error
}

type connState struct{ complete, resumed bool }

// link is one in-memory transport between a client and a server of one stack.
type link interface {
	client(cfg clientCfg) (endpoint, func() connState)
	server(cfg serverCfg) endpoint
	scriptServer(cfg serverCfg) scriptPeer // nil when the stack has no scripted peer (yet)
	wire() (c2s, s2c flightView)
	injectToClient(appData []byte) // a plaintext application-data record as if from the server
	closeBoth()
}

type keyPair struct {
	der []byte
	key crypto.PrivateKey
}

type clientCfg struct {
	tweak clientTweak
	suite uint16
	certs []keyPair
	cache any      // tlcp.SessionCache / dtlcp.SessionCache
	cb    string   // user callbacks (see cbFuncs)
	rnd   *logRand // Config.Rand (nil: default)
}

type serverCfg struct {
	suite uint16
	certs []keyPair
	cache any
	rnd   string // kind of Config.Rand ("" = default)
}

// scriptPeer: the part of tlcp.VerifScript / dtlcp.VerifScript the driver needs
type scriptPeer interface {
	ReadKind() (kind string, err error)
	Send(kind string, o scriptOpts) error
	SendCCS() error
	SendAppData([]byte) error
	PeerFinishedOK() bool
	// an impostor's guesses at the pre-master secret (hook GuessPreMaster)
	GuessPreMaster(n int, cand func(i int) []byte) int
	WriteProtected() bool
	HasMaster() bool
	HeaderLen() int // length of the handshake header in front of the body handed to Mutate
	// resumption: the session id the client offered; the master secret to resume with when the
	// scripted server echoes it; the master secret the script computes with
	OfferedSessionID() []byte
	SetResumeMaster([]byte)
	Master() []byte
}

// reframe puts body behind a copy of raw's handshake header (4 bytes: type, length; 12 bytes:
// type, length, message_seq, fragment_offset 0, fragment_length) with the lengths adjusted.
func reframe(raw []byte, hdr int, body []byte) []byte {
	out := append([]byte(nil), raw[:hdr]...)
	n := len(body)
	out[1], out[2], out[3] = byte(n>>16), byte(n>>8), byte(n)
	if hdr == 12 {
		out[6], out[7], out[8] = 0, 0, 0
		out[9], out[10], out[11] = byte(n>>16), byte(n>>8), byte(n)
	}
	return append(out, body...)
}

type scriptOpts struct {
	Body, Raw        []byte
	Mutate           func([]byte) []byte
	Certificates     [][]byte
	EmptyCerts       bool
	SignKey          crypto.PrivateKey
	SignClientRandom []byte
	SignServerRandom []byte
	SignEncCert      []byte
}

func keyPairs(names []string, sigKey, encKey string) []keyPair {
	var out []keyPair
	for i, n := range names {
		l := leaves[n]
		kp := keyPair{der: l.DER, key: l.Key}
		if i == 0 && sigKey != "" {
			kp.key = leaves[sigKey].Key
		}
		if i == 1 && encKey != "" {
			kp.key = leaves[encKey].Key
		}
		out = append(out, kp)
	}
	return out
}

func clientCerts(su suiteInfo) []keyPair {
	if !su.ecdhe {
		return nil
	}
	return keyPairs([]string{"clisig", "clienc"}, "", "")
}

// ---------------------------------------------------------------------------- running one connection

type runResult struct {
	obs      observation
	c2s, s2c flightView
	serverOK bool
}

func guardErr(f func() error) (err error, panicked string) {
	panicked = hx.Guard(func() { err = f() })
	return
}

// readProbe: does a Read on the client deliver any byte?
func readProbe(c endpoint) string {
	type res struct {
		n   int
		err error
	}
	ch := make(chan res, 1)
	go func() {
		buf := make([]byte, 256)
		var r res
		if p := hx.Guard(func() {
			_ = c.SetReadDeadline(time.Now().Add(400 * time.Millisecond))
			r.n, r.err = c.Read(buf)
		}); p != "" {
			r.n = 0
		}
		ch <- r
	}()
	select {
	case r := <-ch:
		return fmt.Sprint(r.n)
	case <-time.After(3 * time.Second):
		return "0"
	}
}

// runReal: the library's client against the library's server over lk.
func runReal(lk link, cc clientCfg, sc serverCfg) runResult {
	cl, state := lk.client(cc)
	sv := lk.server(sc)
	var cerr, serr error
	var cpanic string
	cdone, sdone := make(chan struct{}), make(chan struct{})
	go func() { defer close(sdone); serr, _ = guardErr(sv.Handshake) }()
	go func() { defer close(cdone); cerr, cpanic = guardErr(cl.Handshake) }()
	select {
	case <-cdone:
	case <-time.After(25 * time.Second):
		lk.closeBoth()
		<-cdone
		if cerr == nil {
			cerr = errors.New("timeout")
		}
	}
	// give the server the time to finish on its own, then stop it
	wait := 150 * time.Millisecond
	if cerr == nil {
		wait = 15 * time.Second
	}
	stopped := false
	select {
	case <-sdone:
	case <-time.After(wait):
		stopped = true
	}
	var r runResult
	r.obs.completed = cerr == nil && cpanic == ""
	r.obs.class = classify(cerr, cpanic)
	r.serverOK = !stopped && serr == nil
	if r.obs.completed && r.serverOK {
		_, _ = sv.Write([]byte("sixteen byte msg"))
	} else if !r.obs.completed {
		lk.injectToClient([]byte("impostor's bytes"))
	}
	r.obs.read = readProbe(cl)
	st := state()
	r.obs.hsComplete, r.obs.resumed = st.complete, st.resumed
	lk.closeBoth()
	<-sdone
	r.c2s, r.s2c = lk.wire()
	return r
}

// scriptPlan: what the scripted server does for one scenario
type scriptPlan struct {
	chainDER   [][]byte
	emptyCerts bool
	sendSKX    bool
	skxOpts    scriptOpts
	sendCreq   bool
	omitCert   bool
	guess      bool
	finMutate  func([]byte) []byte
	// resumption impostor: when the client offers a session id, echo it and run the abbreviated
	// handshake with this master secret (nil: never resume)
	resumeSecret []byte
	// called once the ClientHello has been read (the client is past loadSession)
	afterHello func()
}

// scriptOutcome: what the scripted server did
type scriptOutcome struct {
	finSent bool   // it sent a Finished that is correct for ITS transcript and master secret
	resumed bool   // … on the abbreviated flow
	master  []byte // the master secret it computed with
}

// runScript: the library's client against the scripted server.
func runScript(lk link, cc clientCfg, sc serverCfg, plan scriptPlan) (runResult, scriptOutcome) {
	cl, state := lk.client(cc)
	sp := lk.scriptServer(sc)
	var cerr error
	var cpanic string
	cdone := make(chan struct{})
	go func() { defer close(cdone); cerr, cpanic = guardErr(cl.Handshake) }()
	finSent := false
	var out scriptOutcome
	sdone := make(chan struct{})
	go func() {
		defer close(sdone)
		_ = hx.Guard(func() {
			if k, err := sp.ReadKind(); err != nil || k != "ClientHello" {
				return
			}
			if plan.afterHello != nil {
				plan.afterHello()
			}
			if plan.resumeSecret != nil && len(sp.OfferedSessionID()) > 0 {
				// abbreviated handshake: ServerHello echoing the id, ChangeCipherSpec, Finished —
				// all computed with plan.resumeSecret — then the client's answer
				sp.SetResumeMaster(plan.resumeSecret)
				_ = sp.Send("ServerHello", scriptOpts{})
				_ = sp.SendCCS()
				out.resumed = true
				out.finSent = sp.WriteProtected() && sp.Send("Finished", scriptOpts{}) == nil
				out.master = sp.Master()
				for {
					k, err := sp.ReadKind()
					if err != nil || k == "Alert" || k == "Finished" {
						return
					}
				}
			}
			_ = sp.Send("ServerHello", scriptOpts{})
			if !plan.omitCert {
				_ = sp.Send("Certificate", scriptOpts{Certificates: plan.chainDER, EmptyCerts: plan.emptyCerts})
			}
			if plan.sendSKX {
				_ = sp.Send("ServerKeyExchange", plan.skxOpts)
			}
			if plan.sendCreq {
				_ = sp.Send("CertificateRequest", scriptOpts{})
			}
			_ = sp.Send("ServerHelloDone", scriptOpts{})
			for {
				k, err := sp.ReadKind()
				if err != nil && strings.Contains(err.Error(), "cannot open record") {
					// an impostor without the key-exchange private key cannot read the client's
					// Finished; it answers all the same, with what it has
					break
				}
				if err != nil || k == "Alert" {
					return
				}
				if k == "ChangeCipherSpec" && !sp.HasMaster() && plan.guess && sp.GuessPreMaster(512, guessCandidate) >= 0 {
					// the impostor found the pre-master secret by trial: it reads on like a genuine server
					continue
				}
				if k == "Finished" || (k == "ChangeCipherSpec" && !sp.HasMaster()) {
					// (without a master secret the client's protected Finished is unreadable)
					break
				}
			}
			_ = sp.SendCCS()
			honest := sp.PeerFinishedOK() && sp.WriteProtected() && plan.finMutate == nil
			_ = sp.Send("Finished", scriptOpts{Mutate: plan.finMutate})
			finSent = honest
			out.master = sp.Master()
		})
	}()
	select {
	case <-cdone:
	case <-time.After(25 * time.Second):
		lk.closeBoth()
		<-cdone
		if cerr == nil {
			cerr = errors.New("timeout")
		}
	}
	var r runResult
	r.obs.completed = cerr == nil && cpanic == ""
	r.obs.class = classify(cerr, cpanic)
	if r.obs.completed {
		<-sdone
		_ = hx.Guard(func() { _ = sp.SendAppData([]byte("sixteen byte msg")) })
	} else {
		lk.injectToClient([]byte("impostor's bytes"))
	}
	r.obs.read = readProbe(cl)
	st := state()
	r.obs.hsComplete, r.obs.resumed = st.complete, st.resumed
	lk.closeBoth()
	<-sdone
	r.c2s, r.s2c = lk.wire()
	if !out.resumed {
		out.finSent = finSent
	}
	return r, out
}

// ---------------------------------------------------------------------------- scenarios → cases

// guessCandidate: the 512 pre-master secrets an impostor without the key can afford to try — the
// (public) version followed by one unknown byte and zeros, or by one byte repeated.
func guessCandidate(i int) []byte {
	pm := make([]byte, 48)
	pm[0], pm[1] = 0x01, 0x01
	b := byte(i % 256)
	if i < 256 {
		pm[2] = b
		return pm
	}
	for j := 2; j < 48; j++ {
		pm[j] = b
	}
	return pm
}

// observePMS fills the tokens about the client's entropy source.
func observePMS(v *verdicts, obs *observation, su suiteInfo, rnd *logRand, c2s, s2c flightView) {
	if rnd == nil {
		return
	}
	rnd.mu.Lock()
	defer rnd.mu.Unlock()
	v.rnd, v.rfirst = true, rnd.first46
	obs.pms = "-"
	if pm := preMasterSeen(su, c2s, s2c); pm != nil {
		v.pmsseen = true
		obs.pms = fmt.Sprint(longestRun(rnd.out, pm[2:]))
	}
}

func newLink(stack string) link {
	if stack == "dtlcp" {
		return newDLink()
	}
	return newTLink()
}

func flipLast(b []byte) []byte {
	out := append([]byte(nil), b...)
	out[len(out)-1] ^= 0x01
	return out
}

// runScenario executes one full-handshake scenario; returns the case line parts.
func runScenario(cd caseDesc, sc scenario, su suiteInfo) (verdicts, observation, bool) {
	tw := defaultClient
	tw.skip = cd.skip
	if sc.cname != "" {
		tw.name = sc.cname
	}
	rnd := newLogRand(cd.rnd)
	cc := clientCfg{tweak: tw, suite: su.id, certs: clientCerts(su), cb: cd.cb, rnd: rnd}
	scfg := serverCfg{suite: su.id, certs: keyPairs(sc.chain, sc.sigKey, sc.encKey), rnd: cd.rnd}
	signer := ""
	if len(sc.chain) > 0 {
		signer = sc.chain[0]
	}
	if sc.sigKey != "" {
		signer = sc.sigKey
	}
	ts := truthSKX{signer: signer, scr: "this", ssr: "this", intact: true}
	if su.ecdhe {
		ts.sparams = "carried"
	} else if len(sc.chain) > 1 {
		ts.sparams = sc.chain[1]
	} else {
		ts.sparams = "none"
	}
	var v verdicts
	v.peer = sc.peer
	v.sess = "none"
	v.enckey = len(sc.chain) >= 2 && len(scfg.certs) >= 2 && holdsKeyOf(scfg.certs[1].key, leaves[sc.chain[1]].DER)
	lk := newLink(cd.stack)
	if sc.peer == "real" {
		r := runReal(lk, cc, scfg)
		observePMS(&v, &r.obs, su, rnd, r.c2s, r.s2c)
		// the library's server produces a correct Finished iff it got that far: it wrote
		// ChangeCipherSpec and a protected handshake record, and nothing was tampered with
		fullVerdicts(&v, su, r.c2s, r.s2c, tw, su.ecdhe, ts, r.s2c.ccs && r.s2c.hsAfterCCS)
		return v, r.obs, true
	}
	probe := lk.scriptServer(serverCfg{suite: su.id})
	if probe == nil {
		return v, observation{}, false
	}
	hdr := probe.HeaderLen()
	// scripted server: needs two key pairs to compute with even when it presents fewer certificates
	own := keyPairs([]string{"srvsig", "srvenc"}, "", "")
	for i, kp := range scfg.certs {
		if i < 2 {
			own[i] = kp
		}
	}
	scfg.certs = own
	plan := scriptPlan{sendSKX: true, sendCreq: su.ecdhe, omitCert: sc.omitCert, guess: sc.guess}
	for _, n := range sc.chain {
		plan.chainDER = append(plan.chainDER, leaves[n].DER)
	}
	plan.emptyCerts = len(sc.chain) == 0
	if sc.sigKey != "" {
		plan.skxOpts.SignKey = leaves[sc.sigKey].Key
	}
	switch sc.skx {
	case "omit":
		plan.sendSKX = false
	case "replay", "old-crand", "old-srand":
		// an earlier handshake with the honest server of the same identity
		first := runReal(newLink(cd.stack), clientCfg{tweak: defaultClient, suite: su.id, certs: clientCerts(su)},
			serverCfg{suite: su.id, certs: keyPairs([]string{"srvsig", "srvenc"}, "", "")})
		oldC := helloRandom(first.c2s.last(hsClientHello))
		oldS := helloRandom(first.s2c.last(hsServerHello))
		oldSKX := first.s2c.last(hsServerKeyExchange)
		if !first.obs.completed || oldSKX == nil || oldC == nil || oldS == nil {
			return v, observation{}, false
		}
		switch sc.skx {
		case "replay":
			plan.skxOpts.Body = oldSKX.body
			ts.scr, ts.ssr = "old", "old"
			if su.ecdhe {
				// the replayed message carries its own (old) parameters, and they are the ones signed
				ts.sparams = "carried"
			}
		case "old-crand":
			plan.skxOpts.SignClientRandom = oldC
			ts.scr = "old"
		case "old-srand":
			plan.skxOpts.SignServerRandom = oldS
			ts.ssr = "old"
		}
	case "other-cert":
		plan.skxOpts.SignEncCert = leaves["srv2enc"].DER
		ts.sparams = "srv2enc"
	case "other-params":
		k, _ := sm2.GenerateKey(cryptoRand{})
		ek, _ := k.ECDH()
		pt := ek.PublicKey().Bytes()
		plan.skxOpts.Mutate = func(raw []byte) []byte {
			out := append([]byte(nil), raw...)
			if len(out) >= hdr+4+len(pt) && int(out[hdr+3]) == len(pt) {
				copy(out[hdr+4:], pt)
			}
			return out
		}
		ts.sparams = "other"
	case "corrupt":
		plan.skxOpts.Mutate = flipLast
		ts.intact = false
	case "empty":
		plan.skxOpts.Body = []byte{}
		ts.intact = false
	case "empty-sig":
		plan.skxOpts.Mutate = func(raw []byte) []byte {
			body := raw[hdr:]
			if su.ecdhe && len(body) >= 4 {
				body = append(append([]byte(nil), body[:4+int(body[3])]...), 0, 0)
			} else {
				body = []byte{0, 0}
			}
			return reframe(raw, hdr, body)
		}
		ts.intact = false
	case "truncated":
		plan.skxOpts.Mutate = func(raw []byte) []byte {
			body := raw[hdr:]
			if su.ecdhe && len(body) >= 4 {
				body = body[:4+int(body[3])]
			} else {
				body = body[:1]
			}
			return reframe(raw, hdr, body)
		}
		ts.intact = false
	}
	switch sc.fin {
	case "bad-tail":
		plan.finMutate = flipLast
	case "bad-head":
		plan.finMutate = func(raw []byte) []byte {
			out := append([]byte(nil), raw...)
			if len(out) > hdr {
				out[hdr] ^= 0x80
			}
			return out
		}
	}
	r, so := runScript(lk, cc, scfg, plan)
	observePMS(&v, &r.obs, su, rnd, r.c2s, r.s2c)
	fullVerdicts(&v, su, r.c2s, r.s2c, tw, su.ecdhe, ts, so.finSent)
	return v, r.obs, true
}

// runHistory executes one resumption history: connection 1 under h.first creates the session,
// connection 2 under h.second (sharing the client cache, same destination, same server and
// server cache) is the case.
func runHistory(cd caseDesc, h history, su suiteInfo) (verdicts, observation, bool) {
	ccache, scache := newCaches(cd.stack)
	scfg := serverCfg{suite: su.id, certs: keyPairs(h.chain, "", ""), cache: scache}
	first := runReal(newLink(cd.stack), clientCfg{tweak: h.first, suite: su.id, certs: clientCerts(su), cache: ccache}, scfg)
	var v verdicts
	v.peer = "real"
	v.sess = "none"
	v.enckey = true
	var ders [][]byte
	if first.obs.completed {
		// the certificates recorded with the session are those of connection 1
		ders, _ = certList(first.s2c.last(hsCertificate))
		cs, ce := false, false
		if len(ders) > 0 {
			cs = chainVerdict(ders, 0, h.second)
		}
		if len(ders) > 1 {
			ce = chainVerdict(ders, 1, h.second)
		}
		v.sess = fmt.Sprintf("%d:%s:%s", len(ders), b01(cs), b01(ce))
	}
	r := runReal(newLink(cd.stack), clientCfg{tweak: h.second, suite: su.id, certs: clientCerts(su), cache: ccache, cb: cd.cb}, scfg)
	signer := h.chain[0]
	ts := truthSKX{signer: signer, scr: "this", ssr: "this", intact: true, sparams: h.chain[1]}
	if su.ecdhe {
		ts.sparams = "carried"
	}
	v.sresume = sessionEchoed(r.c2s, r.s2c)
	finOK := r.s2c.ccs && r.s2c.hsAfterCCS
	v.sfin = v.sresume && finOK
	fullVerdicts(&v, su, r.c2s, r.s2c, h.second, su.ecdhe, ts, finOK && !v.sresume)
	return v, r.obs, true
}

// ---------------------------------------------------------------------------- resumption impostors
//
// (D) connection 1 (real, honest server) creates a session in the client's cache; connection 2
// meets a scripted peer that echoes whatever session id the client offers and runs the
// abbreviated handshake with a master secret of its choice — crossed with what the OTHER users
// of the shared client cache do meanwhile: nothing, or storing so many sessions that the LRU
// evicts (and wipes) the entry, before connection 2 looks it up, between SessionCache.Get and
// the moment loadSession takes its copy, or after loadSession returned.  The interleavings are
// produced deterministically by a SessionCache wrapper handed to the client through the
// public Config (stacks.go: raceCache).

var rimpEvents = []string{"live", "evicted-before-get", "evicted-in-window", "evicted-after-load"}

// rimpPeers: "session" = holds the session's master secret and the genuine keys (control: this
// is what the honest server does); the others hold neither — their certificates are from an
// untrusted CA and they compute with 48 zero bytes / 48 random bytes.
var rimpPeers = []string{"session", "zeros", "other"}

func rimpByName(n string) (ev, peer string, ok bool) {
	parts := strings.Split(n, "/")
	if len(parts) != 2 {
		return "", "", false
	}
	for _, e := range rimpEvents {
		for _, p := range rimpPeers {
			if e == parts[0] && p == parts[1] {
				return e, p, true
			}
		}
	}
	return "", "", false
}

func runResumeImpostor(cd caseDesc, ev, peer string, su suiteInfo) (verdicts, observation, bool) {
	tw := defaultClient
	tw.skip = cd.skip
	cache, rc := newRaceCache(cd.stack)
	_, scache := newCaches(cd.stack)
	honest := []string{"srvsig", "srvenc"}
	var v verdicts
	v.peer = "script"
	v.sess = "none"
	v.enckey = true
	first := runReal(newLink(cd.stack), clientCfg{tweak: tw, suite: su.id, certs: clientCerts(su), cache: cache},
		serverCfg{suite: su.id, certs: keyPairs(honest, "", ""), cache: scache})
	master := rc.sessionMaster()
	ders, _ := certList(first.s2c.last(hsCertificate))
	if !first.obs.completed || len(master) == 0 || len(ders) < 2 {
		return v, observation{}, false
	}
	lk := newLink(cd.stack)
	if lk.scriptServer(serverCfg{suite: su.id}) == nil {
		return v, observation{}, false
	}
	chain := []string{"othsig", "othenc"}
	var secret []byte
	switch peer {
	case "session":
		chain, secret = honest, append([]byte(nil), master...)
	case "zeros":
		secret = make([]byte, len(master))
	default:
		secret = make([]byte, len(master))
		_, _ = randRead(secret)
	}
	plan := scriptPlan{sendSKX: true, sendCreq: su.ecdhe, resumeSecret: secret}
	for _, n := range chain {
		plan.chainDER = append(plan.chainDER, leaves[n].DER)
	}
	switch ev {
	case "evicted-before-get":
		rc.evictAll()
	case "evicted-in-window":
		rc.armWindow()
	case "evicted-after-load":
		plan.afterHello = rc.evictAll
	}
	rc.resetStats()
	r, so := runScript(lk, clientCfg{tweak: tw, suite: su.id, certs: clientCerts(su), cache: cache, cb: cd.cb},
		serverCfg{suite: su.id, certs: keyPairs(chain, "", "")}, plan)
	// the cached session as the client's lookup saw it
	hit, fired := rc.stats()
	if hit {
		v.sess = fmt.Sprintf("%d:%s:%s", len(ders), b01(chainVerdict(ders, 0, tw)), b01(chainVerdict(ders, 1, tw)))
	}
	v.sresume = sessionEchoed(r.c2s, r.s2c)
	v.sevict = "none"
	if fired {
		v.sevict = "window"
	} else if ev == "evicted-after-load" && hit {
		v.sevict = "afterload"
	}
	v.psecret = "none"
	if so.resumed && so.finSent {
		v.psecret = peer
	}
	// independent of the scenario's name: the bytes the peer really computed with vs the bytes
	// of the session the honest handshake put into the client's cache
	v.sfin = v.sresume && so.resumed && so.finSent && bytes.Equal(so.master, master)
	ts := truthSKX{signer: chain[0], scr: "this", ssr: "this", intact: true, sparams: chain[1]}
	if su.ecdhe {
		ts.sparams = "carried"
	}
	fullVerdicts(&v, su, r.c2s, r.s2c, tw, su.ecdhe, ts, so.finSent && !so.resumed)
	return v, r.obs, true
}

type cryptoRand struct{}

func (cryptoRand) Read(p []byte) (int, error) { return randRead(p) }

// ---------------------------------------------------------------------------- main

func enumerate(o hx.Opts) []caseDesc {
	var out []caseDesc
	add := func(stack, suite, scen string, skip bool) {
		out = append(out, caseDesc{stack, suite, scen, skip, "", ""})
	}
	addCB := func(stack, suite, scen string, skip bool, cb string) {
		out = append(out, caseDesc{stack, suite, scen, skip, cb, ""})
	}
	// documented witnesses first: F13 (resumption without re-validation), F1 (ServerKeyExchange omitted)
	for _, st := range []string{"tlcp", "dtlcp"} {
		add(st, "ecc-gcm", "hist:skip-then-verify-empty-roots-wrong-name", false)
	}
	for _, st := range []string{"tlcp", "dtlcp"} {
		add(st, "ecc-gcm", "skx-omitted-no-sig-key", false)
	}
	for _, st := range []string{"tlcp", "dtlcp"} {
		for _, su := range suites {
			for _, sc := range catalogue {
				if (sc.only == "ecc" && su.ecdhe) || (sc.only == "ecdhe" && !su.ecdhe) {
					continue
				}
				for _, skip := range []bool{false, true} {
					add(st, su.name, sc.name, skip)
				}
			}
			for _, h := range histories {
				add(st, su.name, "hist:"+h.name, h.second.skip)
			}
			for _, ev := range rimpEvents {
				for _, pr := range rimpPeers {
					for _, skip := range []bool{false, true} {
						add(st, su.name, "rimp:"+ev+"/"+pr, skip)
					}
				}
			}
		}
	}
	// the same catalogue under every configuration of the user callbacks: a client that installs
	// VerifyPeerCertificate / VerifyConnection (accepting or refusing) on top of verification on / off
	for _, st := range []string{"tlcp", "dtlcp"} {
		for _, su := range suites {
			for _, sc := range catalogue {
				if (sc.only == "ecc" && su.ecdhe) || (sc.only == "ecdhe" && !su.ecdhe) {
					continue
				}
				for _, skip := range []bool{false, true} {
					for _, cb := range cbAll {
						addCB(st, su.name, sc.name, skip, cb)
					}
				}
			}
			for _, cb := range cbAll {
				for _, h := range histories {
					addCB(st, su.name, "hist:"+h.name, h.second.skip, cb)
				}
				for _, ev := range rimpEvents {
					for _, pr := range rimpPeers {
						for _, skip := range []bool{false, true} {
							addCB(st, su.name, "rimp:"+ev+"/"+pr, skip, cb)
						}
					}
				}
			}
		}
	}
	// the same catalogue with entropy sources that deliver short reads (client and peer alike)
	for _, st := range []string{"tlcp", "dtlcp"} {
		for _, su := range suites {
			for _, sc := range catalogue {
				if (sc.only == "ecc" && su.ecdhe) || (sc.only == "ecdhe" && !su.ecdhe) {
					continue
				}
				for _, skip := range []bool{false, true} {
					for _, rk := range randKinds {
						out = append(out, caseDesc{st, su.name, sc.name, skip, "", rk})
					}
				}
			}
		}
	}
	if o.Tier == "thorough" {
		// every pair of client configurations over five server identities, all suites, both stacks
		for _, st := range []string{"tlcp", "dtlcp"} {
			for _, su := range suites {
				for _, ch := range genChains {
					for _, a := range tweakOrder {
						for _, b := range tweakOrder {
							add(st, su.name, fmt.Sprintf("hist:gen/%s+%s/%s/%s", ch[0], ch[1], a, b), tweaks[b].skip)
						}
					}
				}
			}
		}
	}
	return out
}

func parseCase(desc string) (caseDesc, bool) {
	var c caseDesc
	var ok1, ok2, ok3 bool
	c.stack, ok1 = hx.KV(desc, "stack")
	c.suite, ok2 = hx.KV(desc, "suite")
	c.scen, ok3 = hx.KV(desc, "scen")
	s, _ := hx.KV(desc, "skip")
	c.skip = s == "1"
	c.cb, _ = hx.KV(desc, "cb")
	c.rnd, _ = hx.KV(desc, "rand")
	return c, ok1 && ok2 && ok3 && validCB(c.cb) && validRand(c.rnd)
}

type outLine struct {
	desc, obs string
	ok        bool
}

func runCase(cd caseDesc) outLine { return runCaseN(cd, 0) }

func runCaseN(cd caseDesc, attempt int) outLine {
	su, ok := suiteByName(cd.suite)
	if !ok || (cd.stack != "tlcp" && cd.stack != "dtlcp") {
		return outLine{}
	}
	var v verdicts
	var obs observation
	ran := false
	p := hx.Guard(func() {
		if strings.HasPrefix(cd.scen, "hist:") {
			h, ok := historyByName(strings.TrimPrefix(cd.scen, "hist:"))
			if !ok {
				return
			}
			cd.skip = h.second.skip
			v, obs, ran = runHistory(cd, h, su)
		} else if strings.HasPrefix(cd.scen, "rimp:") {
			ev, pr, ok := rimpByName(strings.TrimPrefix(cd.scen, "rimp:"))
			if !ok {
				return
			}
			v, obs, ran = runResumeImpostor(cd, ev, pr, su)
		} else {
			sc, ok := scenarioByName(cd.scen)
			if !ok {
				return
			}
			v, obs, ran = runScenario(cd, sc, su)
		}
	})
	if p != "" {
		fmt.Fprintf(os.Stderr, "c02: driver panic in %s: %s\n", cd.key(), p)
		return outLine{}
	}
	// a watchdog timeout of the driver (loaded machine) is not an observation: run the case again
	if ran && obs.class == "timeout" && attempt < 2 {
		return runCaseN(cd, attempt+1)
	}
	if !ran {
		return outLine{}
	}
	return outLine{desc: cd.key() + " " + v.String(), obs: obs.String(), ok: true}
}

func main() {
	o := hx.ParseOpts()
	_ = hx.NewRand(o.Seed) // the catalogue is finite and enumerated in full: nothing is drawn at random
	initLeaves()
	var cases []caseDesc
	if o.Replay != "" {
		for _, d := range hx.ReplayCases(o.Replay) {
			if c, ok := parseCase(d); ok {
				cases = append(cases, c)
			}
		}
	} else {
		cases = enumerate(o)
	}
	results := make([]outLine, len(cases))
	workers := runtime.NumCPU()
	if workers > 16 {
		workers = 16
	}
	if workers < 2 {
		workers = 2
	}
	var wg sync.WaitGroup
	idx := make(chan int)
	for w := 0; w < workers; w++ {
		wg.Add(1)
		go func() {
			defer wg.Done()
			for i := range idx {
				t0 := time.Now()
				results[i] = runCase(cases[i])
				if d := time.Since(t0); d > 5*time.Second {
					fmt.Fprintf(os.Stderr, "c02: slow case (%.1fs): %s => %s\n", d.Seconds(), cases[i].key(), results[i].obs)
				}
			}
		}()
	}
	for i := range cases {
		idx <- i
	}
	close(idx)
	wg.Wait()
	tr := hx.NewTrace(o.Out)
	skipped := 0
	for _, r := range results {
		if r.ok {
			tr.Line(r.desc, r.obs)
		} else {
			skipped++
		}
	}
	tr.Close()
	fmt.Fprintf(os.Stderr, "c02: %d cases written, %d not runnable on this tree (no scripted peer for the stack)\n", tr.N, skipped)
}

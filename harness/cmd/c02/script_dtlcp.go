package main

// DTLCP scripted server (dtlcp/verif_script.go, build tag verif): same API as the TLCP one;
// every record goes out as its own datagram, handshake messages carry the 12-byte DTLS header.

import "gitee.com/Trisia/gotlcp/dtlcp"

type dScript struct{ s *dtlcp.VerifScript }

func (l *dLink) scriptServer(cfg serverCfg) scriptPeer {
	return &dScript{dtlcp.NewVerifScript("server", l.se, l.ce.LocalAddr(), l.serverConfig(cfg))}
}

func (t *dScript) ReadKind() (string, error) {
	ev, err := t.s.ReadMsg()
	return ev.Kind, err
}

func (t *dScript) Send(kind string, o scriptOpts) error {
	return t.s.Send(kind, &dtlcp.VerifSendOpts{Body: o.Body, Raw: o.Raw, Mutate: o.Mutate,
		Certificates: o.Certificates, EmptyCerts: o.EmptyCerts, SignKey: o.SignKey,
		SignClientRandom: o.SignClientRandom, SignServerRandom: o.SignServerRandom, SignEncCert: o.SignEncCert})
}
func (t *dScript) SendCCS() error             { return t.s.SendCCS() }
func (t *dScript) SendAppData(p []byte) error { return t.s.SendAppData(p) }
func (t *dScript) PeerFinishedOK() bool       { return t.s.PeerFinishedOK }
func (t *dScript) GuessPreMaster(n int, cand func(int) []byte) int {
	return t.s.GuessPreMaster(n, cand)
}
func (t *dScript) WriteProtected() bool     { return t.s.WriteProtected() }
func (t *dScript) HasMaster() bool          { return len(t.s.Master()) > 0 }
func (t *dScript) HeaderLen() int           { return 12 }
func (t *dScript) OfferedSessionID() []byte { return t.s.OfferedSessionID() }
func (t *dScript) SetResumeMaster(m []byte) { t.s.ResumeMaster = m }
func (t *dScript) Master() []byte           { return t.s.Master() }

package main

// DTLCP scripted server: not available on this tree yet (dtlcp/verif_script.go is written by
// the C08 work); scripted scenarios are skipped for the stack until then.
func (l *dLink) scriptServer(cfg serverCfg) scriptPeer { return nil }

// Driver for C18: runs the REAL cookie helpers (hook level) and a REAL dtlcp server behind a
// recording PacketConn with instrumented private keys (server level) and writes
// `case => observed` lines for the Lean oracle (model + spec). Syntax: lean/Gotlcp/Oracle/C18.lean.
package main

import (
	"bytes"
	"crypto"
	"crypto/hmac"
	"encoding/hex"
	"fmt"
	"io"
	"net"
	"net/netip"
	"os"
	"strconv"
	"strings"
	"sync"
	"sync/atomic"
	"time"

	"gitee.com/Trisia/gotlcp/dtlcp"
	"github.com/emmansun/gmsm/sm3"
	"verifharness/internal/hx"
	"verifharness/internal/pki"
)

// ---------------------------------------------------------------------------- hellos

type hello struct {
	vers   uint16
	random []byte
	sid    []byte
	suites []uint16
	comp   []byte
}

func suitesBytes(s []uint16) []byte {
	out := make([]byte, 0, 2*len(s))
	for _, x := range s {
		out = append(out, byte(x>>8), byte(x))
	}
	return out
}

func (h hello) String() string {
	return fmt.Sprintf("%04x.%s.%s.%s.%s", h.vers, hx.Hex(h.random), hx.Hex(h.sid), hx.Hex(suitesBytes(h.suites)), hx.Hex(h.comp))
}

func parseHello(s string) hello {
	p := strings.Split(s, ".")
	if len(p) != 5 {
		panic("bad hello " + s)
	}
	v := hx.UnHex(p[0])
	sb := hx.UnHex(p[3])
	h := hello{vers: uint16(v[0])<<8 | uint16(v[1]), random: hx.UnHex(p[1]), sid: hx.UnHex(p[2]), comp: hx.UnHex(p[4])}
	for i := 0; i+1 < len(sb); i += 2 {
		h.suites = append(h.suites, uint16(sb[i])<<8|uint16(sb[i+1]))
	}
	return h
}

// body encodes the ClientHello body the way a client does (no extensions unless ext given).
func (h hello) body(cookie, ext []byte) []byte {
	var b []byte
	b = append(b, byte(h.vers>>8), byte(h.vers))
	b = append(b, h.random...)
	b = append(b, byte(len(h.sid)))
	b = append(b, h.sid...)
	b = append(b, byte(len(cookie)))
	b = append(b, cookie...)
	sb := suitesBytes(h.suites)
	b = append(b, byte(len(sb)>>8), byte(len(sb)))
	b = append(b, sb...)
	b = append(b, byte(len(h.comp)))
	b = append(b, h.comp...)
	if ext != nil {
		b = append(b, byte(len(ext)>>8), byte(len(ext)))
		b = append(b, ext...)
	}
	return b
}

// hsMsg builds a DTLCP handshake message (fragment): 12-byte header + fragment bytes.
func hsMsg(typ byte, total int, seq uint16, fragOff int, frag []byte) []byte {
	x := []byte{typ, byte(total >> 16), byte(total >> 8), byte(total), byte(seq >> 8), byte(seq),
		byte(fragOff >> 16), byte(fragOff >> 8), byte(fragOff), byte(len(frag) >> 16), byte(len(frag) >> 8), byte(len(frag))}
	return append(x, frag...)
}

// record builds a plaintext DTLCP record (epoch 0).
func record(typ byte, seq uint64, payload []byte) []byte {
	x := []byte{typ, 0x01, 0x01, 0, 0, byte(seq >> 40), byte(seq >> 32), byte(seq >> 24), byte(seq >> 16), byte(seq >> 8), byte(seq),
		byte(len(payload) >> 8), byte(len(payload))}
	return append(x, payload...)
}

func b01(b bool) string {
	if b {
		return "1"
	}
	return "0"
}

// ---------------------------------------------------------------------------- hook level

func hmacSM3(key, msg []byte) []byte {
	h := hmac.New(sm3.New, key)
	h.Write(msg)
	return h.Sum(nil)
}

func lenPrefix(width int, n int) []byte {
	out := make([]byte, width)
	for i := width - 1; i >= 0; i-- {
		out[i] = byte(n)
		n >>= 8
	}
	return out
}

// findInput returns the byte string x with HMAC-SM3(secret, x) == cookie among the candidate
// framings of (addr, params): both orders, each part optionally preceded by a 1/2/4/8-byte
// big-endian length. "unknown" when none matches.
func findInput(secret, addr, params, cookie []byte) string {
	widths := []int{0, 1, 2, 4, 8}
	for _, order := range [][2][]byte{{addr, params}, {params, addr}} {
		for _, w0 := range widths {
			for _, w1 := range widths {
				var x []byte
				x = append(x, lenPrefix(w0, len(order[0]))...)
				x = append(x, order[0]...)
				x = append(x, lenPrefix(w1, len(order[1]))...)
				x = append(x, order[1]...)
				if bytes.Equal(hmacSM3(secret, x), cookie) {
					return hx.Hex(x)
				}
			}
		}
	}
	return "unknown"
}

func mutate(cookie []byte, mut string) []byte {
	c := append([]byte(nil), cookie...)
	switch {
	case mut == "-" || mut == "":
	case mut[0] == 'x':
		p := strings.Split(mut[1:], ".")
		pos, _ := strconv.Atoi(p[0])
		x := hx.UnHex(p[1])
		if pos < len(c) && len(x) == 1 {
			c[pos] ^= x[0]
		}
	case mut[0] == 't':
		n, _ := strconv.Atoi(mut[1:])
		if n < len(c) {
			c = c[:n]
		}
	case mut[0] == 'a':
		c = append(c, hx.UnHex(mut[1:])...)
	}
	return c
}

func execCookie(desc string) string {
	get := func(k string) []byte { v, _ := hx.KV(desc, k); return hx.UnHex(v) }
	hs, _ := hx.KV(desc, "h")
	ths, _ := hx.KV(desc, "th")
	mut, _ := hx.KV(desc, "mut")
	h, th := parseHello(hs), parseHello(ths)
	secret, addr, tsecret, taddr := get("secret"), get("addr"), get("tsecret"), get("taddr")
	b := h.body(nil, nil)
	tb := th.body(nil, nil)
	ok, _, params := dtlcp.VerifParseClientHello(hsMsg(1, len(b), 0, 0, b))
	tok, _, tparams := dtlcp.VerifParseClientHello(hsMsg(1, len(tb), 1, 0, tb))
	if !ok || !tok {
		return fmt.Sprintf("dec=%s tdec=%s", b01(ok), b01(tok))
	}
	cookie := dtlcp.VerifGenerateCookie(secret, string(addr), params)
	tcookie := dtlcp.VerifGenerateCookie(tsecret, string(taddr), tparams)
	accept := dtlcp.VerifVerifyCookie(tsecret, string(taddr), tparams, mutate(cookie, mut))
	hvr := dtlcp.VerifMarshalHelloVerifyRequest(cookie, 0)
	return fmt.Sprintf("dec=1 tdec=1 params=%s tparams=%s macin=%s tmacin=%s clen=%d hvr=%d accept=%s",
		hx.Hex(params), hx.Hex(tparams), findInput(secret, addr, params, cookie), findInput(tsecret, taddr, tparams, tcookie),
		len(cookie), len(hvr), b01(accept))
}

func execDecode(desc string) string {
	v, _ := hx.KV(desc, "msg")
	ok, f, _ := dtlcp.VerifParseClientHello(hx.UnHex(v))
	if !ok {
		return "ok=0 f=- ck=-"
	}
	h := hello{vers: f.Vers, random: f.Random, sid: f.SessionID, suites: f.CipherSuites, comp: f.Compression}
	return fmt.Sprintf("ok=1 f=%s ck=%s", h.String(), hx.Hex(f.Cookie))
}

func execSecret(desc string) string {
	v, _ := hx.KV(desc, "cfg")
	cfg := hx.UnHex(v)
	if e, _ := hx.KV(desc, "cfgempty"); e == "1" { // Config.CookieSecret = []byte{}: not nil, but no secret either
		if len(cfg) != 0 {
			return "badcfg"
		}
		cfg = []byte{}
	} else if len(cfg) == 0 {
		cfg = nil
	}
	n := hx.KVInt(desc, "n")
	calls := hx.KVInt(desc, "calls")
	shared := &dtlcp.Config{CookieSecret: cfg}
	var readers []*chunkReader
	if rs, ok := hx.KV(desc, "rand"); ok {
		chunk, streams := parseRand(rs)
		if len(streams) != n {
			return "badrand"
		}
		for _, st := range streams {
			readers = append(readers, &chunkReader{stream: st, chunk: chunk})
		}
	}
	var secrets [][]byte
	stable := true
	for i := 0; i < n; i++ {
		conf := shared
		if readers != nil { // every connection has its own random source
			conf = &dtlcp.Config{CookieSecret: cfg, Rand: readers[i]}
		}
		c := dtlcp.Server(nil, nil, conf)
		first := dtlcp.VerifEffectiveCookieSecret(c)
		for j := 1; j < calls; j++ {
			if !bytes.Equal(first, dtlcp.VerifEffectiveCookieSecret(c)) {
				stable = false
			}
		}
		secrets = append(secrets, first)
	}
	distinct := n > 1
	iscfg := len(cfg) > 0
	var lens []string
	for i, s := range secrets {
		lens = append(lens, strconv.Itoa(len(s)))
		if !bytes.Equal(s, cfg) {
			iscfg = false
		}
		for j := 0; j < i; j++ {
			if bytes.Equal(s, secrets[j]) {
				distinct = false
			}
		}
	}
	out := fmt.Sprintf("lens=%s stable=%s distinct=%s iscfg=%s", strings.Join(lens, "."), b01(stable), b01(distinct), b01(iscfg))
	if readers != nil {
		var sec, drawn []string
		for i, s := range secrets {
			sec = append(sec, hx.Hex(s))
			drawn = append(drawn, strconv.Itoa(readers[i].taken()))
		}
		out += fmt.Sprintf(" sec=%s drawn=%s", strings.Join(sec, ";"), strings.Join(drawn, "."))
	}
	return out
}

// chunkReader is a Config.Rand that produces a given byte stream (continued deterministically
// when it runs out) and returns at most `chunk` bytes per Read, without error: a legal io.Reader
// that makes short reads (a chunking hardware RNG, a pipe, iotest.OneByteReader).
type chunkReader struct {
	mu     sync.Mutex
	stream []byte
	chunk  int
	off    int
}

func (r *chunkReader) at(i int) byte {
	if i < len(r.stream) {
		return r.stream[i]
	}
	blk := (i - len(r.stream)) / 32
	h := sm3.Sum(append(append([]byte("c18-rand-continuation"), r.stream...), byte(blk>>24), byte(blk>>16), byte(blk>>8), byte(blk)))
	return h[(i-len(r.stream))%32]
}

func (r *chunkReader) Read(p []byte) (int, error) {
	r.mu.Lock()
	defer r.mu.Unlock()
	k := r.chunk
	if k > len(p) {
		k = len(p)
	}
	for i := 0; i < k; i++ {
		p[i] = r.at(r.off + i)
	}
	r.off += k
	return k, nil
}

func (r *chunkReader) taken() int { r.mu.Lock(); defer r.mu.Unlock(); return r.off }

// parseRand reads `<chunk>/<stream hex>;<stream hex>…`
func parseRand(s string) (int, [][]byte) {
	p := strings.SplitN(s, "/", 2)
	if len(p) != 2 {
		panic("bad rand " + s)
	}
	chunk, _ := strconv.Atoi(p[0])
	if chunk < 1 {
		panic("bad rand chunk " + s)
	}
	var streams [][]byte
	for _, x := range strings.Split(p[1], ";") {
		streams = append(streams, hx.UnHex(x))
	}
	return chunk, streams
}

// ---------------------------------------------------------------------------- server level

type strAddr string

func (a strAddr) Network() string { return "udp" }
func (a strAddr) String() string  { return string(a) }

type dgram struct {
	data []byte
	from net.Addr
}

// srvConn is the server's PacketConn: records what is sent, lets the driver inject datagrams
// and tells when the server is blocked reading with nothing left to read. Deadlines never fire.
type srvConn struct {
	mu      sync.Mutex
	cond    *sync.Cond
	queue   []dgram
	closed  bool
	waiting bool
	exited  bool
	sent    [][]byte
	rdDead  time.Time
}

func newSrvConn() *srvConn { s := &srvConn{}; s.cond = sync.NewCond(&s.mu); return s }

func (s *srvConn) ReadFrom(p []byte) (int, net.Addr, error) {
	s.mu.Lock()
	defer s.mu.Unlock()
	for {
		if s.closed {
			return 0, nil, net.ErrClosed
		}
		if len(s.queue) > 0 {
			d := s.queue[0]
			s.queue = s.queue[1:]
			s.waiting = false
			return copy(p, d.data), d.from, nil
		}
		s.waiting = true
		s.cond.Broadcast()
		if !s.rdDead.IsZero() {
			d := time.Until(s.rdDead)
			if d <= 0 {
				return 0, nil, os.ErrDeadlineExceeded
			}
			t := time.AfterFunc(d, func() { s.mu.Lock(); s.cond.Broadcast(); s.mu.Unlock() })
			s.cond.Wait()
			t.Stop()
			continue
		}
		s.cond.Wait()
	}
}
func (s *srvConn) WriteTo(p []byte, _ net.Addr) (int, error) {
	s.mu.Lock()
	defer s.mu.Unlock()
	if s.closed {
		return 0, net.ErrClosed
	}
	s.sent = append(s.sent, append([]byte(nil), p...))
	return len(p), nil
}
func (s *srvConn) Close() error {
	s.mu.Lock()
	s.closed = true
	s.cond.Broadcast()
	s.mu.Unlock()
	return nil
}
func (s *srvConn) LocalAddr() net.Addr              { return strAddr("10.0.0.1:4433") }
func (s *srvConn) SetDeadline(t time.Time) error    { return s.SetReadDeadline(t) }
func (s *srvConn) SetReadDeadline(t time.Time) error {
	s.mu.Lock()
	s.rdDead = t
	s.cond.Broadcast()
	s.mu.Unlock()
	return nil
}
func (s *srvConn) SetWriteDeadline(time.Time) error { return nil }

func (s *srvConn) deliver(data []byte, from net.Addr) {
	s.mu.Lock()
	s.queue = append(s.queue, dgram{data, from})
	s.waiting = false
	s.cond.Broadcast()
	s.mu.Unlock()
}

// settle waits until the server has consumed everything and blocks reading (or is gone).
func (s *srvConn) settle() {
	t := time.AfterFunc(10*time.Second, func() { s.mu.Lock(); s.exited = true; s.cond.Broadcast(); s.mu.Unlock() })
	defer t.Stop()
	s.mu.Lock()
	for !(s.waiting && len(s.queue) == 0) && !s.exited && !s.closed {
		s.cond.Wait()
	}
	s.mu.Unlock()
}
func (s *srvConn) markExited() {
	s.mu.Lock()
	s.exited = true
	s.cond.Broadcast()
	s.mu.Unlock()
}
func (s *srvConn) nSent() int { s.mu.Lock(); defer s.mu.Unlock(); return len(s.sent) }
func (s *srvConn) sentFrom(i int) [][]byte {
	s.mu.Lock()
	defer s.mu.Unlock()
	return append([][]byte(nil), s.sent[i:]...)
}

// countingKey wraps a private key handed to the server through the public Config and counts
// every operation that uses the private part.
type countingKey struct {
	inner crypto.PrivateKey
	n     *int64
}

func (k countingKey) Public() crypto.PublicKey { return k.inner.(crypto.Signer).Public() }
func (k countingKey) Sign(r io.Reader, d []byte, o crypto.SignerOpts) ([]byte, error) {
	atomic.AddInt64(k.n, 1)
	return k.inner.(crypto.Signer).Sign(r, d, o)
}
func (k countingKey) Decrypt(r io.Reader, m []byte, o crypto.DecrypterOpts) ([]byte, error) {
	atomic.AddInt64(k.n, 1)
	return k.inner.(crypto.Decrypter).Decrypt(r, m, o)
}

// parseDatagram lists handshake message types and counts alerts in one datagram.
func parseDatagram(d []byte) (types []int, alerts int) {
	for len(d) >= 13 {
		n := int(d[11])<<8 | int(d[12])
		if 13+n > len(d) {
			break
		}
		payload := d[13 : 13+n]
		switch d[0] {
		case 22:
			if d[3] != 0 || d[4] != 0 { // epoch > 0: encrypted
				types = append(types, 255)
				break
			}
			for len(payload) >= 12 {
				fl := int(payload[9])<<16 | int(payload[10])<<8 | int(payload[11])
				types = append(types, int(payload[0]))
				if 12+fl > len(payload) {
					break
				}
				payload = payload[12+fl:]
			}
		case 21:
			alerts++
		}
		d = d[13+n:]
	}
	return
}

func joinInts(xs []int) string {
	if len(xs) == 0 {
		return "-"
	}
	ss := make([]string, len(xs))
	for i, x := range xs {
		ss[i] = strconv.Itoa(x)
	}
	return strings.Join(ss, ".")
}

// mkAddr builds the net.Addr of a peer: kind 's' an opaque address printing `text`, 'u' a
// *net.UDPAddr parsed from the text host:port (4-byte IP for IPv4, zone kept), 'm' the same with
// the IPv4 address held in its 16-byte IPv4-mapped form (what a dual-stack socket reports).
// A fresh value on every call, like ReadFrom. portDelta != 0: the same host with another port.
func mkAddr(kind byte, text string, portDelta int) (net.Addr, bool) {
	if kind == 's' {
		return strAddr(text), true
	}
	ap, err := netip.ParseAddrPort(text)
	if err != nil {
		return nil, false
	}
	port := int(ap.Port())
	if portDelta != 0 {
		port = (port+portDelta-1)%65535 + 1
	}
	ua := &net.UDPAddr{IP: net.IP(ap.Addr().AsSlice()), Port: port, Zone: ap.Addr().Zone()}
	if kind == 'm' {
		if !ap.Addr().Is4() {
			return nil, false
		}
		a16 := ap.Addr().As16()
		ua.IP = net.IP(a16[:])
	}
	return ua, true
}

func execServer(desc string) string {
	v, _ := hx.KV(desc, "cfg")
	cfgSecret := hx.UnHex(v)
	if e, _ := hx.KV(desc, "cfgempty"); e == "1" { // Config.CookieSecret = []byte{}: not nil, but no secret either
		if len(cfgSecret) != 0 {
			return "badcfg"
		}
		cfgSecret = []byte{}
	} else if len(cfgSecret) == 0 {
		cfgSecret = nil
	}
	ps, _ := hx.KV(desc, "peers")
	pk, havePk := hx.KV(desc, "pk")
	if !havePk {
		pk = "ss"
	}
	var peerText []string
	for _, p := range strings.Split(ps, ";") {
		peerText = append(peerText, string(hx.UnHex(p)))
	}
	if len(pk) != len(peerText) {
		return "badpk"
	}
	peerOf := func(i, portDelta int) net.Addr {
		a, ok := mkAddr(pk[i], peerText[i], portDelta)
		if !ok {
			panic("bad peer " + peerText[i])
		}
		return a
	}
	var peers []net.Addr
	for i := range peerText {
		peers = append(peers, peerOf(i, 0))
	}
	hsS, _ := hx.KV(desc, "hellos")
	var hellos []hello
	for _, s := range strings.Split(hsS, ";") {
		hellos = append(hellos, parseHello(s))
	}
	stepsS, _ := hx.KV(desc, "steps")

	std := pki.Std()
	var keyOps, cbCalls, cbBefore int64 // cbBefore: application callbacks seen before the accepted hello
	cfg := &dtlcp.Config{
		Certificates: []dtlcp.Certificate{
			{Certificate: [][]byte{std.SrvSig.DER}, PrivateKey: countingKey{std.SrvSig.Key, &keyOps}},
			{Certificate: [][]byte{std.SrvEnc.DER}, PrivateKey: countingKey{std.SrvEnc.Key, &keyOps}},
		},
		Time:                     pki.NowFn,
		CookieSecret:             cfgSecret,
		GetConfigForClient: func(*dtlcp.ClientHelloInfo) (*dtlcp.Config, error) {
			atomic.AddInt64(&cbCalls, 1)
			return nil, nil
		},
		InitialRetransmitTimeout: time.Hour,
		MaxRetransmitTimeout:     time.Hour,
	}
	if rto := hx.KVInt(desc, "rto"); rto > 0 {
		cfg.InitialRetransmitTimeout = time.Duration(rto) * time.Millisecond
		cfg.MaxRetransmitTimeout = 2 * cfg.InitialRetransmitTimeout
	}
	if cs, ok := hx.KV(desc, "cache"); ok { // sessions the server has cached beforehand
		cfg.SessionCache = dtlcp.NewLRUSessionCache(64)
		for _, e := range strings.Split(cs, ";") {
			q := strings.Split(e, "/")
			if len(q) != 2 {
				return "badcache"
			}
			sid, su := hx.UnHex(q[0]), hx.UnHex(q[1])
			if len(su) != 2 {
				return "badcache"
			}
			master := bytes.Repeat([]byte{0x3c}, 48)
			cfg.SessionCache.Put(hex.EncodeToString(sid), dtlcp.VerifMakeSession(sid, dtlcp.VersionTLCP, uint16(su[0])<<8|uint16(su[1]), master))
		}
	}
	cfgs := []*dtlcp.Config{cfg, cfg}
	var streams [][]byte
	if rs, ok := hx.KV(desc, "rand"); ok { // own random source per connection, short reads
		chunk, st := parseRand(rs)
		if len(st) != 2 || len(cfgSecret) != 0 {
			return "badrand"
		}
		streams = st
		for i := range cfgs {
			cp := cfg.Clone()
			cp.Rand = &chunkReader{stream: st[i], chunk: chunk}
			cfgs[i] = cp
		}
	}
	conns := make([]*srvConn, 2)
	var wg sync.WaitGroup
	start := func(i int) {
		sc := newSrvConn()
		conns[i] = sc
		c := dtlcp.Server(sc, peers[i], cfgs[i])
		wg.Add(1)
		go func() {
			defer wg.Done()
			defer sc.markExited()
			_ = hx.Guard(func() { _ = c.Handshake() })
		}()
	}
	defer func() {
		for _, sc := range conns {
			if sc != nil {
				sc.Close()
			}
		}
		wg.Wait()
	}()

	var cookies [][]byte // cookie of the i-th HelloVerifyRequest seen
	seqs := []uint64{0, 0}
	msgSeqs := []uint16{0, 0}
	var outs []string
	flight := "-"
	for _, st := range strings.Split(stepsS, ",") {
		p := strings.Split(st, ":")
		if len(p) == 3 && p[1] == "w" { // the peer stays silent for p[2] milliseconds
			ci := 0
			if p[0] == "b" {
				ci = 1
			}
			if conns[ci] == nil {
				start(ci)
			}
			sc := conns[ci]
			before := sc.nSent()
			ms, _ := strconv.Atoi(p[2])
			time.Sleep(time.Duration(ms) * time.Millisecond)
			var types, sizes []int
			alerts := 0
			for _, d := range sc.sentFrom(before) {
				t, a := parseDatagram(d)
				types = append(types, t...)
				alerts += a
				sizes = append(sizes, len(d))
			}
			outs = append(outs, fmt.Sprintf("%d/%s/%s/%d/0/%d", len(sizes), joinInts(types), joinInts(sizes), alerts, atomic.LoadInt64(&keyOps)))
			cbBefore = atomic.LoadInt64(&cbCalls)
			continue
		}
		if len(p) != 5 && len(p) != 6 {
			return "badstep=" + st
		}
		if strings.HasPrefix(p[4], "F") && len(p) != 5 {
			return "badstep=" + st
		}
		pack, perRecord := 1, false
		if len(p) == 6 {
			perRecord = strings.HasSuffix(p[5], "r")
			pack, _ = strconv.Atoi(strings.TrimSuffix(p[5], "r"))
		}
		ci := 0
		if p[0] == "b" {
			ci = 1
		}
		hi, _ := strconv.Atoi(p[1])
		frags, _ := strconv.Atoi(p[4])
		if conns[ci] == nil {
			start(ci)
		}
		sc := conns[ci]
		var cookie []byte
		switch {
		case p[2] == "-":
		case p[2] == "r":
			cookie = bytes.Repeat([]byte{0x5a}, 32)
		case p[2][0] == 'k':
			i, _ := strconv.Atoi(p[2][1:])
			if i < len(cookies) {
				cookie = append([]byte(nil), cookies[i]...)
			} else {
				cookie = bytes.Repeat([]byte{0x5b}, 32)
			}
		case p[2][0] == 'x':
			q := strings.Split(p[2][1:], ".")
			i, _ := strconv.Atoi(q[0])
			pos, _ := strconv.Atoi(q[1])
			if i < len(cookies) {
				cookie = append([]byte(nil), cookies[i]...)
				cookie[pos%len(cookie)] ^= 0x01
			} else {
				cookie = bytes.Repeat([]byte{0x5c}, 32)
			}
		case p[2] == "e":
			// forged without ever seeing a HelloVerifyRequest: the cookie for this very address and
			// hello under the EMPTY key (what a server that took an empty Config.CookieSecret for a
			// secret would issue)
			b := hellos[hi].body(nil, nil)
			ok, _, params := dtlcp.VerifParseClientHello(hsMsg(1, len(b), 0, 0, b))
			if !ok {
				return "badstep=" + st
			}
			cookie = dtlcp.VerifGenerateCookie([]byte{}, peers[ci].String(), params)
		case p[2][0] == 'g':
			// forged without ever seeing a HelloVerifyRequest: the cookie for this very address and
			// hello under a guessed secret = the first n bytes of the connection's random stream, zeros
			// elsewhere (what a secret filled by too few random bytes would be)
			n, _ := strconv.Atoi(p[2][1:])
			if streams == nil || n > 32 || n > len(streams[ci]) {
				return "badstep=" + st
			}
			guess := make([]byte, 32)
			copy(guess, streams[ci][:n])
			b := hellos[hi].body(nil, nil)
			ok, _, params := dtlcp.VerifParseClientHello(hsMsg(1, len(b), 0, 0, b))
			if !ok {
				return "badstep=" + st
			}
			cookie = dtlcp.VerifGenerateCookie(guess, peers[ci].String(), params)
		}
		from := peerOf(ci, 0) // a fresh value, as ReadFrom reports it
		switch p[3] {
		case "p":
		case "q": // the peer's host, another port
			if pk[ci] == 's' {
				from = strAddr("203.0.113.9:999")
			} else {
				from = peerOf(ci, 1)
			}
		default:
			from = strAddr("203.0.113.9:999")
		}
		body := hellos[hi].body(cookie, nil)
		// absorb: what the server sent since `before` (types, sizes, alerts, accepted?); remembers
		// the cookies of HelloVerifyRequests
		absorb := func(before int) (types, sizes []int, alerts int, accepted bool) {
			for _, d := range sc.sentFrom(before) {
				t, a := parseDatagram(d)
				types = append(types, t...)
				alerts += a
				sizes = append(sizes, len(d))
				for _, x := range t {
					if x == 2 {
						accepted = true
					}
				}
				if len(t) == 1 && t[0] == 3 && len(d) >= 13+12+3 {
					cl := int(d[13+12+2])
					if 13+12+3+cl <= len(d) {
						cookies = append(cookies, append([]byte(nil), d[13+12+3:13+12+3+cl]...))
					}
				}
			}
			return
		}
		if strings.HasPrefix(p[4], "F") {
			// the hello as a given sequence of fragments <off>+<len> (any order, repeats, overlaps,
			// fragments after completion), all with the message_seq of this hello, one record and one
			// datagram each; the server's reaction is observed after EVERY datagram
			var rs []string
			for _, f := range strings.Split(p[4][1:], ".") {
				q := strings.Split(f, "+")
				if len(q) != 2 {
					return "badstep=" + st
				}
				off, e1 := strconv.Atoi(q[0])
				ln, e2 := strconv.Atoi(q[1])
				if e1 != nil || e2 != nil || off+ln > len(body) {
					return "badstep=" + st
				}
				d := record(22, seqs[ci], hsMsg(1, len(body), msgSeqs[ci], off, body[off:off+ln]))
				seqs[ci]++
				before := sc.nSent()
				sc.deliver(d, from)
				sc.settle()
				types, sizes, alerts, accepted := absorb(before)
				k := atomic.LoadInt64(&keyOps)
				// past the cookie gate: a ServerHello, or the per-client Config was selected (that happens only
				// for a cookie-verified hello) even if the hello then fails negotiation with an alert
				accepted = accepted || atomic.LoadInt64(&cbCalls) > cbBefore
				if accepted {
					rs = append(rs, "acc")
					flight = fmt.Sprintf("%s/%d", joinInts(types), k)
					break
				}
				cbBefore = atomic.LoadInt64(&cbCalls)
				rs = append(rs, fmt.Sprintf("%d/%s/%s/%d/%d/%d", len(sizes), joinInts(types), joinInts(sizes), alerts, len(d), k))
			}
			msgSeqs[ci]++
			outs = append(outs, strings.Join(rs, "|"))
			continue
		}
		before := sc.nSent()
		req := 0
		// split the body into `frags` fragments, one record and one datagram each
		per := (len(body) + frags - 1) / frags
		if per == 0 {
			per = 1
		}
		sentFr := 0
		if pack > 1 { // `pack` complete hellos in one datagram: one record, or one record each
			var payload, d []byte
			for i := 0; i < pack; i++ {
				m := hsMsg(1, len(body), msgSeqs[ci], 0, body)
				msgSeqs[ci]++
				if perRecord {
					d = append(d, record(22, seqs[ci], m)...)
					seqs[ci]++
				} else {
					payload = append(payload, m...)
				}
			}
			if !perRecord {
				d = record(22, seqs[ci], payload)
				seqs[ci]++
			}
			req += len(d)
			sc.deliver(d, from)
			sentFr = frags
			msgSeqs[ci]--
		}
		for off := 0; sentFr < frags; sentFr++ {
			end := off + per
			if end > len(body) || sentFr == frags-1 {
				end = len(body)
			}
			d := record(22, seqs[ci], hsMsg(1, len(body), msgSeqs[ci], off, body[off:end]))
			seqs[ci]++
			req += len(d)
			sc.deliver(d, from)
			off = end
		}
		msgSeqs[ci]++
		sc.settle()
		types, sizes, alerts, accepted := absorb(before)
		k := atomic.LoadInt64(&keyOps)
		accepted = accepted || atomic.LoadInt64(&cbCalls) > cbBefore // past the cookie gate (see above)
		if !accepted {
			cbBefore = atomic.LoadInt64(&cbCalls)
		}
		if accepted {
			outs = append(outs, "acc")
			flight = fmt.Sprintf("%s/%d", joinInts(types), k)
		} else {
			outs = append(outs, fmt.Sprintf("%d/%s/%s/%d/%d/%d", len(sizes), joinInts(types), joinInts(sizes), alerts, req, k))
		}
	}
	out := fmt.Sprintf("steps=%s flight=%s cb=%d", strings.Join(outs, ","), flight, cbBefore)
	if havePk { // the address text each connection binds its cookies to
		out += fmt.Sprintf(" ra=%s;%s", hx.Hex([]byte(peers[0].String())), hx.Hex([]byte(peers[1].String())))
	}
	return out
}

// ---------------------------------------------------------------------------- dispatch

func execute(desc string) string {
	kind, _ := hx.KV(desc, "kind")
	var out string
	if p := hx.Guard(func() {
		switch kind {
		case "cookie":
			out = execCookie(desc)
		case "decode":
			out = execDecode(desc)
		case "secret":
			out = execSecret(desc)
		case "server":
			out = execServer(desc)
		default:
			out = "unknown-kind"
		}
	}); p != "" {
		return "panic=" + p
	}
	return out
}

// ---------------------------------------------------------------------------- generators

var realSuites = []uint16{0xe013, 0xe011, 0xe053, 0xe051}

func randHello(r *hx.Rand) hello {
	h := hello{vers: 0x0101, random: r.Bytes(32)}
	if r.Chance(15) {
		h.vers = uint16(r.Intn(65536))
	}
	switch r.Intn(4) {
	case 0:
	case 1:
		h.sid = r.Bytes(32)
	case 2:
		h.sid = r.Bytes(1 + r.Intn(8))
	case 3:
		h.sid = r.Bytes(r.Intn(256))
	}
	n := 1 + r.Intn(4)
	if r.Chance(10) {
		n = r.Intn(40)
	}
	for i := 0; i < n; i++ {
		if r.Chance(70) {
			h.suites = append(h.suites, hx.Pick(r, realSuites))
		} else {
			h.suites = append(h.suites, uint16(r.Intn(65536)))
		}
	}
	h.comp = []byte{0}
	if r.Chance(20) {
		h.comp = r.Bytes(r.Intn(5))
	}
	return h
}

func randAddr(r *hx.Rand) []byte {
	switch r.Intn(6) {
	case 0:
		return []byte(fmt.Sprintf("%d.%d.%d.%d:%d", r.Intn(256), r.Intn(256), r.Intn(256), r.Intn(256), r.Intn(65536)))
	case 1:
		return []byte(fmt.Sprintf("[2001:db8::%x]:%d", r.Intn(65536), r.Intn(65536)))
	case 2:
		return []byte(fmt.Sprintf("127.0.0.1:%d", 1+r.Intn(9)))
	case 3:
		return r.Bytes(r.Intn(40))
	case 4:
		return []byte(fmt.Sprintf("[fe80::1%%eth%d]:%d", r.Intn(10), r.Intn(65536)))
	default:
		return []byte(fmt.Sprintf("10.0.0.%d:%d", r.Intn(256), 1024+r.Intn(60000)))
	}
}

// byteVariants returns h with one byte changed, for every byte position of every covered field
// (version 2, random 32, every session id byte, every byte of the cipher-suite list, every
// compression byte).
func byteVariants(r *hx.Rand, h hello) []hello {
	var out []hello
	flip := func() byte { return byte(1) << uint(r.Intn(8)) }
	for i := 0; i < 2; i++ {
		t := h
		t.vers ^= uint16(flip()) << uint(8*(1-i))
		out = append(out, t)
	}
	for i := range h.random {
		t := h
		t.random = append([]byte(nil), h.random...)
		t.random[i] ^= flip()
		out = append(out, t)
	}
	for i := range h.sid {
		t := h
		t.sid = append([]byte(nil), h.sid...)
		t.sid[i] ^= flip()
		out = append(out, t)
	}
	for i := 0; i < 2*len(h.suites); i++ {
		t := h
		t.suites = append([]uint16(nil), h.suites...)
		t.suites[i/2] ^= uint16(flip()) << uint(8*(1-i%2))
		out = append(out, t)
	}
	for i := range h.comp {
		t := h
		t.comp = append([]byte(nil), h.comp...)
		t.comp[i] ^= flip()
		out = append(out, t)
	}
	return out
}

// realistic hello: the four TLCP suites (all share the high byte 0xe0), 32-byte session id
func realisticHello(r *hx.Rand) hello {
	return hello{vers: 0x0101, random: r.Bytes(32), sid: r.Bytes(32), suites: []uint16{0xe053, 0xe013, 0xe051, 0xe011}, comp: []byte{0}}
}

func cookieCase(secret, addr []byte, h hello, tsecret, taddr []byte, th hello, mut string) string {
	return fmt.Sprintf("kind=cookie secret=%s addr=%s h=%s tsecret=%s taddr=%s th=%s mut=%s",
		hx.Hex(secret), hx.Hex(addr), h, hx.Hex(tsecret), hx.Hex(taddr), th, mut)
}

// shiftPair builds the F15 family: the last byte of the address moves into the hello version.
// It needs base.random[31] == 1 and an empty session id; returns (addr', hello').
func shiftPair(addr []byte, base hello) ([]byte, hello) {
	n := len(addr)
	t := hello{vers: uint16(addr[n-1])<<8 | base.vers>>8, sid: []byte{0}, suites: base.suites, comp: base.comp}
	t.random = append([]byte{byte(base.vers)}, base.random[:31]...)
	return addr[:n-1], t
}

func designPair() (a2 []byte, h2 hello, a1 []byte, h1 hello) {
	// DESIGN.md C18: hello2 {0x0101, random ending in 00, session id 00, 255 suites S, compression C}
	// at port 55; hello1 {0x3501, 01‖random2[0..31), empty session id, 256 suites 00ff‖S, C} at port 5.
	var S []uint16
	for i := 0; i < 255; i++ {
		S = append(S, realSuites[i%4])
	}
	r2 := append(bytes.Repeat([]byte{0xcd}, 31), 0)
	h2 = hello{vers: 0x0101, random: r2, sid: []byte{0}, suites: S, comp: []byte{0}}
	h1 = hello{vers: 0x3501, random: append([]byte{1}, r2[:31]...), suites: append([]uint16{0x00ff}, S...), comp: []byte{0}}
	return []byte("1.2.3.4:55"), h2, []byte("1.2.3.4:5"), h1
}

func genHook(o hx.Opts, emit func(string)) {
	r := hx.NewRand(o.Seed)
	// --- witnesses first: F15 (address ‖ parameters without framing)
	sec := []byte("verif-cookie-secret")
	h55 := hello{vers: 0x0101, random: append(bytes.Repeat([]byte{0xab}, 31), 1), suites: []uint16{0xe013, 0xe011}, comp: []byte{0}}
	a5, h5 := shiftPair([]byte("1.2.3.4:55"), h55)
	emit(cookieCase(sec, []byte("1.2.3.4:55"), h55, sec, a5, h5, "-"))
	emit(cookieCase(sec, a5, h5, sec, []byte("1.2.3.4:55"), h55, "-"))
	a2, h2, a1, h1 := designPair()
	emit(cookieCase(sec, a2, h2, sec, a1, h1, "-"))
	// the smallest decodable hello and its reply
	small := hello{vers: 0x0101, random: make([]byte, 32)}
	emit(cookieCase(sec, []byte("1.2.3.4:5"), small, sec, []byte("1.2.3.4:5"), small, "-"))

	// every single byte of every covered field, on a realistic hello (also the swap of two suites
	// that differ only in their low byte)
	rh := realisticHello(r)
	for _, th := range byteVariants(r, rh) {
		emit(cookieCase(sec, []byte("10.0.0.2:5000"), rh, sec, []byte("10.0.0.2:5000"), th, "-"))
	}
	sw := rh
	sw.suites = []uint16{0xe013, 0xe053, 0xe051, 0xe011}
	emit(cookieCase(sec, []byte("10.0.0.2:5000"), rh, sec, []byte("10.0.0.2:5000"), sw, "-"))

	n := 120 * o.Scale
	if o.Tier == "thorough" {
		n = 3000 * o.Scale
	}
	for i := 0; i < n; i++ {
		secret := r.Bytes(1 + r.Intn(48))
		if r.Chance(5) {
			secret = r.Bytes(65 + r.Intn(40))
		}
		addr := randAddr(r)
		h := randHello(r)
		// the issued triple
		emit(cookieCase(secret, addr, h, secret, addr, h, "-"))
		// every single byte of every covered field (each 4th base, and every realistic one)
		if i%4 == 0 || i%4 == 1 {
			bh := h
			if i%4 == 1 {
				bh = realisticHello(r)
				if r.Bool() {
					bh.sid = nil
				}
				bh.suites = bh.suites[:2+r.Intn(3)]
			}
			for _, th := range byteVariants(r, bh) {
				emit(cookieCase(secret, addr, bh, secret, addr, th, "-"))
			}
		}
		// every covered field changed
		for f := 0; f < 5; f++ {
			th := h
			switch f {
			case 0:
				th.vers ^= uint16(1) << uint(r.Intn(16))
			case 1:
				th.random = append([]byte(nil), h.random...)
				th.random[r.Intn(32)] ^= byte(1 + r.Intn(255))
			case 2:
				switch r.Intn(3) {
				case 0:
					th.sid = append(append([]byte(nil), h.sid...), byte(r.Intn(256)))
					if len(th.sid) > 255 {
						th.sid = th.sid[:254]
					}
				case 1:
					if len(h.sid) > 0 {
						th.sid = h.sid[:len(h.sid)-1]
					} else {
						th.sid = []byte{0}
					}
				case 2:
					if len(h.sid) > 0 {
						th.sid = append([]byte(nil), h.sid...)
						th.sid[r.Intn(len(th.sid))] ^= 0x40
					} else {
						th.sid = []byte{1, 2}
					}
				}
			case 3:
				switch r.Intn(4) {
				case 0:
					th.suites = append(append([]uint16(nil), h.suites...), hx.Pick(r, realSuites))
				case 1:
					if len(h.suites) > 0 {
						th.suites = h.suites[:len(h.suites)-1]
					} else {
						th.suites = []uint16{0xe013}
					}
				case 2: // reorder
					if len(h.suites) > 1 && h.suites[0] != h.suites[len(h.suites)-1] {
						th.suites = append([]uint16(nil), h.suites...)
						th.suites[0], th.suites[len(th.suites)-1] = th.suites[len(th.suites)-1], th.suites[0]
					} else {
						th.suites = append([]uint16{0x0001}, h.suites...)
					}
				case 3: // move a boundary: last suite's low byte into the compression list
					if len(h.suites) > 0 {
						th.suites = append([]uint16(nil), h.suites...)
						th.suites[len(th.suites)-1] ^= 0x0100
					} else {
						th.suites = []uint16{0}
					}
				}
			case 4:
				if r.Bool() {
					th.comp = append(append([]byte(nil), h.comp...), 1)
				} else if len(h.comp) > 0 {
					th.comp = h.comp[:len(h.comp)-1]
				} else {
					th.comp = []byte{0}
				}
			}
			emit(cookieCase(secret, addr, h, secret, addr, th, "-"))
		}
		// other address (unrelated, one character changed, prefix, extension)
		var oa []byte
		switch r.Intn(6) {
		case 5: // the same host, another port (where the address has the form host:port)
			if i := bytes.LastIndexByte(addr, ':'); i >= 0 {
				oa = append(append([]byte(nil), addr[:i+1]...), []byte(strconv.Itoa(1+r.Intn(65535)))...)
			} else {
				oa = randAddr(r)
			}
		case 0:
			oa = randAddr(r)
		case 1:
			if len(addr) > 0 {
				oa = append([]byte(nil), addr...)
				oa[r.Intn(len(oa))] ^= 0x01
			} else {
				oa = []byte("1")
			}
		case 2:
			if len(addr) > 0 {
				oa = addr[:len(addr)-1]
			} else {
				oa = []byte("0")
			}
		case 3:
			oa = append(append([]byte(nil), addr...), byte('0'+r.Intn(10)))
		case 4:
			oa = append(append([]byte(nil), addr...), byte(h.vers>>8))
		}
		if bytes.Equal(oa, addr) {
			oa = append(oa, '7')
		}
		emit(cookieCase(secret, addr, h, secret, oa, h, "-"))
		// the shifted pair built for this address (F15 family), both directions
		if len(addr) > 1 {
			sh := h
			sh.sid = nil
			sh.random = append(append([]byte(nil), h.random[:31]...), 1)
			sa, st := shiftPair(addr, sh)
			emit(cookieCase(secret, addr, sh, secret, sa, st, "-"))
			emit(cookieCase(secret, sa, st, secret, addr, sh, "-"))
		}
		// other secret
		var os []byte
		switch r.Intn(4) {
		case 0:
			os = r.Bytes(1 + r.Intn(48))
		case 1:
			os = append([]byte(nil), secret...)
			os[r.Intn(len(os))] ^= 0x80
		case 2:
			os = append(append([]byte(nil), secret...), 0) // same HMAC key (zero padding) when <= 64 bytes
		case 3:
			os = secret[:len(secret)-1]
			if len(os) == 0 {
				os = []byte{1}
			}
		}
		if bytes.Equal(os, secret) {
			os = append(os, 9)
		}
		emit(cookieCase(secret, addr, h, os, addr, h, "-"))
		// cookie changes
		if i%8 == 0 {
			for pos := 0; pos < 32; pos++ {
				emit(cookieCase(secret, addr, h, secret, addr, h, fmt.Sprintf("x%d.%02x", pos, 1<<uint(r.Intn(8)))))
			}
		} else {
			emit(cookieCase(secret, addr, h, secret, addr, h, fmt.Sprintf("x%d.%02x", r.Intn(32), 1+r.Intn(255))))
		}
		emit(cookieCase(secret, addr, h, secret, addr, h, fmt.Sprintf("t%d", r.Intn(32))))
		emit(cookieCase(secret, addr, h, secret, addr, h, "a"+hx.Hex(r.Bytes(1+r.Intn(3)))))
	}

	// --- decode: what unmarshal accepts is at least the core layout
	nd := 300 * o.Scale
	if o.Tier == "thorough" {
		nd = 6000 * o.Scale
	}
	emit("kind=decode msg=" + hx.Hex(hsMsg(1, 39, 0, 0, small.body(nil, nil))))
	emit("kind=decode msg=" + hx.Hex(hsMsg(1, 38, 0, 0, small.body(nil, nil)[:38])))
	for i := 0; i < nd; i++ {
		h := randHello(r)
		var ck []byte
		if r.Bool() {
			ck = r.Bytes(r.Intn(40))
		}
		var ext []byte
		if r.Chance(25) {
			name := []byte("test.example")
			ext = []byte{0, 0, byte((len(name) + 5) >> 8), byte(len(name) + 5), byte((len(name) + 3) >> 8), byte(len(name) + 3), 0, byte(len(name) >> 8), byte(len(name))}
			ext = append(ext, name...)
		} else if r.Chance(10) {
			ext = r.Bytes(r.Intn(12))
		}
		b := h.body(ck, ext)
		msg := hsMsg(1, len(b), uint16(r.Intn(4)), 0, b)
		switch r.Intn(8) {
		case 0: // truncate
			msg = msg[:r.Intn(len(msg)+1)]
		case 1: // perturb one length byte region
			if len(msg) > 46 {
				msg[12+34+r.Intn(len(msg)-46)] ^= byte(1 << uint(r.Intn(8)))
			}
		case 2: // fragment length field differs
			fl := r.Intn(len(b) + 3)
			msg[9], msg[10], msg[11] = byte(fl>>16), byte(fl>>8), byte(fl)
		case 3: // other type
			msg[0] = byte(r.Intn(4))
		case 4: // trailing garbage
			msg = append(msg, r.Bytes(1+r.Intn(4))...)
		}
		emit("kind=decode msg=" + hx.Hex(msg))
	}
	// short random strings
	for i := 0; i < nd/4; i++ {
		b := r.Bytes(r.Intn(60))
		emit("kind=decode msg=" + hx.Hex(hsMsg(1, len(b), 0, 0, b)))
	}

	// --- the secret
	for _, cfg := range [][]byte{nil, []byte("configured-secret"), {7}} {
		for _, n := range []int{1, 2, 5} {
			emit(fmt.Sprintf("kind=secret cfg=%s n=%d calls=3", hx.Hex(cfg), n))
		}
	}
	// Config.CookieSecret = []byte{} (not nil, length 0 — an unset environment variable, an empty key
	// file): no secret is configured, every connection draws its own
	for _, n := range []int{1, 2, 5} {
		emit(fmt.Sprintf("kind=secret cfg=- cfgempty=1 n=%d calls=3", n))
	}
	// no configured secret, Config.Rand = a given stream handed out in short reads (1 … 64 bytes per
	// Read): connections whose streams share only a short prefix
	for _, chunk := range []int{1, 2, 3, 7, 8, 15, 16, 17, 31, 32, 33, 64} {
		for _, pre := range []int{0, 1, 2, 8, 15} {
			n := 2 + r.Intn(2)
			c := fmt.Sprintf("kind=secret cfg=- n=%d calls=3 rand=%d/%s", n, chunk, hexJoin(randStreams(r, n, pre, 48+r.Intn(32))))
			if pre == 1 || r.Chance(20) {
				c += " cfgempty=1"
			}
			emit(c)
		}
	}
}

// randStreams returns n byte streams of the given length without zero bytes that share their first
// `pre` bytes and differ at every later position.
func randStreams(r *hx.Rand, n, pre, length int) [][]byte {
	base := r.Bytes(length)
	out := make([][]byte, n)
	for i := range out {
		s := make([]byte, length)
		for j := range s {
			// low nibble never zero: no zero bytes, so a guessed secret padded with zeros is never
			// the real one; streams differ in the high nibble (n < 16)
			s[j] = base[j] | 0x01
			if j >= pre {
				s[j] ^= byte(i+1) << 4
			}
		}
		out[i] = s
	}
	return out
}

func hexJoin(xs [][]byte) string {
	ss := make([]string, len(xs))
	for i, x := range xs {
		ss[i] = hx.Hex(x)
	}
	return strings.Join(ss, ";")
}

func serverCase(cfg []byte, pa, pb []byte, hs []hello, steps []string) string {
	var hh []string
	for _, h := range hs {
		hh = append(hh, h.String())
	}
	return fmt.Sprintf("kind=server cfg=%s peers=%s;%s hellos=%s steps=%s", hx.Hex(cfg), hx.Hex(pa), hx.Hex(pb), strings.Join(hh, ";"), strings.Join(steps, ","))
}

func goodHello(r *hx.Rand) hello {
	h := hello{vers: 0x0101, random: r.Bytes(32), suites: []uint16{0xe013, 0xe053}, comp: []byte{0}}
	if r.Chance(30) {
		h.sid = r.Bytes(32)
	}
	if r.Chance(30) {
		h.suites = []uint16{0xe053, 0xe013, 0x00ff}
	}
	return h
}

// randUDP returns the canonical text of a random UDP endpoint (port >= 10, so that the text minus
// its last character is an endpoint too) and the kind of value the driver makes of it.
func randUDP(r *hx.Rand) ([]byte, byte) {
	port := 10 + r.Intn(65526)
	switch r.Intn(5) {
	case 0, 1:
		kind := byte('u')
		if r.Chance(35) {
			kind = 'm'
		}
		return []byte(fmt.Sprintf("%d.%d.%d.%d:%d", 1+r.Intn(223), r.Intn(256), r.Intn(256), r.Intn(256), port)), kind
	case 2:
		return []byte(fmt.Sprintf("10.0.0.%d:%d", 1+r.Intn(9), port)), 'u'
	case 3:
		return []byte(fmt.Sprintf("[2001:db8::%x]:%d", 1+r.Intn(65535), port)), 'u'
	default:
		return []byte(fmt.Sprintf("[fe80::%x%%eth%d]:%d", 1+r.Intn(65535), r.Intn(10), port)), 'u'
	}
}

// udpVariant returns a second endpoint related to pa: the same one (in some representation),
// the same host with another port, another host with the same port, pa minus its last character
// (a port that is a prefix), another zone, or an unrelated one.
func udpVariant(r *hx.Rand, pa []byte) ([]byte, byte) {
	i := bytes.LastIndexByte(pa, ':')
	host, port := pa[:i], pa[i+1:]
	v4 := pa[0] != '['
	kind := func() byte {
		if v4 && r.Chance(40) {
			return 'm'
		}
		return 'u'
	}
	switch r.Intn(7) {
	case 0:
		if r.Chance(25) {
			return pa, 's'
		}
		return pa, kind()
	case 1, 2:
		np := strconv.Itoa(1 + r.Intn(65535))
		if np == string(port) {
			np = strconv.Itoa(1 + (r.Intn(65535)+1)%65535)
		}
		return append(append([]byte(nil), host...), []byte(":"+np)...), kind()
	case 3:
		pb, k := randUDP(r)
		j := bytes.LastIndexByte(pb, ':')
		return append(append([]byte(nil), pb[:j+1]...), port...), k
	case 4:
		return pa[:len(pa)-1], kind()
	case 5:
		if z := bytes.IndexByte(host, '%'); z >= 0 { // "[fe80::x%ethN]": another zone, or none
			nh := append([]byte(nil), host[:z]...)
			if r.Bool() {
				nh = append(nh, []byte("%wlan0")...)
			}
			nh = append(nh, ']')
			return append(append(nh, ':'), port...), 'u'
		}
		return append(append([]byte(nil), host...), []byte(":"+strconv.Itoa(1+r.Intn(9)))...), kind()
	default:
		return randUDP(r)
	}
}

// fragStep writes a step that sends hello hi as the given (offset, length) fragments, one datagram each.
func fragStep(c string, hi int, ref string, frs [][2]int) string {
	var ss []string
	for _, f := range frs {
		ss = append(ss, fmt.Sprintf("%d+%d", f[0], f[1]))
	}
	return fmt.Sprintf("%s:%d:%s:p:F%s", c, hi, ref, strings.Join(ss, "."))
}

// fragDeliveries counts how often a correct reassembly (one buffer, dropped when the message is
// rebuilt; an unfragmented message bypasses it) delivers a message of L bytes for this series.
func fragDeliveries(L int, frs [][2]int) int {
	got := make([]bool, L)
	n := 0
	for _, f := range frs {
		if f[0] == 0 && f[1] == L {
			n++
			continue
		}
		for i := f[0]; i < f[0]+f[1]; i++ {
			got[i] = true
		}
		all := true
		for _, g := range got {
			all = all && g
		}
		if all {
			n++
			got = make([]bool, L)
		}
	}
	return n
}

// randFragScript cuts a message of L bytes into 2-4 pieces (often with a last piece of 1-4 bytes)
// and returns them in some order; unless `clean`, with what a lossy or hostile network adds:
// repeats of the last piece after completion, duplicates before completion, a full
// retransmission, overlapping and empty fragments, the whole message in one piece.
func randFragScript(r *hx.Rand, L int, clean bool) [][2]int {
	k := 2 + r.Intn(3)
	cuts := map[int]bool{}
	if r.Chance(50) {
		cuts[L-1-r.Intn(4)] = true
	}
	for len(cuts) < k-1 {
		cuts[1+r.Intn(L-1)] = true
	}
	var pieces [][2]int
	prev := 0
	for i := 1; i <= L; i++ {
		if cuts[i] || i == L {
			pieces = append(pieces, [2]int{prev, i - prev})
			prev = i
		}
	}
	out := append([][2]int(nil), pieces...)
	switch r.Intn(3) {
	case 0:
	case 1:
		for i, j := 0, len(out)-1; i < j; i, j = i+1, j-1 {
			out[i], out[j] = out[j], out[i]
		}
	case 2:
		for i := len(out) - 1; i > 0; i-- {
			j := r.Intn(i + 1)
			out[i], out[j] = out[j], out[i]
		}
	}
	if clean {
		return out
	}
	last := out[len(out)-1]
	for n := r.Intn(3); n > 0; n-- {
		switch r.Intn(7) {
		case 0, 1, 2: // the piece that completed the message, again (and again)
			for m := 1 + r.Intn(3); m > 0; m-- {
				out = append(out, last)
			}
		case 3: // a duplicate before completion
			i := r.Intn(len(out))
			out = append(out[:i+1], out[i:]...)
		case 4: // everything once more
			out = append(out, pieces...)
		case 5: // an overlapping or empty fragment somewhere
			off := r.Intn(L)
			f := [2]int{off, r.Intn(L - off + 1)}
			if r.Chance(25) {
				f[1] = 0
			}
			i := r.Intn(len(out) + 1)
			out = append(out[:i], append([][2]int{f}, out[i:]...)...)
		case 6: // the whole message in one piece
			i := r.Intn(len(out) + 1)
			out = append(out[:i], append([][2]int{{0, L}}, out[i:]...)...)
		}
	}
	if len(out) > 12 {
		out = out[:12]
	}
	return out
}

func genServer(o hx.Opts, emit func(string)) {
	r := hx.NewRand(o.Seed + 77)
	sec := []byte("verif-cookie-secret")
	// --- witnesses first: F15 against a real server (cookie from :55 replayed from :5 with a shifted hello)
	h55 := hello{vers: 0x0101, random: append(bytes.Repeat([]byte{0xab}, 31), 1), suites: []uint16{0xe013, 0xe053}, comp: []byte{0}}
	a5, h5 := shiftPair([]byte("1.2.3.4:55"), h55)
	emit(serverCase(sec, []byte("1.2.3.4:55"), a5, []hello{h55, h5}, []string{"a:0:-:p:1", "b:1:k0:p:1"}))
	// the ordinary exchange: cookieless hellos are answered by HelloVerifyRequests only, then the valid cookie
	g := goodHello(r)
	emit(serverCase(nil, []byte("10.0.0.2:5000"), []byte("10.0.0.3:5000"), []hello{g}, []string{"a:0:-:p:1", "a:0:-:p:1", "a:0:-:p:1", "a:0:k2:p:1"}))
	// smallest hello
	small := hello{vers: 0x0101, random: make([]byte, 32)}
	emit(serverCase(nil, []byte("10.0.0.2:5000"), []byte("10.0.0.3:5000"), []hello{small}, []string{"a:0:-:p:1", "a:0:r:p:1", "a:0:-:p:3"}))
	// no configured secret: a cookie of one connection is refused by another one with the same peer address
	emit(serverCase(nil, []byte("10.0.0.2:5000"), []byte("10.0.0.2:5000"), []hello{g}, []string{"a:0:-:p:1", "b:0:k0:p:1", "b:0:k1:p:1"}))
	// configured secret: stateless, the same cookie is valid on another connection for the same address
	emit(serverCase(sec, []byte("10.0.0.2:5000"), []byte("10.0.0.2:5000"), []hello{g}, []string{"a:0:-:p:1", "b:0:k0:p:1"}))

	// every single byte of every covered field against the real server: the cookie of hello 0 is
	// refused for each variant, then accepted for hello 0 itself
	{
		base := realisticHello(r)
		base.sid = r.Bytes(8)
		base.suites = []uint16{0xe053, 0xe013, 0xe011}
		hs := append([]hello{base}, byteVariants(r, base)...)
		steps := []string{"a:0:-:p:1"}
		for i := 1; i < len(hs); i++ {
			steps = append(steps, fmt.Sprintf("a:%d:k0:p:1", i))
		}
		steps = append(steps, "a:0:k0:p:1")
		emit(serverCase(nil, []byte("10.0.0.2:5000"), []byte("10.0.0.3:5000"), hs, steps))
	}
	// one cookieless hello, then the (spoofed) peer stays silent for many retransmission periods
	emit(serverCase(nil, []byte("10.0.0.2:5000"), []byte("10.0.0.3:5000"), []hello{g}, []string{"a:0:-:p:1", "a:w:400", "a:0:r:p:1", "a:w:200", "a:0:k1:p:1"}) + " rto=20")
	// a first hello with a version that cannot be served (TLS 1.2, SSL, 0.x) is refused with one alert
	tls := g
	tls.vers = 0x0303
	low := g
	low.vers = 0x0100
	emit(serverCase(nil, []byte("10.0.0.2:5000"), []byte("10.0.0.3:5000"), []hello{tls, low, g}, []string{"a:0:-:p:1", "a:2:-:p:1", "b:2:-:p:1", "b:0:-:p:1", "b:1:k0:p:1"}))
	emit(serverCase(nil, []byte("10.0.0.2:5000"), []byte("10.0.0.3:5000"), []hello{tls, low, g}, []string{"a:1:-:p:1", "b:0:-:o:1", "b:0:-:p:2"}))
	// F32: several cookieless hellos in one datagram (one record / one record each)
	emit(serverCase(nil, []byte("10.0.0.2:5000"), []byte("10.0.0.3:5000"), []hello{small}, []string{"a:0:-:p:1:2"}))
	emit(serverCase(nil, []byte("10.0.0.2:5000"), []byte("10.0.0.3:5000"), []hello{small, g}, []string{"a:0:-:p:1:10", "a:0:r:p:1:3r", "a:1:-:p:1:4", "a:1:k0:p:1:2r", "a:1:-:p:1"}))

	// --- peers as the net package reports them (*net.UDPAddr, address text made by the server
	// itself): with a shared (configured) secret a cookie issued to one endpoint is refused at every
	// other endpoint — same host/other port, other host/same port, one port text a prefix of the
	// other, other zone — and a datagram from the peer's host but another port is not answered
	for _, pr := range [][3]string{
		{"192.0.2.7:40001", "192.0.2.7:40002", "uu"},
		{"192.0.2.7:40001", "192.0.2.8:40001", "uu"},
		{"192.0.2.7:4000", "192.0.2.7:40001", "um"},
		{"192.0.2.7:40001", "192.0.2.7:40002", "mu"},
		{"192.0.2.7:40001", "192.0.2.7:40002", "su"},
		{"[2001:db8::7]:40001", "[2001:db8::7]:40002", "uu"},
		{"[fe80::1%eth0]:5000", "[fe80::1%eth1]:5000", "uu"},
		{"[fe80::1%eth0]:5000", "[fe80::1]:5000", "uu"},
	} {
		emit(serverCase(sec, []byte(pr[0]), []byte(pr[1]), []hello{g}, []string{"a:0:-:p:1", "b:0:k0:p:1", "b:0:k0:q:1", "b:0:k1:p:1"}) + " pk=" + pr[2])
	}
	// … and accepted at the same endpoint whatever the in-memory form of its address (4-byte,
	// IPv4-mapped 16-byte, opaque)
	for _, k := range []string{"uu", "um", "mu", "mm", "us", "sm"} {
		emit(serverCase(sec, []byte("192.0.2.7:40001"), []byte("192.0.2.7:40001"), []hello{g}, []string{"a:0:-:p:1", "a:0:k0:q:1", "b:0:k0:p:1"}) + " pk=" + k)
	}
	// --- a server with cached sessions: a hello naming a cached session id goes through the cookie
	// exchange like any other (cookieless / wrong cookie / on another connection), then resumes
	{
		sid := r.Bytes(32)
		hc := hello{vers: 0x0101, random: r.Bytes(32), sid: sid, suites: []uint16{0xe013, 0xe053}, comp: []byte{0}}
		hn := hc // the cached session's suite is not offered
		hn.suites = []uint16{0xe053}
		cache := " cache=" + hx.Hex(sid) + "/e013"
		emit(serverCase(nil, []byte("10.0.0.2:5000"), []byte("10.0.0.3:5000"), []hello{hc}, []string{"a:0:-:p:1", "a:0:-:p:1", "b:0:-:p:1", "a:0:r:p:1", "b:0:k0:p:1", "a:0:k3:p:1"}) + cache)
		emit(serverCase(sec, []byte("192.0.2.7:40001"), []byte("192.0.2.7:40002"), []hello{hc, hn}, []string{"a:1:-:p:1", "b:0:-:p:1", "b:1:k1:p:1", "b:0:k0:p:1", "b:1:k2:p:1"}) + cache + ";" + hx.Hex(r.Bytes(8)) + "/e053 pk=uu")
		emit(serverCase(sec, []byte("10.0.0.2:5000"), []byte("10.0.0.2:5000"), []hello{hc, hn}, []string{"a:0:-:p:1:3", "b:1:-:p:2", "b:0:k0:p:1"}) + cache)
	}
	// --- no configured secret and a Config.Rand that makes short reads: cookies forged under a
	// secret guessed from the first 0 … 15 bytes of the random stream are refused, as the first
	// hello of a connection and later
	for _, chunk := range []int{1, 2, 5, 16, 32} {
		st := randStreams(r, 2, 1, 64)
		emit(serverCase(nil, []byte("10.0.0.2:5000"), []byte("10.0.0.3:5000"), []hello{g}, []string{"a:0:-:p:1", "a:0:g1:p:1", "a:0:g0:p:1", "b:0:g2:p:1", "b:0:g8:p:1", "b:0:g15:p:1", "a:0:k2:p:1"}) + fmt.Sprintf(" rand=%d/%s", chunk, hexJoin(st)))
	}

	// --- a ClientHello that arrives in fragments, the reaction observed after every datagram: the
	// last fragment repeated after completion (26-byte datagrams that complete nothing), fragments
	// in reverse order, duplicates before completion, a full retransmission, an overlap, the whole
	// message between fragments; with and without (wrong) cookie; then the valid cookie in fragments
	{
		ls := len(small.body(nil, nil))
		lg := len(g.body(nil, nil))
		emit(serverCase(nil, []byte("10.0.0.2:5000"), []byte("10.0.0.3:5000"), []hello{small, g}, []string{
			fragStep("a", 0, "-", [][2]int{{0, ls - 1}, {ls - 1, 1}, {ls - 1, 1}, {ls - 1, 1}, {ls - 1, 1}, {ls - 1, 1}, {ls - 1, 1}}),
			fragStep("a", 1, "r", [][2]int{{lg + 32 - 1, 1}, {0, lg + 32 - 1}, {lg + 32 - 1, 1}, {0, 10}, {lg + 32 - 1, 1}}),
			fragStep("b", 1, "-", [][2]int{{0, 20}, {0, 20}, {20, lg - 20}, {0, 20}, {20, lg - 20}, {20, lg - 20}, {10, 20}, {0, lg}, {30, lg - 30}, {0, 30}, {lg, 0}}),
			fragStep("a", 1, "k1", [][2]int{{40, lg + 32 - 40}, {0, 40}}),
		}))
		emit(serverCase(sec, []byte("192.0.2.7:40001"), []byte("192.0.2.7:40002"), []hello{g}, []string{
			fragStep("a", 0, "-", [][2]int{{0, lg - 2}, {lg - 2, 2}, {lg - 2, 2}, {lg - 2, 2}}),
			fragStep("b", 0, "k0", [][2]int{{0, lg + 30}, {lg + 30, 2}, {lg + 30, 2}, {0, lg + 30}, {lg + 30, 2}}),
			"a:w:60",
			fragStep("b", 0, "k1", [][2]int{{lg + 30, 2}, {7, 9}, {0, lg + 30}}),
		}) + " pk=uu rto=10")
	}
	// --- Config.CookieSecret = []byte{} (not nil, length 0): no secret is configured. A cookie forged
	// under the empty HMAC key is refused (as first hello and later), the connections' cookies for
	// one address and hello differ and are not interchangeable; the same with nil, and the forged
	// cookie against a configured secret
	for _, ce := range []string{" cfgempty=1", ""} {
		emit(serverCase(nil, []byte("10.0.0.2:5000"), []byte("10.0.0.2:5000"), []hello{g}, []string{"a:0:e:p:1", "a:0:-:p:1", "b:0:k1:p:1", "b:0:e:p:1", "b:0:k3:p:1"}) + ce)
		emit(serverCase(nil, []byte("192.0.2.7:40001"), []byte("192.0.2.7:40001"), []hello{g, small}, []string{"b:1:e:p:2", "a:0:-:p:1", "b:0:k1:p:1", "a:1:e:p:1", "a:0:k1:p:1"}) + ce + " pk=um")
	}
	emit(serverCase(sec, []byte("10.0.0.2:5000"), []byte("10.0.0.2:5000"), []hello{g}, []string{"a:0:e:p:1", "b:0:e:p:1", "b:0:k0:p:1"}))

	n := 40 * o.Scale
	if o.Tier == "thorough" {
		n = 1500 * o.Scale
	}
	for i := 0; i < n; i++ {
		var cfg []byte
		if r.Bool() {
			cfg = r.Bytes(8 + r.Intn(24))
		}
		pa := randAddr(r)
		for len(pa) < 2 {
			pa = randAddr(r)
		}
		pb := randAddr(r)
		if r.Chance(30) {
			pb = pa
		} else if r.Chance(30) {
			pb = pa[:len(pa)-1]
		}
		extra := ""
		if len(cfg) == 0 && r.Chance(35) { // not nil but empty: no secret configured either
			extra += " cfgempty=1"
		}
		if r.Chance(45) { // peers the way the net package reports them
			var ka, kb byte
			pa, ka = randUDP(r)
			pb, kb = udpVariant(r, pa)
			extra += " pk=" + string([]byte{ka, kb})
		}
		base := goodHello(r)
		base.random[31] = 1
		base.sid = nil
		sh0 := base // the shifted pair needs an empty session id
		var cachedSids [][]byte
		if r.Chance(30) { // the server has cached sessions; some hellos name them
			if r.Bool() {
				base.sid = r.Bytes(32)
				cachedSids = append(cachedSids, base.sid)
			}
		}
		randMode := len(cfg) == 0 && r.Chance(35)
		if randMode {
			extra += fmt.Sprintf(" rand=%d/%s", hx.Pick(r, []int{1, 1, 2, 3, 4, 8, 13, 16, 31, 32, 64}), hexJoin(randStreams(r, 2, r.Intn(3), 40+r.Intn(30))))
		}
		hs := []hello{base}
		// variants of base: one covered field changed each
		for f := 0; f < 5; f++ {
			t := base
			switch f {
			case 0:
				t.vers = 0x0102
			case 1:
				t.random = append([]byte(nil), base.random...)
				t.random[r.Intn(32)] ^= 0x10
			case 2:
				t.sid = r.Bytes(1 + r.Intn(32))
			case 3:
				t.suites = append([]uint16{0xe011}, base.suites...)
			case 4:
				t.comp = []byte{0, 1}
			}
			hs = append(hs, t)
		}
		if cachedSids != nil || r.Chance(8) {
			if r.Bool() {
				cachedSids = append(cachedSids, hs[3].sid)
			}
			var es []string
			for _, sid := range append(cachedSids, r.Bytes(1+r.Intn(32))) {
				es = append(es, hx.Hex(sid)+"/"+fmt.Sprintf("%04x", hx.Pick(r, []uint16{0xe013, 0xe053, 0xe011})))
			}
			extra += " cache=" + strings.Join(es, ";")
		}
		_, sh := shiftPair(pa, sh0)
		hs = append(hs, sh) // index 6: the shifted hello for pa minus its last byte
		bv := byteVariants(r, base)
		for k := 0; k < 6; k++ { // indices 7..12: single-byte variants (suite bytes favoured)
			if k < 3 {
				hs = append(hs, bv[2+32+r.Intn(2*len(base.suites))])
			} else {
				hs = append(hs, hx.Pick(r, bv))
			}
		}
		silent := r.Chance(10)
		var steps []string
		hvrs := 0
		// owner[i] = (conn, hello) the i-th HelloVerifyRequest was issued for
		type own struct {
			c string
			h int
		}
		var owner []own
		ns := 2 + r.Intn(7)
		for s := 0; s < ns; s++ {
			c := "a"
			if r.Chance(35) {
				c = "b"
			}
			hi := 0
			if r.Chance(40) {
				hi = r.Intn(len(hs))
			}
			fr := 1
			if r.Chance(20) {
				fr = 2 + r.Intn(4)
			}
			from := "p"
			if r.Chance(10) {
				from = "o"
			} else if r.Chance(5) {
				from = "q"
			}
			ref := "-"
			switch x := r.Intn(10); {
			case randMode && r.Chance(30):
				ref = fmt.Sprintf("g%d", hx.Pick(r, []int{0, 1, 1, 2, 3, 4, 8, 15}))
			case r.Chance(8):
				ref = "e"
			case x < 3 || hvrs == 0:
			case x < 5:
				ref = fmt.Sprintf("k%d", r.Intn(hvrs))
			case x < 7:
				ref = fmt.Sprintf("x%d.%d", r.Intn(hvrs), r.Intn(32))
			case x < 8:
				ref = "r"
			default:
				ref = fmt.Sprintf("k%d", hvrs-1)
			}
			// would this step be accepted by a correct server? then it must be the last one
			final := false
			if from == "p" && ref[0] == 'k' {
				i, _ := strconv.Atoi(ref[1:])
				ow := owner[i]
				samePeer := ow.c == c || bytes.Equal(pa, pb)
				// (compare contents: two table entries may be the same single-byte variant)
				if hs[ow.h].String() == hs[hi].String() && samePeer && (ow.c == c || len(cfg) > 0) {
					final = true
				}
				// on the unrepaired tree the shifted pair is accepted as well: keep it last too
				if len(cfg) > 0 && ((ow.h == 0 && hi == 6) || (ow.h == 6 && hi == 0)) && ow.c != c {
					final = true
				}
			}
			if silent && s > 0 && r.Chance(30) {
				steps = append(steps, fmt.Sprintf("%s:w:%d", c, 60+r.Intn(60)))
				continue
			}
			if !final && fr == 1 && r.Chance(15) {
				// several copies of the hello in one datagram (never for a cookie a correct server accepts)
				k := 2 + r.Intn(5)
				sfx := ""
				if r.Bool() {
					sfx = "r"
				}
				steps = append(steps, fmt.Sprintf("%s:%d:%s:%s:1:%d%s", c, hi, ref, from, k, sfx))
				if from == "p" {
					// the number of replies (1 or k) is the implementation's; cookie references made
					// later in this case only use the last one, so stop indexing here
					break
				}
				continue
			}
			if from == "p" && r.Chance(25) {
				// the hello in fragments, one datagram each, with repeats / re-orderings / overlaps /
				// fragments after completion (a cookie a correct server accepts: each piece once)
				L := len(hs[hi].body(nil, nil))
				if ref != "-" {
					L += 32
				}
				frs := randFragScript(r, L, final)
				steps = append(steps, fragStep(c, hi, ref, frs))
				if final {
					break
				}
				for k := fragDeliveries(L, frs); k > 0; k-- {
					hvrs++
					owner = append(owner, own{c, hi})
				}
				continue
			}
			steps = append(steps, fmt.Sprintf("%s:%d:%s:%s:%d", c, hi, ref, from, fr))
			if final {
				break
			}
			if from == "p" {
				hvrs++
				owner = append(owner, own{c, hi})
			}
		}
		cs := serverCase(cfg, pa, pb, hs, steps) + extra
		if silent {
			cs += " rto=10"
		}
		emit(cs)
	}
}

func main() {
	o := hx.ParseOpts()
	tr := hx.NewTrace(o.Out)
	defer tr.Close()
	emit := func(desc string) { tr.Line(desc, execute(desc)) }
	if o.Replay != "" {
		for _, c := range hx.ReplayCases(o.Replay) {
			emit(c)
		}
		return
	}
	switch o.Phase {
	case "server":
		genServer(o, emit)
	case "hook":
		genHook(o, emit)
	default:
		genHook(o, emit)
		genServer(o, emit)
	}
}

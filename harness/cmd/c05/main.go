// Driver for C05: attacked record streams on the TLCP stream stack.
//
// Phases (all emit `case => observed` lines for oracle_c05):
//
//	pad  extractPadding on exhaustive short payloads and random long ones (hook).
//	dec  halfConn.decrypt on genuine and mutated records for both cipher modes (hook); the answers
//	     of the primitives the Lean model takes as inputs are computed here with the library's
//	     SM4 / SM3 / GCM directly.
//	e2e  a real connection pair after a real handshake; the sender protects a list of records, a
//	     man in the middle edits the stream (flip / drop / duplicate / swap / cut / inject / re-length),
//	     the receiver's application reads until it gets an error and then twice more; the alert the
//	     receiver sent back is read through the sender's connection.
package main

import (
	"crypto/cipher"
	"crypto/hmac"
	"encoding/binary"
	"fmt"
	"strconv"
	"strings"
	"time"

	"gitee.com/Trisia/gotlcp/tlcp"
	"github.com/emmansun/gmsm/sm3"
	"github.com/emmansun/gmsm/sm4"
	"verifharness/internal/hx"
	"verifharness/internal/pair"
)

var tr *hx.Trace

// ---------------------------------------------------------------------------------------- pad

func emitPad(p []byte) {
	var rm int
	var good byte
	var pan string
	rm, good, pan = tlcp.VerifRxExtractPadding(p)
	obs := fmt.Sprintf("rm=%d good=%d", rm, good)
	if pan != "" {
		obs += " panic=" + strings.ReplaceAll(pan, " ", "_")
	}
	tr.Line("pad pad="+hx.Hex(p), obs)
}

func phasePad(o hx.Opts, r *hx.Rand) {
	emitPad(nil)
	// exhaustive: every payload of length 1..2 over all bytes; length 3 over a reduced alphabet
	for a := 0; a < 256; a++ {
		emitPad([]byte{byte(a)})
	}
	al := []byte{0, 1, 2, 3, 4, 255, 254, 16, 128}
	for _, a := range al {
		for _, b := range al {
			emitPad([]byte{a, b})
			for _, c := range al {
				emitPad([]byte{a, b, c})
				for _, d := range al[:5] {
					emitPad([]byte{a, b, c, d})
				}
			}
		}
	}
	// valid paddings of every length 0..255, each then broken at every position of the padding
	// (quick: first, last, middle), and lengths around the 256-byte window
	for pl := 0; pl < 256; pl++ {
		for _, extra := range []int{0, 1, 40, 300} {
			p := append(r.Bytes(extra), bytesOf(byte(pl), pl+1)...)
			emitPad(p)
			pos := []int{0, pl / 2, pl - 1}
			if o.Tier == "thorough" {
				pos = pos[:0]
				for i := 0; i < pl; i++ {
					pos = append(pos, i)
				}
			}
			for _, i := range pos {
				if i < 0 || i >= pl {
					continue
				}
				q := append([]byte(nil), p...)
				q[extra+i] ^= byte(1 + r.Intn(255))
				emitPad(q)
			}
			if extra > 0 { // byte just before the padding must not matter
				q := append([]byte(nil), p...)
				q[extra-1] ^= 0xff
				emitPad(q)
			}
		}
		// claims more padding than there are bytes
		if pl > 0 {
			emitPad(bytesOf(byte(pl), pl))
			emitPad(bytesOf(byte(pl), 1))
		}
	}
	n := 2000 * o.Scale
	if o.Tier == "thorough" {
		n = 100000 * o.Scale
	}
	for i := 0; i < n; i++ {
		ln := 1 + r.Intn(600)
		p := r.Bytes(ln)
		if r.Chance(60) { // make it nearly valid
			pl := r.Intn(256)
			if pl+1 > ln {
				pl = ln - 1
			}
			for j := 0; j <= pl; j++ {
				p[ln-1-j] = byte(pl)
			}
			if r.Chance(50) {
				p[ln-1-r.Intn(pl+1)] ^= byte(1 << r.Intn(8))
			}
		}
		emitPad(p)
	}
}

func bytesOf(b byte, n int) []byte {
	out := make([]byte, n)
	for i := range out {
		out[i] = b
	}
	return out
}

// ---------------------------------------------------------------------------------------- dec

const (
	idGCM = 0xe053
	idCBC = 0xe013
)

type keys struct{ key, iv, mac []byte }

func seqBytes(seq uint64) []byte { b := make([]byte, 8); binary.BigEndian.PutUint64(b, seq); return b }

func hmacSM3(key []byte, parts ...[]byte) []byte {
	h := hmac.New(sm3.New, key)
	for _, p := range parts {
		h.Write(p)
	}
	return h.Sum(nil)
}

// sealCBC / sealGCM build a genuine record from the standard (GB/T 38636 6.3.3), independently of conn.go.
func sealCBC(k keys, seq uint64, typ byte, payload, iv []byte) []byte {
	hdr := []byte{typ, 1, 1, byte(len(payload) >> 8), byte(len(payload))}
	mac := hmacSM3(k.mac, seqBytes(seq), hdr, payload)
	pt := append(append([]byte(nil), payload...), mac...)
	pad := 16 - len(pt)%16
	pt = append(pt, bytesOf(byte(pad-1), pad)...)
	blk, _ := sm4.NewCipher(k.key)
	ct := make([]byte, len(pt))
	cipher.NewCBCEncrypter(blk, iv).CryptBlocks(ct, pt)
	body := append(append([]byte(nil), iv...), ct...)
	return append([]byte{typ, 1, 1, byte(len(body) >> 8), byte(len(body))}, body...)
}

func gcmOf(k keys) cipher.AEAD {
	blk, _ := sm4.NewCipher(k.key)
	a, _ := cipher.NewGCMWithNonceSize(blk, 12)
	return a
}

func sealGCM(k keys, seq uint64, typ byte, payload []byte) []byte {
	nonce := append(append([]byte(nil), k.iv...), seqBytes(seq)...)
	ad := append(seqBytes(seq), typ, 1, 1, byte(len(payload)>>8), byte(len(payload)))
	ct := gcmOf(k).Seal(nil, nonce, payload, ad)
	body := append(seqBytes(seq), ct...)
	return append([]byte{typ, 1, 1, byte(len(body) >> 8), byte(len(body))}, body...)
}

func emitDec(suite string, k keys, seq uint64, rec []byte, genuine bool) {
	id := uint16(idGCM)
	if suite == "cbc" {
		id = idCBC
	}
	desc := fmt.Sprintf("dec suite=%s gen=%s seq=%d key=%s iv=%s mk=%s rec=%s", suite, b01(genuine), seq, hx.Hex(k.key), hx.Hex(k.iv), hx.Hex(k.mac), hx.Hex(rec))
	body := rec[5:]
	if suite == "cbc" {
		// what CBC decryption of the body yields, and the MAC for the two lengths the padding check can select
		dec := []byte{}
		var macs []string
		if len(body)%16 == 0 && len(body) >= 32 {
			blk, _ := sm4.NewCipher(k.key)
			dec = make([]byte, len(body)-16)
			cipher.NewCBCDecrypter(blk, body[:16]).CryptBlocks(dec, body[16:])
			cand := map[int]bool{}
			if len(dec) >= 32 {
				n1 := len(dec) - 32 - (int(dec[len(dec)-1]) + 1)
				if n1 < 0 {
					n1 = 0
				}
				cand[n1] = true
				cand[len(dec)-32-1] = true
			}
			for n := range cand {
				if n < 0 || n > len(dec) {
					continue
				}
				hdr := []byte{rec[0], rec[1], rec[2], byte(n >> 8), byte(n)}
				macs = append(macs, fmt.Sprintf("%d:%s", n, hx.Hex(hmacSM3(k.mac, seqBytes(seq), hdr, dec[:n]))))
			}
		}
		ms := "-"
		if len(macs) > 0 {
			if len(macs) == 2 && macs[0] > macs[1] {
				macs[0], macs[1] = macs[1], macs[0]
			}
			ms = strings.Join(macs, ",")
		}
		desc += " dec=" + hx.Hex(dec) + " macs=" + ms
	} else {
		nonce, ad, opens := "-", "-", "fail"
		if len(body) >= 8 {
			en := body[:8]
			ct := body[8:]
			n := len(ct) - 16
			adb := append(seqBytes(seq), rec[0], rec[1], rec[2], byte(n>>8), byte(n))
			nonce, ad = hx.Hex(en), hx.Hex(adb)
			if n >= 0 {
				if pt, err := gcmOf(k).Open(nil, append(append([]byte(nil), k.iv...), en...), ct, adb); err == nil {
					opens = hx.Hex(pt)
				}
			}
		}
		desc += " nonce=" + nonce + " ad=" + ad + " opens=" + opens
	}
	pt, typ, alertCode, seqAfter, pan := tlcp.VerifRxDecrypt(id, k.key, k.iv, k.mac, seq, rec)
	var obs string
	if alertCode < 0 {
		obs = fmt.Sprintf("res=ok.%d.%s seq=%d", typ, hx.Hex(pt), seqAfter)
	} else {
		obs = fmt.Sprintf("res=alert.%d seq=%d", alertCode, seqAfter)
	}
	if pan != "" {
		obs += " panic=" + strings.ReplaceAll(pan, " ", "_")
	}
	tr.Line(desc, obs)
}

func b01(b bool) string {
	if b {
		return "1"
	}
	return "0"
}

func phaseDec(o hx.Opts, r *hx.Rand) {
	n := 150 * o.Scale
	if o.Tier == "thorough" {
		n = 4000 * o.Scale
	}
	for i := 0; i < n; i++ {
		for _, suite := range []string{"cbc", "gcm"} {
			k := keys{key: r.Bytes(16), mac: r.Bytes(32)}
			if suite == "cbc" {
				k.iv = r.Bytes(16)
			} else {
				k.iv = r.Bytes(4)
			}
			seq := uint64(r.Intn(5))
			if r.Chance(20) {
				seq = r.U64()
			}
			typ := hx.Pick(r, []byte{23, 23, 23, 21, 22, 20})
			ln := hx.Pick(r, []int{0, 1, 2, 15, 16, 17, 31, 32, 33, 47, 48, 100, 255, 256, 257, 1000})
			payload := r.Bytes(ln)
			var rec []byte
			if suite == "cbc" {
				rec = sealCBC(k, seq, typ, payload, r.Bytes(16))
			} else {
				rec = sealGCM(k, seq, typ, payload)
			}
			emitDec(suite, k, seq, rec, true)
			// wrong sequence number
			emitDec(suite, k, seq+1, rec, false)
			// flips: every header byte, first/last byte of IV-or-nonce, of the body, of the trailer
			pos := []int{0, 1, 2, 5, 5 + 7, len(rec) - 1, len(rec) - 16, len(rec) - 17, len(rec) - 33, 5 + 16, 13}
			if o.Tier == "thorough" && i%20 == 0 {
				pos = pos[:0]
				for j := 0; j < len(rec); j++ {
					pos = append(pos, j)
				}
			}
			for _, p := range pos {
				if p < 0 || p >= len(rec) || p == 3 || p == 4 {
					continue
				}
				q := append([]byte(nil), rec...)
				q[p] ^= byte(1 << r.Intn(8))
				emitDec(suite, k, seq, q, false)
			}
			// truncations / extensions with a consistent length field
			for _, d := range []int{-1, -15, -16, -17, -32, -33, -48, 1, 16, -(len(rec) - 5), -(len(rec) - 6), -(len(rec) - 5 - 16), -(len(rec) - 5 - 32)} {
				nl := len(rec) - 5 + d
				if nl < 0 || nl > 18432 {
					continue
				}
				q := append([]byte(nil), rec...)
				if d < 0 {
					q = q[:5+nl]
				} else {
					q = append(q, r.Bytes(d)...)
				}
				q[3], q[4] = byte(nl>>8), byte(nl)
				emitDec(suite, k, seq, q, false)
			}
			if suite == "cbc" {
				// forge the padding: re-encrypt a plaintext whose MAC is right but whose padding is wrong,
				// and one whose padding is right but longer (the case the constant-time trick is about)
				blk, _ := sm4.NewCipher(k.key)
				iv := rec[5:21]
				dec := make([]byte, len(rec)-21)
				cipher.NewCBCDecrypter(blk, iv).CryptBlocks(dec, rec[21:])
				pl := int(dec[len(dec)-1])
				for _, mut := range []int{0, 1, 2, 3, 4} {
					d2 := append([]byte(nil), dec...)
					switch mut {
					case 3:
						// the whole decrypted text is well-formed padding: it swallows the MAC, n = len - macSize - paddingLen
						// is negative before the clamp `ConstantTimeSelect(int(uint32(n)>>31), 0, n)`
						if len(dec) > 256 {
							continue
						}
						d2 = bytesOf(byte(len(dec)-1), len(dec))
					case 4:
						// … and one that leaves 16 bytes: still fewer than a MAC
						if len(dec) < 48 || len(dec)-16 > 256 {
							continue
						}
						d2 = append(append([]byte(nil), dec[:16]...), bytesOf(byte(len(dec)-16-1), len(dec)-16)...)
					case 0:
						if pl == 0 {
							continue
						}
						d2[len(d2)-2] ^= 0x01 // a padding byte other than the last
					case 1:
						d2[len(d2)-1] = byte(pl + 16) // claims one more block of padding
					case 2:
						d2 = append(d2, bytesOf(byte(pl+16), 16)...) // consistent longer padding: still the same plaintext+MAC
						for j := len(d2) - 16 - pl - 1; j < len(d2); j++ {
							d2[j] = byte(pl + 16)
						}
					}
					ct := make([]byte, len(d2))
					cipher.NewCBCEncrypter(blk, iv).CryptBlocks(ct, d2)
					q := append(append([]byte{rec[0], 1, 1, 0, 0}, iv...), ct...)
					q[3], q[4] = byte((len(q)-5)>>8), byte(len(q)-5)
					// mutation 2 is a *valid* alternative encoding of the same record (padding up to 255 is allowed)
					emitDec(suite, k, seq, q, mut == 2)
				}
			}
		}
	}
}

// ---------------------------------------------------------------------------------------- e2e

func pattern(i, n int) []byte {
	out := make([]byte, n)
	for j := range out {
		out[j] = byte((i*37 + j*11 + 1) % 256)
	}
	return out
}

type e2eCase struct {
	suite, dir string
	recs       []string
	buf        int
	seg        string
	edit       string
	rcw        bool // the receiver half-closes (CloseWrite) before the attacked stream arrives
}

func (c e2eCase) key() string {
	return fmt.Sprintf("e2e suite=%s dir=%s recs=%s buf=%d seg=%s rcw=%s edit=%s", c.suite, c.dir, strings.Join(c.recs, ","), c.buf, c.seg, b01(c.rcw), c.edit)
}

func errEnum(err error) string {
	kind, code := tlcp.VerifErrKind(err)
	switch kind {
	case "eof":
		return "eof"
	case "unexpected_eof":
		return "ueof"
	case "local_alert":
		return "local." + strconv.Itoa(code)
	case "remote_alert":
		return "remote." + strconv.Itoa(code)
	case "record_header":
		return "hdr"
	}
	if err != nil && strings.Contains(err.Error(), "too many ignored records") {
		return "toomany"
	}
	return "other"
}

// frame splits a byte stream into records the way the receiver does.
func frame(stream []byte) (recs [][]byte, rest []byte) {
	for len(stream) >= 5 {
		n := int(stream[3])<<8 | int(stream[4])
		if len(stream) < 5+n {
			break
		}
		recs = append(recs, stream[:5+n])
		stream = stream[5+n:]
	}
	return recs, stream
}

func byteClass(suite string, pos, reclen int) string {
	switch {
	case pos == 0:
		return "ct" // the type byte is authenticated with the ciphertext
	case pos < 3:
		return "hdr"
	case pos < 5:
		return "len"
	}
	return "ct"
}

func runE2E(c e2eCase) (string, string) {
	id := uint16(idGCM)
	if c.suite == "cbc" {
		id = idCBC
	}
	ccfg, scfg := pair.TClient(), pair.TServer()
	ccfg.CipherSuites = []uint16{id}
	cl, sv, ce, se, res := pair.TLCP(ccfg, scfg, nil)
	if !res.OK() {
		return c.key(), "handshake=" + strings.ReplaceAll(res.String(), " ", "_")
	}
	defer cl.Close()
	defer sv.Close()
	snd, rcv, sndEnd, rcvEnd := cl, sv, ce, se
	if c.dir == "s2c" {
		snd, rcv, sndEnd, rcvEnd = sv, cl, se, ce
	}
	// 1. the sender protects its records; the man in the middle holds them back
	var captured [][]byte
	sndEnd.OnWrite = func(d []byte) [][]byte { captured = append(captured, d); return nil }
	for i, tok := range c.recs {
		n, _ := strconv.Atoi(tok[1:])
		var err error
		switch tok[0] {
		case 'a':
			if n > 0 && n <= 1000 {
				_, err = snd.Write(pattern(i, n)) // the real application write path (one record)
			} else {
				err = tlcp.VerifRxWriteRecord(snd, 23, pattern(i, n))
			}
		case 'h':
			err = tlcp.VerifRxWriteRecord(snd, 22, pattern(i, n))
		case 'x':
			err = tlcp.VerifRxWriteRecord(snd, 20, pattern(i, n))
		case 'w':
			err = tlcp.VerifRxWriteRecord(snd, 21, []byte{1, 100})
		case 'c':
			err = snd.CloseWrite()
		case 'F':
			err = tlcp.VerifRxWriteRecord(snd, 21, []byte{2, byte(n)})
		}
		if err != nil {
			return c.key(), "senderr=" + strings.ReplaceAll(err.Error(), " ", "_")
		}
	}
	sndEnd.OnWrite = nil
	if len(captured) != len(c.recs) {
		return c.key(), fmt.Sprintf("capture=%d/%d", len(captured), len(c.recs))
	}
	// 2. the edit
	recs := make([][]byte, len(captured))
	for i := range captured {
		recs[i] = append([]byte(nil), captured[i]...)
	}
	cls := "none"
	cut := -1 // number of stream bytes to keep
	parts := strings.Split(c.edit, ".")
	arg := func(i int) int { v, _ := strconv.ParseInt(parts[i], 0, 64); return int(v) }
	flat := func(rs [][]byte) []byte {
		var out []byte
		for _, r := range rs {
			out = append(out, r...)
		}
		return out
	}
	switch parts[0] {
	case "none":
	case "flip": // flip.<rec>.<pos>.<mask>
		r, pos := arg(1), arg(2)
		if r < len(recs) && pos < len(recs[r]) {
			recs[r][pos] ^= byte(arg(3))
			cls = byteClass(c.suite, pos, len(recs[r]))
		}
	case "setlen": // setlen.<rec>.<n>
		r := arg(1)
		if r < len(recs) {
			recs[r][3], recs[r][4] = byte(arg(2)>>8), byte(arg(2))
			cls = "len"
		}
	case "drop":
		r := arg(1)
		if r < len(recs) {
			recs = append(recs[:r:r], recs[r+1:]...)
			cls = "ct"
			if r == len(recs) {
				cls = "cut" // dropping the tail is a truncation at a record boundary
			}
		}
	case "dup":
		r := arg(1)
		if r < len(recs) {
			recs = append(recs[:r+1:r+1], append([][]byte{recs[r]}, recs[r+1:]...)...)
			cls = "ct"
		}
	case "swap":
		r := arg(1)
		if r+1 < len(recs) {
			recs[r], recs[r+1] = recs[r+1], recs[r]
			cls = "ct"
		}
	case "cut": // cut.<rec>.<off>
		r, off := arg(1), arg(2)
		if r <= len(recs) {
			cut = len(flat(recs[:r])) + off
			cls = "cut"
		}
	case "inj": // inj.<beforeRec>.<typ>.<kind>.<len>
		r, typ, ln := arg(1), arg(2), arg(4)
		var body []byte
		switch parts[3] {
		case "p":
			body = pattern(99, ln)
			if typ == 21 && ln == 2 {
				body = []byte{1, 0} // a plaintext close_notify
			}
			if typ == 20 && ln == 1 {
				body = []byte{1}
			}
		case "z":
			body = make([]byte, ln)
		default:
			body = hx.NewRand(uint64(ln*131+typ)).Bytes(ln)
		}
		rec := append([]byte{byte(typ), 1, 1, byte(ln >> 8), byte(ln)}, body...)
		if r <= len(recs) {
			recs = append(recs[:r:r], append([][]byte{rec}, recs[r:]...)...)
			cls = "ct"
		}
	}
	stream := flat(recs)
	if cut >= 0 && cut <= len(stream) {
		stream = stream[:cut]
	}
	// 3. how the receiver will frame it, symbolically (up to the first record that is not genuine-in-order)
	frames, rest := frame(stream)
	var wire []string
	damaged := false
	for i, f := range frames {
		tok := ""
		if i < len(captured) && string(f) == string(captured[i]) {
			tok = "g" + strconv.Itoa(i)
		} else {
			damaged = true
			tok = fmt.Sprintf("f%d.%d.%d", f[0], int(f[1])<<8|int(f[2]), len(f)-5)
			for j, g := range captured {
				if len(g) == len(f) && string(g[5:]) == string(f[5:]) && g[3] == f[3] && g[4] == f[4] {
					if string(g[:3]) == string(f[:3]) {
						tok = "g" + strconv.Itoa(j)
					} else {
						tok = fmt.Sprintf("g%d.%d.%d", j, f[0], int(f[1])<<8|int(f[2]))
					}
					break
				}
			}
		}
		wire = append(wire, tok)
		if damaged {
			break
		}
	}
	tail := "eof"
	if !damaged {
		switch {
		case len(rest) == 0:
		case len(rest) < 5:
			tail = fmt.Sprintf("hdr.%d.%d", rest[0], len(rest))
		default:
			tail = fmt.Sprintf("body.%d.%d.%d", rest[0], int(rest[1])<<8|int(rest[2]), int(rest[3])<<8|int(rest[4]))
		}
	}
	glens := make([]string, len(captured))
	for i, g := range captured {
		glens[i] = strconv.Itoa(len(g) - 5)
	}
	exact := c.seg == "rec" || len(stream) <= 400
	ws, gl := "-", "-"
	if len(wire) > 0 {
		ws = strings.Join(wire, ",")
	}
	if len(glens) > 0 {
		gl = strings.Join(glens, ",")
	}
	desc := fmt.Sprintf("%s cls=%s exact=%s glens=%s wire=%s tail=%s", c.key(), cls, b01(exact), gl, ws, tail)

	// 4. deliver
	if c.seg == "rec" {
		// the transport hands over at most the rest of the current frame per read
		var bounds []int
		off := 0
		for _, f := range frames {
			off += len(f)
			bounds = append(bounds, off)
		}
		bounds = append(bounds, len(stream))
		consumed := 0
		rcvEnd.MaxRead = func(avail int) int {
			for _, b := range bounds {
				if b > consumed {
					m := b - consumed
					if m > avail {
						m = avail
					}
					consumed += m
					return m
				}
			}
			consumed += avail
			return avail
		}
	}
	if c.rcw {
		if err := rcv.CloseWrite(); err != nil {
			return desc, "rcwerr=" + strings.ReplaceAll(err.Error(), " ", "_")
		}
		// the sender takes the receiver's close_notify off the wire first
		if typ, data, err := tlcp.VerifRxNextRecord(snd); err != nil || typ != 21 || len(data) != 2 || data[1] != 0 {
			return desc, "rcwerr=no_close_notify"
		}
	}
	sentBefore := len(rcvEnd.Sent)
	sndEnd.Inject(stream)
	sndEnd.CloseWriteRaw()

	// 5. the receiving application
	var reads []string
	pan := hx.Guard(func() {
		buf := make([]byte, c.buf)
		extra := -1
		for calls := 0; calls < 200000; calls++ {
			n, err := rcv.Read(buf)
			switch {
			case err == nil:
				reads = append(reads, "ok."+hx.Hex(buf[:n]))
			case n > 0 && exact:
				reads = append(reads, "okerr."+hx.Hex(buf[:n])+"."+errEnum(err))
			case n > 0:
				reads = append(reads, "ok."+hx.Hex(buf[:n]), "err."+errEnum(err))
			default:
				reads = append(reads, "err."+errEnum(err))
			}
			if extra >= 0 {
				extra--
			} else if err != nil {
				extra = 2
			}
			if extra == 0 {
				break
			}
		}
	})
	// 6. the alert that went back
	alert := "-"
	if len(rcvEnd.Sent) > sentBefore {
		snd.SetReadDeadline(time.Now().Add(2 * time.Second))
		typ, data, err := tlcp.VerifRxNextRecord(snd)
		switch {
		case err != nil:
			kind, _ := tlcp.VerifErrKind(err)
			alert = "?" + kind
		case typ == 21 && len(data) == 2:
			alert = fmt.Sprintf("%d.%d", data[0], data[1])
		default:
			alert = fmt.Sprintf("?type%d", typ)
		}
	}
	obs := "reads=" + strings.Join(reads, ";") + " alert=" + alert
	if len(reads) == 0 {
		obs = "reads=- alert=" + alert
	}
	if pan != "" {
		obs += " panic=" + pan
	}
	return desc, obs
}

func mk(suite, dir string, recs []string, buf int, seg, edit string) e2eCase {
	return e2eCase{suite: suite, dir: dir, recs: recs, buf: buf, seg: seg, edit: edit}
}

func parseE2E(desc string) e2eCase {
	var c e2eCase
	c.suite, _ = hx.KV(desc, "suite")
	c.dir, _ = hx.KV(desc, "dir")
	rs, _ := hx.KV(desc, "recs")
	if rs != "-" && rs != "" {
		c.recs = strings.Split(rs, ",")
	}
	c.buf = hx.KVInt(desc, "buf")
	c.seg, _ = hx.KV(desc, "seg")
	c.edit, _ = hx.KV(desc, "edit")
	r, _ := hx.KV(desc, "rcw")
	c.rcw = r == "1"
	return c
}

func emitE2E(c e2eCase) {
	d, o := runE2E(c)
	tr.Line(d, o)
}

// wire length of the protected form of a record with n plaintext bytes
func wireLen(suite string, n int) int {
	if suite == "gcm" {
		return 5 + 8 + n + 16
	}
	return 5 + 16 + (n+32+16)/16*16
}

func phaseE2E(o hx.Opts, r *hx.Rand) {
	thorough := o.Tier == "thorough"
	// witnesses first: a plaintext close_notify injected, a replay, the cut at a boundary
	for _, su := range []string{"gcm", "cbc"} {
		emitE2E(mk(su, "c2s", []string{"a3", "a5", "c"}, 100, "all", "inj.1.21.p.2"))
		emitE2E(mk(su, "c2s", []string{"a3", "a5", "c"}, 100, "all", "dup.0"))
		emitE2E(mk(su, "s2c", []string{"a3", "a5", "c"}, 2, "rec", "cut.2.0"))
	}
	base := []string{"a5", "a17", "a1", "c"}
	for _, su := range []string{"gcm", "cbc"} {
		for _, dir := range []string{"c2s", "s2c"} {
			bufs := []int{100}
			segs := []string{"all"}
			if thorough {
				bufs = []int{1, 4, 100}
				segs = []string{"all", "rec"}
			}
			for _, seg := range []string{"all", "rec"} {
				for _, buf := range []int{1, 3, 100000} {
					emitE2E(mk(su, dir, base, buf, seg, "none"))
				}
			}
			for _, seg := range segs {
				for _, buf := range bufs {
					for rec := 0; rec < len(base); rec++ {
						n, _ := strconv.Atoi(base[rec][1:])
						if base[rec] == "c" {
							n = 2
						}
						L := wireLen(su, n)
						// byte classes: type, version, length, explicit nonce / IV, body, trailer (tag or MAC+padding)
						pos := []int{0, 1, 2, 3, 4, 5, 12, 13, 20, 21, L - 33, L - 17, L - 16, L - 1}
						masks := []int{0x01, 0x80}
						if thorough {
							pos = pos[:0]
							for i := 0; i < L; i++ {
								pos = append(pos, i)
							}
							masks = []int{0x01, 0x80, 0xff}
						}
						seen := map[int]bool{}
						for _, p := range pos {
							if p < 0 || p >= L || seen[p] {
								continue
							}
							seen[p] = true
							for _, m := range masks {
								emitE2E(mk(su, dir, base, buf, seg, fmt.Sprintf("flip.%d.%d.0x%02x", rec, p, m)))
							}
						}
						emitE2E(mk(su, dir, base, buf, seg, fmt.Sprintf("drop.%d", rec)))
						emitE2E(mk(su, dir, base, buf, seg, fmt.Sprintf("dup.%d", rec)))
						emitE2E(mk(su, dir, base, buf, seg, fmt.Sprintf("swap.%d", rec)))
						// cuts: at the boundary, inside the header, at the end of the header, inside the body
						offs := []int{0, 1, 4, 5, 6, L / 2, L - 1}
						if thorough || rec >= len(base)-2 {
							offs = offs[:0]
							for i := 0; i < L; i++ {
								offs = append(offs, i)
							}
						}
						for _, off := range offs {
							emitE2E(mk(su, dir, base, buf, seg, fmt.Sprintf("cut.%d.%d", rec, off)))
						}
						for _, nl := range []int{0, 1, L - 6, L - 4, 18432, 18433, 65535} {
							emitE2E(mk(su, dir, base, buf, seg, fmt.Sprintf("setlen.%d.%d", rec, nl)))
						}
					}
					emitE2E(mk(su, dir, base, buf, seg, fmt.Sprintf("cut.%d.0", len(base))))
					// injected plaintext / garbage records of every content type
					for _, at := range []int{0, 1, len(base) - 1, len(base)} {
						for _, typ := range []int{20, 21, 22, 23, 24, 0x80, 0, 255} {
							for _, kl := range []string{"p.2", "p.1", "z.0", "r.40", "r.64", "z.48"} {
								if !thorough && at == 1 && kl != "p.2" {
									continue
								}
								emitE2E(mk(su, dir, base, buf, seg, fmt.Sprintf("inj.%d.%d.%s", at, typ, kl)))
							}
						}
					}
				}
			}
		}
	}
	// the receiver has half-closed (CloseWrite) before the attack: errors must still be reported and latched,
	// the alert must still go out — one edit of every class, both suites, both directions, both segmentations
	for _, su := range []string{"gcm", "cbc"} {
		for _, dir := range []string{"c2s", "s2c"} {
			L1 := wireLen(su, 17)
			for _, ed := range []string{"none", "flip.1.0.0x01", "flip.1.1.0x01", "flip.1.4.0x01", "flip.1.9.0x80",
				fmt.Sprintf("flip.1.%d.0x01", L1/2+5), fmt.Sprintf("flip.1.%d.0x01", L1-1), "flip.0.30.0x04",
				"setlen.1.18433", "setlen.1.3", "drop.1", "dup.0", "dup.1", "swap.0", "swap.1", "cut.1.3", "cut.1.9", "cut.2.0",
				"inj.0.23.p.2", "inj.1.23.p.2", "inj.1.21.p.2", "inj.2.22.r.40", "inj.1.20.p.1", "inj.3.24.z.48"} {
				for _, seg := range []string{"all", "rec"} {
					c := mk(su, dir, base, hx.Pick(r, []int{1, 100}), seg, ed)
					c.rcw = true
					emitE2E(c)
				}
			}
		}
	}
	// genuine records that are not application data: warnings, empty records (retry limit), fatal alert,
	// handshake-type records after the handshake, CCS after the handshake, oversize plaintext
	special := [][]string{
		{"a2", "w", "a0", "a3", "c"},
		{"a2", "F40", "a3"},
		{"a2", "h5", "a3", "c"},
		{"a2", "h0", "a3"},
		{"a2", "x1", "a3"},
		{"a16384", "a1", "c"},
		{"a16385", "a1"},
		{"a1", "a0", "a0", "a0", "a0", "a0", "a0", "a0", "a0", "a0", "a0", "a0", "a0", "a0", "a0", "a0", "a0", "a2", "c"},       // 16 ignored, then data
		{"a1", "a0", "a0", "a0", "a0", "a0", "a0", "a0", "a0", "a0", "a0", "a0", "a0", "a0", "a0", "a0", "a0", "a0", "a2"},      // 17 ignored
		{"a1", "w", "w", "w", "w", "w", "w", "w", "w", "a0", "a0", "a0", "a0", "a0", "a0", "a0", "a0", "w", "a2"},               // mixed 17
		{"a1", "w", "w", "w", "w", "w", "w", "w", "w", "a1", "a0", "a0", "a0", "a0", "a0", "a0", "a0", "a0", "w", "a2", "c"},    // reset in between
	}
	for _, su := range []string{"gcm", "cbc"} {
		for _, recs := range special {
			for _, seg := range []string{"all", "rec"} {
				emitE2E(mk(su, "c2s", recs, 7, seg, "none"))
			}
			emitE2E(mk(su, "s2c", recs, 100000, "all", "swap.0"))
		}
	}
	// random attacks
	n := 150 * o.Scale
	if thorough {
		n = 6000 * o.Scale
	}
	for i := 0; i < n; i++ {
		su := hx.Pick(r, []string{"gcm", "cbc"})
		k := 1 + r.Intn(6)
		var recs []string
		for j := 0; j < k; j++ {
			switch x := r.Intn(100); {
			case x < 70:
				recs = append(recs, "a"+strconv.Itoa(hx.Pick(r, []int{1, 2, 3, 15, 16, 17, 31, 32, 33, 100, 500, 1200, 5000})))
			case x < 78:
				recs = append(recs, "a0")
			case x < 86:
				recs = append(recs, "w")
			case x < 90:
				recs = append(recs, "h"+strconv.Itoa(1+r.Intn(9)))
			default:
				recs = append(recs, "a7")
			}
		}
		if r.Chance(60) {
			recs = append(recs, "c")
		}
		rec := r.Intn(len(recs))
		var edit string
		switch r.Intn(8) {
		case 0:
			edit = fmt.Sprintf("flip.%d.%d.0x%02x", rec, r.Intn(60), 1<<r.Intn(8))
		case 1:
			edit = fmt.Sprintf("drop.%d", rec)
		case 2:
			edit = fmt.Sprintf("dup.%d", rec)
		case 3:
			edit = fmt.Sprintf("swap.%d", rec)
		case 4:
			edit = fmt.Sprintf("cut.%d.%d", rec, r.Intn(40))
		case 5:
			edit = fmt.Sprintf("inj.%d.%d.%s.%d", rec, hx.Pick(r, []int{20, 21, 22, 23, 24}), hx.Pick(r, []string{"p", "z", "r"}), r.Intn(70))
		case 6:
			edit = fmt.Sprintf("setlen.%d.%d", rec, r.Intn(200))
		default:
			edit = "none"
		}
		rc := mk(su, hx.Pick(r, []string{"c2s", "s2c"}), recs, hx.Pick(r, []int{1, 2, 5, 64, 100000}), hx.Pick(r, []string{"all", "rec"}), edit)
		rc.rcw = r.Chance(35)
		emitE2E(rc)
	}
}

// ---------------------------------------------------------------------------------------- main

func main() {
	o := hx.ParseOpts()
	tr = hx.NewTrace(o.Out)
	defer tr.Close()
	if o.Replay != "" {
		for _, c := range hx.ReplayCases(o.Replay) {
			switch strings.Fields(c)[0] {
			case "pad":
				h, _ := hx.KV(c, "pad")
				emitPad(hx.UnHex(h))
			case "e2e":
				emitE2E(parseE2E(c))
			case "dec":
				su, _ := hx.KV(c, "suite")
				g, _ := hx.KV(c, "gen")
				kk, _ := hx.KV(c, "key")
				iv, _ := hx.KV(c, "iv")
				mk, _ := hx.KV(c, "mk")
				rc, _ := hx.KV(c, "rec")
				sq, _ := hx.KV(c, "seq")
				seq, _ := strconv.ParseUint(sq, 10, 64)
				emitDec(su, keys{hx.UnHex(kk), hx.UnHex(iv), hx.UnHex(mk)}, seq, hx.UnHex(rc), g == "1")
			}
		}
		return
	}
	r := hx.NewRand(o.Seed)
	switch o.Phase {
	case "pad":
		phasePad(o, r)
	case "dec":
		phaseDec(o, r)
	case "e2e":
		phaseE2E(o, r)
	default:
		phasePad(o, r)
		phaseDec(o, r)
		phaseE2E(o, r)
	}
}

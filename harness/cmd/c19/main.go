// Driver for C19: runs the REAL dtlcp client and server against each other over the
// deterministic virtual-time datagram network of vnet.go, under every small pattern of
// datagram faults, and writes `case => observed` lines for the Lean oracle (model + spec).
//
// case     : mode=full|resume suite=gcm|cbc|egcm|ecbc auth=0|1 init=<ms> max=<ms> tie=c|s faults=<f>,<f>..|-
//
//	f = <c|s><index of the datagram in that direction>:<drop|dup|swap>
//
// observed : c=<ok|err|hang> s=<ok|err|hang> ct=<ms|-> st=<ms|-> cto=<n> sto=<n> cs=<n> ss=<n>
//
//	         echo=<c got s's data 0|1><s got c's data 0|1> agree=<1|0|-> resumed=<1|0|-> early=<0|1>
//	         hits=<c|s>.<kind>@<label>,..|- detail=<..>
//
//	ct/st   virtual time at which Handshake() returned nil
//	cto/sto read deadlines that expired on that side during the whole run
//	cs/ss   datagrams handed to the network by that side (handshake + application)
//	agree   both completed and report the same ConnectionState parameters and work key
//	early   an end holds decrypted application data although its handshake did not complete
//	hits    the faults that were really applied, with what the datagram was (vnet.go labelOf)
//	detail  error classes (not constrained by the property; echoed by the oracle)
package main

import (
	"bytes"
	"errors"
	"fmt"
	"net"
	"os"
	"runtime"
	"strings"
	"sync"
	"time"

	"gitee.com/Trisia/gotlcp/dtlcp"
	"verifharness/internal/hx"
	"verifharness/internal/pair"
	"verifharness/internal/pki"
)

var verbose = os.Getenv("C19_VERBOSE") != ""

type caseDesc struct {
	mode   string
	suite  string
	auth   bool
	initMs int
	maxMs  int
	tie    int
	faults []fault
}

func suiteID(s string) uint16 {
	switch s {
	case "gcm":
		return dtlcp.ECC_SM4_GCM_SM3
	case "cbc":
		return dtlcp.ECC_SM4_CBC_SM3
	case "egcm":
		return dtlcp.ECDHE_SM4_GCM_SM3
	case "ecbc":
		return dtlcp.ECDHE_SM4_CBC_SM3
	}
	return 0
}

func parseCase(desc string) (caseDesc, error) {
	var c caseDesc
	c.mode, _ = hx.KV(desc, "mode")
	c.suite, _ = hx.KV(desc, "suite")
	c.auth = hx.KVInt(desc, "auth") == 1
	c.initMs = hx.KVInt(desc, "init")
	c.maxMs = hx.KVInt(desc, "max")
	t, _ := hx.KV(desc, "tie")
	if t == "s" {
		c.tie = 1
	}
	fs, _ := hx.KV(desc, "faults")
	var err error
	c.faults, err = parseFaults(fs)
	if err != nil {
		return c, err
	}
	if (c.mode != "full" && c.mode != "resume") || suiteID(c.suite) == 0 || c.initMs <= 0 || c.maxMs <= 0 {
		return c, errors.New("bad case")
	}
	return c, nil
}

func configs(cd caseDesc, s *sim) (ccfg, scfg *dtlcp.Config) {
	std := pki.Std()
	ccfg = pair.DClient()
	scfg = pair.DServer()
	for _, cfg := range []*dtlcp.Config{ccfg, scfg} {
		cfg.InitialRetransmitTimeout = time.Duration(cd.initMs) * time.Millisecond
		cfg.MaxRetransmitTimeout = time.Duration(cd.maxMs) * time.Millisecond
		cfg.CipherSuites = []uint16{suiteID(cd.suite)}
	}
	if cd.auth {
		ccfg.Certificates = []dtlcp.Certificate{pair.DCert(std.CliSig), pair.DCert(std.CliEnc)}
		scfg.ClientAuth = dtlcp.RequireAndVerifyClientCert
		scfg.ClientCAs = std.Root.Pool
	}
	return
}

type endResult struct {
	hsErr    error
	hsAt     int64 // virtual ms, -1 when not completed
	got      bool  // received the peer's application datagram
	early    bool
	panicked string
}

type outcome struct {
	c, s   endResult
	why    string
	cto    int
	sto    int
	cs, ss int
	agree  string
	trace  []string
	hits   []string
	cstate dtlcp.ConnectionState
	sstate dtlcp.ConnectionState
}

// one handshake (+ application exchange) on a fresh simulator
func runOnce(cd caseDesc, faults []fault, ccache, scache dtlcp.SessionCache) outcome {
	horizon := time.Duration(cd.maxMs) * time.Millisecond * 6
	s := newSim(faults, cd.tie, horizon)
	s.verbose = verbose
	ccfg, scfg := configs(cd, s)
	ccfg.NewTimer, scfg.NewTimer = s.newTimer, s.newTimer
	ccfg.SessionCache, scfg.SessionCache = ccache, scache
	cli := dtlcp.Client(s.ends[0], s.ends[0].peerAddr, ccfg)
	srv := dtlcp.Server(s.ends[1], s.ends[1].peerAddr, scfg)
	var o outcome
	o.c.hsAt, o.s.hsAt = -1, -1
	endpoint := func(id int, conn *dtlcp.Conn, res *endResult, say, expect string) {
		defer s.endDone(id)
		res.panicked = hx.Guard(func() {
			res.hsErr = conn.Handshake()
			if res.hsErr != nil {
				return
			}
			res.hsAt = s.nowMs()
			if _, err := conn.Write([]byte(say)); err != nil {
				return
			}
			buf := make([]byte, 256)
			n, err := conn.Read(buf)
			if err == nil && string(buf[:n]) == expect {
				res.got = true
			}
		})
	}
	s.start()
	var wg sync.WaitGroup
	wg.Add(2)
	go func() { defer wg.Done(); endpoint(0, cli, &o.c, "c2s-data", "s2c-data") }()
	go func() { defer wg.Done(); endpoint(1, srv, &o.s, "s2c-data", "c2s-data") }()
	o.why = s.run(30 * time.Second)
	wg.Wait()
	o.cto, o.sto = s.ends[0].timeouts, s.ends[1].timeouts
	o.cs, o.ss = s.ends[0].nSent, s.ends[1].nSent
	o.trace = s.trace
	o.hits = s.hits
	fc, fs := dtlcp.VerifFlights(cli), dtlcp.VerifFlights(srv)
	o.c.early = fc.PendingApp > 0 && fc.HsState != 3
	o.s.early = fs.PendingApp > 0 && fs.HsState != 3
	o.agree = "-"
	if o.c.hsErr == nil && o.s.hsErr == nil && o.c.panicked == "" && o.s.panicked == "" {
		a, b := cli.ConnectionState(), srv.ConnectionState()
		o.cstate, o.sstate = a, b
		_, _, wkc := dtlcp.VerifAgreedKeys(cli)
		_, _, wks := dtlcp.VerifAgreedKeys(srv)
		same := a.Version == b.Version && a.CipherSuite == b.CipherSuite && a.DidResume == b.DidResume &&
			a.NegotiatedProtocol == b.NegotiatedProtocol && a.ServerName == b.ServerName &&
			a.HandshakeComplete && b.HandshakeComplete && len(wkc) > 0 && bytes.Equal(wkc, wks)
		if same {
			o.agree = "1"
		} else {
			o.agree = "0"
		}
	}
	return o
}

func classify(r endResult, why string) (cls, detail string) {
	if r.panicked != "" {
		return "err", "panic:" + r.panicked
	}
	e := r.hsErr
	if e == nil {
		return "ok", "ok"
	}
	msg := e.Error()
	var ope *net.OpError
	switch {
	case errors.Is(e, net.ErrClosed) || strings.Contains(msg, "closed"):
		return "hang", "hang." + why
	case errors.As(e, &ope) && ope.Op == "remote error":
		return "err", "remote." + strings.ReplaceAll(ope.Err.Error(), " ", "_")
	case errors.As(e, &ope) && ope.Op == "local error":
		return "err", "local." + strings.ReplaceAll(ope.Err.Error(), " ", "_")
	case strings.Contains(msg, "Finished message"):
		return "err", "finished-mismatch"
	case strings.Contains(msg, "unexpected handshake message"):
		return "err", "unexpected-message"
	}
	return "err", "other:" + strings.ReplaceAll(msg, " ", "_")
}

func b01(b bool) string {
	if b {
		return "1"
	}
	return "0"
}

func ms(v int64) string {
	if v < 0 {
		return "-"
	}
	return fmt.Sprint(v)
}

func execute(desc string) string {
	cd, err := parseCase(desc)
	if err != nil {
		return "bad=" + strings.ReplaceAll(err.Error(), " ", "_")
	}
	var ccache, scache dtlcp.SessionCache
	if cd.mode == "resume" {
		ccache, scache = dtlcp.NewLRUSessionCache(8), dtlcp.NewLRUSessionCache(8)
		warm := runOnce(cd, nil, ccache, scache)
		if warm.c.hsErr != nil || warm.s.hsErr != nil {
			return "bad=warmup_failed"
		}
	}
	o := runOnce(cd, cd.faults, ccache, scache)
	if verbose {
		for _, l := range o.trace {
			fmt.Fprintln(os.Stderr, "   ", l)
		}
	}
	cc, cdet := classify(o.c, o.why)
	sc, sdet := classify(o.s, o.why)
	resumed := "-"
	if o.agree != "-" {
		resumed = b01(o.cstate.DidResume)
	}
	if o.why == "stuck" {
		cdet += ".stuck"
	}
	hits := "-"
	if len(o.hits) > 0 {
		hits = strings.Join(o.hits, ",")
	}
	return fmt.Sprintf("c=%s s=%s ct=%s st=%s cto=%d sto=%d cs=%d ss=%d echo=%s%s agree=%s resumed=%s early=%s hits=%s detail=%s/%s",
		cc, sc, ms(o.c.hsAt), ms(o.s.hsAt), o.cto, o.sto, o.cs, o.ss, b01(o.c.got), b01(o.s.got), o.agree, resumed,
		b01(o.c.early || o.s.early), hits, cdet, sdet)
}

// ---- case generation ---------------------------------------------------------------------

// handshake datagrams of a fault-free run, per direction (application datagrams excluded):
// full: c0..c3, s0..s2; resumed: c0..c2, s0..s1
func nDatagrams(mode string) (nc, ns int) {
	if mode == "resume" {
		return 3, 2
	}
	return 4, 3
}

func singleFaults(mode string, extra int) []fault {
	nc, ns := nDatagrams(mode)
	var out []fault
	for d, n := range []int{nc + extra, ns + extra} {
		for i := 0; i < n; i++ {
			for _, k := range []faultKind{fDrop, fDup, fSwap} {
				out = append(out, fault{dir: d, idx: i, kind: k})
			}
		}
	}
	return out
}

func faultsStr(fs []fault) string {
	if len(fs) == 0 {
		return "-"
	}
	ss := make([]string, len(fs))
	for i, f := range fs {
		ss[i] = f.String()
	}
	return strings.Join(ss, ",")
}

func descOf(mode, suite string, auth bool, initMs, maxMs int, tie int, fs []fault) string {
	return fmt.Sprintf("mode=%s suite=%s auth=%s init=%d max=%d tie=%c faults=%s", mode, suite, b01(auth), initMs, maxMs, "cs"[tie], faultsStr(fs))
}

type variant struct {
	suite string
	auth  bool
}

func generate(o hx.Opts) []string {
	var cases []string
	seen := map[string]bool{}
	add := func(s string) {
		if !seen[s] {
			seen[s] = true
			cases = append(cases, s)
		}
	}
	const I, M = 1000, 4000
	// witnesses first: the fault-free handshake (K2), then K1, F11, F12
	add(descOf("full", "gcm", false, I, M, 0, nil))
	add(descOf("full", "gcm", false, I, M, 0, []fault{{0, 2, fDrop}}))
	add(descOf("full", "gcm", false, I, M, 0, []fault{{1, 1, fDrop}}))
	add(descOf("full", "gcm", false, I, M, 0, []fault{{0, 2, fSwap}}))
	add(descOf("resume", "gcm", false, I, M, 0, nil))
	variants := []variant{{"gcm", false}, {"cbc", true}, {"egcm", true}, {"ecbc", true}, {"gcm", true}, {"cbc", false}}
	nVar := 2
	if o.Tier == "thorough" {
		nVar = len(variants)
	}
	// every pattern of <= 1 fault, both tie orders, full and resumed
	for _, v := range variants[:nVar] {
		for _, mode := range []string{"full", "resume"} {
			for tie := 0; tie < 2; tie++ {
				add(descOf(mode, v.suite, v.auth, I, M, tie, nil))
				for _, f := range singleFaults(mode, 1) {
					add(descOf(mode, v.suite, v.auth, I, M, tie, []fault{f}))
				}
			}
		}
	}
	// other timer settings on the single faults (back-off cap reached early / never)
	for _, tm := range [][2]int{{1000, 1000}, {500, 60000}} {
		for _, mode := range []string{"full", "resume"} {
			add(descOf(mode, "gcm", false, tm[0], tm[1], 0, nil))
			for _, f := range singleFaults(mode, 0) {
				add(descOf(mode, "gcm", false, tm[0], tm[1], 0, []fault{f}))
			}
		}
	}
	// back-off family: the same flight lost again and again (the retransmitted CCS+Finished of the
	// client is c4, c5, ...; the server's flight 4 after a lost hello is retransmitted on its own timer)
	for _, tm := range [][2]int{{1000, 1000}, {1000, 2000}, {1000, 4000}} {
		for _, tie := range []int{0, 1} {
			add(descOf("full", "gcm", false, tm[0], tm[1], tie, []fault{{0, 3, fDrop}, {0, 4, fDrop}}))
			add(descOf("full", "gcm", false, tm[0], tm[1], tie, []fault{{0, 3, fDrop}, {0, 4, fDrop}, {0, 5, fDrop}}))
			add(descOf("full", "gcm", false, tm[0], tm[1], tie, []fault{{0, 3, fDrop}, {0, 4, fDrop}, {0, 5, fDrop}, {0, 6, fDrop}}))
			add(descOf("full", "gcm", false, tm[0], tm[1], tie, []fault{{0, 2, fDup}, {0, 3, fDrop}, {0, 4, fDrop}}))
			add(descOf("full", "gcm", false, tm[0], tm[1], tie, []fault{{0, 1, fDrop}, {0, 2, fDrop}}))
			add(descOf("full", "gcm", false, tm[0], tm[1], tie, []fault{{1, 0, fDrop}, {1, 1, fDrop}, {1, 2, fDrop}}))
			add(descOf("resume", "gcm", false, tm[0], tm[1], tie, []fault{{0, 0, fDrop}, {0, 1, fDrop}, {0, 2, fDrop}}))
		}
	}
	// every pattern of 2 faults
	r := hx.NewRand(o.Seed)
	two := func(mode string, v variant, tie int, sample int) {
		fs := singleFaults(mode, 1)
		for i := 0; i < len(fs); i++ {
			for j := i + 1; j < len(fs); j++ {
				if fs[i].dir == fs[j].dir && fs[i].idx == fs[j].idx {
					continue
				}
				if sample > 0 && r.Intn(100) >= sample {
					continue
				}
				add(descOf(mode, v.suite, v.auth, I, M, tie, []fault{fs[i], fs[j]}))
			}
		}
	}
	if o.Tier == "thorough" {
		for _, mode := range []string{"full", "resume"} {
			two(mode, variants[0], 0, 0)
			two(mode, variants[0], 1, 0)
			two(mode, variants[1], 0, 25)
			two(mode, variants[2], 1, 25)
		}
		// 3 faults, sampled
		for _, mode := range []string{"full", "resume"} {
			fs := singleFaults(mode, 1)
			for n := 0; n < 400*o.Scale; n++ {
				a, b, c := hx.Pick(r, fs), hx.Pick(r, fs), hx.Pick(r, fs)
				if (a.dir == b.dir && a.idx == b.idx) || (a.dir == c.dir && a.idx == c.idx) || (b.dir == c.dir && b.idx == c.idx) {
					continue
				}
				add(descOf(mode, "gcm", false, I, M, r.Intn(2), []fault{a, b, c}))
			}
		}
	} else {
		for _, mode := range []string{"full", "resume"} {
			two(mode, variants[0], 0, 20*o.Scale)
		}
	}
	return cases
}

func main() {
	o := hx.ParseOpts()
	var cases []string
	if o.Replay != "" {
		cases = hx.ReplayCases(o.Replay)
	} else {
		cases = generate(o)
	}
	pki.Std()
	results := make([]string, len(cases))
	workers := runtime.NumCPU()
	if workers > 16 {
		workers = 16
	}
	if verbose {
		workers = 1
	}
	var wg sync.WaitGroup
	next := make(chan int)
	for w := 0; w < workers; w++ {
		wg.Add(1)
		go func() {
			defer wg.Done()
			for i := range next {
				if verbose {
					fmt.Fprintln(os.Stderr, cases[i])
				}
				results[i] = execute(cases[i])
			}
		}()
	}
	for i := range cases {
		next <- i
	}
	close(next)
	wg.Wait()
	tr := hx.NewTrace(o.Out)
	for i, c := range cases {
		tr.Line(c, results[i])
	}
	tr.Close()
}

package main

// A deterministic virtual-time datagram network for two DTLCP endpoints.
//
// Each endpoint runs in its own goroutine but the simulator lets exactly one of them run at
// a time: a goroutine gives up control only by blocking in ReadFrom (or by finishing), and
// the scheduler acts only when nobody runs. Its events, in priority order:
//
//  1. deliver the oldest datagram in flight (zero latency, FIFO in hand-over order);
//  2. let an endpoint whose read deadline is due observe the timeout (when both are due at
//     the same instant the `tie` endpoint goes first);
//  3. advance virtual time to the earliest read deadline, firing the injected
//     Config.NewTimer handles that expire on the way;
//  4. with no deadline anywhere: release a datagram still held back by a swap fault,
//     otherwise stop (nothing can ever happen again).
//
// Faults are keyed by (direction, index of the datagram in that direction): drop, dup
// (two copies back to back) and swap (held back until the next datagram of the same
// direction has been handed to the network, then delivered right behind it). A fault whose
// index falls on an application-data datagram is not applied.
//
// Read deadlines arrive as wall-clock instants (the code under test calls
// SetReadDeadline(time.Now().Add(d))); the duration is recovered by rounding
// time.Until(deadline) to a multiple of `quantum` (tolerates ±125 ms of scheduling skew).

import (
	"fmt"
	"net"
	"sort"
	"strings"
	"sync"
	"time"

	"gitee.com/Trisia/gotlcp/dtlcp"
)

const quantum = 250 * time.Millisecond // every timeout used by the cases is a multiple of 500 ms

type faultKind int

const (
	fNone faultKind = iota
	fDrop
	fDup
	fSwap
)

type fault struct {
	dir  int // 0 = client→server, 1 = server→client
	idx  int
	kind faultKind
}

func (f fault) String() string {
	k := map[faultKind]string{fDrop: "drop", fDup: "dup", fSwap: "swap"}[f.kind]
	return fmt.Sprintf("%c%d:%s", "cs"[f.dir], f.idx, k)
}

func parseFaults(s string) ([]fault, error) {
	if s == "-" || s == "" {
		return nil, nil
	}
	var out []fault
	for _, t := range strings.Split(s, ",") {
		var d byte
		var idx int
		var k string
		parts := strings.SplitN(t, ":", 2)
		if len(parts) != 2 || len(parts[0]) < 2 {
			return nil, fmt.Errorf("bad fault %q", t)
		}
		d = parts[0][0]
		if _, err := fmt.Sscanf(parts[0][1:], "%d", &idx); err != nil {
			return nil, fmt.Errorf("bad fault %q", t)
		}
		k = parts[1]
		f := fault{idx: idx}
		switch d {
		case 'c':
			f.dir = 0
		case 's':
			f.dir = 1
		default:
			return nil, fmt.Errorf("bad fault %q", t)
		}
		switch k {
		case "drop":
			f.kind = fDrop
		case "dup":
			f.kind = fDup
		case "swap":
			f.kind = fSwap
		default:
			return nil, fmt.Errorf("bad fault %q", t)
		}
		out = append(out, f)
	}
	return out, nil
}

type pkt struct {
	dir  int
	idx  int
	data []byte
}

type vtimer struct {
	expiry  int64
	ch      chan time.Time
	stopped bool
	fired   bool
}

type sim struct {
	mu      sync.Mutex
	sched   *sync.Cond
	now     int64 // virtual nanoseconds
	running int
	ends    [2]*vend
	flight  []pkt
	held    [2]*pkt
	timers  []*vtimer
	faults  map[[2]int]faultKind
	tie     int
	horizon int64
	abort   bool
	trace   []string
	verbose bool
	hits    []string // faults actually applied: <c|s>.<kind>@<label of the datagram>
}

type vend struct {
	s        *sim
	id       int
	cv       *sync.Cond
	queue    [][]byte
	deadline int64 // -1: none
	blocked  bool
	timedOut bool // set by the scheduler when it wakes the end for a due deadline
	closed   bool
	done     bool
	nSent    int
	timeouts int
	local    net.Addr
	peerAddr net.Addr
}

type timeoutErr struct{}

func (timeoutErr) Error() string   { return "vnet: i/o timeout" }
func (timeoutErr) Timeout() bool   { return true }
func (timeoutErr) Temporary() bool { return true }

func newSim(faults []fault, tie int, horizon time.Duration) *sim {
	s := &sim{faults: map[[2]int]faultKind{}, tie: tie, horizon: int64(horizon)}
	s.sched = sync.NewCond(&s.mu)
	for _, f := range faults {
		s.faults[[2]int{f.dir, f.idx}] = f.kind
	}
	for i := 0; i < 2; i++ {
		e := &vend{s: s, id: i, deadline: -1}
		e.cv = sync.NewCond(&s.mu)
		e.local = &net.UDPAddr{IP: net.IPv4(127, 0, 0, 1), Port: 10000 * (i + 1)}
		s.ends[i] = e
	}
	s.ends[0].peerAddr, s.ends[1].peerAddr = s.ends[1].local, s.ends[0].local
	return s
}

// ---- net.PacketConn ---------------------------------------------------------------

func (e *vend) ReadFrom(p []byte) (int, net.Addr, error) {
	s := e.s
	s.mu.Lock()
	defer s.mu.Unlock()
	for {
		if e.closed {
			return 0, nil, net.ErrClosed
		}
		if len(e.queue) > 0 {
			d := e.queue[0]
			e.queue = e.queue[1:]
			return copy(p, d), e.peerAddr, nil
		}
		if e.timedOut || (e.deadline >= 0 && e.deadline <= s.now) {
			e.timedOut = false
			e.timeouts++
			if s.verbose {
				s.trace = append(s.trace, fmt.Sprintf("t=%d %c timeout", s.now/1e6, "cs"[e.id]))
			}
			return 0, nil, timeoutErr{}
		}
		e.blocked = true
		s.running--
		s.sched.Broadcast()
		for e.blocked {
			e.cv.Wait()
		}
	}
}

func (e *vend) WriteTo(p []byte, _ net.Addr) (int, error) {
	s := e.s
	s.mu.Lock()
	defer s.mu.Unlock()
	if e.closed {
		return 0, net.ErrClosed
	}
	cp := append([]byte(nil), p...)
	idx := e.nSent
	e.nSent++
	k := s.faults[[2]int{e.id, idx}]
	if len(cp) > 0 && cp[0] == 23 {
		// faults hit handshake traffic only: the property promises nothing for a lost
		// application datagram (it may still overtake a held handshake datagram)
		k = fNone
	}
	prev := s.held[e.id]
	s.held[e.id] = nil
	me := pkt{dir: e.id, idx: idx, data: cp}
	if s.verbose {
		s.trace = append(s.trace, fmt.Sprintf("t=%d %c%d send %s fault=%d", s.now/1e6, "cs"[e.id], idx, describe(cp), k))
	}
	if k != fNone {
		s.hits = append(s.hits, fmt.Sprintf("%c.%s@%s", "cs"[e.id], map[faultKind]string{fDrop: "drop", fDup: "dup", fSwap: "swap"}[k], labelOf(cp)))
	}
	switch k {
	case fNone:
		s.flight = append(s.flight, me)
	case fDrop:
	case fDup:
		s.flight = append(s.flight, me, me)
	case fSwap:
		s.held[e.id] = &me
	}
	if prev != nil {
		s.flight = append(s.flight, *prev)
	}
	return len(p), nil
}

func (e *vend) Close() error {
	s := e.s
	s.mu.Lock()
	defer s.mu.Unlock()
	e.closeLocked()
	return nil
}

func (e *vend) closeLocked() {
	e.closed = true
	if e.blocked {
		e.blocked = false
		e.s.running++
		e.cv.Broadcast()
	}
}

func (e *vend) LocalAddr() net.Addr                { return e.local }
func (e *vend) SetDeadline(t time.Time) error      { return e.SetReadDeadline(t) }
func (e *vend) SetWriteDeadline(t time.Time) error { return nil }
func (e *vend) SetReadDeadline(t time.Time) error {
	s := e.s
	s.mu.Lock()
	defer s.mu.Unlock()
	if t.IsZero() {
		e.deadline = -1
		return nil
	}
	d := time.Until(t)
	q := (d + quantum/2) / quantum * quantum
	if q < 0 {
		q = 0
	}
	e.deadline = s.now + int64(q)
	return nil
}

var _ net.PacketConn = (*vend)(nil)

// ---- injected timers ----------------------------------------------------------------

func (s *sim) newTimer(d time.Duration) *dtlcp.TimerHandle {
	s.mu.Lock()
	defer s.mu.Unlock()
	t := &vtimer{expiry: s.now + int64(d), ch: make(chan time.Time, 1)}
	s.timers = append(s.timers, t)
	return &dtlcp.TimerHandle{
		C: t.ch,
		Stop: func() bool {
			s.mu.Lock()
			defer s.mu.Unlock()
			was := !t.stopped && !t.fired
			t.stopped = true
			return was
		},
		Reset: func(d time.Duration) bool {
			s.mu.Lock()
			defer s.mu.Unlock()
			was := !t.stopped && !t.fired
			t.stopped, t.fired = false, false
			t.expiry = s.now + int64(d)
			return was
		},
	}
}

// ---- scheduler -------------------------------------------------------------------------

// start registers the two endpoint goroutines as running; call before launching them.
func (s *sim) start() { s.running = 2 }

// endDone is called by an endpoint goroutine when it returns.
func (s *sim) endDone(id int) {
	s.mu.Lock()
	s.ends[id].done = true
	s.running--
	s.sched.Broadcast()
	s.mu.Unlock()
}

func (s *sim) nowMs() int64 {
	s.mu.Lock()
	defer s.mu.Unlock()
	return s.now / 1e6
}

// run drives the simulation until both endpoints returned. Result: "" (normal end),
// "horizon" (virtual time ran out), "idle" (nothing could happen any more) or "stuck"
// (real-time watchdog).
func (s *sim) run(watchdog time.Duration) string {
	wd := time.AfterFunc(watchdog, func() {
		s.mu.Lock()
		s.abort = true
		s.sched.Broadcast()
		s.mu.Unlock()
	})
	defer wd.Stop()
	s.mu.Lock()
	defer s.mu.Unlock()
	why := ""
	for {
		for s.running > 0 && !s.abort {
			s.sched.Wait()
		}
		if s.abort && s.running > 0 {
			why = "stuck"
			// cannot do anything deterministic any more: close and let them unwind
			for _, e := range s.ends {
				e.closeLocked()
			}
			for !(s.ends[0].done && s.ends[1].done) {
				s.sched.Wait()
			}
			return why
		}
		if s.ends[0].done && s.ends[1].done {
			return why
		}
		if why != "" {
			// already closing: wake whoever is still blocked
			for _, e := range s.ends {
				e.closeLocked()
			}
			continue
		}
		// 1. deliver
		if len(s.flight) > 0 {
			p := s.flight[0]
			s.flight = s.flight[1:]
			dst := s.ends[1-p.dir]
			if s.verbose {
				s.trace = append(s.trace, fmt.Sprintf("t=%d %c%d deliver", s.now/1e6, "cs"[p.dir], p.idx))
			}
			if !dst.done {
				dst.queue = append(dst.queue, p.data)
				s.wake(dst)
			}
			continue
		}
		// 2. due deadlines
		order := []int{s.tie, 1 - s.tie}
		woke := false
		for _, i := range order {
			e := s.ends[i]
			if e.blocked && e.deadline >= 0 && e.deadline <= s.now {
				e.timedOut = true
				s.wake(e)
				woke = true
				break
			}
		}
		if woke {
			continue
		}
		// 3. advance time
		next := int64(-1)
		for _, e := range s.ends {
			if e.blocked && e.deadline >= 0 && (next < 0 || e.deadline < next) {
				next = e.deadline
			}
		}
		if next < 0 {
			// 4. nothing scheduled
			rel := false
			for d := 0; d < 2; d++ {
				if s.held[d] != nil {
					s.flight = append(s.flight, *s.held[d])
					s.held[d] = nil
					rel = true
				}
			}
			if rel {
				continue
			}
			why = "idle"
			for _, e := range s.ends {
				e.closeLocked()
			}
			continue
		}
		if next > s.horizon {
			why = "horizon"
			for _, e := range s.ends {
				e.closeLocked()
			}
			continue
		}
		s.now = next
		for _, t := range s.timers {
			if !t.stopped && !t.fired && t.expiry <= s.now {
				t.fired = true
				select {
				case t.ch <- time.Unix(0, s.now):
				default:
				}
			}
		}
	}
}

func (s *sim) wake(e *vend) {
	if e.blocked {
		e.blocked = false
		s.running++
		e.cv.Broadcast()
	}
}

// describe renders the record structure of a datagram (types, epochs, sequence numbers;
// handshake message types for plaintext handshake records) for -v traces.
func describe(d []byte) string {
	var parts []string
	for len(d) >= 13 {
		typ, epoch := d[0], int(d[3])<<8|int(d[4])
		seq := int(d[9])<<8 | int(d[10])
		n := int(d[11])<<8 | int(d[12])
		if 13+n > len(d) {
			break
		}
		body := d[13 : 13+n]
		s := fmt.Sprintf("%d/e%d.%d", typ, epoch, seq)
		if typ == 22 && epoch == 0 && len(body) >= 12 {
			s += fmt.Sprintf("(h%d#%d)", body[0], int(body[4])<<8|int(body[5]))
		}
		parts = append(parts, s)
		d = d[13+n:]
	}
	return strings.Join(parts, "+")
}

// labelOf names what a datagram is (the known findings are keyed by it): ch0/ch1 = ClientHello
// without/with cookie, hvr, f4 = ServerHello..ServerHelloDone, rsf = ServerHello+CCS+Finished
// (resumption), f5a = client key exchange group, fin = CCS+Finished, alert, app.
func labelOf(d []byte) string {
	if len(d) < 13 {
		return "other"
	}
	switch d[0] {
	case 20:
		return "fin"
	case 21:
		return "alert"
	case 23:
		return "app"
	case 22:
	default:
		return "other"
	}
	n := int(d[11])<<8 | int(d[12])
	if 13+n > len(d) || n < 12 || d[3] != 0 || d[4] != 0 {
		return "other"
	}
	body := d[13 : 13+n]
	switch body[0] {
	case 1:
		b := body[12:]
		if len(b) < 35 {
			return "other"
		}
		sid := int(b[34])
		if len(b) < 35+sid+1 {
			return "other"
		}
		if b[35+sid] == 0 {
			return "ch0"
		}
		return "ch1"
	case 3:
		return "hvr"
	case 2:
		rest := d[13+n:]
		for len(rest) >= 13 {
			if rest[0] == 20 {
				return "rsf"
			}
			m := int(rest[11])<<8 | int(rest[12])
			if 13+m > len(rest) {
				break
			}
			rest = rest[13+m:]
		}
		return "f4"
	case 11, 16:
		return "f5a"
	}
	return "other"
}

func sortedKeys(m map[string]int) []string {
	var ks []string
	for k := range m {
		ks = append(ks, k)
	}
	sort.Strings(ks)
	return ks
}

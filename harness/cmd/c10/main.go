// Driver for C10: runs histories of real connections (one client configuration with a
// recording LRU session cache, two servers with their own caches) with induced failures,
// server cache loss, suite reconfiguration, forged / stale session ids (forged ones of every legal
// length 1..32) and evictions, and
// writes `case => observed` lines for the Lean oracle (model + spec).
//
// case     : stack=tlcp|dtlcp ccap=<client cache capacity> scap=<server cache capacity> hist=<history>
//
//	(history syntax: see harness/internal/resume)
//
// observed : c<i>=<client>/<server>/<cResumed>/<sResumed>/<offered id>/<returned id>/<id len>/<suite>/<peer>/<master>/<fresh keys>/<control>/<server view>
//
//	server view = "-" | <client certificate in the server's ConnectionState | n>[v]:<seen by VerifyPeerCertificate | x>:<seen by VerifyConnection | x>
//
//	... why=<client reason>:<server reason>,...
package main

import (
	"bufio"
	"fmt"
	"os"
	"strings"

	"verifharness/internal/hx"
	"verifharness/internal/resume"
)

func execute(desc string, seed uint64) string {
	stack, _ := hx.KV(desc, "stack")
	ccap, scap := hx.KVInt(desc, "ccap"), hx.KVInt(desc, "scap")
	hs, _ := hx.KV(desc, "hist")
	var obs string
	if p := hx.Guard(func() {
		h := resume.ParseHist(hs)
		switch stack {
		case "tlcp":
			r := resume.NewRunner(resume.TLCP, ccap, scap, seed)
			r.Run(h)
			obs = r.Observed()
		case "dtlcp":
			r := resume.NewRunner(resume.DTLCP, ccap, scap, seed)
			r.Run(h)
			obs = r.Observed()
		default:
			panic("unknown stack " + stack)
		}
	}); p != "" {
		return "panic=" + p
	}
	return obs
}

// lineTrace writes the `case => observed` lines of hx.Trace, but hands every line to the reader at
// once. A history in which a handshake hangs costs the 30 s watchdog of the pair runner; when many do
// (a server that names the offered identifier in the ServerHello of a FULL handshake leaves the
// client waiting for a Finished that never comes), the phase timeout kills the driver — and with a
// block-buffered trace the lines already produced, the failing ones among them, were lost: the check
// could then only say "no failing input found". Unbuffered lines survive the kill.
type lineTrace struct {
	w *bufio.Writer
	f *os.File
}

func newLineTrace(path string) *lineTrace {
	if path == "" {
		return &lineTrace{w: bufio.NewWriter(os.Stdout)}
	}
	f, err := os.Create(path)
	if err != nil {
		fmt.Fprintln(os.Stderr, err)
		os.Exit(2)
	}
	return &lineTrace{w: bufio.NewWriter(f), f: f}
}

func (t *lineTrace) Line(desc, observed string) {
	t.w.WriteString(desc)
	t.w.WriteString(" => ")
	t.w.WriteString(observed)
	t.w.WriteByte('\n')
	t.w.Flush()
}

func (t *lineTrace) Close() {
	t.w.Flush()
	if t.f != nil {
		t.f.Close()
	}
}

// maxHangs: after this many histories with a handshake that ended in the watchdog the generator
// stops (each costs 30 s, each is a failing input already handed to the oracle; without a man in the
// middle a hang is never what the cache-less control does). Replays are never cut short.
const maxHangs = 3

const (
	gcm = "e053"
	cbc = "e013"
)

var both = gcm + "." + cbc

// conn builds one connection description.
func conn(pre string, dst, server int, cs, ss, fault string) string {
	return fmt.Sprintf("%s/d%d/s%d/%s/%s/%s", pre, dst, server, cs, ss, fault)
}

func honest(dst int) string { return conn("-", dst, dst, both, both, "ok") }

// auth appends the client-authentication field: the server's ClientAuth policy (0..5) and the
// client's certificate ("n" none, "c", "d").
func auth(c string, policy int, cert string) string { return fmt.Sprintf("%s/a%d%s", c, policy, cert) }

// randomAuth picks a client-authentication configuration for a whole history (mostly) or per connection.
func randomAuth(r *hx.Rand) (int, string) {
	return r.Intn(6), hx.Pick(r, []string{"n", "c", "c", "c", "d"})
}

// forgedLen picks the length of a forged / foreign session identifier: session_id is opaque
// SessionID<0..32>, so every length 1..32 is legal in a ClientHello. "" = the 32 bytes this server
// issues itself (half of the draws), otherwise a suffix 1..31.
func forgedLen(r *hx.Rand) string {
	if r.Chance(50) {
		return ""
	}
	return fmt.Sprint(1 + r.Intn(31))
}

func randomConn(r *hx.Rand, ccap int) string {
	pre := "-"
	if r.Chance(45) {
		var acts []string
		n := 1
		if r.Chance(25) {
			n = 2
		}
		for i := 0; i < n; i++ {
			switch x := r.Intn(100); {
			case x < 40:
				acts = append(acts, fmt.Sprintf("j%d", 1+r.Intn(ccap+1)))
			case x < 55:
				acts = append(acts, "fg"+forgedLen(r))
			case x < 60:
				acts = append(acts, "fn"+forgedLen(r))
			case x < 80:
				acts = append(acts, fmt.Sprintf("st%d", r.Intn(2)))
			case x < 93:
				acts = append(acts, "sl")
			default:
				acts = append(acts, "sn")
			}
		}
		pre = strings.Join(acts, "+")
	}
	dst := r.Intn(2)
	server := dst
	if r.Chance(10) {
		server = 1 - dst // the same destination address now reaches the other server
	}
	suites := []string{both, both, both, gcm, cbc, cbc + "." + gcm}
	cs, ss := hx.Pick(r, suites), hx.Pick(r, suites)
	fault := "ok"
	switch x := r.Intn(100); {
	case x < 15:
		fault = "sf"
	case x < 25:
		fault = "cf"
	}
	return conn(pre, dst, server, cs, ss, fault)
}

func main() {
	o := hx.ParseOpts()
	tr := newLineTrace(o.Out)
	defer tr.Close()
	seq := uint64(0)
	hangs := 0
	emit := func(desc string) {
		if hangs >= maxHangs && o.Replay == "" {
			return
		}
		seq++
		obs := execute(desc, o.Seed*1000003+seq)
		tr.Line(desc, obs)
		if strings.Contains(obs, "timeout") {
			if hangs++; hangs == maxHangs && o.Replay == "" {
				fmt.Fprintf(os.Stderr, "c10: %d histories hung until the watchdog; the generator stops here (they are in the trace)\n", hangs)
			}
		}
	}
	if o.Replay != "" {
		for _, c := range hx.ReplayCases(o.Replay) {
			emit(c)
		}
		return
	}
	stacks := []string{"tlcp"}
	if o.Phase == "dtlcp" {
		stacks = []string{"dtlcp"}
	} else if o.Phase == "" {
		stacks = []string{"tlcp", "dtlcp"}
	}
	for _, st := range stacks {
		hd := func(ccap, scap int, conns ...string) {
			emit(fmt.Sprintf("stack=%s ccap=%d scap=%d hist=%s", st, ccap, scap, strings.Join(conns, ",")))
		}
		// 1. witnesses
		// F5: three honest connections through a client cache of capacity 1 (then 2, 3)
		for _, cp := range []int{1, 2, 3} {
			hd(cp, 4, honest(0), honest(0), honest(0))
		}
		// F5 at capacity 2: one unrelated Put evicts the id-keyed entry that shares the object
		hd(2, 4, honest(0), conn("j1", 0, 0, both, both, "ok"), honest(0))
		// F16: the server's Finished is damaged in connection 0; connection 1 must not offer that session
		hd(4, 4, conn("-", 0, 0, both, both, "sf"), honest(0), honest(0))
		// the client's Finished is damaged: server does not keep the session
		hd(4, 4, conn("-", 0, 0, both, both, "cf"), honest(0), honest(0))
		// resumed handshakes that fail: the loaded session is removed
		hd(4, 4, honest(0), conn("-", 0, 0, both, both, "sf"), honest(0), honest(0))
		hd(4, 4, honest(0), conn("-", 0, 0, both, both, "cf"), honest(0), honest(0))
		// fallbacks: server cache lost, forged id, stale id from the other server, suite no longer enabled
		hd(4, 4, honest(0), conn("sl", 0, 0, both, both, "ok"), honest(0))
		// F65: the server's cache is replaced by a foreign implementation that answers a miss (nil, true):
		// the offered session is refused like a miss — full handshake, no panic — and the new session is
		// resumed through the same cache afterwards (a hit is a hit); with a forged id; with a damaged
		// flight; under a requiring policy; small caches
		hd(4, 4, honest(0), conn("sn", 0, 0, both, both, "ok"), honest(0), honest(0))
		hd(4, 4, conn("fg+sn", 0, 0, both, both, "ok"), honest(0))
		hd(4, 4, conn("fn7+sn", 0, 0, both, both, "ok"), honest(0))
		hd(4, 4, honest(0), conn("sn", 0, 0, both, both, "sf"), honest(0), honest(0))
		hd(1, 1, honest(0), conn("sn", 0, 0, cbc, both, "ok"), honest(0))
		hd(4, 4, auth(honest(0), 4, "c"), auth(conn("sn", 0, 0, both, both, "ok"), 4, "c"), auth(honest(0), 4, "c"))
		hd(4, 4, honest(0), honest(1), conn("sn", 0, 0, both, both, "ok"), honest(1), honest(0))
		hd(4, 4, conn("fg", 0, 0, both, both, "ok"), honest(0))
		hd(4, 4, conn("fn", 0, 0, both, both, "ok"), honest(0))
		hd(4, 4, conn("fg", 0, 0, both, both, "sf"), honest(0))
		hd(4, 4, honest(1), conn("st1", 0, 0, both, both, "ok"), honest(1), honest(0))
		hd(4, 4, honest(0), conn("-", 0, 0, cbc, both, "ok"), conn("-", 0, 0, both, cbc, "ok"), honest(0))
		hd(4, 4, conn("-", 0, 0, gcm, both, "ok"), conn("-", 0, 0, both, cbc, "ok"), conn("-", 0, 0, gcm, cbc, "ok"))
		// server RECONFIGURATION with the cache kept: the server still holds the offered session but must not
		// resume it (its suite is no longer enabled; the client no longer offers it). A full handshake as if
		// nothing had been offered, under a FRESH identifier (the ServerHello must not name the offered one:
		// the client takes an echoed identifier for a resumption), and the new session is what later
		// connections resume; back and forth; with a resumption in between; small caches; the other server
		// unaffected; with client authentication; with a man in the middle (the fall-back clause is silent
		// there, the identifier clause is not)
		srv := func(ss string) string { return conn("-", 0, 0, both, ss, "ok") }
		hd(4, 4, srv(gcm), srv(gcm), srv(cbc), srv(cbc), srv(both))
		hd(4, 4, srv(cbc), srv(gcm), srv(cbc), srv(gcm))
		hd(1, 1, srv(gcm), srv(cbc), srv(cbc))
		hd(2, 4, srv(both), srv(cbc), srv(both), srv(gcm))
		hd(4, 4, srv(gcm), honest(1), srv(cbc), honest(1), srv(cbc))
		hd(4, 4, auth(srv(gcm), 4, "c"), auth(srv(cbc), 4, "c"), auth(srv(cbc), 4, "c"))
		hd(4, 4, auth(srv(gcm), 1, "c"), auth(srv(cbc), 0, "c"), auth(srv(gcm), 3, "d"))
		hd(4, 4, srv(gcm), conn("-", 0, 0, both, cbc, "sf"), srv(cbc), srv(cbc))
		hd(4, 4, srv(gcm), conn("-", 0, 0, both, cbc, "cf"), srv(cbc), srv(cbc))
		hd(4, 4, srv(gcm), conn("j1", 0, 0, cbc+"."+gcm, cbc, "ok"), srv(gcm), srv(gcm))
		// a session that was OFFERED but not accepted, in a connection that then fails at the client, must
		// not be offered again (the cleanup covers every error, not only failed resumptions):
		//   server cache lost + damaged server Finished; the destination now reaches the other server +
		//   damaged Finished; a stale id + damaged Finished; no common suite (alert before any ServerHello);
		//   each followed by connections to the original server
		hd(4, 4, honest(0), conn("sl", 0, 0, both, both, "sf"), honest(0), honest(0))
		hd(4, 4, honest(0), conn("-", 0, 1, both, both, "sf"), honest(0), honest(0))
		hd(4, 4, honest(0), conn("-", 0, 1, both, both, "cf"), honest(0), honest(0))
		hd(4, 4, honest(0), honest(1), conn("st1", 0, 0, both, both, "sf"), honest(0), honest(1))
		hd(4, 4, honest(0), conn("-", 0, 0, gcm, cbc, "ok"), honest(0), honest(0))
		hd(4, 4, conn("-", 0, 0, gcm, both, "ok"), conn("-", 0, 0, cbc, both, "sf"), conn("-", 0, 0, gcm, both, "ok"))
		hd(1, 4, honest(0), conn("sl", 0, 0, both, both, "cf"), honest(0))
		// two servers interleaved; the same destination reaching the other server; server-side eviction
		hd(4, 4, honest(0), honest(1), honest(0), honest(1))
		hd(4, 4, honest(0), conn("-", 0, 1, both, both, "ok"), honest(0))
		hd(4, 1, honest(0), honest(1), conn("-", 1, 0, both, both, "ok"), honest(0))
		// an offered identifier the server does not hold, of EVERY legal length (opaque SessionID<0..32>:
		// the client holds, for this address, a session issued by another implementation or node, or a
		// truncated / made-up value): a full handshake as if nothing had been offered, the session it
		// creates is resumed by the next connections
		for n := 1; n <= 31; n++ {
			hd(4, 4, conn(fmt.Sprintf("fg%d", n), 0, 0, both, both, "ok"), honest(0), honest(0))
		}
		for _, n := range []int{1, 2, 8, 16, 31} {
			fg := fmt.Sprintf("fg%d", n)
			// it replaces a genuine session; the other server; no recorded certificates (never offered)
			hd(4, 4, honest(0), conn(fg, 0, 0, both, both, "ok"), honest(0))
			hd(2, 1, honest(1), conn(fg, 1, 1, cbc, both, "ok"), honest(1), honest(0))
			hd(4, 4, conn(fmt.Sprintf("fn%d", n), 0, 0, both, both, "ok"), honest(0))
			// the connection that offers it fails at the client: it is not offered again
			hd(4, 4, conn(fg, 0, 0, both, both, "sf"), honest(0), honest(0))
			hd(4, 4, conn(fg, 0, 0, both, both, "cf"), honest(0))
			// no common suite / a required client certificate is missing: fails exactly like the control
			hd(4, 4, conn(fg, 0, 0, gcm, cbc, "ok"), honest(0))
			// with client authentication
			hd(4, 4, auth(conn(fg, 0, 0, both, both, "ok"), 4, "c"), auth(honest(0), 4, "c"))
			hd(4, 4, auth(conn(fg, 0, 0, both, both, "ok"), 2, "n"), auth(honest(0), 1, "n"))
		}
		// client authentication: the same peer identity on BOTH sides of a resumed connection.
		// Every policy x client with / without a certificate: full handshake, then the same session
		// resumed twice (policies 2, 4, 5 without a certificate: no handshake ever completes)
		for pol := 0; pol <= 5; pol++ {
			for _, cert := range []string{"c", "n"} {
				hd(4, 4, auth(honest(0), pol, cert), auth(honest(0), pol, cert), auth(honest(0), pol, cert))
			}
		}
		// the server is reconfigured between the original and the resumed connection: every ordered pair
		// of policies, the client keeps certificate C (a session with a certificate is not resumed under
		// NoClientCert, a session without one not under a requiring policy; otherwise the ORIGINAL
		// identity is reported, verified or not)
		for p1 := 0; p1 <= 5; p1++ {
			for p2 := 0; p2 <= 5; p2++ {
				if p1 != p2 {
					hd(4, 4, auth(honest(0), p1, "c"), auth(honest(0), p2, "c"), auth(honest(0), p2, "c"))
				}
			}
		}
		// the client changes its certificate (or drops it) after the original connection: a resumed
		// connection still reports the original identity; after a fall-back the new one
		hd(4, 4, auth(honest(0), 1, "c"), auth(honest(0), 1, "d"), auth(honest(0), 1, "n"), auth(conn("sl", 0, 0, both, both, "ok"), 1, "d"), auth(honest(0), 1, "n"))
		hd(4, 4, auth(honest(0), 3, "n"), auth(honest(0), 3, "c"), auth(honest(0), 4, "c"), auth(honest(0), 4, "d"))
		// with faults and two servers
		hd(4, 4, auth(honest(0), 2, "c"), auth(conn("-", 0, 0, both, both, "sf"), 2, "c"), auth(honest(0), 2, "c"), auth(honest(0), 2, "c"))
		hd(4, 4, auth(honest(0), 1, "c"), auth(honest(1), 2, "d"), auth(honest(0), 1, "n"), auth(honest(1), 2, "n"))
		// a required certificate is missing while a session is offered: fatal, the session is dropped
		hd(4, 4, auth(honest(0), 0, "n"), auth(honest(0), 4, "n"), auth(honest(0), 0, "n"), auth(honest(0), 0, "n"))
	}

	// 2. random histories
	r := hx.NewRand(o.Seed)
	n := 1500 * o.Scale
	if o.Tier == "thorough" {
		n = 60000 * o.Scale
	}
	for _, st := range stacks {
		m := n
		if st == "dtlcp" {
			m = n / 3
		}
		for i := 0; i < m; i++ {
			ccap := hx.Pick(r, []int{1, 1, 2, 2, 3, 3, 4})
			scap := hx.Pick(r, []int{1, 2, 4, 4})
			ln := 1 + r.Intn(6)
			cs := make([]string, ln)
			for j := range cs {
				cs[j] = randomConn(r, ccap)
			}
			if ln >= 3 && r.Chance(25) {
				// offered-but-not-accepted session in a connection that fails at the client, then the
				// original server again
				d := r.Intn(2)
				k := r.Intn(ln - 2)
				cs[k] = honest(d)
				fault := hx.Pick(r, []string{"sf", "sf", "cf"})
				switch r.Intn(4) {
				case 0:
					cs[k+1] = conn("sl", d, d, both, both, fault)
				case 1:
					cs[k+1] = conn("-", d, 1-d, both, both, fault)
				case 2:
					cs[k+1] = conn("-", d, d, gcm, cbc, "ok")
				default:
					cs[k+1] = conn("j1", d, 1-d, both, cbc+"."+gcm, fault)
				}
				cs[k+2] = honest(d)
			}
			if ln >= 3 && r.Chance(15) {
				// server reconfiguration with the cache kept: a session negotiated under one suite, then the
				// server enables only the other one (the session is held but must not be resumed), then the
				// same configuration again (the new session is resumed); sometimes disturbed
				d := r.Intn(2)
				k := r.Intn(ln - 2)
				s1, s2 := gcm, cbc
				if r.Bool() {
					s1, s2 = cbc, gcm
				}
				cs[k] = conn("-", d, d, both, s1, "ok")
				cs[k+1] = conn("-", d, d, hx.Pick(r, []string{both, both, cbc + "." + gcm}), s2, hx.Pick(r, []string{"ok", "ok", "ok", "sf", "cf"}))
				cs[k+2] = conn("-", d, d, both, hx.Pick(r, []string{s2, s2, both}), "ok")
			}
			// client authentication: 40% of the histories run with certificates / policies — one
			// configuration for the whole history, re-drawn per connection with probability 1/4
			// (server reconfiguration, client changing or dropping its certificate)
			if r.Chance(40) {
				pol, cert := randomAuth(r)
				for j := range cs {
					if r.Chance(25) {
						pol, cert = randomAuth(r)
					}
					cs[j] = auth(cs[j], pol, cert)
				}
			}
			emit(fmt.Sprintf("stack=%s ccap=%d scap=%d hist=%s", st, ccap, scap, strings.Join(cs, ",")))
		}
	}
}

// smoke test of the shared fixtures
package main

import (
	"fmt"
	"io"
	"time"

	"verifharness/internal/pair"
)

func main() {
	t0 := time.Now()
	c, s, _, _, r := pair.TLCP(pair.TClient(), pair.TServer(), nil)
	fmt.Println("tlcp:", r, time.Since(t0))
	if r.OK() {
		go func() { c.Write([]byte("hello")); c.Close() }()
		b, err := io.ReadAll(s)
		fmt.Printf("  echo %q %v suite=%x\n", b, err, s.ConnectionState().CipherSuite)
	}
	t0 = time.Now()
	dc, ds, _, _, dr := pair.DTLCP(pair.DClient(), pair.DServer(), nil)
	fmt.Println("dtlcp:", dr, time.Since(t0))
	if dr.OK() {
		dc.Write([]byte("hello"))
		buf := make([]byte, 100)
		n, err := ds.Read(buf)
		fmt.Printf("  echo %q %v\n", buf[:n], err)
	}
}

package main

// Generic field record of a handshake message, its canonical one-token dump (shared syntax
// with the Lean oracle) and the adapters onto the two stacks' verif hooks.

import (
	"encoding/hex"
	"fmt"
	"strconv"
	"strings"

	"gitee.com/Trisia/gotlcp/dtlcp"
	"gitee.com/Trisia/gotlcp/tlcp"
	"verifharness/internal/hx"
)

type TA struct {
	Type uint8
	Id   []byte
}

type M struct {
	Vers         uint16
	Random       []byte
	SessionId    []byte
	Cookie       []byte
	CipherSuites []uint16
	Compression  []byte
	ServerName   []byte
	TAs          []TA
	OCSP         bool
	Curves       []uint16
	SigAlgs      []uint16
	ALPN         [][]byte
	ClientID     []byte

	CipherSuite       uint16
	CompressionMethod uint8
	OCSPResponse      []byte
	ALPNProto         []byte
	SNIAck            bool

	Certificates [][]byte
	CertTypes    []byte
	CAs          [][]byte
	Blob         []byte

	Seq     uint16
	FragOff uint32
	FragLen uint32

	RawIsInput bool
}

var kindsT = tlcp.VerifCodecKinds()
var kindsD = dtlcp.VerifCodecKinds()

func kindsOf(stack string) []string {
	if stack == "tlcp" {
		return kindsT
	}
	return kindsD
}

// ---------------------------------------------------------------- dump / parse

func b01(b bool) string {
	if b {
		return "1"
	}
	return "0"
}

func u16s(v []uint16) string {
	if len(v) == 0 {
		return "-"
	}
	var sb strings.Builder
	for _, x := range v {
		fmt.Fprintf(&sb, "%04x", x)
	}
	return sb.String()
}

func list(v [][]byte) string {
	var sb strings.Builder
	sb.WriteString(strconv.Itoa(len(v)))
	for _, x := range v {
		sb.WriteByte('/')
		sb.WriteString(hx.Hex(x))
	}
	return sb.String()
}

func talist(v []TA) string {
	var sb strings.Builder
	sb.WriteString(strconv.Itoa(len(v)))
	for _, x := range v {
		fmt.Fprintf(&sb, "/%02x.%s", x.Type, hx.Hex(x.Id))
	}
	return sb.String()
}

// dump renders the fields of the kind in a fixed order: `key:value,key:value`; `-` when the
// kind has no field.
func (m *M) dump(stack, kind string) string {
	var p []string
	add := func(k, v string) { p = append(p, k+":"+v) }
	switch kind {
	case "finished":
		add("vd", hx.Hex(m.Blob))
	case "serverHelloDone":
	case "certificateVerify":
		add("sig", hx.Hex(m.Blob))
	case "clientKeyExchange":
		add("ct", hx.Hex(m.Blob))
	case "serverKeyExchange":
		add("key", hx.Hex(m.Blob))
	case "certificate":
		add("certs", list(m.Certificates))
	case "certificateRequest":
		add("types", hx.Hex(m.CertTypes))
		add("cas", list(m.CAs))
	case "helloVerifyRequest":
		add("vers", fmt.Sprintf("%04x", m.Vers))
		add("ck", hx.Hex(m.Cookie))
	case "serverHello":
		add("vers", fmt.Sprintf("%04x", m.Vers))
		add("rnd", hx.Hex(m.Random))
		add("sid", hx.Hex(m.SessionId))
		add("cs", fmt.Sprintf("%04x", m.CipherSuite))
		add("cm", fmt.Sprintf("%02x", m.CompressionMethod))
		add("ocsp", b01(m.OCSP))
		add("resp", hx.Hex(m.OCSPResponse))
		add("alpn", hx.Hex(m.ALPNProto))
		add("ack", b01(m.SNIAck))
	case "clientHello":
		add("vers", fmt.Sprintf("%04x", m.Vers))
		add("rnd", hx.Hex(m.Random))
		add("sid", hx.Hex(m.SessionId))
		if stack == "dtlcp" {
			add("ck", hx.Hex(m.Cookie))
		}
		add("cs", u16s(m.CipherSuites))
		add("cm", hx.Hex(m.Compression))
		add("sni", hx.Hex(m.ServerName))
		add("tas", talist(m.TAs))
		add("ocsp", b01(m.OCSP))
		add("curves", u16s(m.Curves))
		add("sigs", u16s(m.SigAlgs))
		add("alpn", list(m.ALPN))
		add("cid", hx.Hex(m.ClientID))
	default:
		panic("kind " + kind)
	}
	if stack == "dtlcp" {
		add("seq", fmt.Sprintf("%04x", m.Seq))
		add("fo", strconv.FormatUint(uint64(m.FragOff), 10))
		add("fl", strconv.FormatUint(uint64(m.FragLen), 10))
	}
	if len(p) == 0 {
		return "-"
	}
	return strings.Join(p, ",")
}

func unU16s(s string) []uint16 {
	b := hx.UnHex(s)
	var out []uint16
	for i := 0; i+1 < len(b); i += 2 {
		out = append(out, uint16(b[i])<<8|uint16(b[i+1]))
	}
	return out
}

func unList(s string) [][]byte {
	parts := strings.Split(s, "/")
	var out [][]byte
	for _, p := range parts[1:] {
		b := hx.UnHex(p)
		if b == nil {
			b = []byte{}
		}
		out = append(out, b)
	}
	return out
}

func unTAs(s string) []TA {
	parts := strings.Split(s, "/")
	var out []TA
	for _, p := range parts[1:] {
		t, _ := strconv.ParseUint(p[:2], 16, 8)
		out = append(out, TA{Type: uint8(t), Id: hx.UnHex(p[3:])})
	}
	return out
}

func hex16(s string) uint16 {
	b, _ := hex.DecodeString(s)
	if len(b) != 2 {
		return 0
	}
	return uint16(b[0])<<8 | uint16(b[1])
}

// parseFields is the inverse of dump (used by -replay).
func parseFields(kind, f string) *M {
	m := &M{}
	if f == "-" {
		return m
	}
	for _, kv := range strings.Split(f, ",") {
		i := strings.IndexByte(kv, ':')
		if i < 0 {
			continue
		}
		k, v := kv[:i], kv[i+1:]
		switch k {
		case "vd", "sig", "ct", "key":
			m.Blob = hx.UnHex(v)
		case "certs":
			m.Certificates = unList(v)
		case "types":
			m.CertTypes = hx.UnHex(v)
		case "cas":
			m.CAs = unList(v)
		case "vers":
			m.Vers = hex16(v)
		case "ck":
			m.Cookie = hx.UnHex(v)
		case "rnd":
			m.Random = hx.UnHex(v)
		case "sid":
			m.SessionId = hx.UnHex(v)
		case "cs":
			if kind == "serverHello" {
				m.CipherSuite = hex16(v)
			} else {
				m.CipherSuites = unU16s(v)
			}
		case "cm":
			if kind == "serverHello" {
				if b := hx.UnHex(v); len(b) == 1 {
					m.CompressionMethod = b[0]
				}
			} else {
				m.Compression = hx.UnHex(v)
			}
		case "ocsp":
			m.OCSP = v == "1"
		case "resp":
			m.OCSPResponse = hx.UnHex(v)
		case "alpn":
			if kind == "clientHello" {
				m.ALPN = unList(v)
			} else {
				m.ALPNProto = hx.UnHex(v)
			}
		case "ack":
			m.SNIAck = v == "1"
		case "sni":
			m.ServerName = hx.UnHex(v)
		case "tas":
			m.TAs = unTAs(v)
		case "curves":
			m.Curves = unU16s(v)
		case "sigs":
			m.SigAlgs = unU16s(v)
		case "cid":
			m.ClientID = hx.UnHex(v)
		case "seq":
			m.Seq = hex16(v)
		case "fo":
			x, _ := strconv.ParseUint(v, 10, 32)
			m.FragOff = uint32(x)
		case "fl":
			x, _ := strconv.ParseUint(v, 10, 32)
			m.FragLen = uint32(x)
		}
	}
	return m
}

// ---------------------------------------------------------------- adapters

func strs(v [][]byte) []string {
	var out []string
	for _, x := range v {
		out = append(out, string(x))
	}
	return out
}
func unstrs(v []string) [][]byte {
	var out [][]byte
	for _, x := range v {
		out = append(out, []byte(x))
	}
	return out
}

func marshal(stack, kind string, m *M) ([]byte, error) {
	if stack == "tlcp" {
		v := &tlcp.VerifCodecMsg{Vers: m.Vers, Random: m.Random, SessionId: m.SessionId, Cookie: m.Cookie, CipherSuites: m.CipherSuites,
			Compression: m.Compression, ServerName: string(m.ServerName), OCSP: m.OCSP, Curves: m.Curves, SigAlgs: m.SigAlgs,
			ALPN: strs(m.ALPN), ClientID: m.ClientID, CipherSuite: m.CipherSuite, CompressionMethod: m.CompressionMethod,
			OCSPResponse: m.OCSPResponse, ALPNProto: string(m.ALPNProto), SNIAck: m.SNIAck, Certificates: m.Certificates,
			CertTypes: m.CertTypes, CAs: m.CAs, Blob: m.Blob}
		for _, t := range m.TAs {
			v.TAs = append(v.TAs, tlcp.TrustedAuthority{IdentifierType: t.Type, Identifier: t.Id})
		}
		return tlcp.VerifCodecMarshal(kind, v)
	}
	v := &dtlcp.VerifCodecMsg{Vers: m.Vers, Random: m.Random, SessionId: m.SessionId, Cookie: m.Cookie, CipherSuites: m.CipherSuites,
		Compression: m.Compression, ServerName: string(m.ServerName), OCSP: m.OCSP, Curves: m.Curves, SigAlgs: m.SigAlgs,
		ALPN: strs(m.ALPN), ClientID: m.ClientID, CipherSuite: m.CipherSuite, CompressionMethod: m.CompressionMethod,
		OCSPResponse: m.OCSPResponse, ALPNProto: string(m.ALPNProto), SNIAck: m.SNIAck, Certificates: m.Certificates,
		CertTypes: m.CertTypes, CAs: m.CAs, Blob: m.Blob, Seq: m.Seq, FragOff: m.FragOff, FragLen: m.FragLen}
	for _, t := range m.TAs {
		v.TAs = append(v.TAs, dtlcp.TrustedAuthority{IdentifierType: t.Type, Identifier: t.Id})
	}
	return dtlcp.VerifCodecMarshal(kind, v)
}

func unmarshal(stack, kind string, data []byte) (*M, bool) {
	if stack == "tlcp" {
		v, ok := tlcp.VerifCodecUnmarshal(kind, data)
		if !ok {
			return nil, false
		}
		m := &M{Vers: v.Vers, Random: v.Random, SessionId: v.SessionId, Cookie: v.Cookie, CipherSuites: v.CipherSuites,
			Compression: v.Compression, ServerName: []byte(v.ServerName), OCSP: v.OCSP, Curves: v.Curves, SigAlgs: v.SigAlgs,
			ALPN: unstrs(v.ALPN), ClientID: v.ClientID, CipherSuite: v.CipherSuite, CompressionMethod: v.CompressionMethod,
			OCSPResponse: v.OCSPResponse, ALPNProto: []byte(v.ALPNProto), SNIAck: v.SNIAck, Certificates: v.Certificates,
			CertTypes: v.CertTypes, CAs: v.CAs, Blob: v.Blob, RawIsInput: v.RawIsInput}
		for _, t := range v.TAs {
			m.TAs = append(m.TAs, TA{t.IdentifierType, t.Identifier})
		}
		return m, true
	}
	v, ok := dtlcp.VerifCodecUnmarshal(kind, data)
	if !ok {
		return nil, false
	}
	m := &M{Vers: v.Vers, Random: v.Random, SessionId: v.SessionId, Cookie: v.Cookie, CipherSuites: v.CipherSuites,
		Compression: v.Compression, ServerName: []byte(v.ServerName), OCSP: v.OCSP, Curves: v.Curves, SigAlgs: v.SigAlgs,
		ALPN: unstrs(v.ALPN), ClientID: v.ClientID, CipherSuite: v.CipherSuite, CompressionMethod: v.CompressionMethod,
		OCSPResponse: v.OCSPResponse, ALPNProto: []byte(v.ALPNProto), SNIAck: v.SNIAck, Certificates: v.Certificates,
		CertTypes: v.CertTypes, CAs: v.CAs, Blob: v.Blob, Seq: v.Seq, FragOff: v.FragOff, FragLen: v.FragLen, RawIsInput: v.RawIsInput}
	for _, t := range v.TAs {
		m.TAs = append(m.TAs, TA{t.IdentifierType, t.Identifier})
	}
	return m, true
}

package main

// Case generators: documented witnesses first, then per stack and kind
//   (1) random field values inside and outside the standard's ranges          (op=enc)
//   (2) every truncation, several single-byte mutations at every position, every single-byte
//       insertion / deletion point, appended tails of valid encodings; header-only strings;
//       random byte strings                                                     (op=dec)

import (
	"verifharness/internal/hx"
)

// ---------------------------------------------------------------- witnesses (findings)

func (d *driver) witnesses() {
	w := func(stack, kind, h string) { d.dec(stack, kind, hx.UnHex(h)) }
	// DTLCP Finished followed by three stray bytes
	w("dtlcp", "finished", "1400000c000300000000000c"+"0102030405060708090a0b0c"+"aabbcc")
	// DTLCP Finished announcing 12 bytes, fragment_length 5: zero-padded
	w("dtlcp", "finished", "1400000c0003000000000005"+"0102030405")
	// DTLCP ServerHelloDone with a tail; with inconsistent fragment fields
	w("dtlcp", "serverHelloDone", "0e0000000004000000000000"+"deadbeef")
	w("dtlcp", "serverHelloDone", "0e0000000004000007000009")
	// DTLCP ServerKeyExchange: header says 2 body bytes, 5 follow; wrong type
	w("dtlcp", "serverKeyExchange", "0c00000200020000000000020102030405")
	w("dtlcp", "serverKeyExchange", "ff00000200020000000000020102")
	// DTLCP CertificateVerify: bytes after fragment_length are ignored by dtlcpUnmarshalHeader
	w("dtlcp", "certificateVerify", "0f00000400050000000000040002abcd"+"ffff")
	// DTLCP CertificateVerify: total length field disagrees with the body
	w("dtlcp", "certificateVerify", "0f00ffff00050000000000040002abcd")
	// DTLCP ClientKeyExchange / Certificate / CertificateRequest: fragment fields ignored
	w("dtlcp", "clientKeyExchange", "10000002000600000700000901ff")
	w("dtlcp", "certificate", "0b000007"+"0001"+"000007"+"000009"+"000004"+"000001"+"aa")
	// TLCP: the 24-bit length is ignored
	w("tlcp", "serverHelloDone", "0e000005")
	w("tlcp", "serverKeyExchange", "0c0000ff0102")
	w("tlcp", "certificateVerify", "0f0000630002abcd")
	w("tlcp", "certificate", "0b000063"+"000004"+"000001"+"aa")
	// two supported curves / signature algorithms (DTLCP ClientHello keeps only the last one)
	m := sampleClientHello()
	d.enc("tlcp", "clientHello", m)
	d.enc("dtlcp", "clientHello", m)
}

func sampleClientHello() *M {
	rnd := make([]byte, 32)
	for i := range rnd {
		rnd[i] = byte(i)
	}
	return &M{Vers: 0x0101, Random: rnd, SessionId: []byte{1, 2, 3}, CipherSuites: []uint16{0xe053, 0xe013}, Compression: []byte{0},
		ServerName: []byte("a.example"), OCSP: true, Curves: []uint16{41, 23}, SigAlgs: []uint16{0x0704, 0x0403},
		ALPN: [][]byte{[]byte("h2"), []byte("http/1.1")}, ClientID: []byte{9, 9},
		TAs: []TA{{0, nil}, {2, []byte{0x30, 0x00}}, {4, bytesOf(32, 7)}}}
}

func bytesOf(n int, b byte) []byte {
	out := make([]byte, n)
	for i := range out {
		out[i] = b
	}
	return out
}

// ---------------------------------------------------------------- random fields

// size picks a vector length in [lo, hi] (the standard's range) with boundary emphasis; when
// loose it also leaves the range (below lo, above hi up to over).  Large values are rare so the
// trace stays small.
func (d *driver) size(lo, hi, over int, loose bool) int {
	r := d.r
	big := func(n int) int { // allow big sizes only rarely
		if n > 300 && !r.Chance(2) {
			return lo + r.Intn(12)
		}
		return n
	}
	switch x := r.Intn(20); {
	case x == 0:
		return lo
	case x == 1:
		return big(hi)
	case x == 2 && loose && lo > 0:
		return lo - 1
	case x == 3 && loose:
		return big(hi + 1 + r.Intn(over-hi))
	case x == 4:
		return big(hi - r.Intn(3))
	case x < 8:
		n := lo + r.Intn(40)
		if n > hi {
			n = hi
		}
		return n
	default:
		n := lo + r.Intn(6)
		if n > hi {
			n = hi
		}
		return n
	}
}

func (d *driver) vecs(n, lo, hi, over int, loose bool) [][]byte {
	var out [][]byte
	for i := 0; i < n; i++ {
		out = append(out, d.r.Bytes(d.size(lo, hi, over, loose)))
	}
	return out
}

func (d *driver) u16s(n int) []uint16 {
	var out []uint16
	pool := []uint16{0xe013, 0xe053, 0xe011, 0xe051, 41, 23, 0x0704, 0x0403, 0, 0xffff}
	for i := 0; i < n; i++ {
		if d.r.Bool() {
			out = append(out, hx.Pick(d.r, pool))
		} else {
			out = append(out, uint16(d.r.U64()))
		}
	}
	return out
}

// fields draws a message of the kind.  loose=false stays inside the standard's ranges (the
// oracle decides well-formedness itself; this only steers the distribution).
func (d *driver) fields(stack, kind string, loose bool) *M {
	r := d.r
	m := &M{}
	if stack == "dtlcp" {
		m.Seq = uint16(r.U64())
		if r.Chance(30) {
			m.Seq = uint16(r.Intn(4))
		}
		if loose && r.Chance(25) {
			m.FragOff = uint32(r.Intn(5))
			if r.Chance(20) {
				m.FragOff = uint32(r.U64() & 0xffffff)
			}
		}
		if loose && r.Chance(35) {
			m.FragLen = uint32(r.Intn(40))
			if r.Chance(10) {
				m.FragLen = uint32(r.U64() & 0x1ffffff)
			}
		}
	}
	rnd := func() []byte {
		if loose && r.Chance(15) {
			return r.Bytes(hx.Pick(r, []int{0, 1, 31, 33, 64}))
		}
		return r.Bytes(32)
	}
	switch kind {
	case "finished":
		n := 12
		if loose {
			n = hx.Pick(r, []int{0, 1, 11, 12, 12, 13, 36, 255, 256})
		}
		m.Blob = r.Bytes(n)
	case "serverHelloDone":
	case "certificateVerify":
		m.Blob = r.Bytes(d.size(0, 65535, 65600, loose))
	case "clientKeyExchange", "serverKeyExchange":
		m.Blob = r.Bytes(d.size(0, 70000, 70001, false))
	case "certificate":
		n := hx.Pick(r, []int{0, 1, 1, 2, 2, 3, 5})
		lo := 1
		if loose {
			lo = 0
		}
		m.Certificates = d.vecs(n, lo, 70000, 70001, false)
	case "certificateRequest":
		m.CertTypes = r.Bytes(d.size(1, 255, 258, loose))
		n := hx.Pick(r, []int{0, 0, 1, 2, 3, 6})
		m.CAs = d.vecs(n, 1, 65535, 65540, loose)
		if r.Chance(1) {
			m.CAs = d.vecs(40, 1600, 1700, 1701, false) // total above 65535
		}
	case "helloVerifyRequest":
		m.Vers = hx.Pick(r, []uint16{0x0101, 0x0101, 0xfeff, uint16(r.U64())})
		m.Cookie = r.Bytes(d.size(0, 255, 258, loose))
	case "serverHello":
		m.Vers = hx.Pick(r, []uint16{0x0101, 0x0101, 0x0303, uint16(r.U64())})
		m.Random = rnd()
		m.SessionId = r.Bytes(d.size(0, 32, 258, loose))
		m.CipherSuite = d.u16s(1)[0]
		m.CompressionMethod = uint8(r.Intn(3))
		if r.Chance(40) {
			m.OCSP = true
			m.OCSPResponse = r.Bytes(d.size(1, 65531, 65540, loose))
		}
		if loose && r.Chance(10) {
			m.OCSP = !m.OCSP
		}
		if r.Chance(40) {
			m.ALPNProto = r.Bytes(d.size(1, 255, 258, loose))
		}
		m.SNIAck = r.Chance(40)
	case "clientHello":
		m.Vers = hx.Pick(r, []uint16{0x0101, 0x0101, 0x0303, uint16(r.U64())})
		m.Random = rnd()
		m.SessionId = r.Bytes(d.size(0, 32, 258, loose))
		if stack == "dtlcp" {
			m.Cookie = r.Bytes(d.size(0, 255, 258, loose))
		} else if loose && r.Chance(5) {
			m.Cookie = r.Bytes(3)
		}
		nlo := 1
		if loose {
			nlo = 0
		}
		m.CipherSuites = d.u16s(d.size(nlo, 32767, 32770, loose))
		m.Compression = r.Bytes(d.size(nlo, 255, 258, loose))
		if !loose && r.Chance(70) {
			m.Compression = []byte{0}
		}
		if r.Chance(50) {
			m.ServerName = r.Bytes(d.size(1, 65530, 65540, loose))
			if r.Chance(50) {
				m.ServerName = []byte(hx.Pick(r, []string{"a", "example.com", "xn--fiq228c.cn", "host.", "."}))
			}
			if !loose && len(m.ServerName) > 0 && m.ServerName[len(m.ServerName)-1] == '.' {
				m.ServerName[len(m.ServerName)-1] = 'x'
			}
		}
		if r.Chance(40) {
			n := 1 + r.Intn(4)
			for i := 0; i < n; i++ {
				t := hx.Pick(r, []uint8{0, 2, 4, 5})
				if loose && r.Chance(20) {
					t = uint8(r.Intn(8))
				}
				var id []byte
				switch t {
				case 2:
					id = r.Bytes(d.size(1, 65535, 65540, loose))
				case 4, 5:
					id = r.Bytes(32)
					if loose && r.Chance(20) {
						id = r.Bytes(hx.Pick(r, []int{0, 31, 33}))
					}
				default:
					if loose && r.Chance(20) {
						id = r.Bytes(2)
					}
				}
				m.TAs = append(m.TAs, TA{t, id})
			}
		}
		m.OCSP = r.Chance(40)
		if r.Chance(50) {
			m.Curves = d.u16s(d.size(1, 32767, 32770, loose))
		}
		if r.Chance(50) {
			m.SigAlgs = d.u16s(d.size(1, 32767, 32770, loose))
		}
		if r.Chance(50) {
			m.ALPN = d.vecs(1+r.Intn(3), 1, 255, 258, loose)
		}
		if r.Chance(30) {
			m.ClientID = r.Bytes(d.size(1, 65533, 65540, loose))
		}
	}
	return m
}

// ---------------------------------------------------------------- byte-level cases

func (d *driver) mutations(stack, kind string, base []byte, variants int) {
	r := d.r
	n := len(base)
	limit := n
	if limit > 260 {
		limit = 260
	}
	// every truncation
	for i := 0; i < limit; i++ {
		d.dec(stack, kind, base[:i])
	}
	// single-byte mutations
	for i := 0; i < limit; i++ {
		for v := 0; v < variants; v++ {
			x := append([]byte(nil), base...)
			switch v {
			case 0:
				x[i] ^= 1
			case 1:
				x[i]++
			case 2:
				x[i]--
			case 3:
				x[i] ^= 0x80
			case 4:
				x[i] = 0
			default:
				x[i] = byte(r.U64())
			}
			d.dec(stack, kind, x)
		}
	}
	// deletions and insertions
	for i := 0; i < limit; i++ {
		x := append(append([]byte(nil), base[:i]...), base[i+1:]...)
		d.dec(stack, kind, x)
		y := append(append(append([]byte(nil), base[:i]...), byte(r.U64())), base[i:]...)
		d.dec(stack, kind, y)
	}
	// tails
	for k := 1; k <= 3; k++ {
		d.dec(stack, kind, append(append([]byte(nil), base...), r.Bytes(k)...))
	}
}

func hdrLen(stack string) int {
	if stack == "tlcp" {
		return 4
	}
	return 12
}

// randomBytes: a header of the stack (sometimes consistent with the body) followed by noise
func (d *driver) randomBytes(stack, kind string, typ byte) []byte {
	r := d.r
	n := r.Intn(48)
	if r.Chance(10) {
		n = r.Intn(hdrLen(stack) + 3)
	}
	if r.Chance(20) {
		return r.Bytes(n)
	}
	body := r.Bytes(n)
	if r.Chance(50) { // make the first inner vector plausible
		for i := 0; i < len(body) && i < 6; i++ {
			body[i] = byte(r.Intn(4))
		}
	}
	l := n
	if r.Chance(20) {
		l = r.Intn(64)
	}
	h := []byte{typ, byte(l >> 16), byte(l >> 8), byte(l)}
	if r.Chance(10) {
		h[0] = byte(r.U64())
	}
	if stack == "dtlcp" {
		fo, fl := 0, l
		if r.Chance(15) {
			fo = r.Intn(4)
		}
		if r.Chance(25) {
			fl = r.Intn(n + 3)
		}
		h = append(h, byte(r.U64()), byte(r.U64()), byte(fo>>16), byte(fo>>8), byte(fo), byte(fl>>16), byte(fl>>8), byte(fl))
	}
	return append(h, body...)
}

func (d *driver) generated(budget int) {
	for _, stack := range []string{"tlcp", "dtlcp"} {
		for _, kind := range kindsOf(stack) {
			hello := kind == "clientHello" || kind == "serverHello"
			// (1) fields
			nf := 1500 * budget
			if hello {
				nf = 4000 * budget
			}
			var bases [][]byte
			var typ byte
			for i := 0; i < nf; i++ {
				loose := i%2 == 1
				m := d.fields(stack, kind, loose)
				d.enc(stack, kind, m)
				if !loose && len(bases) < 64 {
					if data, err := marshal(stack, kind, m); err == nil && len(data) < 260 {
						if _, ok := unmarshal(stack, kind, append([]byte(nil), data...)); ok {
							bases = append(bases, data)
							typ = data[0]
						}
					}
				}
			}
			// (2) bytes
			nb := 4 * budget
			if hello {
				nb = 6 * budget
			}
			for i := 0; i < nb && i < len(bases); i++ {
				d.mutations(stack, kind, bases[len(bases)-1-i], 6)
			}
			nr := 2000 * budget
			for i := 0; i < nr; i++ {
				d.dec(stack, kind, d.randomBytes(stack, kind, typ))
			}
		}
	}
}

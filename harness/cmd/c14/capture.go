package main

// Phase `captured`: run real handshakes of both stacks over in-memory transports under several
// configurations (plain, ALPN + SNI + trusted CA indication, client authentication with the ECDHE
// suites, session resumption, custom curve preferences, ServerName with several trailing dots / an
// IP literal, small PMTU = fragmented dtlcp flights),
// cut the plaintext handshake messages out of what each side sent (everything before the first
// ChangeCipherSpec; Finished is encrypted and not captured) and run each through the stack's own
// unmarshal as an `op=cap` case.  The oracle requires every captured message to be a canonical
// encoding whose decoded fields satisfy the constructors' shape `Model.Emitted`.

import (
	"fmt"
	"os"
	"sort"
	"strings"
	"time"

	"gitee.com/Trisia/gotlcp/dtlcp"
	"gitee.com/Trisia/gotlcp/tlcp"
	"verifharness/internal/pair"
	"verifharness/internal/pki"
)

var typeKind = map[byte]string{1: "clientHello", 2: "serverHello", 3: "helloVerifyRequest", 11: "certificate",
	12: "serverKeyExchange", 13: "certificateRequest", 14: "serverHelloDone", 15: "certificateVerify",
	16: "clientKeyExchange", 20: "finished"}

// tlcpMessages splits the plaintext handshake messages out of a TLCP byte stream.
func tlcpMessages(stream []byte) [][]byte {
	var hs []byte
	for len(stream) >= 5 {
		typ := stream[0]
		n := int(stream[3])<<8 | int(stream[4])
		if len(stream) < 5+n {
			break
		}
		if typ == 20 { // ChangeCipherSpec: what follows is encrypted
			break
		}
		if typ == 22 {
			hs = append(hs, stream[5:5+n]...)
		}
		stream = stream[5+n:]
	}
	var out [][]byte
	for len(hs) >= 4 {
		n := int(hs[1])<<16 | int(hs[2])<<8 | int(hs[3])
		if len(hs) < 4+n {
			break
		}
		out = append(out, append([]byte(nil), hs[:4+n]...))
		hs = hs[4+n:]
	}
	return out
}

// dtlcpMessages reassembles the epoch-0 handshake messages out of the datagrams one side sent.
func dtlcpMessages(datagrams [][]byte) [][]byte {
	type key struct {
		typ byte
		seq uint16
	}
	type asm struct {
		body []byte
		have []bool
		hdr  [12]byte
	}
	parts := map[key]*asm{}
	var order []key
	for _, d := range datagrams {
		for len(d) >= 13 {
			typ := d[0]
			epoch := int(d[3])<<8 | int(d[4])
			n := int(d[11])<<8 | int(d[12])
			if len(d) < 13+n {
				break
			}
			rec := d[13 : 13+n]
			d = d[13+n:]
			if typ != 22 || epoch != 0 {
				continue
			}
			for len(rec) >= 12 {
				bodyLen := int(rec[1])<<16 | int(rec[2])<<8 | int(rec[3])
				off := int(rec[6])<<16 | int(rec[7])<<8 | int(rec[8])
				fl := int(rec[9])<<16 | int(rec[10])<<8 | int(rec[11])
				if len(rec) < 12+fl || off+fl > bodyLen {
					break
				}
				k := key{rec[0], uint16(rec[4])<<8 | uint16(rec[5])}
				a := parts[k]
				if a == nil {
					a = &asm{body: make([]byte, bodyLen), have: make([]bool, bodyLen)}
					copy(a.hdr[:], rec[:12])
					parts[k] = a
					order = append(order, k)
				}
				if len(a.body) == bodyLen {
					copy(a.body[off:], rec[12:12+fl])
					for i := off; i < off+fl; i++ {
						a.have[i] = true
					}
				}
				rec = rec[12+fl:]
			}
		}
	}
	var out [][]byte
	for _, k := range order {
		a := parts[k]
		complete := true
		for _, h := range a.have {
			complete = complete && h
		}
		if !complete {
			continue
		}
		// the complete message as marshal() produced it: fragment_offset 0, fragment_length = length
		m := append([]byte(nil), a.hdr[:]...)
		m[6], m[7], m[8] = 0, 0, 0
		m[9], m[10], m[11] = m[1], m[2], m[3]
		out = append(out, append(m, a.body...))
	}
	return out
}

func (d *driver) captured() {
	s := pki.Std()
	seen := map[string]bool{}
	emit := func(stack string, msgs [][]byte) {
		for _, m := range msgs {
			kind, ok := typeKind[m[0]]
			if !ok {
				continue
			}
			if k := stack + string(m); seen[k] {
				continue
			} else {
				seen[k] = true
			}
			d.t.Line(fmt.Sprintf("stack=%s kind=%s op=cap data=%x", stack, kind, m), runDec(stack, kind, m))
		}
	}
	// a failed handshake is reported after everything that WAS sent has been judged: when the
	// failure comes from an undecodable message, the captured message is the replayable input
	var failures []string
	fail := func(what string, r pair.Result) {
		failures = append(failures, what+" "+r.String())
	}
	defer func() {
		if len(failures) > 0 {
			d.t.Close()
			fmt.Fprintln(os.Stderr, "captured: handshake failed:", strings.Join(failures, "; "))
			os.Exit(3)
		}
	}()

	// ---------------- TLCP
	tcfgs := map[string]func() (*tlcp.Config, *tlcp.Config){
		"plain": func() (*tlcp.Config, *tlcp.Config) { return pair.TClient(), pair.TServer() },
		"alpn-sni-tca": func() (*tlcp.Config, *tlcp.Config) {
			c, sv := pair.TClient(), pair.TServer()
			c.NextProtos = []string{"h2", "http/1.1"}
			sv.NextProtos = []string{"http/1.1", "h2"}
			c.ServerName = "test.example."
			c.TrustedCAIndications = []tlcp.TrustedAuthority{{IdentifierType: tlcp.IdentifierTypePreAgreed},
				{IdentifierType: tlcp.IdentifierTypeX509Name, Identifier: s.Root.Cert.RawSubject},
				{IdentifierType: tlcp.IdentifierTypeKeySM3Hash, Identifier: make([]byte, 32)}}
			return c, sv
		},
		"client-auth-ecdhe": func() (*tlcp.Config, *tlcp.Config) {
			c, sv := pair.TClient(), pair.TServer()
			c.Certificates = []tlcp.Certificate{pair.TCert(s.CliSig), pair.TCert(s.CliEnc)}
			c.CipherSuites = []uint16{tlcp.ECDHE_SM4_GCM_SM3, tlcp.ECDHE_SM4_CBC_SM3, tlcp.ECC_SM4_GCM_SM3}
			sv.ClientAuth = tlcp.RequireAndVerifyClientCert
			sv.ClientCAs = s.Root.Pool
			return c, sv
		},
		"client-auth-ecc": func() (*tlcp.Config, *tlcp.Config) {
			c, sv := pair.TClient(), pair.TServer()
			c.Certificates = []tlcp.Certificate{pair.TCert(s.CliSig), pair.TCert(s.CliEnc)}
			c.CipherSuites = []uint16{tlcp.ECC_SM4_CBC_SM3}
			sv.ClientAuth = tlcp.RequestClientCert
			return c, sv
		},
		"curves": func() (*tlcp.Config, *tlcp.Config) {
			c, sv := pair.TClient(), pair.TServer()
			c.CurvePreferences = []tlcp.CurveID{tlcp.CurveSM2, 23, 24}
			return c, sv
		},
		// ServerName forms the client must normalise before they reach the server's decoder
		// (several trailing dots; an IP literal = no server_name at all). The name check of the
		// certificate is not the subject here.
		"sni-dots": func() (*tlcp.Config, *tlcp.Config) {
			c, sv := pair.TClient(), pair.TServer()
			c.ServerName, c.InsecureSkipVerify = "test.example...", true
			return c, sv
		},
		"sni-ip": func() (*tlcp.Config, *tlcp.Config) {
			c, sv := pair.TClient(), pair.TServer()
			c.ServerName, c.InsecureSkipVerify = "[fe80::1%eth0]", true
			return c, sv
		},
	}
	var names []string
	for n := range tcfgs {
		names = append(names, n)
	}
	sort.Strings(names)
	for _, n := range names {
		c, sv := tcfgs[n]()
		_, _, ce, se, r := pair.TLCP(c, sv, nil)
		emit("tlcp", tlcpMessages(ce.SentBytes()))
		emit("tlcp", tlcpMessages(se.SentBytes()))
		if !r.OK() {
			fail("tlcp "+n, r)
		}
	}
	{ // resumption: second handshake offers the cached session, the server echoes its id
		c, sv := pair.TClient(), pair.TServer()
		c.SessionCache = tlcp.NewLRUSessionCache(4)
		sv.SessionCache = tlcp.NewLRUSessionCache(4)
		for i := 0; i < 2; i++ {
			_, _, ce, se, r := pair.TLCP(c, sv, func(ce, se *pair.StreamEnd) { ce.SetAddrs("c:1", "srv:443"); se.SetAddrs("srv:443", "c:1") })
			emit("tlcp", tlcpMessages(ce.SentBytes()))
			emit("tlcp", tlcpMessages(se.SentBytes()))
			if !r.OK() {
				fail("tlcp resume", r)
			}
		}
	}

	{ // a configuration the client must refuse (F29): nothing undecodable may reach the wire.
		// Client alone against a silent peer; cut off after a moment if it did send something.
		alone := func(hs func() error, stop func()) {
			done := make(chan struct{})
			go func() { _ = hs(); close(done) }()
			select {
			case <-done:
			case <-time.After(400 * time.Millisecond):
				stop()
				<-done
			}
		}
		c := pair.TClient()
		c.NextProtos = []string{"h2", ""}
		ce, se := pair.StreamPipe()
		alone(tlcp.Client(ce, c).Handshake, func() { ce.Close(); se.Close() })
		emit("tlcp", tlcpMessages(ce.SentBytes()))
		dc := pair.DClient()
		dc.NextProtos = []string{""}
		dce, dse := pair.PacketPipe()
		alone(dtlcp.Client(dce, dse.LocalAddr(), dc).Handshake, func() { dce.Close(); dse.Close() })
		emit("dtlcp", dtlcpMessages(dce.SentCopy()))
	}

	// ---------------- DTLCP
	dcfgs := map[string]func() (*dtlcp.Config, *dtlcp.Config){
		"plain": func() (*dtlcp.Config, *dtlcp.Config) { return pair.DClient(), pair.DServer() },
		"alpn-sni": func() (*dtlcp.Config, *dtlcp.Config) {
			c, sv := pair.DClient(), pair.DServer()
			c.NextProtos = []string{"h2", "coap"}
			sv.NextProtos = []string{"coap"}
			c.TrustedCAIndications = []dtlcp.TrustedAuthority{{IdentifierType: dtlcp.IdentifierTypeX509Name, Identifier: s.Root.Cert.RawSubject}}
			return c, sv
		},
		"client-auth-ecdhe": func() (*dtlcp.Config, *dtlcp.Config) {
			c, sv := pair.DClient(), pair.DServer()
			c.Certificates = []dtlcp.Certificate{pair.DCert(s.CliSig), pair.DCert(s.CliEnc)}
			c.CipherSuites = []uint16{dtlcp.ECDHE_SM4_GCM_SM3, dtlcp.ECC_SM4_GCM_SM3}
			sv.ClientAuth = dtlcp.RequireAndVerifyClientCert
			sv.ClientCAs = s.Root.Pool
			return c, sv
		},
		"sni-dots": func() (*dtlcp.Config, *dtlcp.Config) {
			c, sv := pair.DClient(), pair.DServer()
			c.ServerName, c.InsecureSkipVerify = "test.example..", true
			return c, sv
		},
		"small-pmtu": func() (*dtlcp.Config, *dtlcp.Config) {
			c, sv := pair.DClient(), pair.DServer()
			c.PMTU, sv.PMTU = 300, 300
			c.CurvePreferences = []dtlcp.CurveID{dtlcp.CurveSM2, 23}
			return c, sv
		},
	}
	names = names[:0]
	for n := range dcfgs {
		names = append(names, n)
	}
	sort.Strings(names)
	for _, n := range names {
		c, sv := dcfgs[n]()
		_, _, ce, se, r := pair.DTLCP(c, sv, nil)
		emit("dtlcp", dtlcpMessages(ce.SentCopy()))
		emit("dtlcp", dtlcpMessages(se.SentCopy()))
		if !r.OK() {
			fail("dtlcp "+n, r)
		}
	}
}

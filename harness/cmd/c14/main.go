// Driver for C14: runs the REAL marshal / unmarshal of every handshake message of both stacks
// (through the verif hooks) and writes `case => observed` lines for the Lean oracle.
//
//	stack=S kind=K op=enc f=<fields>   => enc=ok data=<hex> dec=ok g=<fields>
//	                                      enc=ok data=<hex> dec=rej | dec=panic
//	                                      enc=err | enc=panic
//	stack=S kind=K op=dec data=<hex>   => dec=ok g=<fields> raw=<0|1> re=<ok|diff|err|panic>
//	                                      dec=rej | dec=panic
//	stack=S kind=K op=cap data=<hex>   => as op=dec; data is a message captured from a real handshake
//	                                      (phase `captured`, see capture.go)
//	stack=S kind=clientHello op=emit <client configuration>
//	                                   => mk=err | mk=ok n=<k> data=<hex> + as op=dec: what the real client,
//	                                      run alone on that configuration, put on the wire (phase `emit`, see emit.go)
//
// enc: build the message from the fields, marshal it, unmarshal the result with a fresh object.
// dec: unmarshal the bytes; `raw` = marshal() of the same object returns the input (the cache the
// transcript relies on); `re` = marshalling a fresh message built from the decoded fields gives
// the input bytes again.
package main

import (
	"bytes"
	"fmt"
	"os"

	"verifharness/internal/hx"
)

func runEnc(stack, kind string, m *M) string {
	var data []byte
	var err error
	if p := hx.Guard(func() { data, err = marshal(stack, kind, m) }); p != "" {
		return "enc=panic"
	}
	if err != nil {
		return "enc=err"
	}
	var g *M
	var ok bool
	in := append([]byte(nil), data...)
	if p := hx.Guard(func() { g, ok = unmarshal(stack, kind, in) }); p != "" {
		return "enc=ok data=" + hx.Hex(data) + " dec=panic"
	}
	if !ok {
		return "enc=ok data=" + hx.Hex(data) + " dec=rej"
	}
	return "enc=ok data=" + hx.Hex(data) + " dec=ok g=" + g.dump(stack, kind)
}

func runDec(stack, kind string, data []byte) string {
	var g *M
	var ok bool
	in := append([]byte(nil), data...)
	if p := hx.Guard(func() { g, ok = unmarshal(stack, kind, in) }); p != "" {
		return "dec=panic"
	}
	if !ok {
		return "dec=rej"
	}
	re := "ok"
	var again []byte
	var err error
	if p := hx.Guard(func() { again, err = marshal(stack, kind, g) }); p != "" {
		re = "panic"
	} else if err != nil {
		re = "err"
	} else if !bytes.Equal(again, data) {
		re = "diff"
	}
	return "dec=ok g=" + g.dump(stack, kind) + " raw=" + b01(g.RawIsInput) + " re=" + re
}

type driver struct {
	t *hx.Trace
	r *hx.Rand
}

func (d *driver) enc(stack, kind string, m *M) {
	d.t.Line(fmt.Sprintf("stack=%s kind=%s op=enc f=%s", stack, kind, m.dump(stack, kind)), runEnc(stack, kind, m))
}
func (d *driver) dec(stack, kind string, data []byte) {
	d.t.Line(fmt.Sprintf("stack=%s kind=%s op=dec data=%s", stack, kind, hx.Hex(data)), runDec(stack, kind, data))
}

func (d *driver) replay(path string) {
	for _, c := range hx.ReplayCases(path) {
		stack, _ := hx.KV(c, "stack")
		kind, _ := hx.KV(c, "kind")
		op, _ := hx.KV(c, "op")
		okKind := false
		for _, k := range kindsOf(stack) {
			okKind = okKind || k == kind
		}
		if (stack != "tlcp" && stack != "dtlcp") || !okKind {
			continue
		}
		switch op {
		case "enc":
			f, _ := hx.KV(c, "f")
			d.enc(stack, kind, parseFields(kind, f))
		case "dec":
			h, _ := hx.KV(c, "data")
			d.dec(stack, kind, hx.UnHex(h))
		case "cap":
			h, _ := hx.KV(c, "data")
			data := hx.UnHex(h)
			d.t.Line(fmt.Sprintf("stack=%s kind=%s op=cap data=%s", stack, kind, hx.Hex(data)), runDec(stack, kind, data))
		case "emit":
			if kind == "clientHello" {
				d.emitCase(stack, parseEmit(c))
			}
		}
	}
}

func main() {
	o := hx.ParseOpts()
	d := &driver{t: hx.NewTrace(o.Out), r: hx.NewRand(o.Seed)}
	defer d.t.Close()
	if o.Replay != "" {
		d.replay(o.Replay)
		return
	}
	budget := 1
	if o.Tier == "thorough" {
		budget = 12
	}
	budget *= o.Scale
	switch o.Phase {
	case "", "codec":
		d.witnesses()
		d.generated(budget)
	case "emit":
		d.emitted(budget)
	case "captured":
		d.captured()
	case "search": // violation search after a broken proof / disagreement: bounded, other seed
		d.witnesses()
		d.generated(3)
	default:
		fmt.Fprintln(os.Stderr, "unknown phase", o.Phase)
		os.Exit(2)
	}
}

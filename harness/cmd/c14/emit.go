package main

// Phase `emit`: configuration-level cases for "every message the library emits decodes".
//
// A case is a client CONFIGURATION: ServerName, NextProtos, CurvePreferences,
// TrustedCAIndications, CipherSuites, the number of client certificates, the bytes Config.Rand
// delivers and the time Config.Time reports (so that the ClientHello is fully determined), and
// for dtlcp optionally the cookie of a HelloVerifyRequest that a scripted peer answers with.
// The REAL client (public API only: tlcp.Client / dtlcp.Client + Handshake) runs alone over an
// in-memory transport whose reads fail after the script; whatever it put on the wire is cut out
// (tlcpMessages / dtlcpMessages) and the last ClientHello is run through the stack's own unmarshal.
//
//	stack=S kind=clientHello op=emit sn=<hex> np=<n/hex…> curves=<nil|hex> tas=<n/ty.id…> cs=<nil|hex> nc=<n>
//	      rnd=<hex> t=<unix> [ck=<none|hex>]
//	  => mk=err                                     nothing reached the wire (configuration refused)
//	     mk=ok n=<hellos sent> data=<hex> dec=…     as op=dec on the last ClientHello sent
//
// The oracle predicts the line with Model.Make (makeClientHello, hostnameInSNI, net.ParseIP) and
// the codec models, and fails the property (tag emitted) when the wire carries a ClientHello that
// the library's decoder refuses.

import (
	"bytes"
	"errors"
	"fmt"
	"io"
	"net"
	"os"
	"strconv"
	"strings"
	"sync"
	"time"

	"gitee.com/Trisia/gotlcp/dtlcp"
	"gitee.com/Trisia/gotlcp/tlcp"
	"verifharness/internal/hx"
	"verifharness/internal/pair"
	"verifharness/internal/pki"
)

type emitCfg struct {
	SN        []byte
	NP        [][]byte
	Curves    []uint16
	CurvesNil bool
	TAs       []TA
	CS        []uint16
	CSNil     bool
	NC        int
	Rnd       []byte
	T         int64
	CK        []byte
	HasCK     bool
}

func optU16s(v []uint16, isNil bool) string {
	if isNil {
		return "nil"
	}
	return u16s(v)
}

func (c *emitCfg) desc(stack string) string {
	s := fmt.Sprintf("stack=%s kind=clientHello op=emit sn=%s np=%s curves=%s tas=%s cs=%s nc=%d rnd=%s t=%d",
		stack, hx.Hex(c.SN), list(c.NP), optU16s(c.Curves, c.CurvesNil), talist(c.TAs), optU16s(c.CS, c.CSNil), c.NC, hx.Hex(c.Rnd), c.T)
	if stack == "dtlcp" {
		if c.HasCK {
			s += " ck=" + hx.Hex(c.CK)
		} else {
			s += " ck=none"
		}
	}
	return s
}

func parseEmit(desc string) *emitCfg {
	c := &emitCfg{}
	get := func(k string) string { v, _ := hx.KV(desc, k); return v }
	c.SN = hx.UnHex(get("sn"))
	c.NP = unList(get("np"))
	if v := get("curves"); v == "nil" {
		c.CurvesNil = true
	} else {
		c.Curves = unU16s(v)
	}
	c.TAs = unTAs(get("tas"))
	if v := get("cs"); v == "nil" {
		c.CSNil = true
	} else {
		c.CS = unU16s(v)
	}
	c.NC, _ = strconv.Atoi(get("nc"))
	c.Rnd = hx.UnHex(get("rnd"))
	c.T, _ = strconv.ParseInt(get("t"), 10, 64)
	if v, ok := hx.KV(desc, "ck"); ok && v != "none" {
		c.HasCK = true
		c.CK = hx.UnHex(v)
	}
	return c
}

// ---------------------------------------------------------------- transports for a client alone

type soloAddr string

func (a soloAddr) Network() string { return "solo" }
func (a soloAddr) String() string  { return string(a) }

var errSoloClosed = errors.New("solo: peer gone")

// soloStream: writes are recorded, reads fail at once.
type soloStream struct {
	mu   sync.Mutex
	sent []byte
}

func (s *soloStream) Read(p []byte) (int, error) { return 0, io.EOF }
func (s *soloStream) Write(p []byte) (int, error) {
	s.mu.Lock()
	s.sent = append(s.sent, p...)
	s.mu.Unlock()
	return len(p), nil
}
func (s *soloStream) Close() error                       { return nil }
func (s *soloStream) LocalAddr() net.Addr                { return soloAddr("c:1") }
func (s *soloStream) RemoteAddr() net.Addr               { return soloAddr("srv:443") }
func (s *soloStream) SetDeadline(t time.Time) error      { return nil }
func (s *soloStream) SetReadDeadline(t time.Time) error  { return nil }
func (s *soloStream) SetWriteDeadline(t time.Time) error { return nil }

// soloPacket: datagrams written are recorded; reads deliver the scripted datagrams, then fail.
type soloPacket struct {
	mu     sync.Mutex
	sent   [][]byte
	script [][]byte
	peer   net.Addr
}

func (s *soloPacket) ReadFrom(p []byte) (int, net.Addr, error) {
	s.mu.Lock()
	defer s.mu.Unlock()
	if len(s.script) == 0 {
		return 0, nil, errSoloClosed
	}
	d := s.script[0]
	s.script = s.script[1:]
	return copy(p, d), s.peer, nil
}
func (s *soloPacket) WriteTo(p []byte, _ net.Addr) (int, error) {
	s.mu.Lock()
	s.sent = append(s.sent, append([]byte(nil), p...))
	s.mu.Unlock()
	return len(p), nil
}
func (s *soloPacket) Close() error                       { return nil }
func (s *soloPacket) LocalAddr() net.Addr                { return soloAddr("c:1") }
func (s *soloPacket) SetDeadline(t time.Time) error      { return nil }
func (s *soloPacket) SetReadDeadline(t time.Time) error  { return nil }
func (s *soloPacket) SetWriteDeadline(t time.Time) error { return nil }

// hvrDatagram: a HelloVerifyRequest (message_seq 0) carrying the cookie, marshalled by the real
// codec, inside an epoch-0 handshake record.
func hvrDatagram(cookie []byte) []byte {
	msg, err := marshal("dtlcp", "helloVerifyRequest", &M{Vers: 0x0101, Cookie: cookie})
	if err != nil {
		return nil
	}
	rec := []byte{22, 0x01, 0x01, 0, 0, 0, 0, 0, 0, 0, 0, byte(len(msg) >> 8), byte(len(msg))}
	return append(rec, msg...)
}

func soloRun(hs func() error) {
	done := make(chan struct{})
	go func() {
		defer close(done)
		_ = hx.Guard(func() { _ = hs() })
	}()
	select {
	case <-done:
	case <-time.After(10 * time.Second): // never expected: every read fails at once
		fmt.Fprintln(os.Stderr, "emit: a lone client did not return")
	}
}

func strsOf(v [][]byte) []string {
	if v == nil {
		return nil
	}
	out := make([]string, len(v))
	for i, x := range v {
		out[i] = string(x)
	}
	return out
}

// emitHellos runs the real client on the configuration and returns the ClientHello messages it sent.
func emitHellos(stack string, c *emitCfg) [][]byte {
	s := pki.Std()
	tm := func() time.Time { return time.Unix(c.T, 0) }
	var msgs [][]byte
	if stack == "tlcp" {
		cfg := pair.TClient()
		cfg.ServerName = string(c.SN)
		cfg.NextProtos = strsOf(c.NP)
		cfg.Rand = bytes.NewReader(c.Rnd)
		cfg.Time = tm
		if !c.CurvesNil {
			cfg.CurvePreferences = []tlcp.CurveID{}
			for _, x := range c.Curves {
				cfg.CurvePreferences = append(cfg.CurvePreferences, tlcp.CurveID(x))
			}
		}
		for _, t := range c.TAs {
			cfg.TrustedCAIndications = append(cfg.TrustedCAIndications, tlcp.TrustedAuthority{IdentifierType: t.Type, Identifier: t.Id})
		}
		if !c.CSNil {
			cfg.CipherSuites = append([]uint16{}, c.CS...)
		}
		for i, l := range []*pki.Leaf{s.CliSig, s.CliEnc} {
			if i < c.NC {
				cfg.Certificates = append(cfg.Certificates, pair.TCert(l))
			}
		}
		tr := &soloStream{}
		soloRun(tlcp.Client(tr, cfg).Handshake)
		msgs = tlcpMessages(tr.sent)
	} else {
		cfg := pair.DClient()
		cfg.ServerName = string(c.SN)
		cfg.NextProtos = strsOf(c.NP)
		cfg.Rand = bytes.NewReader(c.Rnd)
		cfg.Time = tm
		if !c.CurvesNil {
			cfg.CurvePreferences = []dtlcp.CurveID{}
			for _, x := range c.Curves {
				cfg.CurvePreferences = append(cfg.CurvePreferences, dtlcp.CurveID(x))
			}
		}
		for _, t := range c.TAs {
			cfg.TrustedCAIndications = append(cfg.TrustedCAIndications, dtlcp.TrustedAuthority{IdentifierType: t.Type, Identifier: t.Id})
		}
		if !c.CSNil {
			cfg.CipherSuites = append([]uint16{}, c.CS...)
		}
		for i, l := range []*pki.Leaf{s.CliSig, s.CliEnc} {
			if i < c.NC {
				cfg.Certificates = append(cfg.Certificates, pair.DCert(l))
			}
		}
		peer := soloAddr("srv:443")
		tr := &soloPacket{peer: peer}
		if c.HasCK {
			tr.script = [][]byte{hvrDatagram(c.CK)}
		}
		soloRun(dtlcp.Client(tr, peer, cfg).Handshake)
		msgs = dtlcpMessages(tr.sent)
	}
	var hellos [][]byte
	for _, m := range msgs {
		if len(m) > 0 && m[0] == 1 {
			hellos = append(hellos, m)
		}
	}
	return hellos
}

func runEmit(stack string, c *emitCfg) string {
	hellos := emitHellos(stack, c)
	if len(hellos) == 0 {
		return "mk=err"
	}
	last := hellos[len(hellos)-1]
	return fmt.Sprintf("mk=ok n=%d data=%s %s", len(hellos), hx.Hex(last), runDec(stack, "clientHello", last))
}

func (d *driver) emitCase(stack string, c *emitCfg) {
	d.t.Line(c.desc(stack), runEmit(stack, c))
}

// ---------------------------------------------------------------- the catalogue

// serverNames: base names x 0..3 trailing dots, plus forms that matter on their own.
func emitServerNames(r *hx.Rand, random int) [][]byte {
	long63 := strings.Repeat("a", 63)
	bases := []string{
		"", "a", "test.com", "test.example", "localhost", "xn--fsq.example", "UPPER.Example", "a..b", ".a", "-", "a b",
		"\xe4\xbe\x8b.example", long63 + ".example", long63 + "." + long63 + "." + long63 + "." + strings.Repeat("b", 61),
		strings.Repeat("c", 300),
		// IPv4 literals and near misses
		"1.2.3.4", "0.0.0.0", "255.255.255.255", "256.1.1.1", "01.2.3.4", "1.2.3", "1.2.3.4.5", "1..2.3", "1.2.3.a", "127.0.0.1",
		// IPv6 literals, brackets, zones and near misses
		"::1", "::", "1::", "fe80::1", "2001:db8::68", "1:2:3:4:5:6:7:8", "1:2:3:4:5:6:7::", "1:2:3:4:5:6:7::8", "1:2:3:4:5:6:7:8:9",
		"::ffff:1.2.3.4", "1:2:3:4:5:6:1.2.3.4", "1:2:3:4:5:6:7:1.2.3.4", "::1.2.3.4", "1::2::3", "12345::", "::g", "1:", ":1",
		"fe80::1%eth0", "fe80::1%", "::%eth0", "1.2.3.4%eth0", "%eth0", "a%b", "a.b%c.d", "%", "fe80::1%a%b", "1.2.3.4%a%b", "::1%%", "%%", "::1%a%", "%::1",
		"[::1]", "[fe80::1%eth0]", "[1.2.3.4]", "[test.com]", "[]", "[", "]", "[::1", "::1]", "[[::1]]", "[::1]:443",
	}
	var out [][]byte
	for _, b := range bases {
		for dots := 0; dots <= 3; dots++ {
			out = append(out, []byte(b+strings.Repeat(".", dots)))
		}
	}
	// dots inside brackets / before a zone, a name of nothing but dots, oversize names
	for _, s := range []string{"[::1.]", "[::1]..", "[test.com.]", "fe80::1.%eth0", "fe80::1%eth0.", "fe80::1%eth0..", "....", "a.%.",
		strings.Repeat("d", 65535-9), strings.Repeat("d", 65535-8), strings.Repeat("e", 70000), strings.Repeat(".", 300)} {
		out = append(out, []byte(s))
	}
	// random strings over the alphabet the helper looks at
	alpha := []byte("a1.:%[]f0259.:")
	for i := 0; i < random; i++ {
		n := r.Intn(14)
		b := make([]byte, n)
		for j := range b {
			b[j] = alpha[r.Intn(len(alpha))]
		}
		out = append(out, b)
	}
	// random edits of IP literals (one character replaced / inserted / removed) with 0..2 trailing dots
	lits := []string{"1.2.3.4", "10.0.0.255", "::1", "fe80::1%eth0", "[2001:db8::68]", "1:2:3:4:5:6:7:8", "::ffff:1.2.3.4", "1:2:3:4:5:6:1.2.3.4"}
	for i := 0; i < random; i++ {
		b := []byte(hx.Pick(r, lits))
		switch p := r.Intn(len(b)); r.Intn(3) {
		case 0:
			b[p] = alpha[r.Intn(len(alpha))]
		case 1:
			b = append(b[:p], append([]byte{alpha[r.Intn(len(alpha))]}, b[p:]...)...)
		case 2:
			b = append(b[:p], b[p+1:]...)
		}
		out = append(out, append(b, strings.Repeat(".", r.Intn(3))...))
	}
	return out
}

func emitNextProtos() [][][]byte {
	rep := func(n int, s string) [][]byte {
		var o [][]byte
		for i := 0; i < n; i++ {
			o = append(o, []byte(s))
		}
		return o
	}
	b := func(ss ...string) [][]byte {
		o := [][]byte{}
		for _, s := range ss {
			o = append(o, []byte(s))
		}
		return o
	}
	return [][][]byte{
		nil, b(), b("h2"), b("h2", "http/1.1"), b(""), b("h2", ""), b("", "h2"), b("a"), b(strings.Repeat("p", 255)),
		b(strings.Repeat("p", 256)), b("h2", strings.Repeat("p", 256)), b("h2", "h2"),
		rep(256, strings.Repeat("q", 254)),                                   // 65280 bytes of names
		rep(257, strings.Repeat("q", 254)),                                   // 65535: passes the check, overflows the extension
		append(rep(256, strings.Repeat("q", 254)), []byte(strings.Repeat("q", 253))), // 65534
		rep(258, strings.Repeat("q", 254)),                                   // too large
	}
}

func (d *driver) emitted(budget int) {
	r := d.r
	rnd32 := func() []byte { return r.Bytes(32) }
	base := func() *emitCfg {
		return &emitCfg{CurvesNil: true, CSNil: true, Rnd: rnd32(), T: 1737590400 + int64(r.Intn(1<<20))}
	}
	hash := bytes.Repeat([]byte{0xab}, 32)
	dn := pki.Std().Root.Cert.RawSubject
	taSets := [][]TA{
		nil,
		{{0, nil}},
		{{2, dn}},
		{{4, hash}}, {{5, hash}},
		{{0, nil}, {2, dn}, {4, hash}, {5, hash}},
		{{2, bytes.Repeat([]byte{0x30}, 600)}, {2, dn}},
	}
	// entries the extension cannot carry faithfully: hash identifiers that are not 32 bytes (F60: the
	// client must refuse them), unknown types, an identifier on pre_agreed, an empty name
	badTAs := [][]TA{
		{{4, []byte{1, 2, 3, 4, 5}}}, {{5, hash[:31]}}, {{4, append(append([]byte{}, hash...), 0)}}, {{5, append(append([]byte{}, hash...), hash...)}},
		{{4, nil}}, {{0, nil}, {5, hash[:1]}, {2, dn}}, {{4, append(append([]byte{}, hash...), 0, 0)}},
		{{7, []byte{1, 2}}}, {{7, nil}, {0, nil}}, {{2, nil}}, {{0, []byte{9}}}, {{1, hash}, {4, hash}},
	}
	csSets := []struct {
		v   []uint16
		nil bool
	}{{nil, true}, {[]uint16{}, false}, {[]uint16{0xe053}, false}, {[]uint16{0xe013, 0xe053}, false},
		{[]uint16{0xe051, 0xe011}, false}, {[]uint16{0xe011, 0xe013, 0xe051, 0xe053}, false}, {[]uint16{0x1234}, false},
		{[]uint16{0xe053, 0xe053, 0x00ff}, false}}
	curveSets := []struct {
		v   []uint16
		nil bool
	}{{nil, true}, {[]uint16{}, false}, {[]uint16{41}, false}, {[]uint16{41, 23, 24}, false}, {[]uint16{0xffff, 0}, false}}
	cookies := [][]byte{{0x01}, bytes.Repeat([]byte{0xc0}, 20), bytes.Repeat([]byte{0xc1}, 32), bytes.Repeat([]byte{0xc2}, 255)}

	// witness of F60 first: {key_sm3_hash, 5 bytes} used to reach the wire as an undecodable hello
	for _, stack := range []string{"tlcp", "dtlcp"} {
		c := &emitCfg{SN: []byte("ta.example"), CurvesNil: true, CSNil: true, TAs: badTAs[0],
			Rnd: bytes.Repeat([]byte{0x11}, 32), T: 1737590400}
		d.emitCase(stack, c)
	}
	for _, stack := range []string{"tlcp", "dtlcp"} {
		// 1. every ServerName form with an otherwise default configuration (dtlcp: a third of them
		//    answer a HelloVerifyRequest)
		for i, sn := range emitServerNames(r, 1200*budget) {
			c := base()
			c.SN = sn
			if stack == "dtlcp" && i%3 == 1 {
				c.HasCK, c.CK = true, cookies[(i/3)%len(cookies)]
			}
			d.emitCase(stack, c)
		}
		// 2. NextProtos edge cases x a plain, a dotted and a literal name
		for _, np := range emitNextProtos() {
			for _, sn := range []string{"test.example", "alpn.example..", "[::1]"} {
				c := base()
				c.SN, c.NP = []byte(sn), np
				d.emitCase(stack, c)
			}
		}
		// 3. suites x certificates x curves x trusted CAs (well-formed entries)
		for ci, cs := range csSets {
			for nc := 0; nc <= 2; nc++ {
				c := base()
				c.SN = []byte("suites.example.")
				c.CS, c.CSNil, c.NC = cs.v, cs.nil, nc
				cu := curveSets[(ci+nc)%len(curveSets)]
				c.Curves, c.CurvesNil = cu.v, cu.nil
				c.TAs = taSets[(ci*3+nc)%len(taSets)]
				if stack == "dtlcp" && nc == 1 {
					c.HasCK, c.CK = true, cookies[ci%len(cookies)]
				}
				d.emitCase(stack, c)
			}
		}
		for _, cu := range curveSets {
			for _, ta := range taSets {
				c := base()
				c.SN = []byte("ta.example")
				c.Curves, c.CurvesNil, c.TAs = cu.v, cu.nil, ta
				d.emitCase(stack, c)
			}
		}
		for i, ta := range badTAs {
			c := base()
			c.SN = []byte("ta.example.")
			c.TAs = ta
			if stack == "dtlcp" && i%2 == 0 {
				c.HasCK, c.CK = true, cookies[i%len(cookies)]
			}
			d.emitCase(stack, c)
		}
		// 4. sizes at the extension-block boundary: many curves / a large trusted-CA name next to a name
		for _, n := range []int{32700, 32760, 32766, 32767} {
			c := base()
			c.SN = []byte("big.example")
			c.CurvesNil = false
			for i := 0; i < n; i++ {
				c.Curves = append(c.Curves, uint16(i))
			}
			d.emitCase(stack, c)
		}
		for _, n := range []int{65000, 65400, 65480, 65500, 65535} {
			c := base()
			c.SN = []byte("big.example..")
			c.TAs = []TA{{2, bytes.Repeat([]byte{0x31}, n)}}
			d.emitCase(stack, c)
		}
		// 5. what Rand delivers: a short read, more than needed; times beyond 32 bits
		for _, n := range []int{0, 31, 33, 64} {
			c := base()
			c.SN = []byte("rand.example")
			c.Rnd = r.Bytes(n)
			d.emitCase(stack, c)
		}
		for _, t := range []int64{0, 1, 0xffffffff, 0x100000000 + 5} {
			c := base()
			c.SN = []byte("time.example.")
			c.T = t
			d.emitCase(stack, c)
		}
		// 6. random combinations
		names := emitServerNames(r, 0)
		nps := emitNextProtos()[:12]
		for i := 0; i < 400*budget; i++ {
			c := base()
			c.SN = hx.Pick(r, names)
			if len(c.SN) > 1000 {
				c.SN = c.SN[:40]
			}
			c.NP = hx.Pick(r, nps)
			cs := hx.Pick(r, csSets)
			c.CS, c.CSNil = cs.v, cs.nil
			cu := hx.Pick(r, curveSets)
			c.Curves, c.CurvesNil = cu.v, cu.nil
			c.TAs = hx.Pick(r, taSets)
			if r.Chance(15) {
				c.TAs = hx.Pick(r, badTAs)
			}
			c.NC = r.Intn(3)
			if stack == "dtlcp" && r.Chance(40) {
				c.HasCK, c.CK = true, r.Bytes(1+r.Intn(255))
			}
			d.emitCase(stack, c)
		}
	}
}

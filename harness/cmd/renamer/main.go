// renamer: a semantics-preserving edit for testing that the checks raise no alarm on harmless rewrites.
// In every non-test, non-verif_ Go file of the given package directories it renames every variable that is
// local to a function (parameters, named results, locals, range and type-switch variables) by appending a
// suffix, consistently (go/types resolves each use to its definition).  The edit is done on byte offsets, so
// formatting, comments and CRLF line endings are untouched.  Usage: renamer -suffix Zq <pkgdir>...
package main

import (
	"flag"
	"fmt"
	"go/ast"
	"go/importer"
	"go/parser"
	"go/token"
	"go/types"
	"os"
	"path/filepath"
	"sort"
	"strings"
)

func main() {
	suffix := flag.String("suffix", "Zq", "suffix appended to every local name")
	only := flag.String("only", "", "comma-separated function names (Recv.Name or Name); empty = all")
	flag.Parse()
	onlySet := map[string]bool{}
	for _, s := range strings.Split(*only, ",") {
		if s != "" {
			onlySet[s] = true
		}
	}
	total := 0
	for _, dir := range flag.Args() {
		fset := token.NewFileSet()
		pkgs, err := parser.ParseDir(fset, dir, func(fi os.FileInfo) bool {
			return !strings.HasSuffix(fi.Name(), "_test.go") && !strings.HasPrefix(fi.Name(), "verif_")
		}, parser.ParseComments)
		if err != nil {
			fmt.Fprintln(os.Stderr, "renamer:", err)
			os.Exit(2)
		}
		for _, pkg := range pkgs {
			var files []*ast.File
			var names []string
			for n := range pkg.Files {
				names = append(names, n)
			}
			sort.Strings(names)
			for _, n := range names {
				files = append(files, pkg.Files[n])
			}
			info := &types.Info{Defs: map[*ast.Ident]types.Object{}, Uses: map[*ast.Ident]types.Object{}, Implicits: map[ast.Node]types.Object{}}
			conf := types.Config{Importer: importer.ForCompiler(fset, "source", nil), Error: func(error) {}}
			conf.Check(pkg.Name, fset, files, info)
			// objects to rename: variables whose scope is inside a function body / signature
			rename := map[types.Object]bool{}
			taken := map[string]bool{}
			for _, f := range files {
				for _, d := range f.Decls {
					fd, ok := d.(*ast.FuncDecl)
					if !ok || fd.Body == nil {
						continue
					}
					key := fd.Name.Name
					if fd.Recv != nil && len(fd.Recv.List) == 1 {
						t := fd.Recv.List[0].Type
						if s, ok := t.(*ast.StarExpr); ok {
							t = s.X
						}
						if id, ok := t.(*ast.Ident); ok {
							key = id.Name + "." + key
						}
					}
					if len(onlySet) > 0 && !onlySet[key] {
						continue
					}
					ast.Inspect(fd, func(n ast.Node) bool {
						id, ok := n.(*ast.Ident)
						if !ok || id.Name == "_" {
							return true
						}
						if obj, ok := info.Defs[id].(*types.Var); ok && obj != nil && !obj.IsField() && obj.Parent() != nil && obj.Parent() != obj.Pkg().Scope() {
							rename[obj] = true
						}
						return true
					})
				}
			}
			for _, f := range files {
				ast.Inspect(f, func(n ast.Node) bool {
					if id, ok := n.(*ast.Ident); ok {
						taken[id.Name] = true
					}
					return true
				})
			}
			// type-switch implicit variables share one identifier: rename through Defs of the symbolic ident
			for _, f := range files {
				fname := fset.Position(f.Pos()).Filename
				src, err := os.ReadFile(fname)
				if err != nil {
					continue
				}
				type edit struct{ off int }
				var edits []int
				ast.Inspect(f, func(n ast.Node) bool {
					id, ok := n.(*ast.Ident)
					if !ok {
						return true
					}
					var obj types.Object
					if o := info.Defs[id]; o != nil {
						obj = o
					} else if o := info.Uses[id]; o != nil {
						obj = o
					}
					if obj != nil && rename[obj] && !taken[id.Name+*suffix] {
						edits = append(edits, fset.Position(id.End()).Offset)
					}
					return true
				})
				// `switch x := y.(type)`: x has no Defs object; its clauses' implicit objects carry the uses
				ast.Inspect(f, func(n ast.Node) bool {
					ts, ok := n.(*ast.TypeSwitchStmt)
					if !ok {
						return true
					}
					as, ok := ts.Assign.(*ast.AssignStmt)
					if !ok || len(as.Lhs) != 1 {
						return true
					}
					lhs := as.Lhs[0].(*ast.Ident)
					used := false
					for _, c := range ts.Body.List {
						if obj := info.Implicits[c]; obj != nil {
							rename[obj] = true
							used = true
						}
					}
					if used && !taken[lhs.Name+*suffix] {
						edits = append(edits, fset.Position(lhs.End()).Offset)
						// uses inside the clauses
						ast.Inspect(ts.Body, func(m ast.Node) bool {
							if id, ok := m.(*ast.Ident); ok {
								if o := info.Uses[id]; o != nil && rename[o] && o.Name() == lhs.Name {
									edits = append(edits, fset.Position(id.End()).Offset)
								}
							}
							return true
						})
					}
					return true
				})
				if len(edits) == 0 {
					continue
				}
				sort.Ints(edits)
				var out []byte
				prev := 0
				last := -1
				for _, off := range edits {
					if off == last {
						continue
					}
					last = off
					out = append(out, src[prev:off]...)
					out = append(out, []byte(*suffix)...)
					prev = off
					total++
				}
				out = append(out, src[prev:]...)
				if err := os.WriteFile(fname, out, 0o644); err != nil {
					fmt.Fprintln(os.Stderr, "renamer:", err)
					os.Exit(2)
				}
				_ = filepath.Base
			}
		}
	}
	fmt.Println("renamer: identifiers rewritten:", total)
}

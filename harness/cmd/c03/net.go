package main

// A man-in-the-middle byte-stream network between two real TLCP endpoints.
//
// Everything an endpoint writes is reassembled into records (5-byte header) and handed to
// the edit, which decides what the peer receives instead.  The network also detects
// *quiescence* deterministically: when every endpoint is either blocked in Read on an
// empty buffer or has returned from Handshake, nothing can ever arrive any more, and the
// blocked readers are given end-of-stream (a stalled handshake is an outcome, not a hang).

import (
	"io"
	"net"
	"sync"
	"time"
)

const (
	dirC2S = 0 // records written by the client
	dirS2C = 1 // records written by the server
)

func dirName(d int) string {
	if d == dirC2S {
		return "c2s"
	}
	return "s2c"
}

// edit is ONE modification of the traffic.
type edit struct {
	kind string // none flip setlen splice drop dup swap trunc cut inject
	dir  int
	rec  int      // record index in direction dir (inject: insert before this record; == n: after the last; cut: close after rec records)
	mode string   // cut: hard (both directions closed, writes fail) | soft (both closed, writes vanish) | half (direction dir only, its writer's writes fail)
	off  int      // flip / trunc: byte offset inside the record (header included)
	mask byte     // flip
	inj  string   // inject: alertw alertf hs0 ccs app
	w    int      // setlen: width of the length field starting at off
	op   string   // setlen: p1 m1 p2 m2 zero max; splice: what the splice does (addext:last, grow:session_id, …)
	m    int      // splice: index of the handshake message inside the record
	del  int      // splice: bytes removed at off
	ins  []byte   // splice: bytes inserted at off
	fix  []lenRef // splice: length fields adjusted by len(ins)-del
	hold int      // second fault (datagram stack): every datagram the READER of the edited record writes after it got the edited copy is withheld until the WRITER of the edited record has written again (its retransmission timer fired; at most 8 datagrams), so that a GENUINE copy of the edited record follows the altered one
}

// applySetLen rewrites the big-endian length field rec[off:off+w]; ok=false when the field is
// out of range or the value does not change.
func applySetLen(rec []byte, off, w int, op string) (out []byte, old, new int, ok bool) {
	if off < 0 || w <= 0 || off+w > len(rec) {
		return rec, 0, 0, false
	}
	max := 1<<(8*uint(w)) - 1
	for _, b := range rec[off : off+w] {
		old = old<<8 | int(b)
	}
	switch op {
	case "p1":
		new = old + 1
	case "m1":
		new = old - 1
	case "p2":
		new = old + 2
	case "m2":
		new = old - 2
	case "zero":
		new = 0
	case "max":
		new = max
	default:
		return rec, old, old, false
	}
	if new < 0 || new > max || new == old {
		return rec, old, old, false
	}
	out = append([]byte(nil), rec...)
	v := new
	for i := w - 1; i >= 0; i-- {
		out[off+i] = byte(v)
		v >>= 8
	}
	return out, old, new, true
}

// recInfo is what the MITM saw of one honest record.
type recInfo struct {
	raw  []byte
	dtls bool
}

type mnet struct {
	mu   sync.Mutex
	cond *sync.Cond

	in      [2][]byte // bytes waiting to be read BY endpoint i (0 client, 1 server)
	inEOF   [2]bool   // endpoint i reads EOF after draining
	blocked [2]bool   // endpoint i is blocked in Read
	done    [2]bool   // endpoint i returned from Handshake
	closed  [2]bool   // endpoint i closed its transport
	asm     [2][]byte // reassembly of what endpoint i wrote
	seen    [2][]recInfo
	cutDir  [2]bool // direction d is cut (truncation): further records are discarded
	wfail   [2]bool // the transport of endpoint i was closed by the network: its writes return an error

	ed      edit
	held    []byte // swap: the record being held back
	applied bool   // the edit found its target
	stalled bool   // quiescence was detected
	orig    byte   // flip: the original byte
	lenOld  int    // setlen: old and new value of the length field
	lenNew  int
	target  []byte // the honest record the edit was applied to (copy)
	hdrLen  int
	ecdhe   bool // key-exchange layout of the suite (for the field map of a splice)
}

func newNet(ed edit) *mnet {
	n := &mnet{ed: ed, hdrLen: 5}
	n.cond = sync.NewCond(&n.mu)
	return n
}

type mend struct {
	n    *mnet
	who  int
	name string
}

type maddr string

func (a maddr) Network() string { return "mem" }
func (a maddr) String() string  { return string(a) }

func (n *mnet) ends() (client, server *mend) {
	return &mend{n: n, who: 0, name: "client:1"}, &mend{n: n, who: 1, name: "server:443"}
}

func (e *mend) LocalAddr() net.Addr { return maddr(e.name) }
func (e *mend) RemoteAddr() net.Addr {
	if e.who == 0 {
		return maddr("server:443")
	}
	return maddr("client:1")
}
func (e *mend) SetDeadline(time.Time) error      { return nil }
func (e *mend) SetReadDeadline(time.Time) error  { return nil }
func (e *mend) SetWriteDeadline(time.Time) error { return nil }

func (e *mend) Close() error {
	n := e.n
	n.mu.Lock()
	defer n.mu.Unlock()
	if n.closed[e.who] {
		return nil
	}
	n.closed[e.who] = true
	n.inEOF[1-e.who] = true
	n.checkQuiescent()
	n.cond.Broadcast()
	return nil
}

// finished is called by the driver when Handshake returned on endpoint who.
func (n *mnet) finished(who int, failed bool) {
	n.mu.Lock()
	n.done[who] = true
	if failed {
		// the application closes a connection whose handshake failed
		n.closed[who] = true
		n.inEOF[1-who] = true
	}
	n.checkQuiescent()
	n.cond.Broadcast()
	n.mu.Unlock()
}

// checkQuiescent: with n.mu held. If no endpoint can make progress, blocked readers get EOF.
func (n *mnet) checkQuiescent() {
	for i := 0; i < 2; i++ {
		if n.done[i] {
			continue
		}
		if !n.blocked[i] || len(n.in[i]) > 0 || n.inEOF[i] {
			return // endpoint i is running or has something to read
		}
	}
	any := false
	for i := 0; i < 2; i++ {
		if !n.done[i] && n.blocked[i] {
			n.inEOF[i] = true
			any = true
		}
	}
	if any {
		n.stalled = true
		n.cond.Broadcast()
	}
}

func (e *mend) Read(p []byte) (int, error) {
	n := e.n
	n.mu.Lock()
	defer n.mu.Unlock()
	for {
		if n.closed[e.who] {
			return 0, net.ErrClosed
		}
		if len(n.in[e.who]) > 0 {
			k := copy(p, n.in[e.who])
			n.in[e.who] = n.in[e.who][k:]
			return k, nil
		}
		if n.inEOF[e.who] {
			return 0, io.EOF
		}
		n.blocked[e.who] = true
		n.checkQuiescent()
		if n.inEOF[e.who] {
			n.blocked[e.who] = false
			return 0, io.EOF
		}
		n.cond.Wait()
		n.blocked[e.who] = false
	}
}

func (e *mend) Write(p []byte) (int, error) {
	n := e.n
	n.mu.Lock()
	defer n.mu.Unlock()
	if n.closed[e.who] {
		return 0, net.ErrClosed
	}
	if n.wfail[e.who] {
		// the connection was closed in transit: like a write on a reset connection
		return 0, &net.OpError{Op: "write", Net: "mem", Err: net.ErrClosed}
	}
	d := e.who
	n.asm[d] = append(n.asm[d], p...)
	for len(n.asm[d]) >= n.hdrLen {
		l := int(n.asm[d][3])<<8 | int(n.asm[d][4])
		if len(n.asm[d]) < n.hdrLen+l {
			break
		}
		rec := append([]byte(nil), n.asm[d][:n.hdrLen+l]...)
		n.asm[d] = n.asm[d][n.hdrLen+l:]
		idx := len(n.seen[d])
		n.seen[d] = append(n.seen[d], recInfo{raw: rec})
		n.route(d, idx, rec)
	}
	n.cond.Broadcast()
	return len(p), nil
}

func injected(kind string, hdrLen int) []byte {
	mk := func(typ byte, payload []byte) []byte {
		h := []byte{typ, 0x01, 0x01, byte(len(payload) >> 8), byte(len(payload))}
		return append(h, payload...)
	}
	switch kind {
	case "alertw":
		return mk(21, []byte{1, 90}) // warning, user_canceled
	case "alertf":
		return mk(21, []byte{2, 40}) // fatal, handshake_failure
	case "hs0":
		return mk(22, nil)
	case "ccs":
		return mk(20, []byte{1})
	case "hsd":
		return mk(22, []byte{14, 0, 0, 0}) // a whole, well-formed handshake message (ServerHelloDone)
	case "app":
		return mk(23, []byte("hello"))
	}
	return nil
}

// route applies the edit to honest record idx of direction d and queues the result for the
// reader of that direction (endpoint 1-d). n.mu is held.
func (n *mnet) route(d, idx int, rec []byte) {
	to := 1 - d
	put := func(b []byte) {
		if n.cutDir[d] || n.closed[to] {
			return
		}
		n.in[to] = append(n.in[to], b...)
	}
	ed := &n.ed
	if ed.kind == "none" || ed.dir != d {
		put(rec)
		return
	}
	// release a held record (swap) after its successor
	if ed.kind == "swap" && idx == ed.rec+1 && n.held != nil {
		put(rec)
		put(n.held)
		n.held = nil
		return
	}
	if ed.kind == "cut" {
		// the transport is closed right after honest record rec-1 of this direction went through
		put(rec)
		if idx == ed.rec-1 {
			n.applied = true
			n.target = append([]byte(nil), rec...)
			n.cutNow()
		}
		return
	}
	if ed.kind == "inject" {
		// inject at point k = immediately after honest record k-1 (k = 0: before anything,
		// queued by start())
		put(rec)
		if idx == ed.rec-1 {
			n.applied = true
			n.target = append([]byte(nil), rec...)
			put(injected(ed.inj, n.hdrLen))
		}
		return
	}
	if idx != ed.rec {
		put(rec)
		return
	}
	n.applied = true
	n.target = append([]byte(nil), rec...)
	switch ed.kind {
	case "flip":
		if ed.off < len(rec) {
			n.orig = rec[ed.off]
			cp := append([]byte(nil), rec...)
			cp[ed.off] ^= ed.mask
			put(cp)
		} else {
			n.applied = false
			put(rec)
		}
	case "setlen":
		cp, old, nw, ok := applySetLen(rec, ed.off, ed.w, ed.op)
		n.applied = ok
		n.lenOld, n.lenNew = old, nw
		put(cp)
	case "splice":
		cp, ok := rec, false
		if resolveSplice(rec, false, protectedAt(n.seen[d], idx), n.ecdhe, ed) {
			cp, ok = applySplice(rec, ed)
		}
		n.applied = ok
		put(cp)
	case "drop":
	case "dup":
		put(rec)
		put(rec)
	case "swap":
		n.held = append([]byte(nil), rec...)
	case "trunc":
		k := ed.off
		if k > len(rec) {
			k = len(rec)
		}
		put(rec[:k])
		// the connection is cut: the reader sees end-of-stream after the prefix, later
		// records of this direction vanish, and the writer sees end-of-stream too
		n.cutDir[0], n.cutDir[1] = true, true
		n.inEOF[to] = true
		n.inEOF[d] = true
	default:
		put(rec)
	}
}

// cutNow closes the transport as the cut edit says (n.mu held): what was delivered stays
// readable, then the readers see end-of-stream; later records vanish; in the modes hard / half
// the writers' further Write calls fail (the Write in progress, if any, still succeeds).
func (n *mnet) cutNow() {
	d := n.ed.dir
	switch n.ed.mode {
	case "half":
		n.cutDir[d] = true
		n.inEOF[1-d] = true
		n.wfail[d] = true
	case "soft":
		n.cutDir[0], n.cutDir[1] = true, true
		n.inEOF[0], n.inEOF[1] = true, true
	default: // hard
		n.cutDir[0], n.cutDir[1] = true, true
		n.inEOF[0], n.inEOF[1] = true, true
		n.wfail[0], n.wfail[1] = true, true
	}
}

// start queues an injection at point 0 (before the first record of the direction).
func (n *mnet) start() {
	if n.ed.kind == "cut" && n.ed.rec == 0 {
		n.applied = true
		n.cutNow()
	}
	if n.ed.kind == "inject" && n.ed.rec == 0 {
		n.applied = true
		n.in[1-n.ed.dir] = append(n.in[1-n.ed.dir], injected(n.ed.inj, n.hdrLen)...)
	}
}

package main

func runDTLCP(cf config, ed edit) outcome {
	return outcome{c: side{status: "failed(todo)"}, s: side{status: "failed(todo)"}}
}

package main

// A man-in-the-middle DATAGRAM network between two real DTLCP endpoints, in virtual time.
//
// Every datagram an endpoint writes is parsed into records (13-byte header) and handed to
// the edit.  Time is virtual so that runs are deterministic and fast: read deadlines and
// the retransmission timers of the stack (Config.NewTimer) are registered on one virtual
// clock which only advances when every endpoint is blocked in ReadFrom on an empty queue
// (or has returned from Handshake); it then jumps to the earliest armed read deadline.
// When the clock passes `capV` the handshake is declared stalled and both transports close.

import (
	"net"
	"os"
	"sync"
	"time"

	"gitee.com/Trisia/gotlcp/dtlcp"
	"gitee.com/Trisia/gotlcp/tlcp"
	"verifharness/internal/hx"
	"verifharness/internal/pair"
	"verifharness/internal/pki"
)

const capV = 3 * time.Second

type vtimer struct {
	due   time.Duration
	ch    chan time.Time
	fired bool
	dead  bool
}

type dnet struct {
	mu   sync.Mutex
	cond *sync.Cond

	q        [2][][]byte // datagrams waiting to be read by endpoint i
	blocked  [2]bool
	done     [2]bool
	closed   [2]bool
	deadline [2]time.Duration // virtual due time of the read deadline, <0: none
	now      time.Duration
	timers   []*vtimer
	black    bool // truncation happened: nothing is delivered any more
	blackDir [2]bool // cut, mode half: nothing of direction d is delivered any more
	wfail    [2]bool // cut: the socket of endpoint i was closed by the network, its WriteTo fails

	seen    [2][]recInfo // honest records per direction, as written (retransmissions included)
	ed      edit
	held    []byte
	applied bool
	stalled bool
	orig    byte
	lenOld  int
	lenNew  int
	target  []byte
	hdrLen  int
	ecdhe   bool
	retrans [2]int // datagrams written per direction
	holdLeft int   // datagrams of direction 1-ed.dir still to be withheld (armed when the edit is applied)
	withheld int   // datagrams withheld so far
}

func newDNet(ed edit) *dnet {
	n := &dnet{ed: ed, hdrLen: 13}
	n.cond = sync.NewCond(&n.mu)
	n.deadline[0], n.deadline[1] = -1, -1
	return n
}

// asMnet exposes the recorded records through the helpers written for the stream network.
func (n *dnet) asMnet() *mnet {
	m := &mnet{ed: n.ed, hdrLen: 13}
	m.cond = sync.NewCond(&m.mu)
	m.seen = n.seen
	m.applied, m.orig, m.target, m.stalled = n.applied, n.orig, n.target, n.stalled
	m.lenOld, m.lenNew = n.lenOld, n.lenNew
	return m
}

type dend struct {
	n   *dnet
	who int
}

var addrC = &net.UDPAddr{IP: net.IPv4(127, 0, 0, 1), Port: 10000}
var addrS = &net.UDPAddr{IP: net.IPv4(127, 0, 0, 1), Port: 20000}

func (e *dend) LocalAddr() net.Addr {
	if e.who == 0 {
		return addrC
	}
	return addrS
}
func (e *dend) peerAddr() net.Addr {
	if e.who == 0 {
		return addrS
	}
	return addrC
}
func (e *dend) SetDeadline(t time.Time) error    { return e.SetReadDeadline(t) }
func (e *dend) SetWriteDeadline(time.Time) error { return nil }
func (e *dend) SetReadDeadline(t time.Time) error {
	n := e.n
	n.mu.Lock()
	if t.IsZero() {
		n.deadline[e.who] = -1
	} else {
		d := time.Until(t).Round(time.Millisecond)
		if d < 0 {
			d = 0
		}
		n.deadline[e.who] = n.now + d
	}
	n.cond.Broadcast()
	n.mu.Unlock()
	return nil
}

func (e *dend) Close() error {
	n := e.n
	n.mu.Lock()
	n.closed[e.who] = true
	n.cond.Broadcast()
	n.mu.Unlock()
	return nil
}

// newTimer is Config.NewTimer: a timer on the virtual clock.
func (n *dnet) newTimer(d time.Duration) *dtlcp.TimerHandle {
	n.mu.Lock()
	defer n.mu.Unlock()
	t := &vtimer{due: n.now + d.Round(time.Millisecond), ch: make(chan time.Time, 1)}
	n.timers = append(n.timers, t)
	return &dtlcp.TimerHandle{
		C: t.ch,
		Stop: func() bool {
			n.mu.Lock()
			defer n.mu.Unlock()
			was := !t.fired && !t.dead
			t.dead = true
			return was
		},
		Reset: func(d time.Duration) bool {
			n.mu.Lock()
			defer n.mu.Unlock()
			was := !t.fired && !t.dead
			t.dead, t.fired = false, false
			t.due = n.now + d.Round(time.Millisecond)
			return was
		},
	}
}

func (n *dnet) finished(who int) {
	n.mu.Lock()
	n.done[who] = true
	n.advance()
	n.cond.Broadcast()
	n.mu.Unlock()
}

// advance: with n.mu held. When nobody can make progress, jump the clock to the earliest
// read deadline of a blocked endpoint (firing the timers passed on the way); when there is
// none, or the clock is past the cap, close everything.
func (n *dnet) advance() {
	for i := 0; i < 2; i++ {
		if n.done[i] || n.closed[i] {
			continue
		}
		if !n.blocked[i] || len(n.q[i]) > 0 {
			return
		}
		if n.deadline[i] >= 0 && n.deadline[i] <= n.now {
			return // its deadline is already due: it will wake up by itself
		}
	}
	next := time.Duration(-1)
	for i := 0; i < 2; i++ {
		if n.done[i] || n.closed[i] || n.deadline[i] < 0 {
			continue
		}
		if next < 0 || n.deadline[i] < next {
			next = n.deadline[i]
		}
	}
	anyWaiting := false
	for i := 0; i < 2; i++ {
		if !n.done[i] && !n.closed[i] {
			anyWaiting = true
		}
	}
	if !anyWaiting {
		return
	}
	if next < 0 || next > capV {
		n.stalled = true
		n.closed[0], n.closed[1] = true, true
		n.cond.Broadcast()
		return
	}
	n.now = next
	for _, t := range n.timers {
		if !t.dead && !t.fired && t.due <= n.now {
			t.fired = true
			select {
			case t.ch <- time.Time{}:
			default:
			}
		}
	}
	n.cond.Broadcast()
}

func (e *dend) ReadFrom(p []byte) (int, net.Addr, error) {
	n := e.n
	n.mu.Lock()
	defer n.mu.Unlock()
	for {
		if n.closed[e.who] {
			return 0, nil, net.ErrClosed
		}
		if len(n.q[e.who]) > 0 {
			d := n.q[e.who][0]
			n.q[e.who] = n.q[e.who][1:]
			k := copy(p, d)
			return k, e.peerAddr(), nil
		}
		if n.deadline[e.who] >= 0 && n.deadline[e.who] <= n.now {
			n.deadline[e.who] = -1
			return 0, nil, os.ErrDeadlineExceeded
		}
		n.blocked[e.who] = true
		n.advance()
		if n.closed[e.who] || len(n.q[e.who]) > 0 || (n.deadline[e.who] >= 0 && n.deadline[e.who] <= n.now) {
			n.blocked[e.who] = false
			continue
		}
		n.cond.Wait()
		n.blocked[e.who] = false
	}
}

func (e *dend) WriteTo(p []byte, _ net.Addr) (int, error) {
	n := e.n
	n.mu.Lock()
	defer n.mu.Unlock()
	if n.closed[e.who] {
		return 0, net.ErrClosed
	}
	if n.wfail[e.who] {
		return 0, &net.OpError{Op: "write", Net: "mem", Err: net.ErrClosed}
	}
	d := e.who
	n.retrans[d]++
	// split the datagram into records
	var recs [][]byte
	b := p
	for len(b) >= n.hdrLen {
		l := int(b[11])<<8 | int(b[12])
		if len(b) < n.hdrLen+l {
			break
		}
		recs = append(recs, append([]byte(nil), b[:n.hdrLen+l]...))
		b = b[n.hdrLen+l:]
	}
	if len(b) > 0 {
		recs = append(recs, append([]byte(nil), b...)) // trailing garbage travels as one piece
	}
	var out []byte
	cut := false
	if n.holdLeft > 0 && d == n.ed.dir {
		// the writer of the edited record writes again (its retransmission): the hold ends
		n.holdLeft = 0
	}
	if n.holdLeft > 0 && d == 1-n.ed.dir {
		// the second fault: what the reader of the edited record answers is lost until the writer
		// of the edited record has written again (at most `holdLeft` datagrams)
		n.holdLeft--
		n.withheld++
		for _, r := range recs {
			n.seen[d] = append(n.seen[d], recInfo{raw: r, dtls: true})
		}
		n.cond.Broadcast()
		return len(p), nil
	}
	for _, r := range recs {
		idx := len(n.seen[d])
		n.seen[d] = append(n.seen[d], recInfo{raw: r, dtls: true})
		was := n.applied
		piece, stop := n.route(d, idx, r)
		if !was && n.applied && n.ed.hold > 0 && d == n.ed.dir {
			n.holdLeft = 8 * n.ed.hold
		}
		out = append(out, piece...)
		if stop {
			cut = true
			break
		}
	}
	if len(out) > 0 && !n.black && !n.blackDir[d] && !n.closed[1-d] {
		n.q[1-d] = append(n.q[1-d], out)
	}
	if cut {
		n.cutNow()
	}
	n.cond.Broadcast()
	return len(p), nil
}

// cutNow (n.mu held): truncation, or the cut edit: the network stops delivering (both directions;
// mode half: the edited direction only) and, in the modes hard / half, further WriteTo calls of
// the affected endpoints fail.
func (n *dnet) cutNow() {
	if n.ed.kind != "cut" {
		n.black = true
		return
	}
	d := n.ed.dir
	switch n.ed.mode {
	case "half":
		n.blackDir[d] = true
		n.wfail[d] = true
	case "soft":
		n.black = true
	default:
		n.black = true
		n.wfail[0], n.wfail[1] = true, true
	}
}

func dInjected(kind string, seq int) []byte {
	mk := func(typ byte, payload []byte) []byte {
		h := []byte{typ, 0x01, 0x01, 0, 0, 0, 0, 0, 0, byte(seq >> 8), byte(seq), byte(len(payload) >> 8), byte(len(payload))}
		return append(h, payload...)
	}
	switch kind {
	case "alertw":
		return mk(21, []byte{1, 90})
	case "alertf":
		return mk(21, []byte{2, 40})
	case "hs0":
		return mk(22, nil)
	case "ccs":
		return mk(20, []byte{1})
	case "hsd":
		// a whole, well-formed handshake message (ServerHelloDone, message_seq 9, unfragmented)
		return mk(22, []byte{14, 0, 0, 0, 0, 9, 0, 0, 0, 0, 0, 0})
	case "app":
		return mk(23, []byte("hello"))
	}
	return nil
}

// route: what replaces honest record idx of direction d inside its datagram; stop = the
// datagram is cut here and nothing is delivered afterwards (truncation).
func (n *dnet) route(d, idx int, rec []byte) ([]byte, bool) {
	ed := &n.ed
	if ed.kind == "none" || ed.dir != d {
		return rec, false
	}
	if ed.kind == "swap" && idx == ed.rec+1 && n.held != nil {
		out := append(append([]byte(nil), rec...), n.held...)
		n.held = nil
		return out, false
	}
	if ed.kind == "inject" {
		if idx == ed.rec-1 {
			n.applied = true
			n.target = append([]byte(nil), rec...)
			return append(append([]byte(nil), rec...), dInjected(ed.inj, 40+ed.rec)...), false
		}
		return rec, false
	}
	if ed.kind == "cut" {
		// the datagram ends behind honest record rec-1 and the network is cut there
		if idx == ed.rec-1 {
			n.applied = true
			n.target = append([]byte(nil), rec...)
			return rec, true
		}
		return rec, false
	}
	if idx != ed.rec {
		return rec, false
	}
	n.applied = true
	n.target = append([]byte(nil), rec...)
	switch ed.kind {
	case "flip":
		if ed.off < len(rec) {
			n.orig = rec[ed.off]
			cp := append([]byte(nil), rec...)
			cp[ed.off] ^= ed.mask
			return cp, false
		}
		n.applied = false
		return rec, false
	case "setlen":
		cp, old, nw, ok := applySetLen(rec, ed.off, ed.w, ed.op)
		n.applied = ok
		n.lenOld, n.lenNew = old, nw
		return cp, false
	case "splice":
		cp, ok := rec, false
		if resolveSplice(rec, true, protectedAt(n.seen[d], idx), n.ecdhe, ed) {
			cp, ok = applySplice(rec, ed)
		}
		n.applied = ok
		return cp, false
	case "drop":
		return nil, false
	case "dup":
		return append(append([]byte(nil), rec...), rec...), false
	case "swap":
		n.held = append([]byte(nil), rec...)
		return nil, false
	case "trunc":
		k := ed.off
		if k > len(rec) {
			k = len(rec)
		}
		return rec[:k], true
	}
	return rec, false
}

func (n *dnet) start() {
	if n.ed.kind == "cut" && n.ed.rec == 0 {
		n.applied = true
		n.cutNow()
	}
	if n.ed.kind == "inject" && n.ed.rec == 0 {
		n.applied = true
		n.q[1-n.ed.dir] = append(n.q[1-n.ed.dir], dInjected(n.ed.inj, 40))
	}
}

var _ net.PacketConn = (*dend)(nil)

func dtlcpConfigs(cf config, n *dnet) (*dtlcp.Config, *dtlcp.Config, *[]uint8, *[]uint8, *bool) {
	usedB := new(bool)
	s := pki.Std()
	var calerts, salerts []uint8
	var mu sync.Mutex
	ccfg := &dtlcp.Config{RootCAs: s.Root.Pool, ServerName: "test.example", Time: pki.NowFn,
		CipherSuites: []uint16{cf.suite}, NextProtos: []string{"h2", "verif/1"},
		SessionCache:             dtlcp.NewLRUSessionCache(8),
		InitialRetransmitTimeout: 100 * time.Millisecond, MaxRetransmitTimeout: 400 * time.Millisecond,
		OnAlert: func(code uint8, _ *dtlcp.Conn) { mu.Lock(); calerts = append(calerts, code); mu.Unlock() }}
	scfg := &dtlcp.Config{Certificates: []dtlcp.Certificate{pair.DCert(s.SrvSig), pair.DCert(s.SrvEnc)}, Time: pki.NowFn,
		NextProtos:               []string{"verif/1"},
		InitialRetransmitTimeout: 100 * time.Millisecond, MaxRetransmitTimeout: 400 * time.Millisecond,
		CookieSecret: []byte("c03-cookie-secret-0123456789abcd"),
		OnAlert:      func(code uint8, _ *dtlcp.Conn) { mu.Lock(); salerts = append(salerts, code); mu.Unlock() }}
	if cf.auth || cf.ecdhe() {
		ccfg.Certificates = []dtlcp.Certificate{pair.DCert(s.CliSig), pair.DCert(s.CliEnc)}
	}
	if cf.auth {
		scfg.ClientAuth = dtlcp.RequireAndVerifyClientCert
		scfg.ClientCAs = s.Root.Pool
	}
	if cf.ecdhe() {
		scfg.ClientCAs = s.Root.Pool
	}
	if cf.resume {
		scfg.SessionCache = dtlcp.NewLRUSessionCache(8)
	}
	if cf.bare {
		// no ALPN and no server name (the client then cannot check the host name): neither hello
		// needs an extension the other answers, the ServerHello has no extension block at all
		ccfg.NextProtos, scfg.NextProtos = nil, nil
		ccfg.ServerName, ccfg.InsecureSkipVerify = "", true
	}
	if cf.sni {
		other := scfg.Clone()
		other.Certificates = []dtlcp.Certificate{pair.DCert(s.Srv2Sig), pair.DCert(s.Srv2Enc)}
		other.GetConfigForClient = nil
		scfg.GetConfigForClient = func(chi *dtlcp.ClientHelloInfo) (*dtlcp.Config, error) {
			if chi.ServerName == "test.example" {
				return nil, nil
			}
			*usedB = true
			return other, nil
		}
	}
	return ccfg, scfg, &calerts, &salerts, usedB
}

func dclassify(err error, sent []uint8, stalled bool) string {
	if err == nil {
		return "completed"
	}
	cl := classify(err, sent)
	if cl == "failed(closed)" || cl == "failed(other)" {
		if stalled && len(sent) == 0 {
			return "failed(stall)"
		}
	}
	return cl
}

func runDTLCPOnce(n *dnet, ccfg, scfg *dtlcp.Config) (c, s *dtlcp.Conn, cerr, serr error, cp, sp string) {
	ccfg.NewTimer, scfg.NewTimer = n.newTimer, n.newTimer
	ce, se := &dend{n: n, who: 0}, &dend{n: n, who: 1}
	c, s = dtlcp.Client(ce, addrS, ccfg), dtlcp.Server(se, addrC, scfg)
	var wg sync.WaitGroup
	wg.Add(2)
	go func() {
		defer wg.Done()
		cp = hx.Guard(func() { cerr = c.Handshake() })
		n.finished(0)
	}()
	go func() {
		defer wg.Done()
		sp = hx.Guard(func() { serr = s.Handshake() })
		n.finished(1)
	}()
	donech := make(chan struct{})
	go func() { wg.Wait(); close(donech) }()
	select {
	case <-donech:
	case <-time.After(20 * time.Second):
		n.mu.Lock()
		n.closed[0], n.closed[1] = true, true
		n.stalled = true
		n.cond.Broadcast()
		n.mu.Unlock()
		<-donech
	}
	return
}

func runDTLCP(cf config, ed edit) outcome {
	n0 := newDNet(edit{kind: "none"})
	ccfg, scfg, calerts, salerts, usedB := dtlcpConfigs(cf, n0)
	if cf.resume {
		_, _, e1, e2, _, _ := runDTLCPOnce(n0, ccfg, scfg)
		if e1 != nil || e2 != nil {
			return outcome{c: side{status: "failed(prime)"}, s: side{status: "failed(prime)"}}
		}
		*calerts, *salerts = nil, nil
	}
	n := newDNet(ed)
	n.ecdhe = cf.ecdhe()
	n.start()
	c, s, cerr, serr, cp, sp := runDTLCPOnce(n, ccfg, scfg)
	var out outcome
	out.c.panic, out.s.panic = cp, sp
	n.mu.Lock()
	out.stalled = n.stalled
	out.applied = n.applied
	out.held = n.withheld
	n.mu.Unlock()
	switch {
	case cp != "":
		out.c.status = "panic"
	default:
		out.c.status = dclassify(cerr, *calerts, out.stalled)
	}
	switch {
	case sp != "":
		out.s.status = "panic"
	default:
		out.s.status = dclassify(serr, *salerts, out.stalled)
	}
	m := n.asMnet()
	out.net = m
	sd := pki.Std()
	srvCerts := certsHash([][]byte{sd.SrvSig.DER, sd.SrvEnc.DER})
	if *usedB {
		srvCerts = certsHash([][]byte{sd.Srv2Sig.DER, sd.Srv2Enc.DER})
	}
	cliCerts := "-"
	if cf.auth || cf.ecdhe() {
		cliCerts = certsHash([][]byte{sd.CliSig.DER, sd.CliEnc.DER})
	}
	if out.c.status == "completed" {
		st := c.ConnectionState()
		cf1, sf1 := c.VerifTranscriptFinished()
		sid := "-"
		if sess, ok := ccfg.SessionCache.Get(addrS.String()); ok && sess != nil {
			id, _, _, _, _ := dtlcp.VerifSessionInfo(sess)
			sid = h8(id)
		}
		var ders [][]byte
		for _, pc := range st.PeerCertificates {
			ders = append(ders, pc.Raw)
		}
		out.c.view = viewString(st.Version, st.CipherSuite, sid, st.NegotiatedProtocol, st.DidResume, finStr(cf1), finStr(sf1), certsHash(ders), cliCerts)
	}
	if out.s.status == "completed" {
		st := s.ConnectionState()
		cf1, sf1 := s.VerifTranscriptFinished()
		var ders [][]byte
		for _, pc := range st.PeerCertificates {
			ders = append(ders, pc.Raw)
		}
		out.s.view = viewString(st.Version, st.CipherSuite, serverHelloSid(m, true), st.NegotiatedProtocol, st.DidResume, finStr(cf1), finStr(sf1), certsHash(ders), srvCerts)
	}
	out.desc = describe(m, cf, true)
	out.lay = layout(m, true)
	return out
}

var _ = tlcp.VersionTLCP

package main

// A small field map of TLCP / DTLCP records: names the byte at an offset of a record by
// message and field, so that case lines read "ServerHello.random" instead of "offset 17".
// Encrypted records are "ciphertext".  Written from the record and message layouts of
// GB/T 38636 (record header 5 bytes, handshake header 4 bytes; DTLCP 13 and 12).

import "fmt"

type field struct {
	name       string
	start, end int // [start,end) offsets inside the record
	cs, ce     int // a length field counts the bytes [cs,ce) (0,0: not a length field, or fragmented)
}

// msgSpan is one handshake message inside a plaintext handshake record.
type msgSpan struct {
	name       string
	typ        byte
	hdr        int  // offset of the message header
	body, end  int  // [body,end) = the message body as far as it lies in this record
	whole      bool // the record holds the complete message (not a DTLCP fragment, not cut short)
	cookieLen  int  // DTLCP ClientHello: length of its cookie (-1 otherwise)
	firstField int  // index into fields of the message's first field
	lastField  int  // one past its last field
}

type fieldMap struct {
	rtype  string // hs ccs alert app enc
	msg    string // ClientHello … (first message of the record) or the record type
	fields []field
	msgs   []msgSpan
}

var hsNames = map[byte]string{
	1: "ClientHello", 2: "ServerHello", 3: "HelloVerifyRequest", 11: "Certificate",
	12: "ServerKeyExchange", 13: "CertificateRequest", 14: "ServerHelloDone",
	15: "CertificateVerify", 16: "ClientKeyExchange", 20: "Finished",
}

var hsShort = map[byte]string{
	1: "CH", 2: "SH", 3: "HVR", 11: "CERT", 12: "SKX", 13: "CR", 14: "SHD", 15: "CV", 16: "CKX", 20: "FIN",
}

type cursor struct {
	fm  *fieldMap
	pos int
	end int
	pfx string
}

func (c *cursor) f(name string, n int) bool {
	if n < 0 || c.pos+n > c.end {
		if c.pos < c.end {
			c.fm.fields = append(c.fm.fields, field{name: c.pfx + name + "(short)", start: c.pos, end: c.end})
			c.pos = c.end
		}
		return false
	}
	if n > 0 {
		c.fm.fields = append(c.fm.fields, field{name: c.pfx + name, start: c.pos, end: c.pos + n})
	}
	c.pos += n
	return true
}

// cover marks the most recently added field as a length field counting [cs,ce).
func (c *cursor) cover(cs, ce int) {
	if n := len(c.fm.fields); n > 0 {
		c.fm.fields[n-1].cs, c.fm.fields[n-1].ce = cs, ce
	}
}

func (c *cursor) rest(name string) {
	if c.pos < c.end {
		c.fm.fields = append(c.fm.fields, field{name: c.pfx + name, start: c.pos, end: c.end})
		c.pos = c.end
	}
}

func be(b []byte) int {
	v := 0
	for _, x := range b {
		v = v<<8 | int(x)
	}
	return v
}

// mapRecord builds the field map of one record. protected = the sender had already
// changed cipher spec when it wrote the record. ecdhe selects the key-exchange layouts.
func mapRecord(rec []byte, dtls, protected, ecdhe bool) *fieldMap {
	fm := &fieldMap{}
	hl := 5
	c := &cursor{fm: fm, end: len(rec)}
	c.f("record.type", 1)
	c.f("record.version", 2)
	if dtls {
		hl = 13
		c.f("record.epoch", 2)
		c.f("record.seq", 6)
	}
	if c.f("record.length", 2) && len(rec) >= hl {
		c.cover(hl, hl+be(rec[hl-2:hl]))
	}
	if len(rec) < hl {
		fm.rtype, fm.msg = "short", "record"
		return fm
	}
	switch rec[0] {
	case 20:
		fm.rtype, fm.msg = "ccs", "ChangeCipherSpec"
	case 21:
		fm.rtype, fm.msg = "alert", "Alert"
	case 22:
		fm.rtype, fm.msg = "hs", "Handshake"
	case 23:
		fm.rtype, fm.msg = "app", "ApplicationData"
	default:
		fm.rtype, fm.msg = "unknown", "record"
	}
	if protected {
		fm.msg = fm.msg + "(protected)"
		if fm.rtype == "hs" {
			fm.msg = "Finished(protected)"
		}
		fm.rtype = "enc"
		c.rest("ciphertext")
		return fm
	}
	switch rec[0] {
	case 20:
		c.rest("ccs.value")
	case 21:
		c.f("alert.level", 1)
		c.f("alert.description", 1)
		c.rest("alert.extra")
	case 22:
		first := true
		for c.pos < c.end {
			if c.end-c.pos < 4 {
				c.rest("handshake.header(short)")
				break
			}
			t := rec[c.pos]
			name, ok := hsNames[t]
			if !ok {
				name = fmt.Sprintf("Handshake%d", t)
			}
			if first {
				fm.msg = name
				first = false
			}
			c.pfx = name + "."
			blen := be(rec[c.pos+1 : c.pos+4])
			ms := msgSpan{name: name, typ: t, hdr: c.pos, cookieLen: -1, firstField: len(fm.fields)}
			mh := 4
			if dtls {
				mh = 12
			}
			whole := c.pos+mh+blen <= c.end
			if dtls && c.pos+12 <= c.end {
				whole = whole && be(rec[c.pos+6:c.pos+9]) == 0 && be(rec[c.pos+9:c.pos+12]) == blen
			}
			c.f("type", 1)
			c.f("length", 3)
			if whole {
				c.cover(ms.hdr+mh, ms.hdr+mh+blen)
			}
			if dtls {
				c.f("message_seq", 2)
				c.f("fragment_offset", 3)
				c.f("fragment_length", 3)
				if whole {
					c.cover(ms.hdr+mh, ms.hdr+mh+blen)
				}
			}
			bend := c.pos + blen
			if bend > c.end {
				bend = c.end
			}
			ms.body, ms.end, ms.whole = c.pos, bend, whole
			if dtls && t == 1 && whole && ms.body+35 <= bend {
				sl := int(rec[ms.body+34])
				if ms.body+35+sl < bend {
					ms.cookieLen = int(rec[ms.body+35+sl])
				}
			}
			outer := c.end
			c.end = bend
			mapBody(c, t, rec, dtls, ecdhe)
			c.rest("body")
			c.end = outer
			ms.lastField = len(fm.fields)
			fm.msgs = append(fm.msgs, ms)
		}
	default:
		c.rest("payload")
	}
	return fm
}

func mapBody(c *cursor, t byte, rec []byte, dtls, ecdhe bool) {
	vec := func(name string, lb int) bool {
		if c.pos+lb > c.end {
			c.rest(name + "_length(short)")
			return false
		}
		n := be(rec[c.pos : c.pos+lb])
		c.f(name+"_length", lb)
		if c.pos+n <= c.end {
			c.cover(c.pos, c.pos+n)
		}
		return c.f(name, n)
	}
	exts := func() {
		if c.pos >= c.end {
			return
		}
		if c.pos+2 > c.end {
			c.rest("extensions_length(short)")
			return
		}
		xl := be(rec[c.pos : c.pos+2])
		c.f("extensions_length", 2)
		if c.pos+xl <= c.end {
			c.cover(c.pos, c.pos+xl)
		}
		for c.pos+4 <= c.end {
			et := be(rec[c.pos : c.pos+2])
			el := be(rec[c.pos+2 : c.pos+4])
			n := fmt.Sprintf("ext%d", et)
			c.f(n+".type", 2)
			c.f(n+".length", 2)
			if c.pos+el <= c.end {
				c.cover(c.pos, c.pos+el)
			}
			if !c.f(n+".data", el) {
				return
			}
		}
	}
	switch t {
	case 1: // ClientHello
		c.f("version", 2)
		c.f("random", 32)
		if !vec("session_id", 1) {
			return
		}
		if dtls {
			if !vec("cookie", 1) {
				return
			}
		}
		if !vec("cipher_suites", 2) {
			return
		}
		if !vec("compression_methods", 1) {
			return
		}
		exts()
	case 2: // ServerHello
		c.f("version", 2)
		c.f("random", 32)
		if !vec("session_id", 1) {
			return
		}
		c.f("cipher_suite", 2)
		c.f("compression_method", 1)
		exts()
	case 3: // HelloVerifyRequest
		c.f("version", 2)
		vec("cookie", 1)
	case 11: // Certificate
		if c.pos+3 > c.end {
			return
		}
		ll := be(rec[c.pos : c.pos+3])
		c.f("list_length", 3)
		if c.pos+ll <= c.end {
			c.cover(c.pos, c.pos+ll)
		}
		i := 0
		for c.pos+3 <= c.end {
			n := be(rec[c.pos : c.pos+3])
			c.f(fmt.Sprintf("cert%d_length", i), 3)
			if c.pos+n <= c.end {
				c.cover(c.pos, c.pos+n)
			}
			if !c.f(fmt.Sprintf("cert%d", i), n) {
				return
			}
			i++
		}
	case 12: // ServerKeyExchange
		if ecdhe {
			c.f("curve_type", 1)
			c.f("named_curve", 2)
			if !vec("public", 1) {
				return
			}
		}
		vec("signature", 2)
	case 13: // CertificateRequest
		if !vec("certificate_types", 1) {
			return
		}
		vec("certificate_authorities", 2)
	case 15: // CertificateVerify
		vec("signature", 2)
	case 16: // ClientKeyExchange
		if ecdhe {
			c.f("curve_type", 1)
			c.f("named_curve", 2)
			vec("public", 1)
		} else {
			vec("encrypted_premaster", 2)
		}
	case 20:
		c.rest("verify_data")
	}
}

// at names the field containing offset off.
func (fm *fieldMap) at(off int) string {
	for _, f := range fm.fields {
		if off >= f.start && off < f.end {
			if f.end-f.start == 1 {
				return f.name
			}
			return fmt.Sprintf("%s[%d/%d]", f.name, off-f.start, f.end-f.start)
		}
	}
	return "beyond"
}

// boundaryOffsets = quick-tier positions: first and last byte of every field and one byte
// in the middle, plus the bytes on both sides of every field boundary.
func (fm *fieldMap) boundaryOffsets(recLen int) []int {
	set := map[int]bool{}
	add := func(o int) {
		if o >= 0 && o < recLen {
			set[o] = true
		}
	}
	for _, f := range fm.fields {
		add(f.start)
		add(f.end - 1)
		add(f.start - 1)
		add(f.end)
		add((f.start + f.end) / 2)
	}
	add(0)
	add(recLen - 1)
	var out []int
	for o := 0; o < recLen; o++ {
		if set[o] {
			out = append(out, o)
		}
	}
	return out
}

// Driver for C03: a man in the middle between two REAL endpoints applies exactly one edit
// per run (flip a byte, drop / duplicate / swap / truncate / inject a record, close the transport
// at a record boundary) and the driver
// writes what both endpoints concluded.  The Lean oracle (model + spec) judges every line.
//
// case     : stack= suite= auth= resume= edit= [dir= rec= off= mask= inj= mode=]  (the identity of the case)
//
//	[rtype= msg= field= orig=]                                      (resolved on the real record)
//
// observed : c=<completed|failed(class)> s=<…> stall=0|1 panic=0|1
//
//	and when both completed: cv=<view> sv=<view>   (see viewString)
//	for edit=none also: lay=<c2s records>/<s2c records>
package main

import (
	"crypto/sha256"
	"encoding/hex"
	"errors"
	"fmt"
	"io"
	"net"
	"os"
	"runtime"
	"sort"
	"strconv"
	"strings"
	"sync"
	"time"

	"gitee.com/Trisia/gotlcp/dtlcp"
	"gitee.com/Trisia/gotlcp/tlcp"
	"verifharness/internal/hx"
	"verifharness/internal/pair"
	"verifharness/internal/pki"
)

type config struct {
	stack  string
	suite  uint16
	auth   bool
	resume bool
	sni    bool // the server chooses its configuration (certificates) by SNI through GetConfigForClient
	bare   bool // no application protocols on either side: the ServerHello carries no extension block
}

func (c config) String() string {
	s := fmt.Sprintf("stack=%s suite=%04x auth=%d resume=%d", c.stack, c.suite, b2i(c.auth), b2i(c.resume))
	if c.sni {
		s += " sni=1"
	}
	if c.bare {
		s += " bare=1"
	}
	return s
}
func (c config) ecdhe() bool {
	return c.suite == tlcp.ECDHE_SM4_GCM_SM3 || c.suite == tlcp.ECDHE_SM4_CBC_SM3
}

func b2i(b bool) int {
	if b {
		return 1
	}
	return 0
}

// side is what one endpoint concluded.
type side struct {
	status string // completed | failed(class)
	view   string
	panic  string
}

type outcome struct {
	c, s    side
	stalled bool
	net     *mnet
	applied bool
	desc    string // rtype= msg= field= orig= of the edited record
	lay     string
	held    int // datagrams withheld by the second fault (hold=)
}

func h8(b []byte) string {
	if len(b) == 0 {
		return "-"
	}
	s := sha256.Sum256(b)
	return hex.EncodeToString(s[:4])
}

func finStr(f [12]byte) string {
	if f == [12]byte{} {
		return "-"
	}
	return hex.EncodeToString(f[:])
}

// classify maps a handshake error to a small enum; sent = alerts this endpoint sent.
func classify(err error, sent []uint8) string {
	if err == nil {
		return "completed"
	}
	var op *net.OpError
	if errors.As(err, &op) && op.Op == "remote error" {
		return fmt.Sprintf("failed(remote:%s)", alertNum(op.Err))
	}
	if len(sent) > 0 {
		return fmt.Sprintf("failed(local:%d)", sent[0])
	}
	if errors.Is(err, io.EOF) || errors.Is(err, io.ErrUnexpectedEOF) {
		return "failed(eof)"
	}
	if strings.Contains(err.Error(), "first record does not look like") {
		return "failed(local:header)"
	}
	if errors.Is(err, net.ErrClosed) {
		return "failed(closed)"
	}
	return "failed(other)"
}

func alertNum(e error) string {
	if v, ok := tlcp.VerifAlertCode(e); ok {
		return strconv.Itoa(v)
	}
	if v, ok := dtlcp.VerifAlertCode(e); ok {
		return strconv.Itoa(v)
	}
	return "x"
}

func certsHash(ders [][]byte) string {
	if len(ders) == 0 {
		return "-"
	}
	var all []byte
	for _, d := range ders {
		all = append(all, d...)
	}
	return h8(all)
}

// tlcpConfigs builds the two configurations of a case (fresh session caches).
func tlcpConfigs(cf config) (*tlcp.Config, *tlcp.Config, *[]uint8, *[]uint8, *bool) {
	usedB := new(bool)
	s := pki.Std()
	var calerts, salerts []uint8
	var mu sync.Mutex
	ccfg := &tlcp.Config{RootCAs: s.Root.Pool, ServerName: "test.example", Time: pki.NowFn,
		CipherSuites: []uint16{cf.suite}, NextProtos: []string{"h2", "verif/1"},
		SessionCache: tlcp.NewLRUSessionCache(8),
		OnAlert:      func(code uint8, _ *tlcp.Conn) { mu.Lock(); calerts = append(calerts, code); mu.Unlock() }}
	scfg := &tlcp.Config{Certificates: []tlcp.Certificate{pair.TCert(s.SrvSig), pair.TCert(s.SrvEnc)}, Time: pki.NowFn,
		NextProtos: []string{"verif/1"},
		OnAlert:    func(code uint8, _ *tlcp.Conn) { mu.Lock(); salerts = append(salerts, code); mu.Unlock() }}
	if cf.auth || cf.ecdhe() {
		ccfg.Certificates = []tlcp.Certificate{pair.TCert(s.CliSig), pair.TCert(s.CliEnc)}
	}
	if cf.auth {
		scfg.ClientAuth = tlcp.RequireAndVerifyClientCert
		scfg.ClientCAs = s.Root.Pool
	}
	if cf.ecdhe() {
		scfg.ClientCAs = s.Root.Pool
	}
	if cf.resume {
		scfg.SessionCache = tlcp.NewLRUSessionCache(8)
	}
	if cf.bare {
		// no ALPN and no server name (the client then cannot check the host name): neither hello
		// needs an extension the other answers, the ServerHello has no extension block at all
		ccfg.NextProtos, scfg.NextProtos = nil, nil
		ccfg.ServerName, ccfg.InsecureSkipVerify = "", true
	}
	if cf.sni {
		// virtual hosting: "test.example" is served by this configuration, every other name by
		// a second identity (valid for the same names, so that a verifying client accepts it)
		other := scfg.Clone()
		other.Certificates = []tlcp.Certificate{pair.TCert(s.Srv2Sig), pair.TCert(s.Srv2Enc)}
		other.GetConfigForClient = nil
		scfg.GetConfigForClient = func(chi *tlcp.ClientHelloInfo) (*tlcp.Config, error) {
			if chi.ServerName == "test.example" {
				return nil, nil
			}
			*usedB = true
			return other, nil
		}
	}
	return ccfg, scfg, &calerts, &salerts, usedB
}

// runTLCP runs one handshake pair through the MITM network.
func runTLCP(cf config, ed edit) outcome {
	ccfg, scfg, calerts, salerts, usedB := tlcpConfigs(cf)
	if cf.resume {
		// prime both caches with an untampered full handshake
		n0 := newNet(edit{kind: "none"})
		ce, se := n0.ends()
		c0, s0 := tlcp.Client(ce, ccfg), tlcp.Server(se, scfg)
		var wg sync.WaitGroup
		wg.Add(2)
		var e1, e2 error
		go func() { defer wg.Done(); e1 = c0.Handshake(); n0.finished(0, e1 != nil) }()
		go func() { defer wg.Done(); e2 = s0.Handshake(); n0.finished(1, e2 != nil) }()
		wg.Wait()
		if e1 != nil || e2 != nil {
			return outcome{c: side{status: "failed(prime)"}, s: side{status: "failed(prime)"}}
		}
		*calerts, *salerts = nil, nil
	}
	n := newNet(ed)
	n.ecdhe = cf.ecdhe()
	n.start()
	ce, se := n.ends()
	c, s := tlcp.Client(ce, ccfg), tlcp.Server(se, scfg)
	var out outcome
	out.net = n
	var wg sync.WaitGroup
	wg.Add(2)
	var cerr, serr error
	go func() {
		defer wg.Done()
		out.c.panic = hx.Guard(func() { cerr = c.Handshake() })
		n.finished(0, cerr != nil || out.c.panic != "")
	}()
	go func() {
		defer wg.Done()
		out.s.panic = hx.Guard(func() { serr = s.Handshake() })
		n.finished(1, serr != nil || out.s.panic != "")
	}()
	donech := make(chan struct{})
	go func() { wg.Wait(); close(donech) }()
	select {
	case <-donech:
	case <-time.After(20 * time.Second):
		ce.Close()
		se.Close()
		n.mu.Lock()
		n.inEOF[0], n.inEOF[1] = true, true
		n.cond.Broadcast()
		n.mu.Unlock()
		<-donech
		out.c.status, out.s.status = "failed(timeout)", "failed(timeout)"
	}
	if out.c.panic != "" {
		out.c.status = "panic"
	}
	if out.s.panic != "" {
		out.s.status = "panic"
	}
	if out.c.status == "" {
		out.c.status = classify(cerr, *calerts)
	}
	if out.s.status == "" {
		out.s.status = classify(serr, *salerts)
	}
	n.mu.Lock()
	out.stalled = n.stalled
	out.applied = n.applied
	n.mu.Unlock()
	// views
	sd := pki.Std()
	srvCerts := certsHash([][]byte{sd.SrvSig.DER, sd.SrvEnc.DER})
	if *usedB {
		srvCerts = certsHash([][]byte{sd.Srv2Sig.DER, sd.Srv2Enc.DER})
	}
	cliCerts := "-"
	if cf.auth || cf.ecdhe() {
		cliCerts = certsHash([][]byte{sd.CliSig.DER, sd.CliEnc.DER})
	}
	if out.c.status == "completed" {
		st := c.ConnectionState()
		cf1, sf1 := c.VerifTranscriptFinished()
		sid := "-"
		if sess, ok := ccfg.SessionCache.Get("server:443"); ok && sess != nil {
			id, _, _, _, _ := tlcp.VerifSessionInfo(sess)
			sid = h8(id)
		}
		out.c.view = viewString(st.Version, st.CipherSuite, sid, st.NegotiatedProtocol, st.DidResume, finStr(cf1), finStr(sf1), peerHash(st), cliCerts)
	}
	if out.s.status == "completed" {
		st := s.ConnectionState()
		cf1, sf1 := s.VerifTranscriptFinished()
		sid := serverHelloSid(n, false)
		out.s.view = viewString(st.Version, st.CipherSuite, sid, st.NegotiatedProtocol, st.DidResume, finStr(cf1), finStr(sf1), peerHash(st), srvCerts)
	}
	out.desc = describe(n, cf, false)
	out.lay = layout(n, false)
	return out
}

func peerHash(st tlcp.ConnectionState) string {
	var ders [][]byte
	for _, c := range st.PeerCertificates {
		ders = append(ders, c.Raw)
	}
	return certsHash(ders)
}

// viewString: vers.suite.sid.alpn.resumed.clientFinished.serverFinished.peerCerts.ownCerts
func viewString(vers, suite uint16, sid, alpn string, resumed bool, cfin, sfin, peer, own string) string {
	if alpn == "" {
		alpn = "-"
	}
	return fmt.Sprintf("%04x.%04x.%s.%s.%d.%s.%s.%s.%s", vers, suite, sid, alpn, b2i(resumed), cfin, sfin, peer, own)
}

// serverHelloSid: the session id the server SENT (its view), read from its honest ServerHello.
func serverHelloSid(n *mnet, dtls bool) string {
	n.mu.Lock()
	defer n.mu.Unlock()
	hl, mh := 5, 4
	if dtls {
		hl, mh = 13, 12
	}
	for _, r := range n.seen[dirS2C] {
		b := r.raw
		if len(b) > hl+mh+35 && b[0] == 22 && b[hl] == 2 {
			p := hl + mh + 34
			l := int(b[p])
			if p+1+l <= len(b) {
				return h8(b[p+1 : p+1+l])
			}
		}
	}
	return "-"
}

// protectedAt: was record idx of direction d written after the sender's ChangeCipherSpec?
func protectedAt(recs []recInfo, idx int) bool {
	if idx < len(recs) && recs[idx].dtls {
		b := recs[idx].raw
		return len(b) >= 5 && (b[3] != 0 || b[4] != 0) // epoch > 0
	}
	for i := 0; i < idx && i < len(recs); i++ {
		if recs[i].raw[0] == 20 {
			return true
		}
	}
	return false
}

func describe(n *mnet, cf config, dtls bool) string {
	n.mu.Lock()
	defer n.mu.Unlock()
	ed := n.ed
	if ed.kind == "none" {
		return ""
	}
	if ed.kind == "inject" || ed.kind == "cut" {
		// name the point by the record that precedes it
		if ed.rec == 0 {
			return "rtype=- msg=start field=-"
		}
		if ed.rec-1 < len(n.seen[ed.dir]) {
			fm := mapRecord(n.seen[ed.dir][ed.rec-1].raw, dtls, protectedAt(n.seen[ed.dir], ed.rec-1), cf.ecdhe())
			return fmt.Sprintf("rtype=%s msg=after:%s field=-", fm.rtype, fm.msg)
		}
		return "rtype=- msg=never field=-"
	}
	if n.target == nil {
		return "rtype=- msg=never field=-"
	}
	fm := mapRecord(n.target, dtls, protectedAt(n.seen[ed.dir], ed.rec), cf.ecdhe())
	switch ed.kind {
	case "flip":
		return fmt.Sprintf("rtype=%s msg=%s field=%s orig=%02x", fm.rtype, fm.msg, fm.at(ed.off), n.orig)
	case "trunc":
		return fmt.Sprintf("rtype=%s msg=%s field=%s len=%d", fm.rtype, fm.msg, fm.at(ed.off), len(n.target))
	case "setlen":
		name := fm.at(ed.off)
		if !n.applied {
			name = "beyond:" + name
		}
		return fmt.Sprintf("rtype=%s msg=%s field=%s old=%d new=%d", fm.rtype, fm.msg, name, n.lenOld, n.lenNew)
	case "splice":
		// the message the splice lies in, and (datagram ClientHello) whether it carries a cookie
		msg, cookie, name := fm.msg, "-", ed.op
		if fm.rtype == "hs" && ed.m < len(fm.msgs) {
			msg = fm.msgs[ed.m].name
			if fm.msgs[ed.m].cookieLen >= 0 {
				cookie = strconv.Itoa(fm.msgs[ed.m].cookieLen)
			}
		} else {
			name = "beyond:" + name
		}
		if !n.applied && !strings.HasPrefix(name, "beyond:") {
			name = "beyond:" + name
		}
		return fmt.Sprintf("rtype=%s msg=%s field=%s at=%d del=%d ins=%s fix=%s cookie=%s", fm.rtype, msg, name,
			ed.off, ed.del, hexOrDash(ed.ins), fixString(ed.fix), cookie)
	}
	if ed.kind == "drop" && fm.rtype == "hs" && len(fm.msgs) > 0 && fm.msgs[0].cookieLen >= 0 {
		// a datagram ClientHello: with or without cookie (the cookie-less one belongs to the prelude)
		return fmt.Sprintf("rtype=%s msg=%s field=- cookie=%d", fm.rtype, fm.msg, fm.msgs[0].cookieLen)
	}
	return fmt.Sprintf("rtype=%s msg=%s field=-", fm.rtype, fm.msg)
}

// layout: the honest records of both directions as seen, e.g. CH,CKX,ccs,enc/SH,CERT,SKX,SHD,ccs,enc
func layout(n *mnet, dtls bool) string {
	n.mu.Lock()
	defer n.mu.Unlock()
	hl := 5
	if dtls {
		hl = 13
	}
	one := func(recs []recInfo) string {
		var parts []string
		prot := false
		for _, r := range recs {
			b := r.raw
			if dtls {
				prot = len(b) >= 5 && (b[3] != 0 || b[4] != 0)
			}
			switch {
			case prot && b[0] == 22:
				parts = append(parts, "enc")
			case prot:
				parts = append(parts, fmt.Sprintf("enc%d", b[0]))
			case b[0] == 20:
				parts = append(parts, "ccs")
				prot = true
			case b[0] == 21:
				parts = append(parts, "alert")
			case b[0] == 22 && len(b) > hl:
				if nm, ok := hsShort[b[hl]]; ok {
					parts = append(parts, nm)
				} else {
					parts = append(parts, "hs?")
				}
			default:
				parts = append(parts, fmt.Sprintf("rec%d", b[0]))
			}
		}
		if len(parts) == 0 {
			return "-"
		}
		return strings.Join(parts, ",")
	}
	return one(n.seen[dirC2S]) + "/" + one(n.seen[dirS2C])
}

// sameKind counts the honest records of direction d that carry the same thing as the edited
// record (same record type and epoch, same first handshake message type when in the clear):
// 1 = the edited record was never retransmitted.
func sameKind(n *mnet, d int, dtls bool) int {
	n.mu.Lock()
	defer n.mu.Unlock()
	t := n.target
	if t == nil {
		return 0
	}
	hl := 5
	if dtls {
		hl = 13
	}
	key := func(b []byte) string {
		if len(b) < hl {
			return "short"
		}
		k := fmt.Sprintf("%d", b[0])
		if dtls {
			k += fmt.Sprintf(".%d.%d", b[3], b[4])
			if b[0] == 22 && b[3] == 0 && b[4] == 0 && len(b) > hl {
				k += fmt.Sprintf(".%d", b[hl])
				if b[hl] == 1 {
					// a ClientHello without a cookie and one with a cookie are different messages
					if fm := mapRecord(b, true, false, false); len(fm.msgs) > 0 && fm.msgs[0].cookieLen > 0 {
						k += ".cookie"
					}
				}
			}
		} else if b[0] == 22 && len(b) > hl {
			k += fmt.Sprintf(".%d", b[hl])
		}
		return k
	}
	cnt := 0
	for _, r := range n.seen[d] {
		if key(r.raw) == key(t) {
			cnt++
		}
	}
	return cnt
}

// countHVR: HelloVerifyRequest records the server wrote in this run (datagram stack).
func countHVR(n *mnet, dtls bool) int {
	if !dtls {
		return 0
	}
	n.mu.Lock()
	defer n.mu.Unlock()
	cnt := 0
	for _, r := range n.seen[dirS2C] {
		b := r.raw
		if len(b) > 13 && b[0] == 22 && b[3] == 0 && b[4] == 0 && b[13] == 3 {
			cnt++
		}
	}
	return cnt
}

// ---------------------------------------------------------------------------- cases

type job struct {
	cf   config
	ed   edit
	base string // negotiation of the untampered run: vers.suite.alpn.resumed
}

func (j job) ident() string {
	s := j.cf.String() + " base=" + j.base + " edit=" + j.ed.kind
	switch j.ed.kind {
	case "none":
	case "flip":
		s += fmt.Sprintf(" dir=%s rec=%d off=%d mask=%02x", dirName(j.ed.dir), j.ed.rec, j.ed.off, j.ed.mask)
	case "setlen":
		s += fmt.Sprintf(" dir=%s rec=%d off=%d w=%d op=%s", dirName(j.ed.dir), j.ed.rec, j.ed.off, j.ed.w, j.ed.op)
	case "trunc":
		s += fmt.Sprintf(" dir=%s rec=%d off=%d", dirName(j.ed.dir), j.ed.rec, j.ed.off)
	case "splice":
		s += fmt.Sprintf(" dir=%s rec=%d m=%d op=%s", dirName(j.ed.dir), j.ed.rec, j.ed.m, j.ed.op)
	case "inject":
		s += fmt.Sprintf(" dir=%s rec=%d inj=%s", dirName(j.ed.dir), j.ed.rec, j.ed.inj)
	case "cut":
		s += fmt.Sprintf(" dir=%s rec=%d mode=%s", dirName(j.ed.dir), j.ed.rec, j.ed.mode)
	default:
		s += fmt.Sprintf(" dir=%s rec=%d", dirName(j.ed.dir), j.ed.rec)
	}
	if j.ed.hold > 0 {
		s += fmt.Sprintf(" hold=%d", j.ed.hold)
	}
	return s
}

func parseJob(desc string) (job, bool) {
	var j job
	st, ok := hx.KV(desc, "stack")
	if !ok {
		return j, false
	}
	j.cf.stack = st
	sv, _ := hx.KV(desc, "suite")
	v, err := strconv.ParseUint(sv, 16, 16)
	if err != nil {
		return j, false
	}
	j.cf.suite = uint16(v)
	j.cf.auth = hx.KVInt(desc, "auth") == 1
	j.cf.resume = hx.KVInt(desc, "resume") == 1
	j.cf.sni = hx.KVInt(desc, "sni") == 1
	j.cf.bare = hx.KVInt(desc, "bare") == 1
	j.ed.m = hx.KVInt(desc, "m")
	j.ed.w = hx.KVInt(desc, "w")
	j.ed.op, _ = hx.KV(desc, "op")
	j.ed.kind, _ = hx.KV(desc, "edit")
	if d, _ := hx.KV(desc, "dir"); d == "s2c" {
		j.ed.dir = dirS2C
	}
	j.ed.rec = hx.KVInt(desc, "rec")
	j.ed.off = hx.KVInt(desc, "off")
	if m, ok := hx.KV(desc, "mask"); ok {
		mv, _ := strconv.ParseUint(m, 16, 8)
		j.ed.mask = byte(mv)
	}
	j.ed.inj, _ = hx.KV(desc, "inj")
	j.ed.mode, _ = hx.KV(desc, "mode")
	j.ed.hold = hx.KVInt(desc, "hold")
	return j, j.ed.kind != ""
}

// negoOf extracts vers.suite.alpn.resumed.servercerts from the client's view string.
func negoOf(view string) string {
	p := strings.Split(view, ".")
	if len(p) < 9 {
		return "-"
	}
	alpn := strings.Join(p[3:len(p)-5], ".")
	return p[0] + "." + p[1] + "." + alpn + "." + p[len(p)-5] + "." + p[len(p)-2]
}

var baseMu sync.Mutex
var baseCache = map[string]string{}

// baseline runs the untampered handshake of a configuration once and caches its negotiation.
func baseline(cf config) (string, outcome) {
	var b outcome
	if cf.stack == "tlcp" {
		b = runTLCP(cf, edit{kind: "none"})
	} else {
		b = runDTLCP(cf, edit{kind: "none"})
	}
	base := "-"
	if b.c.status == "completed" && b.s.status == "completed" {
		base = negoOf(b.c.view)
	}
	return base, b
}

func baseFor(cf config) string {
	baseMu.Lock()
	defer baseMu.Unlock()
	if v, ok := baseCache[cf.String()]; ok {
		return v
	}
	v, _ := baseline(cf)
	baseCache[cf.String()] = v
	return v
}

func run(j job) (string, string) {
	var o outcome
	switch j.cf.stack {
	case "tlcp":
		o = runTLCP(j.cf, j.ed)
	case "dtlcp":
		o = runDTLCP(j.cf, j.ed)
	default:
		return j.ident(), "c=failed(badcase) s=failed(badcase) stall=0 panic=0"
	}
	id := j.ident()
	if o.desc != "" {
		id += " " + o.desc
	}
	pn := 0
	if o.c.panic != "" || o.s.panic != "" {
		pn = 1
	}
	obs := fmt.Sprintf("c=%s s=%s both=%d stall=%d panic=%d", o.c.status, o.s.status,
		b2i(o.c.status == "completed" && o.s.status == "completed"), b2i(o.stalled), pn)
	if pn == 1 {
		obs += " panicmsg=" + o.c.panic + "|" + o.s.panic
	}
	if o.c.status == "completed" {
		obs += " cv=" + o.c.view
	}
	if o.s.status == "completed" {
		obs += " sv=" + o.s.view
	}
	if j.ed.kind == "none" {
		obs += " lay=" + o.lay
	}
	if (j.ed.kind == "flip" || j.ed.kind == "setlen" || j.ed.kind == "splice" || j.ed.kind == "drop") && o.net != nil {
		obs += fmt.Sprintf(" same=%d", sameKind(o.net, j.ed.dir, j.cf.stack == "dtlcp"))
	}
	if j.ed.hold > 0 {
		obs += fmt.Sprintf(" held=%d", o.held)
	}
	if (j.ed.kind == "splice" || j.ed.kind == "drop") && o.net != nil {
		obs += fmt.Sprintf(" hvr=%d", countHVR(o.net, j.cf.stack == "dtlcp"))
	}
	return id, obs
}

var suites = []uint16{tlcp.ECC_SM4_GCM_SM3, tlcp.ECC_SM4_CBC_SM3, tlcp.ECDHE_SM4_GCM_SM3, tlcp.ECDHE_SM4_CBC_SM3}

func configs(stack string) []config {
	var out []config
	for _, resume := range []bool{false, true} {
		for _, su := range suites {
			ecdhe := su == tlcp.ECDHE_SM4_GCM_SM3 || su == tlcp.ECDHE_SM4_CBC_SM3
			for _, auth := range []bool{false, true} {
				if ecdhe && !auth {
					continue // ECDHE suites always authenticate the client
				}
				out = append(out, config{stack: stack, suite: su, auth: auth, resume: resume})
			}
		}
	}
	// virtual hosting by SNI (GetConfigForClient): one configuration per stack
	out = append(out, config{stack: stack, suite: tlcp.ECC_SM4_GCM_SM3, sni: true})
	// no application protocol negotiated: a ServerHello without any extension block (full and resumed)
	out = append(out, config{stack: stack, suite: tlcp.ECC_SM4_GCM_SM3, bare: true})
	out = append(out, config{stack: stack, suite: tlcp.ECC_SM4_CBC_SM3, bare: true, resume: true})
	return out
}

// generate enumerates the edits of one configuration from the records of its untampered run.
func generate(cf config, base outcome, tier string, rnd *hx.Rand) []job {
	var jobs, held []job
	dtls := cf.stack == "dtlcp"
	n := base.net
	masks := []byte{0x01, 0x80, 0xFF}
	if tier == "thorough" {
		masks = []byte{0x01, 0x02, 0x04, 0x08, 0x10, 0x20, 0x40, 0x80, 0xFF}
	}
	every := tier == "thorough" || !dtls // the stream stack is cheap: every position in both tiers
	injs := []string{"alertw", "alertf", "hs0", "ccs", "app", "hsd"}
	for d := 0; d < 2; d++ {
		recs := n.seen[d]
		for i, r := range recs {
			fm := mapRecord(r.raw, dtls, protectedAt(recs, i), cf.ecdhe())
			var offs []int
			if every {
				for o := 0; o < len(r.raw); o++ {
					offs = append(offs, o)
				}
			} else {
				offs = fm.boundaryOffsets(len(r.raw))
			}
			if fm.rtype == "ccs" {
				// every byte of a ChangeCipherSpec record, and its body with many values
				offs = offs[:0]
				for o := 0; o < len(r.raw); o++ {
					offs = append(offs, o)
				}
			}
			for _, o := range offs {
				ms := masks
				if fm.rtype == "ccs" && o >= n.hdrLen {
					ms = []byte{0x01, 0x02, 0x03, 0x04, 0x08, 0x10, 0x20, 0x40, 0x80, 0xFE, 0xFF}
				}
				for _, m := range ms {
					jobs = append(jobs, job{cf: cf, ed: edit{kind: "flip", dir: d, rec: i, off: o, mask: m}})
				}
			}
			// arithmetic perturbation of every length field
			for _, f := range fm.fields {
				if !strings.HasSuffix(f.name, "length") || f.end-f.start > 3 {
					continue
				}
				for _, op := range []string{"p1", "m1", "p2", "m2", "zero", "max"} {
					jobs = append(jobs, job{cf: cf, ed: edit{kind: "setlen", dir: d, rec: i, off: f.start, w: f.end - f.start, op: op}})
				}
			}
			// structure-preserving insertions / deletions / reorderings inside handshake messages,
			// every enclosing length fixed up
			if fm.rtype == "hs" {
				for _, e := range spliceEdits(fm, r.raw, d, i) {
					jobs = append(jobs, job{cf: cf, ed: e})
				}
			}
			// TWO cooperating faults (datagram stack): a plaintext handshake message is altered (every
			// splice; one bit at every field boundary) AND the answer of its reader is withheld once, so
			// that the sender's retransmission timer fires and the reader, which already acted on the
			// altered copy, is then given the genuine one
			if dtls && fm.rtype == "hs" {
				for _, e := range spliceEdits(fm, r.raw, d, i) {
					e.hold = 1
					held = append(held, job{cf: cf, ed: e})
				}
				for _, o := range fm.boundaryOffsets(len(r.raw)) {
					held = append(held, job{cf: cf, ed: edit{kind: "flip", dir: d, rec: i, off: o, mask: 0x01, hold: 1}})
				}
			}
			jobs = append(jobs, job{cf: cf, ed: edit{kind: "drop", dir: d, rec: i}})
			jobs = append(jobs, job{cf: cf, ed: edit{kind: "dup", dir: d, rec: i}})
			if i+1 < len(recs) {
				jobs = append(jobs, job{cf: cf, ed: edit{kind: "swap", dir: d, rec: i}})
			}
			var toffs []int
			if every {
				for o := 0; o < len(r.raw); o++ {
					toffs = append(toffs, o)
				}
			} else {
				hl := n.hdrLen
				toffs = []int{0, 1, hl - 1, hl, hl + 1, len(r.raw) / 2, len(r.raw) - 1}
			}
			seenT := map[int]bool{}
			for _, o := range toffs {
				if o >= 0 && o < len(r.raw) && !seenT[o] {
					seenT[o] = true
					jobs = append(jobs, job{cf: cf, ed: edit{kind: "trunc", dir: d, rec: i, off: o}})
				}
			}
		}
		for at := 0; at <= len(recs); at++ {
			for _, k := range injs {
				jobs = append(jobs, job{cf: cf, ed: edit{kind: "inject", dir: d, rec: at, inj: k}})
			}
		}
		// the transport is CLOSED at a record boundary: after every record of this direction (and
		// before the first), with the writers' later writes failing (hard), vanishing (soft), or
		// only this direction closed (half)
		for at := 0; at <= len(recs); at++ {
			for _, m := range []string{"hard", "soft", "half"} {
				jobs = append(jobs, job{cf: cf, ed: edit{kind: "cut", dir: d, rec: at, mode: m}})
			}
		}
	}
	return append(jobs, held...)
}

func main() {
	o := hx.ParseOpts()
	tr := hx.NewTrace(o.Out)
	defer tr.Close()
	rnd := hx.NewRand(o.Seed)
	pki.Std()

	var jobs []job
	if o.Replay != "" {
		for _, d := range hx.ReplayCases(o.Replay) {
			if j, ok := parseJob(d); ok {
				j.base = baseFor(j.cf)
				jobs = append(jobs, j)
			}
		}
	} else {
		stacks := []string{"tlcp", "dtlcp"}
		if o.Phase == "tlcp" || o.Phase == "dtlcp" {
			stacks = []string{o.Phase}
		}
		for _, st := range stacks {
			for _, cf := range configs(st) {
				bs, b := baseline(cf)
				jobs = append(jobs, job{cf: cf, ed: edit{kind: "none"}, base: bs})
				if b.net == nil || b.c.status != "completed" || b.s.status != "completed" {
					fmt.Fprintf(os.Stderr, "c03: untampered run of %s failed: c=%s s=%s\n", cf, b.c.status, b.s.status)
					continue
				}
				for _, j := range generate(cf, b, o.Tier, rnd) {
					j.base = bs
					jobs = append(jobs, j)
				}
			}
		}
	}

	type res struct{ id, obs string }
	results := make([]res, len(jobs))
	workers := runtime.NumCPU()
	if workers > 16 {
		workers = 16
	}
	var wg sync.WaitGroup
	ch := make(chan int, 256)
	for w := 0; w < workers; w++ {
		wg.Add(1)
		go func() {
			defer wg.Done()
			for i := range ch {
				id, obs := run(jobs[i])
				results[i] = res{id, obs}
			}
		}()
	}
	for i := range jobs {
		ch <- i
	}
	close(ch)
	wg.Wait()
	hist := map[string]int{}
	for _, r := range results {
		tr.Line(r.id, r.obs)
		k, _ := hx.KV(r.id, "edit")
		c, _ := hx.KV(r.obs, "c")
		s, _ := hx.KV(r.obs, "s")
		both := "notboth"
		if c == "completed" && s == "completed" {
			both = "both"
		}
		hist[k+":"+both]++
	}
	var keys []string
	for k := range hist {
		keys = append(keys, k)
	}
	sort.Strings(keys)
	for _, k := range keys {
		fmt.Fprintf(os.Stderr, "c03: %-18s %d\n", k, hist[k])
	}
}

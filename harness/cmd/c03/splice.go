package main

// Structure-preserving edits INSIDE handshake messages: bytes are inserted, removed or
// rearranged and every enclosing length field (vector, extension block, handshake header,
// DTLCP fragment_length, record header) is fixed up, so that the record and the message still
// parse.  What a lenient decoder skips (an unknown extension, bytes behind the last field it
// reads, the order of extensions) must nevertheless be covered by the Finished exchange: if
// both endpoints complete, the message the receiver accepted is not the one the peer sent.
//
// A splice is named by the message it lies in (index inside the record) and by what it does
// (op: addext:last, delext:16, swapext:0:10, grow:session_id, shrink:cert0, …).  Offsets are
// resolved on the REAL record at the moment it passes the man in the middle (signatures and
// SM2 ciphertexts vary in length from run to run); the resolved offset, bytes and adjusted
// length fields are written on the case line.

import (
	"encoding/hex"
	"fmt"
	"regexp"
	"strings"
)

// lenRef is a big-endian length field of a record, to be adjusted by the size change.
type lenRef struct{ off, w int }

func fixString(fx []lenRef) string {
	if len(fx) == 0 {
		return "-"
	}
	var p []string
	for _, f := range fx {
		p = append(p, fmt.Sprintf("%d:%d", f.off, f.w))
	}
	return strings.Join(p, ",")
}

func hexOrDash(b []byte) string {
	if len(b) == 0 {
		return "-"
	}
	return hex.EncodeToString(b)
}

// resolveSplice finds the splice (ed.m, ed.op) on the real record and fills in its offset,
// bytes and length fields.
func resolveSplice(rec []byte, dtls, protected, ecdhe bool, ed *edit) bool {
	fm := mapRecord(rec, dtls, protected, ecdhe)
	if fm.rtype != "hs" {
		return false
	}
	for _, e := range spliceEdits(fm, rec, ed.dir, ed.rec) {
		if e.m == ed.m && e.op == ed.op {
			ed.off, ed.del, ed.ins, ed.fix = e.off, e.del, e.ins, e.fix
			return true
		}
	}
	return false
}

// applySplice removes ed.del bytes at ed.off, inserts ed.ins there and adds the size change to
// every length field of ed.fix.  ok=false: out of range, a length would leave its width, or
// nothing changes.
func applySplice(rec []byte, ed *edit) ([]byte, bool) {
	if ed.off < 0 || ed.del < 0 || ed.off+ed.del > len(rec) {
		return rec, false
	}
	delta := len(ed.ins) - ed.del
	if delta == 0 && string(rec[ed.off:ed.off+ed.del]) == string(ed.ins) {
		return rec, false
	}
	head := append([]byte(nil), rec[:ed.off]...)
	for _, f := range ed.fix {
		if f.off < 0 || f.w <= 0 || f.off+f.w > ed.off {
			return rec, false
		}
		v := be(head[f.off:f.off+f.w]) + delta
		if v < 0 || v >= 1<<(8*uint(f.w)) {
			return rec, false
		}
		for i := f.w - 1; i >= 0; i-- {
			head[f.off+i] = byte(v)
			v >>= 8
		}
	}
	out := append(head, ed.ins...)
	out = append(out, rec[ed.off+ed.del:]...)
	return out, true
}

// enclosing: the length fields that count the byte range [cs,ce) — the range's own length
// field and those of everything around it, up to the record header.
func (fm *fieldMap) enclosing(cs, ce int) []lenRef {
	var out []lenRef
	for _, f := range fm.fields {
		if f.ce != 0 && f.cs <= cs && ce <= f.ce && f.end <= cs && f.end-f.start <= 3 {
			out = append(out, lenRef{f.start, f.end - f.start})
		}
	}
	return out
}

var extTypeRe = regexp.MustCompile(`\.ext(\d+)\.type$`)

// unknownExt is an extension of a private-use type no endpoint knows, with no data.
var unknownExt = []byte{0xff, 0x55, 0x00, 0x00}

// spliceEdits enumerates the splices of one plaintext handshake record.
func spliceEdits(fm *fieldMap, rec []byte, dir, idx int) []edit {
	var out []edit
	add := func(mi int, op string, off, del int, ins []byte, fix []lenRef) {
		out = append(out, edit{kind: "splice", dir: dir, rec: idx, m: mi, op: op, off: off, del: del,
			ins: append([]byte(nil), ins...), fix: fix})
	}
	for mi, ms := range fm.msgs {
		if !ms.whole {
			continue // a fragment: the other fragments carry the same length, a local fix-up cannot be consistent
		}
		body := fm.enclosing(ms.body, ms.end)
		// bytes behind the last field of the message
		add(mi, "grow:body", ms.end, 0, []byte{0}, body)
		// every vector / list / block: one byte more, one byte less
		var extLen *field
		type ext struct {
			num        string
			start, end int
		}
		var exts []ext
		for i := ms.firstField; i < ms.lastField; i++ {
			f := fm.fields[i]
			short := strings.TrimPrefix(f.name, ms.name+".")
			if short == "extensions_length" && f.ce != 0 {
				ff := f
				extLen = &ff
			}
			if m := extTypeRe.FindStringSubmatch(f.name); m != nil && i+2 < ms.lastField {
				exts = append(exts, ext{m[1], f.start, fm.fields[i+1].ce})
				if fm.fields[i+1].ce == 0 {
					exts = exts[:len(exts)-1]
				}
			}
			if f.ce == 0 || i < ms.firstField+2 || short == "fragment_length" {
				continue // not a length field, or the message header (covered by grow:body)
			}
			fix := fm.enclosing(f.cs, f.ce)
			what := strings.TrimSuffix(strings.TrimSuffix(short, "_length"), ".length")
			add(mi, "grow:"+what, f.ce, 0, []byte{0}, fix)
			if f.ce > f.cs {
				add(mi, "shrink:"+what, f.ce-1, 1, nil, fix)
			}
		}
		if ms.typ != 1 && ms.typ != 2 {
			continue
		}
		// hello messages: the extension block
		if extLen == nil {
			if last := fm.fields[ms.lastField-1]; strings.HasSuffix(last.name, "compression_method") ||
				strings.HasSuffix(last.name, ".compression_methods") || strings.HasSuffix(last.name, "compression_methods_length") {
				blk := append([]byte{0, byte(len(unknownExt))}, unknownExt...)
				add(mi, "addexts", ms.end, 0, blk, body)
			}
			continue
		}
		blkFix := fm.enclosing(extLen.cs, extLen.ce)
		add(mi, "addext:last", extLen.ce, 0, unknownExt, blkFix)
		add(mi, "addext:first", extLen.cs, 0, unknownExt, blkFix)
		for i, x := range exts {
			if x.end == 0 || x.end > extLen.ce {
				continue
			}
			add(mi, "delext:"+x.num, x.start, x.end-x.start, nil, blkFix)
			add(mi, "dupext:"+x.num, x.end, 0, rec[x.start:x.end], blkFix)
			if i+1 < len(exts) && exts[i+1].end != 0 && exts[i+1].end <= extLen.ce {
				y := exts[i+1]
				sw := append(append([]byte(nil), rec[y.start:y.end]...), rec[x.start:x.end]...)
				add(mi, "swapext:"+x.num+":"+y.num, x.start, y.end-x.start, sw, nil)
			}
		}
		if extLen.ce == ms.end {
			// the whole block goes (the encoding of "no extensions")
			add(mi, "delexts", extLen.start, extLen.ce-extLen.start, nil, body)
		}
	}
	return out
}

// Driver for C08: plays every word over the alphabet of message kinds against the REAL
// endpoint (client or server, TLCP then DTLCP) through a scripted peer that keeps its own
// transcript and keys consistent with what it actually sent, and writes
//
//	stack=.. role=.. suite=.. mode=.. auth=.. word=K,K,...  =>  completed at=<i> | failed at=<i> | pending
//
// for the Lean oracle (model prediction + verdict of the standard language).
//
// Kinds: CH SH HVR Cert CertE(empty certificate list) SKX CR SHD CKX CV Fin ccs warn app empty.
package main

import (
	"fmt"
	"os"
	"runtime"
	"strings"
	"sync"
	"time"

	"gitee.com/Trisia/gotlcp/dtlcp"
	"gitee.com/Trisia/gotlcp/tlcp"
	"verifharness/internal/hx"
	"verifharness/internal/pair"
	"verifharness/internal/pki"
	"verifharness/internal/script"
)

const idleTimeout = 10 * time.Second

// ---------------------------------------------------------------------------- case description

type caseDesc struct {
	stack, role, suite, mode, auth string
	word                           []string
}

func parseCase(desc string) caseDesc {
	var c caseDesc
	c.stack, _ = hx.KV(desc, "stack")
	c.role, _ = hx.KV(desc, "role")
	c.suite, _ = hx.KV(desc, "suite")
	c.mode, _ = hx.KV(desc, "mode")
	c.auth, _ = hx.KV(desc, "auth")
	w, _ := hx.KV(desc, "word")
	if w != "" && w != "-" {
		c.word = strings.Split(w, ",")
	}
	return c
}

func (c caseDesc) String() string {
	w := "-"
	if len(c.word) > 0 {
		w = strings.Join(c.word, ",")
	}
	return fmt.Sprintf("stack=%s role=%s suite=%s mode=%s auth=%s word=%s", c.stack, c.role, c.suite, c.mode, c.auth, w)
}

func (c caseDesc) with(word []string) caseDesc {
	c.word = append([]string(nil), word...)
	return c
}

// ---------------------------------------------------------------------------- frozen session caches

// frozenT always answers with the primed session and ignores updates, so that one priming
// handshake serves every resumed case of a configuration (the real caches delete on failure).
type frozenT struct {
	mu sync.Mutex
	m  map[string]*tlcp.SessionState
	on bool // frozen: Put is ignored
}

func (f *frozenT) Get(k string) (*tlcp.SessionState, bool) {
	f.mu.Lock()
	defer f.mu.Unlock()
	s, ok := f.m[k]
	return s, ok
}
func (f *frozenT) Put(k string, s *tlcp.SessionState) {
	f.mu.Lock()
	defer f.mu.Unlock()
	if f.on {
		return
	}
	if s == nil {
		delete(f.m, k)
		return
	}
	f.m[k] = s
}

// ---------------------------------------------------------------------------- TLCP

func suiteIDs(suite string) []uint16 {
	switch suite {
	case "ecdhe":
		return []uint16{tlcp.ECDHE_SM4_GCM_SM3}
	case "ecdhe-cbc":
		return []uint16{tlcp.ECDHE_SM4_CBC_SM3}
	case "ecc-cbc":
		return []uint16{tlcp.ECC_SM4_CBC_SM3}
	}
	return []uint16{tlcp.ECC_SM4_GCM_SM3}
}

func tAuth(a string) tlcp.ClientAuthType {
	switch a {
	case "request":
		return tlcp.RequestClientCert
	case "require":
		return tlcp.RequireAnyClientCert
	case "verify":
		return tlcp.RequireAndVerifyClientCert
	}
	return tlcp.NoClientCert
}

type primedT struct {
	cache  *frozenT
	master []byte
	id     []byte
}

var (
	primeMu sync.Mutex
	primedM = map[string]*primedT{}
)

// tlcpConfigs returns (endpoint config, script config) for a case.
func tlcpConfigs(c caseDesc) (ep, sc *tlcp.Config) {
	s := pki.Std()
	srv := &tlcp.Config{Certificates: []tlcp.Certificate{pair.TCert(s.SrvSig), pair.TCert(s.SrvEnc)}, Time: pki.NowFn,
		CipherSuites: suiteIDs(c.suite), ClientAuth: tAuth(c.auth), ClientCAs: s.Root.Pool}
	cli := &tlcp.Config{RootCAs: s.Root.Pool, ServerName: "test.example", Time: pki.NowFn, CipherSuites: suiteIDs(c.suite),
		Certificates: []tlcp.Certificate{pair.TCert(s.CliSig), pair.TCert(s.CliEnc)}}
	if c.role == "client" {
		return cli, srv
	}
	return srv, cli
}

var legalClientFull = []string{"SH", "Cert", "SKX", "CR", "SHD", "ccs", "Fin"}
var legalServerFull = []string{"CH", "Cert", "CKX", "CV", "ccs", "Fin"}

// primeTLCP performs one legal scripted full handshake so that the endpoint's configuration
// holds a resumable session whose master secret the script knows.
func primeTLCP(c caseDesc) *primedT {
	key := c.stack + "/" + c.role + "/" + c.suite + "/" + c.auth
	primeMu.Lock()
	defer primeMu.Unlock()
	if p, ok := primedM[key]; ok {
		return p
	}
	p := &primedT{cache: &frozenT{m: map[string]*tlcp.SessionState{}}}
	full := c
	full.mode = "full"
	if c.role == "client" {
		full.word = legalClientFull
	} else {
		full.word = legalServerFull
		if !serverRequests(c) {
			full.word = []string{"CH", "CKX", "ccs", "Fin"}
		}
	}
	out, sc := runTLCP(full, p.cache, nil)
	if !strings.HasPrefix(out, "completed") {
		fmt.Fprintf(os.Stderr, "c08: priming handshake for %s did not complete: %s\n", key, out)
	}
	p.master, p.id = sc.Master(), append([]byte(nil), sc.SessionIDInUse()...)
	p.cache.on = true
	primedM[key] = p
	return p
}

func serverRequests(c caseDesc) bool {
	return c.auth != "none" || strings.HasPrefix(c.suite, "ecdhe")
}

type sender interface {
	Send(kind string, o *tlcp.VerifSendOpts) error
	SendCCS() error
	SendAlert(level, desc uint8) error
	SendAppData(p []byte) error
	SendEmptyRecord(typ uint8) error
}

var kindName = map[string]string{"CH": "ClientHello", "SH": "ServerHello", "HVR": "HelloVerifyRequest", "Cert": "Certificate",
	"SKX": "ServerKeyExchange", "CR": "CertificateRequest", "SHD": "ServerHelloDone", "CKX": "ClientKeyExchange",
	"CV": "CertificateVerify", "Fin": "Finished"}

// coalesced("CKX+Fin") = the handshake messages to put into ONE record (probe syntax, not part
// of the enumerated alphabet)
func coalesced(k string) []string {
	if !strings.Contains(k, "+") {
		return nil
	}
	var out []string
	for _, p := range strings.Split(k, "+") {
		out = append(out, kindName[p])
	}
	return out
}

func sendT(s *tlcp.VerifScript, k string) error {
	if c := coalesced(k); c != nil {
		return s.SendCoalesced(c...)
	}
	switch k {
	case "CH":
		return s.Send("ClientHello", nil)
	case "SH":
		return s.Send("ServerHello", nil)
	case "Cert":
		return s.Send("Certificate", nil)
	case "CertE":
		return s.Send("Certificate", &tlcp.VerifSendOpts{EmptyCerts: true})
	case "SKX":
		return s.Send("ServerKeyExchange", nil)
	case "CR":
		return s.Send("CertificateRequest", nil)
	case "SHD":
		return s.Send("ServerHelloDone", nil)
	case "CKX":
		return s.Send("ClientKeyExchange", nil)
	case "CV":
		return s.Send("CertificateVerify", nil)
	case "Fin":
		return s.Send("Finished", nil)
	case "ccs":
		return s.SendCCS()
	case "warn":
		return s.SendAlert(1, 90) // warning, user_canceled
	case "app":
		return s.SendAppData([]byte("x"))
	case "empty":
		return s.SendEmptyRecord(22)
	}
	return fmt.Errorf("unknown kind %q", k)
}

// runTLCP executes one case; cache (optional) is installed as the endpoint's session cache.
func runTLCP(c caseDesc, cache *frozenT, primed *primedT) (string, *tlcp.VerifScript) {
	ep, sc := tlcpConfigs(c)
	if cache != nil {
		ep.SessionCache = cache
	}
	ce, se := pair.StreamPipe()
	w := script.NewWatch()
	var conn *tlcp.Conn
	var peer *tlcp.VerifScript
	if c.role == "client" {
		conn = tlcp.Client(w.Endpoint(ce), ep)
		peer = tlcp.NewVerifScript("server", w.Script(se), sc)
	} else {
		conn = tlcp.Server(w.Endpoint(se), ep)
		peer = tlcp.NewVerifScript("client", w.Script(ce), sc)
	}
	if primed != nil {
		peer.ResumeMaster = primed.master
		if c.role == "server" {
			peer.SessionID = primed.id
		}
	}
	defer func() { ce.Close(); se.Close(); w.WaitDone(idleTimeout) }()
	w.Go(conn.Handshake)
	out := "pending"
	if !w.WaitIdle(idleTimeout) {
		return "stuck at=start", peer
	}
	peer.ReadAvailable()
	for i, k := range c.word {
		if done, err := w.Done(); done {
			// the endpoint ended before this symbol could be sent
			out = verdict(err, i-1)
			return out + " early=1", peer
		}
		if err := sendT(peer, k); err != nil {
			return fmt.Sprintf("senderr at=%d", i), peer
		}
		if !w.WaitIdle(idleTimeout) {
			return fmt.Sprintf("stuck at=%d", i), peer
		}
		peer.ReadAvailable()
		if done, err := w.Done(); done {
			if p := w.Panicked(); p != "" {
				fmt.Fprintf(os.Stderr, "c08: endpoint panic in [%s]: %s\n", c, p)
			}
			return verdict(err, i), peer
		}
	}
	return out, peer
}

// ---------------------------------------------------------------------------- DTLCP

type frozenD struct {
	mu sync.Mutex
	m  map[string]*dtlcp.SessionState
	on bool
}

func (f *frozenD) Get(k string) (*dtlcp.SessionState, bool) {
	f.mu.Lock()
	defer f.mu.Unlock()
	s, ok := f.m[k]
	return s, ok
}
func (f *frozenD) Put(k string, s *dtlcp.SessionState) {
	f.mu.Lock()
	defer f.mu.Unlock()
	if f.on {
		return
	}
	if s == nil {
		delete(f.m, k)
		return
	}
	f.m[k] = s
}

type primedD struct {
	cache  *frozenD
	master []byte
	id     []byte
}

var primedDM = map[string]*primedD{}

func dAuth(a string) dtlcp.ClientAuthType {
	switch a {
	case "request":
		return dtlcp.RequestClientCert
	case "require":
		return dtlcp.RequireAnyClientCert
	case "verify":
		return dtlcp.RequireAndVerifyClientCert
	}
	return dtlcp.NoClientCert
}

// the endpoint never retransmits on its own during a case: the script answers at once and
// quiescence is detected on the transport, so timers only add nondeterminism
const noRetransmit = time.Hour

func dtlcpConfigs(c caseDesc) (ep, sc *dtlcp.Config) {
	s := pki.Std()
	srv := &dtlcp.Config{Certificates: []dtlcp.Certificate{pair.DCert(s.SrvSig), pair.DCert(s.SrvEnc)}, Time: pki.NowFn,
		CipherSuites: suiteIDs(c.suite), ClientAuth: dAuth(c.auth), ClientCAs: s.Root.Pool,
		InitialRetransmitTimeout: noRetransmit, MaxRetransmitTimeout: noRetransmit, PMTU: 16000}
	cli := &dtlcp.Config{RootCAs: s.Root.Pool, ServerName: "test.example", Time: pki.NowFn, CipherSuites: suiteIDs(c.suite),
		Certificates:             []dtlcp.Certificate{pair.DCert(s.CliSig), pair.DCert(s.CliEnc)},
		InitialRetransmitTimeout: noRetransmit, MaxRetransmitTimeout: noRetransmit, PMTU: 16000}
	if c.role == "client" {
		return cli, srv
	}
	return srv, cli
}

func primeDTLCP(c caseDesc) *primedD {
	key := c.stack + "/" + c.role + "/" + c.suite + "/" + c.auth
	primeMu.Lock()
	defer primeMu.Unlock()
	if p, ok := primedDM[key]; ok {
		return p
	}
	p := &primedD{cache: &frozenD{m: map[string]*dtlcp.SessionState{}}}
	full := c
	full.mode = "full"
	if c.role == "client" {
		full.word = append([]string{"HVR"}, legalClientFull...)
	} else {
		full.word = append([]string{"CH"}, legalServerFull...)
		if !serverRequests(c) {
			full.word = []string{"CH", "CH", "CKX", "ccs", "Fin"}
		}
	}
	out, sc := runDTLCP(full, p.cache, nil)
	if !strings.HasPrefix(out, "completed") {
		fmt.Fprintf(os.Stderr, "c08: priming handshake for %s did not complete: %s\n", key, out)
	}
	p.master, p.id = sc.Master(), append([]byte(nil), sc.SessionIDInUse()...)
	p.cache.on = true
	primedDM[key] = p
	return p
}

func sendD(s *dtlcp.VerifScript, k string) error {
	if c := coalesced(k); c != nil {
		return s.SendCoalesced(c...)
	}
	switch k {
	case "CH":
		return s.Send("ClientHello", nil)
	case "SH":
		return s.Send("ServerHello", nil)
	case "HVR":
		return s.Send("HelloVerifyRequest", nil)
	case "Cert":
		return s.Send("Certificate", nil)
	case "CertE":
		return s.Send("Certificate", &dtlcp.VerifSendOpts{EmptyCerts: true})
	case "SKX":
		return s.Send("ServerKeyExchange", nil)
	case "CR":
		return s.Send("CertificateRequest", nil)
	case "SHD":
		return s.Send("ServerHelloDone", nil)
	case "CKX":
		return s.Send("ClientKeyExchange", nil)
	case "CV":
		return s.Send("CertificateVerify", nil)
	case "Fin":
		return s.Send("Finished", nil)
	case "ccs":
		return s.SendCCS()
	case "warn":
		return s.SendAlert(1, 90)
	case "app":
		return s.SendAppData([]byte("x"))
	case "empty":
		return s.SendEmptyRecord(22)
	}
	return fmt.Errorf("unknown kind %q", k)
}

func runDTLCP(c caseDesc, cache *frozenD, primed *primedD) (string, *dtlcp.VerifScript) {
	ep, sc := dtlcpConfigs(c)
	if cache != nil {
		ep.SessionCache = cache
	}
	ce, se := pair.PacketPipe()
	w := script.NewWatch()
	var conn *dtlcp.Conn
	var peer *dtlcp.VerifScript
	if c.role == "client" {
		conn = dtlcp.Client(w.EndpointPacket(ce), se.LocalAddr(), ep)
		peer = dtlcp.NewVerifScript("server", w.ScriptPacket(se), ce.LocalAddr(), sc)
	} else {
		conn = dtlcp.Server(w.EndpointPacket(se), ce.LocalAddr(), ep)
		peer = dtlcp.NewVerifScript("client", w.ScriptPacket(ce), se.LocalAddr(), sc)
	}
	if primed != nil {
		peer.ResumeMaster = primed.master
		if c.role == "server" {
			peer.SessionID = primed.id
		}
	}
	defer func() { ce.Close(); se.Close(); w.WaitDone(idleTimeout) }()
	w.Go(conn.Handshake)
	if !w.WaitIdle(idleTimeout) {
		return "stuck at=start", peer
	}
	peer.ReadAvailable()
	for i, k := range c.word {
		if done, err := w.Done(); done {
			return verdict(err, i-1) + " early=1", peer
		}
		if err := sendD(peer, k); err != nil {
			return fmt.Sprintf("senderr at=%d", i), peer
		}
		if !w.WaitIdle(idleTimeout) {
			return fmt.Sprintf("stuck at=%d", i), peer
		}
		peer.ReadAvailable()
		if done, err := w.Done(); done {
			if p := w.Panicked(); p != "" {
				fmt.Fprintf(os.Stderr, "c08: endpoint panic in [%s]: %s\n", c, p)
			}
			return verdict(err, i), peer
		}
	}
	return "pending", peer
}

func verdict(err error, i int) string {
	if err == nil {
		return fmt.Sprintf("completed at=%d", i)
	}
	return fmt.Sprintf("failed at=%d", i)
}

func execute(desc string) string {
	c := parseCase(desc)
	var out string
	if p := hx.Guard(func() {
		switch c.stack {
		case "tlcp":
			var pr *primedT
			var cache *frozenT
			if c.mode == "resumed" {
				pr = primeTLCP(c)
				cache = pr.cache
			}
			out, _ = runTLCP(c, cache, pr)
		case "dtlcp":
			var pr *primedD
			var cache *frozenD
			if c.mode == "resumed" {
				pr = primeDTLCP(c)
				cache = pr.cache
			}
			out, _ = runDTLCP(c, cache, pr)
		default:
			out = "unsupported"
		}
	}); p != "" {
		return "panic=" + p
	}
	return out
}

// ---------------------------------------------------------------------------- enumeration

func alphabet(c caseDesc) []string {
	var a []string
	if c.role == "client" {
		a = []string{"SH", "Cert", "CertE", "SKX", "CR", "SHD", "Fin", "ccs", "warn", "app", "empty", "CH", "CKX", "CV"}
	} else {
		a = []string{"CH", "Cert", "CertE", "CKX", "CV", "Fin", "ccs", "warn", "app", "empty", "SH", "SKX", "CR", "SHD"}
	}
	if c.stack == "dtlcp" {
		a = append(a, "HVR")
	}
	return a
}

// length of the longest legal flow (DTLCP: with one cookie round trip)
func longest(c caseDesc) int {
	n := 6
	if c.mode == "resumed" {
		n = 3
	} else if c.role == "client" {
		n = 7
	}
	if c.stack == "dtlcp" {
		n++
	}
	return n
}

// maxRep bounds how often an ignorable duplicate (DTLCP: retransmitted ClientHello /
// HelloVerifyRequest) may occur in an enumerated word, like maxWarn for warning alerts
func tooManyDup(c caseDesc, p []string, a string, maxDup int) bool {
	if c.stack != "dtlcp" {
		return false
	}
	if c.role == "client" && a == "HVR" {
		return count(p, "HVR") >= 1+maxDup
	}
	if c.role == "server" && a == "CH" {
		return count(p, "CH") >= 2+maxDup
	}
	return false
}

func count(word []string, k string) int {
	n := 0
	for _, x := range word {
		if x == k {
			n++
		}
	}
	return n
}

// enumerate runs every word up to length longest+1 breadth first, extending only the words
// after which the real endpoint is still waiting (pruned after the first failure/completion).
func enumerate(c caseDesc, maxWarn int, emit func(string, string)) {
	maxLen := longest(c) + 1
	frontier := [][]string{nil}
	al := alphabet(c)
	workers := runtime.NumCPU()
	for l := 1; l <= maxLen && len(frontier) > 0; l++ {
		var words [][]string
		for _, p := range frontier {
			for _, a := range al {
				if a == "warn" && count(p, "warn") >= maxWarn {
					continue
				}
				if tooManyDup(c, p, a, maxWarn) {
					continue
				}
				words = append(words, append(append([]string(nil), p...), a))
			}
		}
		outs := make([]string, len(words))
		var wg sync.WaitGroup
		ch := make(chan int)
		for g := 0; g < workers; g++ {
			wg.Add(1)
			go func() {
				defer wg.Done()
				for i := range ch {
					outs[i] = execute(c.with(words[i]).String())
				}
			}()
		}
		for i := range words {
			ch <- i
		}
		close(ch)
		wg.Wait()
		frontier = frontier[:0]
		for i, wd := range words {
			emit(c.with(wd).String(), outs[i])
			if outs[i] == "pending" {
				frontier = append(frontier, wd)
			}
		}
	}
}

func rep(k string, n int) []string {
	out := make([]string, n)
	for i := range out {
		out[i] = k
	}
	return out
}

func cat(parts ...[]string) []string {
	var out []string
	for _, p := range parts {
		out = append(out, p...)
	}
	return out
}

func main() {
	o := hx.ParseOpts()
	tr := hx.NewTrace(o.Out)
	defer tr.Close()
	emit := func(desc, obs string) { tr.Line(desc, obs) }
	run := func(c caseDesc) { emit(c.String(), execute(c.String())) }

	if o.Replay != "" {
		for _, c := range hx.ReplayCases(o.Replay) {
			emit(c, execute(c))
		}
		return
	}

	stacks := []string{"tlcp", "dtlcp"}
	for _, st := range stacks {
		// DTLCP flows start with the cookie exchange
		cpre, spre := []string{}, []string{}
		if st == "dtlcp" {
			cpre, spre = []string{"HVR"}, []string{"CH"}
		}
		base := caseDesc{stack: st, role: "client", suite: "ecc", mode: "full", auth: "none"}
		// 1. witnesses first: F1 (no ServerKeyExchange), both key exchanges, with and without CertificateRequest
		run(base.with(cat(cpre, []string{"SH", "Cert", "SHD", "ccs", "Fin"})))
		run(base.with(cat(cpre, []string{"SH", "Cert", "CR", "SHD", "ccs", "Fin"})))
		e := base
		e.suite = "ecdhe"
		run(e.with(cat(cpre, []string{"SH", "Cert", "CR", "SHD", "ccs", "Fin"})))
		c := base
		c.suite = "ecc-cbc"
		run(c.with(cat(cpre, []string{"SH", "Cert", "SHD", "ccs", "Fin"})))
		// 2. the legal flows of every configuration
		for _, su := range []string{"ecc", "ecdhe", "ecc-cbc", "ecdhe-cbc"} {
			b := base
			b.suite = su
			run(b.with(cat(cpre, legalClientFull)))
			run(b.with(legalClientFull))
			if !strings.HasPrefix(su, "ecdhe") {
				run(b.with(cat(cpre, []string{"SH", "Cert", "SKX", "SHD", "ccs", "Fin"})))
			}
			b.mode = "resumed"
			run(b.with(cat(cpre, []string{"SH", "ccs", "Fin"})))
			for _, au := range []string{"none", "request", "require"} {
				s := caseDesc{stack: st, role: "server", suite: su, mode: "full", auth: au}
				run(s.with(cat(spre, legalServerFull)))
				run(s.with(cat(spre, []string{"CH", "CKX", "ccs", "Fin"})))
				run(s.with(cat(spre, []string{"CH", "CertE", "CKX", "ccs", "Fin"})))
				if strings.HasPrefix(su, "ecdhe") == (au == "require") && au != "request" {
					s.mode = "resumed"
					run(s.with(cat(spre, []string{"CH", "ccs", "Fin"})))
				}
			}
		}
		// 3. the bound on ignorable records (16): 16 warnings are tolerated, the 17th is fatal; the
		// count is not reset by ChangeCipherSpec, it is reset by a handshake message
		w16, w17 := rep("warn", 16), rep("warn", 17)
		run(base.with(cat(w16, cpre, []string{"SH"}, w16, []string{"Cert", "SKX", "SHD", "ccs", "Fin"})))
		run(base.with(w17))
		run(base.with(cat(cpre, []string{"SH"}, w17, []string{"Cert", "SKX", "SHD", "ccs", "Fin"})))
		run(base.with(cat(cpre, []string{"SH", "Cert", "SKX", "SHD"}, rep("warn", 10), []string{"ccs"}, rep("warn", 6), []string{"Fin"})))
		run(base.with(cat(cpre, []string{"SH", "Cert", "SKX", "SHD"}, rep("warn", 10), []string{"ccs"}, rep("warn", 7), []string{"Fin"})))
		sv := caseDesc{stack: st, role: "server", suite: "ecc", mode: "full", auth: "none"}
		run(sv.with(cat(w16, spre, []string{"CH"}, w16, []string{"CKX"}, w16, []string{"ccs", "Fin"})))
		run(sv.with(cat(spre, []string{"CH"}, w17)))
		run(sv.with(cat(spre, []string{"CH"}, w17, []string{"CKX", "ccs", "Fin"})))
		// 3b. coalescing probes (`A+B` = both handshake messages in ONE record): legal when the
		// order is legal, but ChangeCipherSpec must be refused while handshake bytes sent before it
		// are still unread - here the peer's Finished, sent in the clear before ChangeCipherSpec (F34)
		run(base.with(cat(cpre, []string{"SH+Cert+SKX+SHD", "ccs", "Fin"})))
		run(base.with(cat(cpre, []string{"SH+Cert+SKX", "CR+SHD", "ccs", "Fin"})))
		run(sv.with(cat(spre, []string{"CH", "CKX+Fin", "ccs"})))
		run(sv.with(cat(spre, []string{"CH", "CKX+Fin", "ccs", "Fin"})))
		rq2 := sv
		rq2.auth = "request"
		run(rq2.with(cat(spre, []string{"CH", "Cert+CKX+CV", "ccs", "Fin"})))
		run(rq2.with(cat(spre, []string{"CH", "Cert+CKX+CV+Fin", "ccs"})))
		rs := sv
		rs.mode = "resumed"
		run(rs.with(cat(spre, []string{"CH", "ccs", "Fin"})))
		if st == "dtlcp" {
			// retransmission tolerance: duplicates of the peer's previous flight are dropped, and
			// (being handshake records) restart the count of ignorable records
			run(base.with(cat(rep("HVR", 5), []string{"SH", "Cert", "SKX", "SHD", "ccs", "Fin"})))
			run(sv.with(cat([]string{"CH", "CH"}, rep("CH", 4), []string{"CKX", "ccs", "Fin"})))
			run(sv.with(cat([]string{"CH", "CH"}, w16, []string{"CH"}, w16, []string{"CKX", "ccs", "Fin"})))
			run(sv.with([]string{"CH", "CH", "CKX", "CH", "ccs", "Fin"}))
			rq := sv
			rq.auth = "request"
			run(rq.with([]string{"CH", "CH", "CH", "Cert", "CH", "CKX", "CH", "CV", "ccs", "Fin"}))
		}
	}

	// 4. every word up to |longest legal flow| + 1, pruned after the first failure
	maxWarn := 1
	suites := []string{"ecc", "ecdhe"}
	if o.Tier == "thorough" {
		maxWarn = 99
		suites = []string{"ecc", "ecdhe", "ecc-cbc", "ecdhe-cbc"}
	}
	for _, st := range stacks {
		for _, su := range suites {
			for _, mode := range []string{"full", "resumed"} {
				enumerate(caseDesc{stack: st, role: "client", suite: su, mode: mode, auth: "none"}, maxWarn, emit)
				for _, au := range []string{"none", "request", "require"} {
					if mode == "resumed" {
						// a session is resumable only under a policy compatible with how it was made
						// (ECDHE sessions carry client certificates: not resumable under NoClientCert)
						if strings.HasPrefix(su, "ecdhe") != (au == "require") || au == "request" {
							continue
						}
					}
					enumerate(caseDesc{stack: st, role: "server", suite: su, mode: mode, auth: au}, maxWarn, emit)
				}
			}
		}
	}
}
